#!/bin/bash
# Confirm a seeded change in a scratch worktree: tools_seed_verify.sh <worktree> <Cxx> <name>
# (1) existing tests unchanged, (2) demo fails with the change, passes without,
# (3) our check detects it; then store it under /verif/seeded/<name>/.
W=$1; PID=$2; NAME=$3
cd $W || exit 2
git diff -- dd > /tmp/seed_patch_$NAME.diff
[ -s /tmp/seed_patch_$NAME.diff ] || { echo "no change in $W"; exit 2; }
T1=$(/venv/bin/python -m pytest -q -p no:cacheprovider --timeout=900 --continue-on-collection-errors 2>&1 | tail -1)
rm -f bdd bdd.dot bdd.ext
PYTHONPATH=$W /venv/bin/python demo.py > /tmp/seed_demo_changed_$NAME.out 2>&1; D1=$?
git apply -R /tmp/seed_patch_$NAME.diff
PYTHONPATH=$W /venv/bin/python demo.py > /tmp/seed_demo_orig_$NAME.out 2>&1; D0=$?
git apply /tmp/seed_patch_$NAME.diff
echo "tests with change: $T1"
echo "demo exit: changed=$D1 unchanged=$D0"
OUT=$(VCOPY=${VCOPY:-/tmp/vseed} /verif/tools_seedcheck.sh $W $PID quick 2>&1 | grep "^VIOLATION\|^C[0-9][0-9] quick:" | tail -4)
echo "$OUT"
mkdir -p /verif/seeded/$NAME
cp /tmp/seed_patch_$NAME.diff /verif/seeded/$NAME/patch.diff
cp demo.py /verif/seeded/$NAME/demo.py
python3 - "$W" "$PID" "$NAME" "$T1" "$D1" "$D0" "$OUT" <<'PY'
import json, sys, os
W, PID, NAME, T1, D1, D0, OUT = sys.argv[1:8]
m = {}
try:
    m = json.load(open(os.path.join(W, 'meta.json')))
except Exception:
    pass
m.update(dict(property=PID, tests_with_change=T1, demo_exit_changed=int(D1), demo_exit_unchanged=int(D0),
              ran=[f'cd {W} && pytest (baseline command)', 'demo.py with and without the patch',
                   f'tools_seedcheck.sh {W} {PID} quick (a copy of /verif run against the changed tree)'],
              check_output=OUT.split('\n'),
              detected=('VIOLATION' in OUT),
              found_failing_input=('VIOLATION' in OUT and 'no-failing-input-found' not in OUT.split('VIOLATION')[1].split('\n')[0])))
json.dump(m, open(f'/verif/seeded/{NAME}/meta.json', 'w'), indent=1)
print('stored', NAME, 'detected', m['detected'], 'input', m['found_failing_input'])
PY
