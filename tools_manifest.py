#!/usr/bin/env python3
"""Regenerate MANIFEST.json from the table below (keeps it valid)."""
import json, os
V = os.path.dirname(os.path.abspath(__file__))
props = [json.loads(l) for l in open(os.path.join(V, 'properties.jsonl'))]
CLAIMS = json.load(open(os.path.join(V, 'claims.json')))
checks, na = [], []
for p in props:
    pid = p['id']
    c = CLAIMS.get(pid)
    if c is None or c.get('not_applicable'):
        na.append(dict(property_id=pid, reason=(c or {}).get('reason', 'check not built yet (work in progress; see DESIGN.md section 7)')))
        continue
    checks.append(dict(
        property_id=pid,
        quick_cmd=f'./check {pid} --tier quick',
        thorough_cmd=f'./check {pid} --tier thorough',
        evidence_file=f'/verif/evidence/{pid}.json',
        replay_cmd_template=f'./check {pid} --replay {{path}}',
        engine='coq-model',
        level_claimed=dict(category='proof', text=c['text'], design_ref=c.get('design_ref', f'DESIGN.md section 7 ({pid})')),
        level_note=c['note'],
        technique=c['technique']))
m = dict(
    version=1,
    setup_cmd='cd /verif && ./setup.sh',
    hooks=dict(guard='DD_VERIF', enable='no source hooks: the harness wraps dd.bdd.BDD.swap/_levels/_reorder_var/_apply_sifting/_request_reordering at run time (harness/impl.py)',
               baseline_off_cmd='cd /repo && /venv/bin/python -m pytest -ra -q -p no:cacheprovider --timeout=900 --continue-on-collection-errors',
               source_commits=[], add_only=True),
    engines=[dict(name='coq-model', path='/verif/coq', serves_properties=[c['property_id'] for c in checks],
                  kind_free_text='Coq 8.16.1 development: executable Gallina model of dd (Model/), tables regenerated from /repo by translators (Generated/), lemmas (Proofs/), one theorem file per property (Properties/); tied to the code by differential execution of the extracted model (ocaml/driver) against the implementation (harness/)')],
    checks=checks,
    notes='See DESIGN.md. Every check: regenerate tables from /repo, full .vo build, Print Assumptions per theorem, forbidden-declaration scan, correspondence streams (extracted model vs implementation, exact state), semantic oracle search for a failing input.',
    not_applicable=na)
json.dump(m, open(os.path.join(V, 'MANIFEST.json'), 'w'), indent=1)
print(len(checks), 'checks;', len(na), 'not claimed')
