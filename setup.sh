#!/bin/bash
# Build everything from files on disk: regenerate tables from /repo, full
# Coq build, extraction, OCaml driver.
set -e
cd "$(dirname "$0")"
if [ -f translator/generate.py ]; then python3 translator/generate.py; fi
./build.sh
test -x ocaml/driver
