#!/bin/bash
# Re-run every stored seeded change against the current machinery:
# tools_seed_regress.sh [ids...]   (scratch worktree under /tmp, removed afterwards)
cd /verif
IDS=${@:-$(cd seeded && ls -d C*-*)}
OUT=/verif/seeded/REGRESSION.txt
: > $OUT.tmp
for id in $IDS; do
  pid=${id%%-*}
  W=/tmp/seedreg_$id
  git -C /repo worktree add --detach $W >/dev/null 2>&1
  if grep -q '"obsolete_since"' /verif/seeded/$id/meta.json; then
    echo "$id: neutralised by a later fix ($(python3 -c "import json;print(json.load(open('/verif/seeded/$id/meta.json'))['obsolete_since'])"))" | tee -a $OUT.tmp
    git -C /repo worktree remove --force $W >/dev/null 2>&1
    continue
  fi
  if (cd $W && git apply /verif/seeded/$id/patch.diff 2>/dev/null || git apply --3way /verif/seeded/$id/patch.diff >/dev/null 2>&1); then
    R=$(VCOPY=/tmp/vreg ./tools_seedcheck.sh $W $pid quick 2>&1 | grep "^VIOLATION\|^C[0-9][0-9] quick:" | tail -4)
    if echo "$R" | grep -q "VIOLATION"; then
      if echo "$R" | grep "VIOLATION" | grep -qv "no-failing-input-found"; then S="detected with failing input"; else S="detected (no failing input)"; fi
    else S="NOT DETECTED"; fi
  else S="patch does not apply to the current tree"; fi
  echo "$id: $S" | tee -a $OUT.tmp
  git -C /repo worktree remove --force $W >/dev/null 2>&1
done
mv $OUT.tmp $OUT
rm -rf /tmp/vreg
