#!/bin/bash
# Build the Coq development (full .vo build), extract the model and build
# the OCaml driver.  Usage: build.sh [make-target...]
set -e
cd /verif/coq
coq_makefile -f _CoqProject -o Makefile.coq > /dev/null
timeout 3000 make -f Makefile.coq -j14 "$@" 2>&1 | grep -v "WARNING\|^COQDEP\|^CLEAN" || true
cd /verif/ocaml
if [ ! -f driver ] || [ /verif/coq/Model/Driver.vo -nt driver ] || [ main.ml -nt driver ] || [ /verif/coq/Extract/Extract.v -nt driver ]; then
  timeout 600 coqc -Q ../coq DD ../coq/Extract/Extract.v 2>&1 | grep -v "WARNING" || true
  timeout 600 ocamlfind ocamlopt -O3 -w -a model.mli model.ml main.ml -o driver
fi
