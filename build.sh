#!/bin/bash
# Build the Coq development (full .vo build), extract the model and build
# the OCaml driver.  Usage: build.sh [make-target...]
set -e
ROOT="$(cd "$(dirname "$0")" && pwd)"
cd "$ROOT/coq"
coq_makefile -f _CoqProject -o Makefile.coq > /dev/null
set +e
timeout 3000 make -f Makefile.coq -j14 "$@" 2>&1 | grep -v "WARNING\|^COQDEP\|^CLEAN"
rc=${PIPESTATUS[0]}
set -e
cd "$ROOT/ocaml"
need=0
if [ ! -x driver ] || [ main.ml -nt driver ] || [ ../coq/Extract/Extract.v -nt driver ]; then need=1; fi
for f in ../coq/Model/*.vo; do if [ "$f" -nt driver ]; then need=1; fi; done
if [ $need = 1 ] && [ -f ../coq/Model/Driver5.vo ] && [ -f ../coq/Model/Driver6.vo ] && [ -f ../coq/Model/Consistent.vo ] && [ -f ../coq/Model/Driver7.vo ] && [ -f ../coq/Model/Driver8.vo ] && [ -f ../coq/Model/Copying.vo ] && [ -f ../coq/Model/CopyFn.vo ]; then
  rm -f driver
  timeout 600 coqc -Q ../coq DD ../coq/Extract/Extract.v 2>&1 | grep -v "WARNING" || true
  if [ ! model.ml -nt ../coq/Model/Driver5.vo ] || [ ! model.ml -nt ../coq/Model/Driver6.vo ] || [ ! model.ml -nt ../coq/Model/Consistent.vo ] || [ ! model.ml -nt ../coq/Model/Driver7.vo ] || [ ! model.ml -nt ../coq/Model/Driver8.vo ] || [ ! model.ml -nt ../coq/Model/Copying.vo ] || [ ! model.ml -nt ../coq/Model/CopyFn.vo ]; then echo "extraction failed"; exit 1; fi
  timeout 600 ocamlfind ocamlopt -O3 -w -a model.mli model.ml main.ml -o driver
fi
exit $rc
