(* Driver of the extracted model (correspondence check).
   Reads one operation per line from stdin, steps the model, prints the
   outcome and (in full mode) the canonical digest of the manager.
   Everything semantic lives in the extracted [Model]; this file only parses
   and prints. *)
open Model

(* ---- number conversions (numbers stay Coq datatypes in the model) ---- *)
let rec nat_of_int n = if n <= 0 then O else S (nat_of_int (n - 1))
let rec int_of_nat = function O -> 0 | S n -> 1 + int_of_nat n
let rec pos_of_int n =
  if n <= 1 then XH
  else if n land 1 = 0 then XO (pos_of_int (n lsr 1))
  else XI (pos_of_int (n lsr 1))
let rec int_of_pos = function
  | XH -> 1 | XO p -> 2 * int_of_pos p | XI p -> 2 * int_of_pos p + 1
let z_of_int n = if n = 0 then Z0 else if n > 0 then Zpos (pos_of_int n)
  else Zneg (pos_of_int (- n))
let int_of_z = function Z0 -> 0 | Zpos p -> int_of_pos p | Zneg p -> - (int_of_pos p)
let ascii_of_char c =
  let n = Char.code c in
  let b i = (n lsr i) land 1 = 1 in
  Ascii (b 0, b 1, b 2, b 3, b 4, b 5, b 6, b 7)
let char_of_ascii (Ascii (b0, b1, b2, b3, b4, b5, b6, b7)) =
  let v b i = if b then 1 lsl i else 0 in
  Char.chr (v b0 0 + v b1 1 + v b2 2 + v b3 3 + v b4 4 + v b5 5 + v b6 6 + v b7 7)
let cstring_of_string s =
  let rec go i = if i >= String.length s then EmptyString
    else String (ascii_of_char s.[i], go (i + 1)) in go 0
let rec string_of_cstring = function
  | EmptyString -> ""
  | String (c, r) -> String.make 1 (char_of_ascii c) ^ string_of_cstring r

(* ---- argument syntax:  atom | [a,b,...] | a:b | none ---- *)
type arg = A of Stdlib.String.t | L of arg list | P of arg * arg

let parse_arg s : arg =
  let n = String.length s in
  let pos = Stdlib.ref 0 in
  let peek () = if !pos < n then Some s.[!pos] else None in
  let rec item () =
    let a = simple () in
    (match peek () with
     | Some ':' -> incr pos; let b = item () in P (a, b)
     | _ -> a)
  and simple () =
    match peek () with
    | Some '[' ->
        incr pos;
        let items = Stdlib.ref [] in
        (match peek () with
         | Some ']' -> incr pos
         | _ ->
             let continue = Stdlib.ref true in
             while !continue do
               items := item () :: !items;
               (match peek () with
                | Some ',' -> incr pos
                | Some ']' -> incr pos; continue := false
                | _ -> failwith ("bad list in " ^ s))
             done);
        L (List.rev !items)
    | _ ->
        let st = !pos in
        while (match peek () with
               | Some (',' | ']' | ':') | None -> false
               | _ -> true) do incr pos done;
        A (String.sub s st (!pos - st))
  in
  let r = item () in
  if !pos <> n then failwith ("trailing input in " ^ s);
  r

let a_int = function A s -> int_of_string s | _ -> failwith "int expected"
let a_nat a = nat_of_int (a_int a)
let a_z a = z_of_int (a_int a)
let a_pos a = pos_of_int (a_int a)
let a_bool = function
  | A ("1" | "T" | "true") -> true
  | A ("0" | "F" | "false") -> false
  | _ -> failwith "bool expected"
let a_opt f = function A "none" -> None | a -> Some (f a)
let a_list f = function L l -> List.map f l | _ -> failwith "list expected"
let a_pair f g = function P (a, b) -> (f a, g b) | _ -> failwith "pair expected"
let a_byname = function
  | A "n" -> true | A "l" -> false | _ -> failwith "n|l expected"

(* roots container: none | [u,...] | [k:u,...] *)
let a_roots = function
  | A "none" -> RNone
  | L (P _ :: _ as l) -> RDict (List.map (a_pair a_nat a_z) l)
  | L l -> RList (List.map a_z l)
  | _ -> failwith "roots expected"

(* token spellings: each hex-encoded, e.g. [2f5c,76302e] *)
let unhex s =
  let n = String.length s / 2 in
  String.init n (fun i -> Char.chr (int_of_string ("0x" ^ String.sub s (2 * i) 2)))
let untext s = unhex (String.sub s 1 (String.length s - 1))
let a_spellings = function
  | L l -> List.map (function A h -> cstring_of_string (unhex h) | _ -> failwith "hex") l
  | _ -> failwith "spellings expected"

(* ---- printing ---- *)
let rec show_value = function
  | VZ z -> string_of_int (int_of_z z)
  | VN n -> string_of_int (int_of_nat n)
  | VB b -> if b then "T" else "F"
  | VU -> "()"
  | VL l -> "[" ^ String.concat "," (List.map show_value l) ^ "]"
  | VS s -> string_of_cstring s

let show_err = function
  | ENeedsReordering -> "needs_reordering"
  | EValue | EAssert | EKey | EType | ERuntime -> "rejected"
  | EFuel -> "MODEL_FUEL"
  | EOracle -> "MODEL_ORACLE"

let show_res = function
  | Ok v -> "ok:" ^ show_value v
  | Err e -> "err:" ^ show_err e

let show_dict show l =
  "{" ^ String.concat ";" (List.map show (List.sort Stdlib.compare l)) ^ "}"

let show_digest (d : dig) =
  let tr ((i, v), w) = (int_of_nat i, int_of_z v, int_of_z w) in
  let succ = List.map (fun (u, t) -> (int_of_pos u, tr t)) d.d_succ in
  let pred = List.map (fun (t, u) -> (tr t, int_of_pos u)) d.d_pred in
  let refs = List.map (fun (u, r) -> (int_of_pos u, int_of_nat r)) d.d_ref in
  let ite = List.map (fun (((g, u), v), w) ->
      ((int_of_z g, int_of_z u, int_of_z v), int_of_z w)) d.d_ite in
  let nn = List.map (fun (a, b) -> (int_of_nat a, int_of_nat b)) in
  let t3 (a, b, c) = Printf.sprintf "(%d,%d,%d)" a b c in
  String.concat " " [
    "succ=" ^ show_dict (fun (u, t) -> Printf.sprintf "%d:%s" u (t3 t)) succ;
    "pred=" ^ show_dict (fun (t, u) -> Printf.sprintf "%s:%d" (t3 t) u) pred;
    "ref=" ^ show_dict (fun (u, r) -> Printf.sprintf "%d:%d" u r) refs;
    "mf=" ^ string_of_int (int_of_pos d.d_min_free);
    "ite=" ^ show_dict (fun (k, w) -> Printf.sprintf "%s:%d" (t3 k) w) ite;
    "vars=" ^ show_dict (fun (a, b) -> Printf.sprintf "%d:%d" a b) (nn d.d_vars);
    "l2v=" ^ show_dict (fun (a, b) -> Printf.sprintf "%d:%d" a b) (nn d.d_l2v);
    "ll=" ^ (match d.d_last_len with None -> "none"
                                   | Some n -> string_of_int (int_of_nat n));
    "ctx=" ^ (if d.d_rctx then "T" else "F");
    "mx=" ^ (match d.d_max_nodes with None -> "none"
                                    | Some n -> string_of_int (int_of_pos n)) ]

(* ---- operations ---- *)
let rec parse_op2 name (args : arg list) : op2 =
  match name, args with
  | "count", [u; n] -> OCount (a_z u, a_opt a_nat n)
  | "pick_iter", [u; c] -> OPickIter (a_z u, a_opt (a_list a_nat) c)
  | "pick", [u; c] -> OPick (a_z u, a_opt (a_list a_nat) c)
  | "undeclare", [vs] -> OUndeclare (a_list a_nat vs)
  | "descendants", [r] -> ODescendants (a_list a_z r)
  | "succ", [u] -> OSucc (a_z u)
  | "level_of_var", [v] -> OLevelOfVar (a_nat v)
  | "var_at_level", [l] -> OVarAtLevel (a_nat l)
  | "len", [] -> OLen
  | "contains", [u] -> OContains (a_z u)
  | "shutdown", [] -> OShutdown
  | "dump", [f; r; o; vo] -> ODump (a_nat f, a_roots r, a_list a_pos o, a_list a_nat vo)
  | "load", [f; lv] -> OLoad (a_nat f, a_bool lv)
  | "dump_manager", [f; vo] -> ODumpManager (a_nat f, a_list a_nat vo)
  | "load_manager", [f] -> OLoadManager (a_nat f)
  | "to_nx", [r] -> OToNx (a_list a_z r)
  | "to_dot", [r] -> OToDot (a_opt (a_list a_z) r)
  | _ -> O1 (parse_op name args)

and parse_op name (args : arg list) : op =
  let nn = a_pair a_nat a_nat in
  match name, args with
  | "new", [l] -> ONew (a_list nn l)
  | "add_var", [v; l] -> OAddVar (a_nat v, a_opt a_nat l)
  | "declare", [l] -> ODeclare (a_list a_nat l)
  | "var", [v] -> OVar (a_nat v)
  | "find_or_add", [i; v; w] -> OFindOrAdd (a_nat i, a_z v, a_z w)
  | "ite", [g; u; v] -> OIte (a_z g, a_z u, a_z v)
  | "apply", [A o; u; v; w] ->
      OApply (cstring_of_string o, a_z u, a_opt a_z v, a_opt a_z w)
  | "incref", [u] -> OIncref (a_z u)
  | "decref", [u] -> ODecref (a_z u)
  | "ref", [u] -> ORef (a_z u)
  | "gc", [r] -> OGc (a_opt (a_list a_z) r)
  | "tape", [t] -> OTape (a_list (a_list a_pos) t)
  | "swap", [x; y] -> OSwap (a_nat x, a_nat y)
  | "reorder", [o] -> OReorder (a_opt (a_list nn) o)
  | "reorder_to_pairs", [p] -> OReorderPairs (a_list nn p)
  | "configure", [b] -> OConfigure (a_opt a_bool b)
  | "set_last_len", [l] -> OSetLastLen (a_opt a_nat l)
  | "set_trig", [k] -> OSetTrig (a_opt a_nat k)
  | "set_roots", [r] -> OSetRoots (a_list a_z r)
  | "set_max_nodes", [n] -> OSetMaxNodes (a_opt a_pos n)
  | "cofactor", [u; bn; vals] ->
      OCofactor (a_z u, a_byname bn, a_list (a_pair a_nat a_bool) vals)
  | "quantify", [u; bn; q; fa] ->
      OQuantify (a_z u, a_byname bn, a_list a_nat q, a_bool fa)
  | "compose", [u; sub] -> OCompose (a_z u, a_list (a_pair a_nat a_z) sub)
  | "rename", [u; d] -> ORename (a_z u, a_list nn d)
  | "let_bool", [d; u] -> OLet (LetBool (a_list (a_pair a_nat a_bool) d), a_z u)
  | "let_ref", [d; u] -> OLet (LetRef (a_list (a_pair a_nat a_z) d), a_z u)
  | "let_name", [d; u] -> OLet (LetName (a_list nn d), a_z u)
  | "cube", [d] -> OCube (a_list (a_pair a_nat a_bool) d)
  | "copy", [src; u] -> OCopy (a_nat src, a_z u)
  | "image", [t; s; bn; rn; qbn; q; fa] ->
      OImage (a_z t, a_z s, a_byname bn, a_list nn rn, a_byname qbn,
              a_list a_nat q, a_bool fa)
  | "preimage", [t; s; bn; rn; qbn; q; fa] ->
      OPreimage (a_z t, a_z s, a_byname bn, a_list nn rn, a_byname qbn,
                 a_list a_nat q, a_bool fa)
  | "support", [u] -> OSupport (a_z u)
  | "is_essential", [u; v] -> OIsEssential (a_z u, a_nat v)
  | _ -> failwith ("unknown operation or wrong arity: " ^ name)

(* ---- dd.autoref operations (manager ids written a0, a1, ...) ---- *)
let parse_aop name (args : arg list) : aop =
  let nn = a_pair a_nat a_nat in
  let nb = a_pair a_nat a_bool in
  match name, args with
  | "new", [l] -> ANew (a_list nn l)
  | "declare", [l] -> ADeclare (a_list a_nat l)
  | "var", [v] -> AVar (a_nat v)
  | "true", [] -> ATrue
  | "false", [] -> AFalse
  | "apply", [A o; u; v; w] ->
      AApply (cstring_of_string o, a_nat u, a_opt a_nat v, a_opt a_nat w)
  | "ite", [g; u; v] -> AIte (a_nat g, a_nat u, a_nat v)
  | "let_bool", [d; u] -> ALet (ALetBool (a_list nb d), a_nat u)
  | "let_ref", [d; u] -> ALet (ALetRef (a_list nn d), a_nat u)
  | "let_name", [d; u] -> ALet (ALetName (a_list nn d), a_nat u)
  | "quantify", [u; q; fa] -> AQuantify (a_nat u, a_list a_nat q, a_bool fa)
  | "cube", [d] -> ACube (a_list nb d)
  | "find_or_add", [v; lo; hi] -> AFindOrAdd (a_nat v, a_nat lo, a_nat hi)
  | "support", [u] -> ASupport (a_nat u)
  | "count", [u; n] -> ACount (a_nat u, a_opt a_nat n)
  | "image", [t; s; rn; q; fa] ->
      AImage (false, a_nat t, a_nat s, a_list nn rn, a_list a_nat q, a_bool fa)
  | "preimage", [t; s; rn; q; fa] ->
      AImage (true, a_nat t, a_nat s, a_list nn rn, a_list a_nat q, a_bool fa)
  | "fapply", [A o; u; v] -> AFApply (cstring_of_string o, a_nat u, a_opt a_nat v)
  | "eq", [u; v] -> AEq (a_nat u, a_nat v)
  | "ne", [u; v] -> ANe (a_nat u, a_nat v)
  | "le", [u; v] -> ALe (a_nat u, a_nat v)
  | "lt", [u; v] -> ALt (a_nat u, a_nat v)
  | "low", [u] -> AChild (false, a_nat u)
  | "high", [u] -> AChild (true, a_nat u)
  | "succ", [u] -> ASucc (a_nat u)
  | "level", [u] -> ALevel (a_nat u)
  | "varof", [u] -> AVarOf (a_nat u)
  | "ref", [u] -> ARef (a_nat u)
  | "negated", [u] -> ANegated (a_nat u)
  | "len", [u] -> ALen (a_nat u)
  | "int", [u] -> AInt (a_nat u)
  | "drop", [u] -> ADrop (a_nat u)
  | "gc", [] -> AGc
  | "reorder", [o] -> AReorder (a_opt (a_list nn) o)
  | "configure", [b] -> AConfigure (a_opt a_bool b)
  | "set_last_len", [l] -> ASetLastLen (a_opt a_nat l)
  | "set_trig", [k] -> ASetTrig (a_opt a_nat k)
  | "set_max_nodes", [n] -> ASetMaxNodes (a_opt a_pos n)
  | "tape", [t] -> ATape (a_list (a_list a_pos) t)
  | "copy", [src; u] -> ACopy (a_nat src, a_nat u)
  | "shutdown", [] -> AShutdown
  | _ -> failwith ("unknown autoref operation or wrong arity: " ^ name)

(* ---- MDD managers (ids m0, m1, ...) ---- *)
let a_triple f g h = function
  | P (a, P (b, c)) -> (f a, (g b, h c))
  | P (a, L [b; c]) -> (f a, (g b, h c))
  | _ -> failwith "triple expected"
let parse_mop name (args : arg list) : mop =
  match name, args with
  | "new", [d] -> MNew (a_list (a_triple a_nat a_nat a_nat) d)
  | "find_or_add", [i; ns] -> MFindOrAdd (a_nat i, a_list a_z ns)
  | "ite", [g; u; v] -> MIte (a_z g, a_z u, a_z v)
  | "apply", [A o; u; v; w] -> MApply (cstring_of_string o, a_z u, a_opt a_z v, a_opt a_z w)
  | "incref", [u] -> MIncref (a_z u)
  | "decref", [u] -> MDecref (a_z u)
  | "ref", [u] -> MRef (a_z u)
  | "gc", [] -> MGc
  | "tape", [t] -> MTape (a_list a_pos t)
  | _ -> failwith ("unknown MDD operation or wrong arity: " ^ name)

let show_mdigest (d : mdig) =
  let ints (i, ns) = int_of_nat i :: List.map int_of_z ns in
  let tup l = "(" ^ String.concat "," (List.map string_of_int l) ^ ")" in
  let succ = List.sort Stdlib.compare (List.map (fun (u, t) -> (int_of_pos u, ints t)) d.md_succ) in
  let pred = List.sort Stdlib.compare (List.map (fun (t, u) -> (ints t, int_of_pos u)) d.md_pred) in
  let refs = List.map (fun (u, r) -> (int_of_pos u, int_of_nat r)) d.md_ref in
  let ite = List.map (fun (((g, u), v), w) ->
      ((int_of_z g, int_of_z u, int_of_z v), int_of_z w)) d.md_ite in
  let plain f l = "{" ^ String.concat ";" (List.map f l) ^ "}" in
  String.concat " " [
    "succ=" ^ plain (fun (u, t) -> Printf.sprintf "%d:%s" u (tup t)) succ;
    "pred=" ^ plain (fun (t, u) -> Printf.sprintf "%s:%d" (tup t) u) pred;
    "ref=" ^ show_dict (fun (u, r) -> Printf.sprintf "%d:%d" u r) refs;
    "max=" ^ string_of_int (int_of_pos d.md_max);
    "free=" ^ plain string_of_int (List.sort Stdlib.compare (List.map int_of_pos d.md_free));
    "ite=" ^ plain (fun ((a, b, c), w) -> Printf.sprintf "(%d,%d,%d):%d" a b c w)
               (List.sort Stdlib.compare ite) ]

(* ---- dddmp: header fields and body lines ---- *)
let a_info = function
  | A "T" -> DTerm
  | A s when String.length s > 1 && s.[0] = 'i' -> DInt (nat_of_int (int_of_string (String.sub s 1 (String.length s - 1))))
  | A s when String.length s > 1 && s.[0] = 'n' -> DName (nat_of_int (int_of_string (String.sub s 1 (String.length s - 1))))
  | _ -> failwith "info expected"
let a_header = function
  | L [nv; vi; ord; sup; ns; ids; perm; aux; nr; roots; nn] ->
      { dh_nvars = a_nat nv; dh_varinfo = a_nat vi;
        dh_ordered = a_opt (a_list a_nat) ord; dh_support = a_opt (a_list a_nat) sup;
        dh_nsupp = a_nat ns; dh_ids = a_list a_nat ids; dh_permids = a_list a_nat perm;
        dh_auxids = a_opt (a_list a_nat) aux; dh_nroots = a_nat nr;
        dh_roots = a_list a_z roots; dh_nnodes = a_nat nn }
  | _ -> failwith "header expected"
let a_dnode = function
  | P (u, P (i, P (t, e))) -> { dn_id = a_pos u; dn_info = a_info i; dn_then = a_z t; dn_else = a_z e }
  | _ -> failwith "node expected"

(* ---- JSON files: levels [v:l,...], roots, nodes [k:level:lo:hi,...] ---- *)
let a_jref = function
  | A "T" -> JT | A "F" -> JF | a -> JN (a_z a)
let a_jnode = function
  | P (k, P (l, P (lo, hi))) -> (a_pos k, ((a_nat l, a_jref lo), a_jref hi))
  | _ -> failwith "json node expected"
let a_hroots = function
  | L (P _ :: _ as l) -> HDict (List.map (a_pair a_nat a_nat) l)
  | L l -> HList (List.map a_nat l)
  | _ -> failwith "handle roots expected"

(* the digest of the wrapped manager (with its `mx=` field, like a dd.bdd
   manager: harness/impl.py prints `bdd._bdd.max_nodes` the same way) and the
   handle table *)
let show_adigest (d, hs) =
  let hs = List.map (fun (h, u) -> (int_of_nat h, int_of_z u)) hs in
  show_digest d ^ " handles=" ^ show_dict (fun (h, u) -> Printf.sprintf "%d:%d" h u) hs

let () =
  let world = Stdlib.ref world2_empty in
  let aworld = Stdlib.ref aworld_empty in
  let mworld = Stdlib.ref mworld_empty in
  let full = Stdlib.ref true in
  (try
     while true do
       let line = input_line stdin in
       let toks = List.filter (fun s -> s <> "")
           (String.split_on_char ' ' (String.trim line)) in
       match toks with
       | [] -> ()
       | "#" :: _ -> ()
       | ["!reset"] -> world := world2_empty; aworld := aworld_empty; mworld := mworld_empty
       | ["!mode"; "full"] -> full := true
       | ["!mode"; "result"] -> full := false
       | ["!digest"; m] when String.length m > 1 && m.[0] = 'a' ->
           let m = nat_of_int (int_of_string (String.sub m 1 (String.length m - 1))) in
           print_endline ("digest\t" ^ show_adigest (adigest (aworld_get !aworld m)))
       | ["!digest"; m] ->
           let m = nat_of_int (int_of_string m) in
           print_endline ("digest\t" ^ show_digest (digest (world2_get !world m)))
       | [k; "bdd_to_mdd"; m; dv; ord] ->
           let mi = nat_of_int (int_of_string (String.sub m 1 (String.length m - 1))) in
           let k = nat_of_int (int_of_string k) in
           let dv = a_list (a_triple a_nat a_nat (a_list a_nat)) (parse_arg dv) in
           let ((w', mw'), r) = step_bdd_to_mdd !world !mworld k mi dv (a_list a_pos (parse_arg ord)) in
           world := w'; mworld := mw';
           print_endline (if !full then show_res r ^ "\t" ^ show_mdigest (mdigest (mworld_get mw' mi))
                                         ^ " | " ^ show_digest (digest (world2_get w' k))
                          else show_res r)
       | [m; "dddmp_load"; h; ns] ->
           let m = nat_of_int (int_of_string m) in
           let (w', r) = step_dddmp !world m (a_header (parse_arg h)) (a_list a_dnode (parse_arg ns)) in
           world := w';
           print_endline (if !full then show_res r ^ "\t" ^ show_digest (digest (world2_get w' m))
                          else show_res r)
       | m :: name :: args when String.length m > 1 && m.[0] = 'm' ->
           let mi = nat_of_int (int_of_string (String.sub m 1 (String.length m - 1))) in
           let (w', r) = mstep !mworld mi (parse_mop name (List.map parse_arg args)) in
           mworld := w';
           print_endline (if !full then show_res r ^ "\t" ^ show_mdigest (mdigest (mworld_get w' mi))
                          else show_res r)
       | ["lex_text"; hx] ->
           print_endline (show_res (lex_show_text (cstring_of_string (untext hx))))
       | ["parse_text"; hx] ->
           print_endline (show_res (parse_show_text (cstring_of_string (untext hx))))
       | [m; "add_expr_lr"; hx] when String.length m > 1 && m.[0] = 'a' ->
           let m = nat_of_int (int_of_string (String.sub m 1 (String.length m - 1))) in
           let (w', r) = astep_expr_lr !aworld m (cstring_of_string (untext hx)) in
           aworld := w';
           print_endline (if !full then show_res r ^ "\t" ^ show_adigest (adigest (aworld_get w' m))
                          else show_res r)
       | [m; "add_expr_lr"; hx] ->
           let m = nat_of_int (int_of_string m) in
           let (w', r) = step_expr_lr !world m (cstring_of_string (untext hx)) in
           world := w';
           print_endline (if !full then show_res r ^ "\t" ^ show_digest (digest (world2_get w' m))
                          else show_res r)
       | [m; "add_expr_text"; hx] when String.length m > 1 && m.[0] = 'a' ->
           let m = nat_of_int (int_of_string (String.sub m 1 (String.length m - 1))) in
           let (w', r) = astep_expr_text !aworld m (cstring_of_string (untext hx)) in
           aworld := w';
           print_endline (if !full then show_res r ^ "\t" ^ show_adigest (adigest (aworld_get w' m))
                          else show_res r)
       | [m; "add_expr_text"; hx] ->
           let m = nat_of_int (int_of_string m) in
           let (w', r) = step_expr_text !world m (cstring_of_string (untext hx)) in
           world := w';
           print_endline (if !full then show_res r ^ "\t" ^ show_digest (digest (world2_get w' m))
                          else show_res r)
       | ["parse"; sp] ->
           print_endline (show_res (parse_show (a_spellings (parse_arg sp))))
       | [m; "copy_manager"; src; vo] ->
           let m = nat_of_int (int_of_string m) in
           let (w', r) = step_copy_manager !world m (a_nat (parse_arg src)) (a_list a_nat (parse_arg vo)) in
           world := w';
           print_endline (if !full then show_res r ^ "\t" ^ show_digest (digest (world2_get w' m))
                          else show_res r)
       | [m; "reduction"; src; vo; ord] ->
           let m = nat_of_int (int_of_string m) in
           let srcn = a_nat (parse_arg src) in
           let (w', r) = step_reduction !world m srcn (a_list a_nat (parse_arg vo)) (a_list a_pos (parse_arg ord)) in
           world := w';
           print_endline (if !full then show_res r ^ "\t" ^ show_digest (digest (world2_get w' m))
                                         ^ " | " ^ show_digest (digest (world2_get w' srcn))
                          else show_res r)
       | [m; "add_var"; v; l] when String.length m > 1 && m.[0] = 'a' ->
           let m = nat_of_int (int_of_string (String.sub m 1 (String.length m - 1))) in
           let (w', r) = astep_add_var !aworld m (a_nat (parse_arg v)) (a_opt a_nat (parse_arg l)) in
           aworld := w';
           print_endline (if !full then show_res r ^ "\t" ^ show_adigest (adigest (aworld_get w' m))
                          else show_res r)
       | [m; "copy_bdds_from"; src; hs] when String.length m > 1 && m.[0] = 'a' ->
           let m = nat_of_int (int_of_string (String.sub m 1 (String.length m - 1))) in
           let (w', r) = astep_copy_fn !aworld m (a_nat (parse_arg src)) (a_list a_nat (parse_arg hs)) in
           aworld := w';
           print_endline (if !full then show_res r ^ "\t" ^ show_adigest (adigest (aworld_get w' m))
                          else show_res r)
       | [m; "assert_consistent"] when String.length m > 1 && m.[0] = 'a' ->
           let m = nat_of_int (int_of_string (String.sub m 1 (String.length m - 1))) in
           let (w', r) = astep_consistent !aworld m in
           aworld := w';
           print_endline (if !full then show_res r ^ "\t" ^ show_adigest (adigest (aworld_get w' m))
                          else show_res r)
       | [m; "assert_consistent"] ->
           let m = nat_of_int (int_of_string m) in
           let (w', r) = step_consistent !world m in
           world := w';
           print_endline (if !full then show_res r ^ "\t" ^ show_digest (digest (world2_get w' m))
                          else show_res r)
       | [m; "json_dump"; r; vo] when String.length m > 1 && m.[0] = 'a' ->
           let m = nat_of_int (int_of_string (String.sub m 1 (String.length m - 1))) in
           let (w', r) = astep_json_dump !aworld m (a_hroots (parse_arg r)) (a_list a_nat (parse_arg vo)) in
           aworld := w';
           print_endline (if !full then show_res r ^ "\t" ^ show_adigest (adigest (aworld_get w' m))
                          else show_res r)
       | [m; "json_load"; lv; r; ns; lo] when String.length m > 1 && m.[0] = 'a' ->
           let m = nat_of_int (int_of_string (String.sub m 1 (String.length m - 1))) in
           let jf = { jf_levels = a_list (a_pair a_nat a_nat) (parse_arg lv);
                      jf_roots = a_roots (parse_arg r);
                      jf_nodes = a_list a_jnode (parse_arg ns) } in
           let (w', r) = astep_json_load !aworld m jf (a_bool (parse_arg lo)) in
           aworld := w';
           print_endline (if !full then show_res r ^ "\t" ^ show_adigest (adigest (aworld_get w' m))
                          else show_res r)
       | [m; "add_expr"; sp] when String.length m > 1 && m.[0] = 'a' ->
           let m = nat_of_int (int_of_string (String.sub m 1 (String.length m - 1))) in
           let (w', r) = astep_expr !aworld m (a_spellings (parse_arg sp)) in
           aworld := w';
           print_endline (if !full then show_res r ^ "\t" ^ show_adigest (adigest (aworld_get w' m))
                          else show_res r)
       | [m; "to_expr"; h] when String.length m > 1 && m.[0] = 'a' ->
           let m = nat_of_int (int_of_string (String.sub m 1 (String.length m - 1))) in
           let (w', r) = astep_to_expr !aworld m (nat_of_int (int_of_string h)) in
           aworld := w';
           print_endline (if !full then show_res r ^ "\t" ^ show_adigest (adigest (aworld_get w' m))
                          else show_res r)
       | [m; "add_expr"; sp] ->
           let m = nat_of_int (int_of_string m) in
           let (w', r) = step_expr !world m (a_spellings (parse_arg sp)) in
           world := w';
           print_endline (if !full then show_res r ^ "\t" ^ show_digest (digest (world2_get w' m))
                          else show_res r)
       | [m; "to_expr"; u] ->
           let m = nat_of_int (int_of_string m) in
           let (w', r) = step_to_expr !world m (z_of_int (int_of_string u)) in
           world := w';
           print_endline (if !full then show_res r ^ "\t" ^ show_digest (digest (world2_get w' m))
                          else show_res r)
       | m :: name :: args when String.length m > 1 && m.[0] = 'a' ->
           let m = nat_of_int (int_of_string (String.sub m 1 (String.length m - 1))) in
           let o = parse_aop name (List.map parse_arg args) in
           let (w', r) = astep !aworld m o in
           let r = match name, r with
             | "support", Ok (VL l) ->
                 let key = function VN n -> int_of_nat n | _ -> 0 in
                 Ok (VL (List.sort (fun a b -> Stdlib.compare (key a) (key b)) l))
             | _ -> r in
           aworld := w';
           if !full then
             print_endline (show_res r ^ "\t" ^ show_adigest (adigest (aworld_get w' m)))
           else print_endline (show_res r)
       | m :: name :: args ->
           let m = nat_of_int (int_of_string m) in
           let o = parse_op2 name (List.map parse_arg args) in
           let (w', r) = step2 !world m o in
           (* the order in which pick_iter yields is a set-iteration order in
              the implementation: compare as a sorted list *)
           let r = match name, r with
             | "pick_iter", Ok (VL l) ->
                 Ok (VL (List.sort (fun a b -> Stdlib.compare (show_value a) (show_value b)) l))
             | ("to_nx" | "to_dot"), Ok (VL parts) ->
                 (* graphs are compared as sets of nodes/edges *)
                 let norm = function
                   | VL l -> VL (List.sort_uniq
                                   (fun a b -> Stdlib.compare (show_value a) (show_value b)) l)
                   | v -> v in
                 Ok (VL (List.map norm parts))
             | ("support" | "undeclare" | "descendants"), Ok (VL l) ->
                 (* Python sets: compared as sorted lists *)
                 let key = function VN n -> int_of_nat n | VZ z -> int_of_z z | _ -> 0 in
                 Ok (VL (List.sort (fun a b -> Stdlib.compare (key a) (key b)) l))
             | _ -> r in
           world := w';
           if !full then
             print_endline (show_res r ^ "\t" ^ show_digest (digest (world2_get w' m)))
           else print_endline (show_res r)
       | _ -> failwith ("bad line: " ^ line)
     done
   with End_of_file -> ());
  flush stdout
