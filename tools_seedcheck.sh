#!/bin/bash
# Run a check of a COPY of /verif against another source tree (a scratch
# worktree with a seeded change): tools_seedcheck.sh <repo-dir> <Cxx> [tier]
# Nothing under /verif or /repo is modified.
set -e
SRC=$1; PID=$2; TIER=${3:-quick}
COPY=${VCOPY:-/tmp/vcopy}
mkdir -p $COPY
rsync -a --delete --exclude .git --exclude replays --exclude evidence /verif/ $COPY/
mkdir -p $COPY/evidence
cd $COPY
DD_REPO=$SRC ./check $PID --tier $TIER
