#!/usr/bin/env python3
"""Which LINES of the dd package do the property streams execute?
Runs the given tier of every check in-process under sys.monitoring (Python 3.12)
and prints, per function of $DD_REPO/dd/{bdd,autoref,_copy,mdd,dddmp,_parser,_utils}.py,
the executable lines never executed.  An aid for strengthening the streams; not
part of any check."""
import json
import os
import subprocess
import sys

REPO = os.environ.get('DD_REPO', '/repo')
OUT = '/tmp/dd_lines.json'
FILES = ['bdd.py', 'autoref.py', '_copy.py', 'mdd.py', 'dddmp.py', '_parser.py', '_utils.py']

if len(sys.argv) > 1 and sys.argv[1] == '--child':
    pid, tier = sys.argv[2], sys.argv[3]
    pref = os.path.join(REPO, 'dd') + os.sep
    seen = set()
    mon = sys.monitoring
    TOOL = mon.COVERAGE_ID
    mon.use_tool_id(TOOL, 'ddverif')

    def on_line(code, line):
        if code.co_filename.startswith(pref):
            seen.add((os.path.basename(code.co_filename), line))
        return mon.DISABLE
    mon.register_callback(TOOL, mon.events.LINE, on_line)
    mon.set_events(TOOL, mon.events.LINE)
    sys.path.insert(0, '/verif')
    sys.path.insert(0, REPO)
    from harness.framework import main
    sys.argv = ['check', pid, '--tier', tier]
    try:
        main()
    except SystemExit:
        pass
    mon.set_events(TOOL, 0)
    prev = json.load(open(OUT)) if os.path.exists(OUT) else []
    json.dump(sorted(set(map(tuple, prev)) | seen), open(OUT, 'w'))
    sys.exit(0)

tier = sys.argv[1] if len(sys.argv) > 1 else 'quick'
if os.path.exists(OUT):
    os.remove(OUT)
for i in range(1, 20):
    subprocess.run(['/venv/bin/python', '-W', 'ignore', __file__, '--child', f'C{i:02d}', tier],
                   env=dict(os.environ, PYTHONPATH=REPO, PYTHONHASHSEED='0'),
                   stdout=subprocess.DEVNULL, stderr=subprocess.DEVNULL, cwd='/verif')
seen = set(map(tuple, json.load(open(OUT))))


def code_lines(code, acc):
    """(function qualname, first line) -> set of executable lines"""
    lines = {l for _, _, l in code.co_lines() if l is not None}
    acc[(code.co_qualname, code.co_firstlineno)] = lines
    for c in code.co_consts:
        if hasattr(c, 'co_lines'):
            code_lines(c, acc)


tot = cov = 0
for fn in FILES:
    path = os.path.join(REPO, 'dd', fn)
    acc = {}
    code_lines(compile(open(path).read(), path, 'exec'), acc)
    src = open(path).read().splitlines()
    print(f'== {fn}')
    for (name, first), lines in sorted(acc.items(), key=lambda x: x[0][1]):
        if name == '<module>':
            continue
        # lines of nested code objects are reported with the nested one
        own = set(lines)
        for (n2, f2), l2 in acc.items():
            if f2 > first and n2.startswith(name + '.'):
                own -= l2
        own.discard(first)
        miss = sorted(l for l in own if (fn, l) not in seen)
        tot += len(own)
        cov += len(own) - len(miss)
        if miss and len(miss) < len(own):
            print(f'  {name}:{first}: ' + '; '.join(f'{l}: {src[l - 1].strip()[:70]}' for l in miss[:12]))
        elif miss:
            print(f'  {name}:{first}: never entered')
print(f'executed {cov} of {tot} executable lines in functions')
