"""C15 - MDD conversion and MDD operations preserve meaning."""
import itertools

from .. import gen, oracle, tt as T
from .base import Mgr, replay  # noqa: F401
from ..impl import vname

RULE = ('sets of referenced BDD functions over <=6 bits grouped into 1-3 integer variables of '
        '1-3 bits, every integer order and random initial bit orders: each MDD node of umap is '
        'evaluated on every integer assignment against the BDD on the encoded bits; pairs of '
        'small MDD functions x connectives (pointwise), canonicity, collect/operate '
        'interleavings; non-trivial = non-constant function')
EXHAUSTIVE = {'quick': False, 'thorough': False}
ASSUMES = ['quantification is not implemented for MDDs (apply raises NotImplementedError)']


def mdd_eval(d, u, asg):
    """value of MDD reference u under asg: level -> integer"""
    neg = False
    while True:
        if u < 0:
            neg = not neg
            u = -u
        t = d._succ[u]
        if t[1] is None:
            return not neg
        u = t[1 + asg[t[0]]]


def conversion(ctx, groups, int_order, nfun):
    """groups: list of bit lists (variable ids), one per integer variable"""
    rng = ctx.rng
    nbits = sum(len(g) for g in groups)
    bit_order = list(range(nbits))
    rng.shuffle(bit_order)
    aged = rng.random() < 0.3
    M = Mgr(ctx, f'bdd_to_mdd groups={groups} int_order={int_order} aged={aged}', nbits, bit_order, aged=aged)
    s = M.s
    held = []
    for _ in range(nfun):
        t = rng.getrandbits(1 << nbits)
        u = M.build(t)
        if u is None or abs(u) == 1:
            continue
        u = u * rng.choice([1, -1])
        M.op('incref', u)
        held.append(u)
    before = {u: M.tt(u) for u in held}
    dv = {100 + k: (int_order[k], list(g)) for k, g in enumerate(groups)}
    # a third of the conversions run with dynamic reordering ENABLED on the BDD manager,
    # the threshold so low that any node creation would raise the request (C15c)
    dyn = rng.random() < 0.34
    if dyn:
        M.op('configure', True)
        M.op('set_last_len', rng.choice([0, 1, 2]))
        thr = M.b._last_len
    r = s.op(0, 'bdd_to_mdd', 'm0', dv)
    case = M.case()
    if dyn:
        ctx.count('conversions-dynamic')
        if s.last_result() == 'err:needs_reordering':
            ctx.violation('C15:signal', 'bdd_to_mdd let the reordering signal escape', case)
            return
        if M.b._last_len != thr:
            ctx.violation('C15:threshold-changed',
                          f'the reordering threshold is {M.b._last_len} after the conversion, was {thr}', case)
        M.op('configure', False)
    ctx.case((tuple(map(tuple, groups)), tuple(int_order), tuple(before.values())), bool(held))
    ctx.count('conversions')
    if r is None:
        ctx.violation('C15:conversion-failed', 'bdd_to_mdd raised', case)
        return
    d = s.impl.mmgr['m0']
    b = M.b
    for u, t in before.items():
        if abs(u) not in b._succ or M.tt(u) != t:
            ctx.violation('C15:bdd-changed', f'BDD reference {u} changed during the conversion', case)
            return
    umap = dict((a, x) for a, x in r)
    for u in held:
        if abs(u) not in umap:
            ctx.violation('C15:missing', f'referenced BDD node {u} has no MDD node', case)
            return
    level_of = {g_i: int_order[g_i] for g_i in range(len(groups))}
    for bu, mu in umap.items():
        if bu == 1:
            continue
        # every integer assignment
        ranges = [range(2 ** len(g)) for g in groups]
        for vals in itertools.product(*ranges):
            asg = {level_of[k]: vals[k] for k in range(len(groups))}
            bits = {}
            for k, g in enumerate(groups):
                for j, bit in enumerate(g):
                    bits[vname(bit)] = bool((vals[k] >> j) & 1)     # first listed bit least significant
            for sign in (1, -1):
                if mdd_eval(d, sign * mu, asg) != oracle.evaluate(b, sign * bu, bits):
                    ctx.violation('C15:conversion-wrong',
                                  f'MDD node {sign * mu} for BDD node {sign * bu} differs at {vals}', case)
                    return
    for u in held:
        M.op('decref', u)
    ctx.sample(dict(stream=s.label, first_lines=s.lines[:4]))


def mdd_table_problems(d, held_counts, after_gc=False):
    """independent check of an MDD manager: counts = stored edges (with multiplicity) +
    external references; after a collection exactly the referenced closure remains"""
    bad = []
    indeg = {u: 0 for u in d._succ}
    for u, t in d._succ.items():
        for x in t[1:]:
            if x is not None:
                if abs(x) not in d._succ:
                    bad.append(f'node {u} has a dangling successor {x}')
                else:
                    indeg[abs(x)] += 1
    for u in d._succ:
        e = held_counts.get(u, 0)       # (the MDD terminal starts with count 0)
        if d._ref.get(u) != indeg[u] + e:
            bad.append(f'node {u}: count {d._ref.get(u)} != stored edges {indeg[u]} + external {e}')
    if after_gc:
        keep = {1}
        stack = [u for u, c in held_counts.items() if c > 0]
        while stack:
            u = stack.pop()
            if u in keep or u not in d._succ:
                continue
            keep.add(u)
            stack += [abs(x) for x in d._succ[u][1:] if x is not None]
        if set(d._succ) != keep:
            bad.append(f'after collection nodes {sorted(d._succ)}, referenced closure {sorted(keep)}')
    return bad


def mdd_ops(ctx, lens, steps, P='C15', rejected=0.06, collect=True):
    """random MDD histories: functions by value tables.  With `collect=False` the manager never
    collects: several such managers live one after the other in the process, with the same small
    node numbers denoting other functions (round-22 seed: a computed table shared by the
    managers that have not collected yet)"""
    rng = ctx.rng
    s = ctx.session(f'mdd ops lens={lens}' + ('' if collect else ' no-collection'))
    A = 'm0'
    nv = len(lens)
    s.op(A, 'new', {v: (v, lens[v]) for v in range(nv)})
    d = s.impl.mmgr[A]
    space = list(itertools.product(*[range(n) for n in lens]))

    def table(u):
        # (a result that refers to a node the manager does not hold has no table: it differs
        # from every expected one and is reported by the callers)
        try:
            return tuple(mdd_eval(d, u, dict(enumerate(vals))) for vals in space)
        except KeyError:
            return ('dangling', u)

    def build(tab):
        """MDD for a table via find_or_add bottom-up"""
        def go(level, prefix):
            if level == nv:
                return 1 if tab[space.index(tuple(prefix))] else -1
            kids = [go(level + 1, prefix + [j]) for j in range(lens[level])]
            if any(k is None for k in kids):
                return None
            return s.op(A, 'find_or_add', level, kids)
        return go(0, [])
    held = {}
    case = lambda: dict(stream=s.label, lines=list(s.lines))  # noqa: E731
    for step in range(steps):
        k = rng.random()
        if not collect and k >= 0.75 + rejected:
            k = rng.random() * 0.75
        if k < 0.35 or len(held) < 2:
            tab = tuple(rng.random() < 0.5 for _ in space)
            u = build(tab)
            if u is not None:
                if table(u) != tab:
                    ctx.violation(P + ':find_or_add', 'node built bottom-up denotes another table', case)
                    return
                if abs(u) != 1 and u not in held:
                    s.op(A, 'incref', u)
                    held[u] = tab
        elif k < 0.75:
            a, c = rng.sample(list(held), 2)
            name = rng.choice(['and', 'or', 'xor', 'implies', 'equiv', 'diff', 'ite', 'not'])
            ta, tc = held[a], held[c]
            if name == 'ite':
                e = rng.choice(list(held))
                r = s.op(A, 'ite', a, c, e)
                exp = tuple((y if x else z) for x, y, z in zip(ta, tc, held[e]))
            elif name == 'not':
                r = s.op(A, 'apply', rng.choice(gen.ALIASES['not']), a, None, None)
                exp = tuple(not x for x in ta)
            else:
                r = s.op(A, 'apply', rng.choice(gen.ALIASES[name]), a, c, None)
                f = {'and': lambda x, y: x and y, 'or': lambda x, y: x or y, 'xor': lambda x, y: x != y,
                     'implies': lambda x, y: (not x) or y, 'equiv': lambda x, y: x == y,
                     'diff': lambda x, y: x and not y}[name]
                exp = tuple(f(x, y) for x, y in zip(ta, tc))
            ctx.count('mdd:' + name)
            if r is None or table(r) != exp:
                ctx.violation(P + ':mdd-op', f'MDD {name} is not pointwise', case)
                return
            # canonicity: equal tables <=> equal references
            for h, th in held.items():
                if (th == exp) != (h == r):
                    ctx.violation(P + ':mdd-canonical', f'{h} and {r}: equal tables {th == exp}, equal refs {h == r}', case)
                    return
        elif k < 0.75 + rejected and held:
            # a REJECTED call: unknown successor at some position, wrong arity, bad level,
            # unknown operand; nothing may change (the counts are re-checked below)
            lvl = rng.randrange(nv)
            good = [rng.choice(list(held) + [1, -1]) for _ in range(lens[lvl])]
            unknown = max(d._succ) + rng.choice([1, 7])
            kind = rng.choice(['unknown-successor', 'arity', 'level', 'ite-unknown', 'incref-unknown'])
            if kind == 'unknown-successor':
                pos = rng.randrange(lens[lvl])
                kids = list(good)
                kids[pos] = unknown * rng.choice([1, -1])
                if len(set(kids)) == 1:
                    kids = kids + []    # (all equal: the elimination rule may answer first)
                r = s.op(A, 'find_or_add', lvl, kids)
            elif kind == 'arity':
                r = s.op(A, 'find_or_add', lvl, good + [1])
            elif kind == 'level':
                r = s.op(A, 'find_or_add', nv + 1, good)
            elif kind == 'ite-unknown':
                r = s.op(A, 'ite', rng.choice(list(held)), unknown, rng.choice(list(held)))
            else:
                r = s.op(A, 'incref', unknown)
            ctx.count('mdd:rejected:' + kind)
            if s.ok() and not (kind == 'unknown-successor' and len(set(kids)) == 1):
                ctx.violation(P + ':mdd-accepted', f'MDD call with {kind} was accepted', case)
                return
        elif k < 0.8 + rejected and held:
            u = rng.choice(list(held))
            s.op(A, 'decref', u)
            del held[u]
        elif k < 0.9:
            # collection + re-use: the same question after the operands' numbers were re-used
            tabs = [tuple(rng.random() < 0.5 for _ in space) for _ in range(2)]
            us = [build(t) for t in tabs]
            if None in us:
                continue
            name = rng.choice(['and', 'or', 'xor'])
            f = {'and': lambda x, y: x and y, 'or': lambda x, y: x or y, 'xor': lambda x, y: x != y}[name]
            r1 = s.op(A, 'apply', name, us[0], us[1], None)
            s.op(A, 'gc')
            tabs2 = [tuple(rng.random() < 0.5 for _ in space) for _ in range(2)]
            us2 = [build(t) for t in tabs2]
            if None in us2:
                continue
            r2 = s.op(A, 'apply', name, us2[0], us2[1], None)
            exp2 = tuple(f(x, y) for x, y in zip(*tabs2))
            ctx.count('mdd:reuse')
            if r2 is None or abs(r2) not in d._succ or table(r2) != exp2:
                ctx.violation(P + ':mdd-op', f'MDD {name} after collection and re-use of node numbers is not pointwise', case)
                return
        else:
            s.op(A, 'gc')
            keep = {1}
            stack = [abs(u) for u in held]
            while stack:
                u = stack.pop()
                if u in keep:
                    continue
                keep.add(u)
                stack += [abs(x) for x in d._succ[u][1:] if x is not None] if u in d._succ else []
            if set(d._succ) != keep:
                ctx.violation(P + ':mdd-gc', f'after collection nodes {sorted(d._succ)}, referenced closure {sorted(keep)}', case)
                return
        ctx.case(('mddop', tuple(lens), id(s), step), True)
        hc = {}
        for u in held:
            hc[abs(u)] = hc.get(abs(u), 0) + 1
        bad = mdd_table_problems(d, hc, after_gc=s.lines[-1].split()[1:2] == ['gc'])
        if bad:
            ctx.violation(P + ':mdd-gc', f'{bad[:3]}', case)
            return
        for u, tab in held.items():
            if abs(u) not in d._succ or table(u) != tab:
                ctx.violation(P + ':mdd-held-changed', f'held MDD reference {u} changed', case)
                return
    ctx.sample(dict(stream=s.label, first_lines=s.lines[:8]))


def mdd_reuse(ctx, lens, reps):
    """operands freed by a collection, their numbers re-used by other
    functions, the same connective asked again (results that are constants
    or held nodes survive the collection: a cache keyed by node numbers must
    not answer for the new operands)"""
    rng = ctx.rng
    nv = len(lens)
    space = list(itertools.product(*[range(n) for n in lens]))
    for rep in range(reps):
        s = ctx.session(f'mdd reuse lens={lens} rep={rep}')
        A = 'm0'
        s.op(A, 'new', {v: (v, lens[v]) for v in range(nv)})
        d = s.impl.mmgr[A]

        def table(u):
            return tuple(mdd_eval(d, u, dict(enumerate(vals))) for vals in space)

        def build(tab):
            def go(level, prefix):
                if level == nv:
                    return 1 if tab[space.index(tuple(prefix))] else -1
                kids = [go(level + 1, prefix + [j]) for j in range(lens[level])]
                if any(k is None for k in kids):
                    return None
                return s.op(A, 'find_or_add', level, kids)
            return go(0, [])
        case = lambda: dict(stream=s.label, lines=list(s.lines))  # noqa: E731
        for _ in range(4):
            name = rng.choice(['and', 'or', 'xor', 'equiv'])
            f = {'and': lambda x, y: x and y, 'or': lambda x, y: x or y, 'xor': lambda x, y: x != y,
                 'equiv': lambda x, y: x == y}[name]
            ta = tuple(rng.random() < 0.5 for _ in space)
            tb = tuple(not x for x in ta) if name in ('and', 'or') else ta   # constant result
            a, b = build(ta), build(tb)
            if a is None or b is None:
                continue
            s.op(A, 'apply', name, a, b, None)
            s.op(A, 'gc')
            # same first operand (same shape, so it tends to get the same number back)
            # (the first entry fixes the sign of the reference: keep it, so that the new
            # operands take the freed numbers in the same roles and with the same signs)
            def like(t):
                while True:
                    t2 = (t[0],) + tuple(rng.random() < 0.5 for _ in space[1:])
                    if len(set(t2)) > 1 or len(space) == 1:
                        return t2
            ta2 = ta if rng.random() < 0.3 else like(ta)
            tb2 = like(tb)
            a2, b2 = build(ta2), build(tb2)
            if a2 is None or b2 is None:
                continue
            r = s.op(A, 'apply', name, a2, b2, None)
            exp = tuple(f(x, y) for x, y in zip(ta2, tb2))
            ctx.case(('mdd-reuse', tuple(lens), name, ta, ta2, tb2), True)
            ctx.count('mdd:reuse')
            if r is None or abs(r) not in d._succ or table(r) != exp:
                ctx.violation('C15:mdd-op', f'MDD {name} after a collection and re-use of the operands\' '
                                            f'node numbers is not pointwise', case)
                break
            s.op(A, 'gc')


def run(ctx):
    q = ctx.quick
    for lens in ([2], [3], [4], [2, 2], [3, 2]):
        mdd_reuse(ctx, lens, (30 if len(lens) == 1 else 10) if q else 100)
    rng = ctx.rng
    shapes = [[1], [2], [3], [1, 1], [2, 1], [1, 2], [2, 2], [3, 2], [1, 1, 1], [2, 1, 2], [2, 2, 2], [3, 2, 1]]
    for shape in shapes:
        nbits = sum(shape)
        if nbits > 6:
            continue
        for _ in range(1 if q else 6):
            bits = list(range(nbits))
            rng.shuffle(bits)
            groups, k = [], 0
            for ln in shape:
                groups.append(bits[k:k + ln])
                k += ln
            orders = list(itertools.permutations(range(len(shape))))
            for int_order in (orders if not q else rng.sample(orders, min(2, len(orders)))):
                conversion(ctx, groups, list(int_order), rng.randint(1, 3))
    for lens in ([2], [3], [2, 2], [3, 2], [2, 3, 2], [4, 2]):
        for _ in range(2 if q else 12):
            mdd_ops(ctx, lens, 40 if q else 120)
    # managers that never collect, one after the other (last: the cases above stay the same)
    for lens in ([2], [3], [2, 2], [3, 2], [2, 3]):
        for _ in range(3 if q else 12):
            mdd_ops(ctx, lens, 25 if q else 60, collect=False)
