"""C01 - Boolean connectives and ITE compute exactly the stated truth function.

Streams (correspondence, model vs implementation, exact state unless noted):
  A  per order of 3 variables, on a fresh and on an aged manager: sampled
     pairs x every alias of every connective, sampled ITE triples (full
     digests after every operation);
  B  one long-lived manager holding all 256 functions of 3 variables:
     every pair for one alias per connective (quick: a stride of the pairs)
     and sampled triples (results only, digest at the end);
  C  random functions over 4..8 variables;
  F  dd.autoref `Function` operators and comparisons on handles of all 256
     functions of 3 variables (constant operands always; thorough: every pair
     for the comparisons).
Oracle: truth table of every result (walking succ()) against the connective
applied to the operands' truth tables.
"""
from .. import gen, oracle
from ..impl import vname

RULE = ('operands enumerated/sampled from the 256 functions of 3 variables '
        '(all orders; fresh and aged managers) and random functions of 4-8 '
        'variables; connectives interrupted by a dynamic reordering a few nodes into the call and '
        'retried (5-7 variables); a case is (order, history kind, operator alias, operand '
        'truth tables); non-trivial = operands not both constant; distinct by '
        'that signature')
EXHAUSTIVE = {'quick': False, 'thorough': False}
ASSUMES = ['operands are references of the manager (validity is a hypothesis of ite_correct)']

BIN = ['and', 'or', 'xor', 'implies', 'equiv', 'diff']


def _tt(b, u, names, memo):
    return oracle.tt_fast(b, u, [vname(i) for i in names], memo)


def _check(ctx, s, m, what, r, expect, names, memo, case):
    if r is None:
        ctx.violation('C01:rejected', f'{what} was rejected on valid operands', case)
        return
    b = s.impl.mgr[m]
    got = _tt(b, r, names, memo)
    if got != expect:
        ctx.violation('C01:wrong-function',
                      f'{what} returned truth table {got:#x}, expected {expect:#x}', case)


def stream_a(ctx, order, aged, npairs, ntriples):
    rng = ctx.rng
    nv = 3
    names = list(range(nv))
    full = (1 << (1 << nv)) - 1
    s = ctx.session(f'A order={order} aged={aged}')
    s.op(0, 'new', {v: l for v, l in zip(names, order)})
    held = gen.age(s, 0, rng, nv, steps=14) if aged else []
    for _ in range(npairs):
        a, c = rng.randrange(full + 1), rng.randrange(full + 1)
        fa = gen.build_tt(s, 0, a, names)
        fc = gen.build_tt(s, 0, c, names)
        memo = {}
        for name in BIN:
            for alias in gen.ALIASES[name]:
                r = s.op(0, 'apply', alias, fa, fc, None)
                case = (lambda: dict(stream=s.label, lines=list(s.lines)))
                _check(ctx, s, 0, f'apply({alias!r})', r,
                       gen.conn(name, a, c, full), names, memo, case)
                ctx.case((order, aged, alias, a, c), a not in (0, full) or c not in (0, full))
                ctx.count('op:' + name)
        for alias in gen.ALIASES['not']:
            r = s.op(0, 'apply', alias, fa, None, None)
            _check(ctx, s, 0, f'apply({alias!r})', r, ~a & full, names, memo,
                   lambda: dict(stream=s.label, lines=list(s.lines)))
            ctx.case((order, aged, alias, a), True)
            ctx.count('op:not')
        if aged and rng.random() < 0.3:
            s.op(0, 'gc', None)
    for _ in range(ntriples):
        a, c, d = (rng.randrange(full + 1) for _ in range(3))
        fa = gen.build_tt(s, 0, a, names)
        fc = gen.build_tt(s, 0, c, names)
        fd = gen.build_tt(s, 0, d, names)
        memo = {}
        for op in ('ite', 'apply'):
            if op == 'ite':
                r = s.op(0, 'ite', fa, fc, fd)
            else:
                r = s.op(0, 'apply', 'ite', fa, fc, fd)
            _check(ctx, s, 0, op + '(ite)', r, (a & c) | (~a & full & d), names, memo,
                   lambda: dict(stream=s.label, lines=list(s.lines)))
            ctx.case((order, aged, 'ite', a, c, d), True)
            ctx.count('op:ite')
    ctx.sample(dict(stream=s.label, first_lines=s.lines[:10]))


def stream_b(ctx, stride, ntriples):
    rng = ctx.rng
    nv = 3
    names = list(range(nv))
    full = 255
    s = ctx.session('B all-256 long-lived', full=False)
    s.op(0, 'new', {0: 0, 1: 1, 2: 2})
    f = []
    for t in range(256):
        u = gen.build_tt(s, 0, t, names)
        s.op(0, 'incref', u)
        f.append(u)
    b = s.impl.mgr[0]
    memo = {}
    tts = [_tt(b, u, names, memo) for u in f]
    if tts != list(range(256)):
        ctx.violation('C01:build', 'functions built by ite do not have their truth tables',
                      dict(stream=s.label))
    byref = {u: t for t, u in enumerate(f)}
    off = rng.randrange(stride)
    for name in BIN:
        alias = rng.choice(gen.ALIASES[name])
        for k in range(off, 65536, stride):
            a, c = k >> 8, k & 255
            r = s.op(0, 'apply', alias, f[a], f[c], None)
            e = gen.conn(name, a, c, full)
            # canonical manager holding all functions: the reference itself
            # must be the one of the expected function (checked semantically
            # when it is not)
            if r is None or byref.get(r) != e:
                got = None if r is None else _tt(b, r, names, memo)
                if got != e:
                    ctx.violation('C01:wrong-function',
                                  f'apply({alias!r}) on tt {a:#x},{c:#x} gave {got}, expected {e:#x}',
                                  dict(stream=s.label, op=alias, operands=[f[a], f[c]],
                                       setup='all 256 functions built by build_tt in order, each incref'))
            ctx.case(('B', alias, a, c), True)
            ctx.count('op:' + name)
    for _ in range(ntriples):
        a, c, d = (rng.randrange(256) for _ in range(3))
        r = s.op(0, 'ite', f[a], f[c], f[d])
        e = (a & c) | (~a & 255 & d)
        if r is None or byref.get(r) != e:
            got = None if r is None else _tt(b, r, names, memo)
            if got != e:
                ctx.violation('C01:wrong-function',
                              f'ite on tt {a:#x},{c:#x},{d:#x} gave {got}, expected {e:#x}',
                              dict(stream=s.label, operands=[f[a], f[c], f[d]]))
        ctx.case(('B', 'ite', a, c, d), True)
        ctx.count('op:ite')
    s.digest(0)


def stream_c(ctx, nv, nops):
    rng = ctx.rng
    names = list(range(nv))
    order = list(names)
    rng.shuffle(order)
    full = (1 << (1 << nv)) - 1
    s = ctx.session(f'C nv={nv}', full=(nv <= 5))
    s.op(0, 'new', {v: l for v, l in zip(names, order)})
    pool = []
    for _ in range(4):
        t = rng.getrandbits(1 << nv)
        u = gen.build_tt(s, 0, t, names)
        s.op(0, 'incref', u)
        pool.append((u, t))
    b = s.impl.mgr[0]
    for _ in range(nops):
        (fa, a), (fc, c), (fd, d) = (rng.choice(pool) for _ in range(3))
        memo = {}
        k = rng.random()
        if k < 0.7:
            name = rng.choice(BIN)
            alias = rng.choice(gen.ALIASES[name])
            r = s.op(0, 'apply', alias, fa, fc, None)
            e = gen.conn(name, a, c, full)
            what = f'apply({alias!r})'
        else:
            r = s.op(0, 'ite', fa, fc, fd)
            e = (a & c) | (~a & full & d)
            what = 'ite'
        _check(ctx, s, 0, what, r, e, names, memo, lambda: dict(stream=s.label, lines=list(s.lines)))
        ctx.case(('C', nv, what, a, c, d), True)
        ctx.count('op:random')
        if r is not None and rng.random() < 0.5:
            s.op(0, 'incref', r)
            pool.append((r, e))
        if rng.random() < 0.1:
            s.op(0, 'gc', None)
        if rng.random() < 0.08:
            x = rng.randrange(nv - 1)
            s.op(0, 'swap', x, x + 1)
    if not s.full:
        s.digest(0)


def stream_f(ctx, order, pairs_per_op, all_pairs):
    """the `Function` operators of dd.autoref (`~ & | implies equiv <= < == !=`) on handles of
    all 256 functions of 3 variables; every pair with a constant operand always, the other
    pairs sampled (thorough: every pair for the four comparisons)"""
    from .. import tt as T
    rng = ctx.rng
    nv = 3
    full = 255
    s = ctx.session(f'F operators order={order}', full=False)
    A = 'a0'
    s.op(A, 'new', {v: l for v, l in zip(range(nv), order)})
    H = {}
    H[0] = s.op(A, 'false')
    cubes = [s.op(A, 'cube', {j: bool(T.getbit(k, j, nv)) for j in range(nv)}) for k in range(8)]
    for t in range(1, 256):
        # t = (t without its lowest minterm) \/ that minterm
        low = t & -t
        H[t] = s.op(A, 'fapply', 'or', H[t ^ low], cubes[low.bit_length() - 1])
    bdd = s.impl.amgr[A]._bdd
    names = [vname(i) for i in range(nv)]
    memo = {}
    for t in (0, 1, 37, 128, 200, 254, 255):
        if _tt(bdd, s.impl.handles[A][H[t]].node, list(range(nv)), memo) != t:
            ctx.violation('C01:build', f'handle of {t:#x} built by | of cubes denotes something else',
                          dict(stream=s.label))
            return
    case = lambda: dict(stream=s.label, lines=list(s.lines))  # noqa: E731
    const_pairs = [(a, c) for a in (0, 255) for c in range(256)] + [(a, c) for a in range(256) for c in (0, 255)]

    def pairs_for(op):
        if all_pairs and op in ('le', 'lt', 'eq', 'ne'):
            return [(k >> 8, k & 255) for k in range(65536)]
        return const_pairs + [(rng.randrange(256), rng.randrange(256)) for _ in range(pairs_per_op)]
    for op in ('le', 'lt', 'eq', 'ne'):
        for a, c in pairs_for(op):
            r = s.op(A, op, H[a], H[c])
            e = {'eq': a == c, 'ne': a != c, 'le': (a & ~c & full) == 0,
                 'lt': (a & ~c & full) == 0 and a != c}[op]
            ctx.case(('F', op, a, c), True)
            ctx.count('fop:' + op)
            if r is not e:
                ctx.violation('C01:function-operator',
                              f'Function {op}: ({a:#x} {op} {c:#x}) returned {r}, expected {e}', case)
                return
    for op in ('and', 'or', 'implies', 'equiv', 'not'):
        for a, c in pairs_for(op):
            if op == 'not':
                h = s.op(A, 'fapply', 'not', H[a], None)
                e = a ^ full
            else:
                h = s.op(A, 'fapply', op, H[a], H[c])
                e = gen.conn(op, a, c, full)
            ctx.case(('F', op, a, c), True)
            ctx.count('fop:' + op)
            got = None if h is None else _tt(bdd, s.impl.handles[A][h].node, list(range(nv)), memo)
            if got != e:
                ctx.violation('C01:function-operator',
                              f'Function {op} on {a:#x},{c:#x} gave {got}, expected {e:#x}', case)
                return
            # the manager holds every function: the node must be THE node of the result
            if s.impl.handles[A][h].node != s.impl.handles[A][H[e]].node:
                ctx.violation('C01:function-operator',
                              f'Function {op} on {a:#x},{c:#x}: a second reference for {e:#x}', case)
                return
            s.op(A, 'drop', h)
    s.digest(A)


def stream_d(ctx, nv, nops):
    """connectives INTERRUPTED by a dynamic reordering and retried: the threshold is set so
    that the request fires a few nodes into the call; the reordering begins with a collection
    that frees the temporaries of the aborted attempt, the swaps re-use their numbers, and the
    retry (and the calls after it) must not meet anything remembered for those numbers
    (round-22 seed: the computed table of the aborted attempt kept for the retry)"""
    rng = ctx.rng
    names = list(range(nv))
    order = list(names)
    rng.shuffle(order)
    full = (1 << (1 << nv)) - 1
    s = ctx.session(f'D interrupted nv={nv}', full=False)
    s.op(0, 'new', {v: l for v, l in zip(names, order)})
    pool = []
    for _ in range(4):
        t = rng.getrandbits(1 << nv)
        u = gen.build_tt(s, 0, t, names)
        s.op(0, 'incref', u)
        pool.append((u, t))
    b = s.impl.mgr[0]
    s.op(0, 'configure', True)
    case = lambda: dict(stream=s.label, lines=list(s.lines))  # noqa: E731
    for _ in range(nops):
        (fa, a), (fc, c), (fd, d) = (rng.choice(pool) for _ in range(3))
        memo = {}
        delta = rng.choice([1, 2, 3, 4, 6, 9])
        s.op(0, 'set_last_len', (len(b) + delta + 1) // 2)
        if rng.random() < 0.75:
            name = rng.choice(BIN)
            alias = rng.choice(gen.ALIASES[name])
            r = s.op(0, 'apply', alias, fa, fc, None)
            e = gen.conn(name, a, c, full)
            what = f'apply({alias!r}) interrupted after about {delta} nodes'
        else:
            r = s.op(0, 'ite', fa, fc, fd)
            e = (a & c) | (~a & full & d)
            what = f'ite interrupted after about {delta} nodes'
        # (the order may have changed: evaluation is by name; held references are re-read below)
        _check(ctx, s, 0, what, r, e, names, memo, case)
        ctx.case(('D', nv, what, a, c, d), True)
        ctx.count('op:interrupted')
        if r is not None and rng.random() < 0.5:
            s.op(0, 'incref', r)
            pool.append((r, e))
        if len(pool) > 6 and rng.random() < 0.4:
            u, _ = pool.pop(rng.randrange(len(pool)))
            s.op(0, 'decref', u)
        for (u, t) in pool:
            if abs(u) not in b._succ or _tt(b, u, names, {}) != t:
                ctx.violation('C01:wrong-function', 'a held reference changed across an interrupted connective', case)
                return
    s.op(0, 'configure', False)
    s.digest(0)


def run(ctx):
    q = ctx.quick
    for order in (ctx.rng.sample(gen.orders(3), 1) if q else gen.orders(3)[:2]):
        stream_f(ctx, order, pairs_per_op=300 if q else 5000, all_pairs=not q)
    gen.reuse_scenarios(ctx, 'C01:wrong-function', 'C01', reps=12 if q else 150)
    for order in gen.orders(3):
        for aged in (False, True):
            stream_a(ctx, order, aged, npairs=3 if q else 20, ntriples=6 if q else 60)
    stream_b(ctx, stride=17 if q else 1, ntriples=3000 if q else 200000)
    for nv in ((4, 6, 8) if q else (4, 5, 6, 7, 8, 8)):
        stream_c(ctx, nv, 40 if q else 300)
    # (last, so that the streams above are the same cases as before for a given seed)
    for nv in ((5, 6, 6) if q else (4, 5, 5, 6, 6, 6, 7)):
        stream_d(ctx, nv, 40 if q else 200)


def replay(payload):
    import json
    print(json.dumps(payload, indent=1)[:4000])
    case = payload.get('case') or {}
    lines = case.get('lines')
    if lines:
        from .. import session as S
        e = S.replay_impl(lines)
        g = S.run_model(lines)
        for l, a, c in zip(lines, e, g):
            print(l)
            print('  impl :', a)
            print('  model:', c)
    return 0
