"""C12 - dump/load round-trips (pickle, JSON, manager) restore the same
functions."""
from .. import gen, oracle, tt as T
from .base import Mgr, replay  # noqa: F401
from ..impl import vname

RULE = ('tuples of functions by truth table (<=4 variables) x roots as list/dict/None x receiver '
        '(fresh | same manager | pre-declared same order | pre-declared other order) x levels '
        'true/false x (JSON: load_order true/false); constants among the roots included; a case '
        'is that tuple; non-trivial = some root non-constant')
EXHAUSTIVE = {'quick': False, 'thorough': False}
ASSUMES = ['pickle/json/shelve are faithful containers: the model works on the parsed contents '
           '(the JSON text is re-written by the harness in the format dd._copy writes)']


def by_name(b, u, n):
    return oracle.tt_fast(b, u, [vname(i) for i in range(n)])


def pickle_case(ctx, n, order, tts, kind, receiver, levels):
    rng = ctx.rng
    aged = rng.random() < 0.5
    raged = rng.random() < 0.5
    s = ctx.session(f'pickle n={n} order={order} roots={kind} recv={receiver} levels={levels} '
                    f'aged={aged}/{raged}')
    # the source may have a prior history (collections, re-used numbers, swaps)
    src = Mgr(ctx, None, n, order, m=0, session=s, aged=aged)
    refs = []
    for t in tts:
        u = src.build(t)
        src.op('incref', u)
        refs.append(u * ctx.rng.choice([1, -1]))
    tts = [by_name(src.b, u, n) for u in refs]
    order = [src.b.vars[vname(v)] for v in range(n)]   # the order at dump time
    if kind == 'list':
        roots = list(refs)
    elif kind == 'dict':
        roots = {10 + i: u for i, u in enumerate(refs)}
    else:
        roots = None
    s.op(0, 'dump', 1, roots)
    if receiver == 'fresh':
        s.op(1, 'new', {})
        m = 1
    elif receiver == 'same':
        m = 0
    elif receiver == 'declared-same':
        # the receiver may hold other functions and have freed numbers
        Mgr(ctx, None, n, order, m=1, session=s, aged=raged, keep_order=True)
        m = 1
    else:
        other = list(order)
        other.reverse()
        if other == list(order):
            return
        Mgr(ctx, None, n, other, m=1, session=s, aged=raged, keep_order=True)
        m = 1
    # a third of the loads with dynamic reordering ENABLED in the receiver, the threshold
    # already reached: the loader serves no request and leaves the threshold alone
    dyn = rng.random() < 0.34
    if dyn:
        s.op(m, 'configure', True)
        s.op(m, 'set_last_len', 1)
    r = s.op(m, 'load', 1, levels)
    res = s.last_result()
    if dyn:
        ctx.count('pickle:dynamic-receiver')
        if s.impl.mgr[m]._last_len != 1:
            ctx.violation('C12:threshold-changed',
                          f'the reordering threshold is {s.impl.mgr[m]._last_len} after load, was 1',
                          lambda: dict(stream=s.label, lines=list(s.lines)))
        s.op(m, 'configure', False)
    case = lambda: dict(stream=s.label, lines=list(s.lines))  # noqa: E731
    ctx.case((n, tuple(order), tuple(tts), kind, receiver, levels), any(t not in (0, T.full(n)) for t in tts))
    ctx.count(f'pickle:{receiver}:{levels}')
    b = s.impl.mgr[m]
    if not res.startswith('ok:'):
        if receiver == 'declared-other' and levels:
            ctx.count('pickle:other-order-rejected')   # the loader refuses: allowed
        elif res == 'err:needs_reordering':
            ctx.violation('C12:signal', 'load raised the reordering signal', case)
        else:
            ctx.violation('C12:pickle-load-failed', f'load failed for roots={kind}, receiver={receiver}', case)
    else:
        if kind == 'none':
            if r is not None:
                ctx.violation('C12:pickle-roots', 'roots=None loaded as something', case)
        else:
            got = [u for _, u in r] if kind == 'dict' else list(r)
            keys_ok = kind != 'dict' or [k for k, _ in r] == list(roots)
            if not keys_ok or len(got) != len(refs):
                ctx.violation('C12:pickle-roots', f'roots container changed: {r}', case)
            else:
                for u, t in zip(got, tts):
                    if abs(u) not in b._succ or by_name(b, u, n) != t:
                        ctx.violation('C12:pickle-wrong-function', f'loaded root {u} does not denote the dumped function {t:#x} '
                                           f'(receiver {receiver}, levels={levels})', case)
                        break
        bad = oracle.check_table(b)
        if bad:
            ctx.violation('C12:receiver-not-canonical', f'receiver not canonical after load: {bad[:2]}', case)
    for u in refs:
        s.op(0, 'decref', u)


def manager_case(ctx, n, order, tts):
    s = ctx.session(f'manager pickle n={n} order={order}')
    src = Mgr(ctx, None, n, order, m=0, session=s)
    refs = []
    for t in tts:
        u = src.build(t)
        src.op('incref', u)
        refs.append(u)
    src.op('set_roots', refs)
    if ctx.rng.random() < 0.5:
        src.op('gc', None)
    s.op(0, 'dump_manager', 5)
    s.op(1, 'load_manager', 5)
    a, b = s.impl.mgr[0], s.impl.mgr[1]
    ctx.case(('manager', n, tuple(order), tuple(tts)), True)
    ctx.count('manager')
    same = (a._succ == b._succ and a._pred == b._pred and a._ref == b._ref and
            a._min_free == b._min_free and a.vars == b.vars and a.roots == b.roots and
            a._level_to_var == b._level_to_var)
    if not same:
        ctx.violation('C12:manager-roundtrip', 'the reloaded manager differs from the dumped one',
                      lambda: dict(stream=s.label, lines=list(s.lines)))
    # the reloaded manager works
    for u in refs:
        s.op(1, 'apply', 'not', u, None, None)
    for u in refs:
        s.op(0, 'decref', u)
        s.op(1, 'decref', u)


def abuild(s, A, t, n):
    """handle of the function with truth table t (by variable ids 0..n-1) in autoref manager A"""
    def cube(k):
        return s.op(A, 'cube', {j: bool(T.getbit(k, j, n)) for j in range(n)})
    f = s.op(A, 'false')
    for k in range(1 << n):
        if (t >> k) & 1:
            c = cube(k)
            g = s.op(A, 'apply', 'or', f, c, None)
            s.op(A, 'drop', f)
            s.op(A, 'drop', c)
            f = g
    return f


def json_case(ctx, n, order, tts, kind, receiver, load_order, force_dyn=False):
    """dd.autoref dump/load of JSON: the implementation and the model run the
    same lines; the file contents travel as the dump's result and the load's
    arguments"""
    from ..impl import JNodes
    s = ctx.session(f'json n={n} order={order} roots={kind} recv={receiver} load_order={load_order}')
    A = 'a0'
    s.op(A, 'new', {v: l for v, l in zip(range(n), order)})
    hs = []
    for t in tts:
        f = abuild(s, A, t, n)
        if ctx.rng.random() < 0.5:
            g = s.op(A, 'fapply', 'not', f, None)
            s.op(A, 'drop', f)
            f = g
        hs.append(f)
    a = s.impl.amgr[A]
    H = s.impl.handles
    exp = [by_name(a._bdd, H[A][h].node, n) for h in hs]
    roots = list(hs) if kind == 'list' else {10 + i: h for i, h in enumerate(hs)}
    case = lambda: dict(stream=s.label, lines=list(s.lines))  # noqa: E731
    ctx.case(('json', n, tuple(order), tuple(exp), kind, receiver, load_order), True)
    ctx.count(f'json:{receiver}:{load_order}')
    d = s.op(A, 'json_dump', roots)
    if d is None:
        ctx.violation('C12:json-failed', 'JSON dump was rejected', case)
        return
    lv, rt, ns = d
    if receiver == 'fresh':
        R = 'a1'
        s.op(R, 'new', {})
    elif receiver == 'same':
        R = A
    elif receiver == 'declared-same':
        R = 'a1'
        s.op(R, 'new', {v: l for v, l in zip(range(n), order)})
    else:
        R = 'a1'
        s.op(R, 'new', {v: l for v, l in zip(range(n), reversed(order))})
    if R != A and ctx.rng.random() < 0.3:
        # the receiver is in use: other functions and handles
        for _ in range(2):
            abuild(s, R, ctx.rng.getrandbits(1 << n), n) if s.impl.amgr[R].vars else None
    # a third of the loads with dynamic reordering ENABLED in the receiver and the threshold
    # so low that requests are served in the middle of the file
    dyn = bool(s.impl.amgr[R].vars) and (force_dyn or ctx.rng.random() < 0.34)
    if dyn:
        s.op(R, 'configure', True)
        s.op(R, 'set_last_len', ctx.rng.choice([1, 2, 3]))
        ctx.count('json:dynamic-receiver')
    got = s.op(R, 'json_load', {v: l for v, l in lv},
               {k: u for k, u in rt} if kind == 'dict' else rt,
               JNodes(tuple(x) for x in ns), load_order)
    if got is None:
        ctx.violation('C12:json-failed', f'JSON load was rejected ({s.last_result()})', case)
        return
    if dyn:
        if not load_order and s.impl.amgr[R]._bdd._last_len is None:
            ctx.violation('C12:json-receiver', 'dynamic reordering is disabled after the load', case)
        s.op(R, 'configure', False)
    gl = [h for _, h in got] if kind == 'dict' else list(got)
    if kind == 'dict' and [k for k, _ in got] != list(roots):
        ctx.violation('C12:json-roots', 'root names changed', case)
    r = s.impl.amgr[R]
    for h, t in zip(gl, exp):
        if by_name(r._bdd, H[R][h].node, n) != t:
            ctx.violation('C12:json-wrong-function', f'JSON round trip changed {t:#x}', case)
            break
    if load_order and R != A:
        want = {vname(v): l for v, l in zip(range(n), order)}
        if any(r.vars.get(x) != l for x, l in want.items()) and receiver == 'fresh':
            ctx.violation('C12:json-order', 'load_order=True did not restore the dumped order', case)
    ext = {1: 1}
    for u in [abs(f.node) for f in H[R].values()]:
        ext[u] = ext.get(u, 0) + 1
    bad = oracle.check_table(r._bdd, external=ext)
    if bad:
        ctx.violation('C12:json-receiver', f'receiver counts/table after JSON load: {bad[:2]}', case)
    # the loaded functions stay usable and are released like any other
    for h in gl:
        s.op(R, 'drop', h)
    s.op(R, 'gc')


def autoref_pickle(ctx, n, order, tts, kind, receiver, levels):
    """pickle round trip through dd.autoref (`Function` roots): implementation and oracle
    only (the model has the pickle operations for dd.bdd managers; the autoref wrapper
    converts the roots with `_utils._map_container`).  Roots include a function together
    with its negation and both constants: every returned Function denotes the dumped
    function under the same name/position, and each holds exactly one reference."""
    import os
    import shutil
    import tempfile
    import dd.autoref as _a
    rng = ctx.rng
    names = [vname(i) for i in range(n)]
    src = _a.BDD()
    for v in sorted(range(n), key=lambda v: order[v]):
        src.add_var(vname(v))
    fs = []
    for t in tts:
        f = src.false
        for k in range(1 << n):
            if (t >> k) & 1:
                f = f | src.cube({names[j]: bool(T.getbit(k, j, n)) for j in range(n)})
        fs.append(f)
    fs = fs + [~fs[0], src.true, src.false]
    exp = [by_name(src._bdd, f.node, n) for f in fs]
    roots = list(fs) if kind == 'list' else {f'r{i}': f for i, f in enumerate(fs)}
    d = tempfile.mkdtemp(prefix='ddverif')
    case = dict(stream=f'autoref pickle n={n} order={order} roots={kind} recv={receiver} levels={levels}',
                functions=[hex(t) for t in exp])
    try:
        fn = os.path.join(d, 'roots.p')
        src.dump(fn, roots)
        if receiver == 'same':
            tgt = src
        else:
            tgt = _a.BDD()
            if receiver == 'declared-same':
                for v in sorted(range(n), key=lambda v: order[v]):
                    tgt.add_var(vname(v))
            elif receiver == 'declared-other':
                for v in sorted(range(n), key=lambda v: -order[v]):
                    tgt.add_var(vname(v))
        ctx.case(('autoref-pickle', n, tuple(order), tuple(exp), kind, receiver, levels), True)
        ctx.count('autoref-pickle')
        try:
            got = tgt.load(fn, levels=levels)
        except Exception as e:  # noqa: B902
            if receiver == 'declared-other' and levels:
                return          # refused: allowed
            ctx.violation('C12:pickle-load-failed', f'autoref load raised {type(e).__name__}', case)
            return
        gl = list(got.values()) if kind == 'dict' else list(got)
        if kind == 'dict' and list(got) != list(roots):
            ctx.violation('C12:pickle-roots', 'root names changed', case)
        if len(gl) != len(exp):
            ctx.violation('C12:pickle-roots', 'number of roots changed', case)
            return
        for i, (g, t) in enumerate(zip(gl, exp)):
            if by_name(tgt._bdd, g.node, n) != t:
                ctx.violation('C12:pickle-wrong-function',
                              f'autoref load: root {i} denotes {by_name(tgt._bdd, g.node, n):#x}, dumped {t:#x}', case)
                break
        # counts: one reference per live Function (the harness holds fs and gl)
        ext = {1: 1}
        live = gl + (fs if tgt is src else [])
        for f in live:
            ext[abs(f.node)] = ext.get(abs(f.node), 0) + 1
        bad = oracle.check_table(tgt._bdd, external=ext)
        if bad:
            ctx.violation('C12:receiver-not-canonical', f'autoref load: {bad[:2]}', case)
    finally:
        shutil.rmtree(d, ignore_errors=True)


def run(ctx):
    q = ctx.quick
    rng = ctx.rng
    recvs = ['fresh', 'same', 'declared-same', 'declared-other']
    for _ in range(12 if q else 150):
        n = rng.choice([2, 3, 4])
        autoref_pickle(ctx, n, rng.choice(gen.orders(n)), [rng.getrandbits(1 << n) for _ in range(rng.randint(1, 2))],
                       rng.choice(['list', 'dict']), rng.choice(recvs), rng.random() < 0.5)
    for n in (2, 3, 4):
        orders = gen.orders(n)
        for _ in range(6 if q else 60):
            order = rng.choice(orders)
            k = rng.randint(1, 3)
            full = T.full(n)
            tts = [rng.choice([0, full, rng.getrandbits(1 << n), rng.getrandbits(1 << n)]) for _ in range(k)]
            for kind in ('list', 'dict', 'none'):
                for receiver in recvs:
                    for levels in (True, False):
                        if q and rng.random() < 0.5:
                            continue
                        pickle_case(ctx, n, order, tts, kind, receiver, levels)
            manager_case(ctx, n, order, tts)
            for kind in ('list', 'dict'):
                for receiver in recvs:
                    for lo in (False, True):
                        if rng.random() < (0.8 if q else 0.3):
                            continue
                        json_case(ctx, n, order, [t for t in tts], kind, receiver, lo)
    # larger files read into receivers with dynamic reordering enabled: several requests are
    # served while the file is read (nothing the loader keeps may go stale)
    for _ in range(6 if q else 60):
        n = rng.choice([4, 5])
        order = rng.choice(gen.orders(4)) if n == 4 else tuple(rng.sample(range(5), 5))
        tts = [rng.getrandbits(1 << n) for _ in range(rng.randint(3, 4))]
        json_case(ctx, n, order, tts, rng.choice(['list', 'dict']),
                  rng.choice(['declared-same', 'declared-other', 'same']), False, force_dyn=True)
