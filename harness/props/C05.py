"""C05 - add_expr gives each formula its documented meaning; to_expr
round-trips."""
import itertools

from .. import gen, oracle, tt as T
from .base import Mgr, replay  # noqa: F401
from ..impl import vname, Spellings

RULE = ('formulas of the documented grammar: (i) every pair of binary-operator spellings in '
        '`a o1 b o2 c`, every spelling after `~`/`!` and after/before a quantifier (exhaustive); '
        '(ii) random syntax trees to depth 5 printed with minimal and with redundant parentheses, '
        'all spellings, constants, ite, quantifiers, \\S renaming, @n references of both signs; '
        '(iii) every \\S list of two or three pairs over the variables (swaps, rotations, chains) in both '
        'written orders over held nodes and formulas (simultaneous substitution); '
        'dd.bdd and dd.autoref; every order of 3 variables; non-trivial = non-constant result')
EXHAUSTIVE = {'quick': False, 'thorough': False}
ASSUMES = ['comments and white space are handled by the regex lexer: exercised on the implementation only']

# documented spellings (doc.md, grammar + precedence list), by connective
SPELL = {
    'and': ['/\\', '&', '&&'], 'or': ['\\/', '|', '||'], 'xor': ['#', '^'],
    'implies': ['=>', '->'], 'equiv': ['<=>', '<->'], 'diff': ['-'],
}
# documented precedence, lowest to highest (binary operators)
PREC = ['equiv', 'implies', 'diff', 'xor', 'or', 'and']
NOTS = ['~', '!']
N = 3
FULL = T.full(N)


def sem(conn, a, b):
    return gen.conn(conn, a, b, FULL)


class Node:
    pass


def rand_tree(rng, depth, nodes):
    """random syntax tree: tuples ('var', j) | ('const', b, spelling) |
    ('at', ref, tt) | ('not', sp, t) | ('bin', conn, sp, l, r) | ('ite', a, b, c) |
    ('q', fa, [vars], t) | ('s', {old: new}, t)"""
    r = rng.random()
    if depth == 0 or r < 0.2:
        k = rng.random()
        if k < 0.6:
            return ('var', rng.randrange(N))
        if k < 0.8 or not nodes:
            b = rng.random() < 0.5
            return ('const', b, rng.choice(['TRUE', 'True', 'true'] if b else ['FALSE', 'False', 'false']))
        u, t = rng.choice(nodes)
        sgn = rng.choice([1, -1])
        return ('at', sgn * u, t if sgn == 1 else T.neg(t, N))
    if r < 0.6:
        conn = rng.choice(list(SPELL))
        return ('bin', conn, rng.choice(SPELL[conn]), rand_tree(rng, depth - 1, nodes), rand_tree(rng, depth - 1, nodes))
    if r < 0.72:
        return ('not', rng.choice(NOTS), rand_tree(rng, depth - 1, nodes))
    if r < 0.82:
        return ('q', rng.random() < 0.5, rng.sample(range(N), rng.randint(1, 2)), rand_tree(rng, depth - 1, nodes))
    if r < 0.9:
        ks = rng.sample(range(N), rng.randint(1, 2))
        return ('s', {k: rng.randrange(N) for k in ks}, rand_tree(rng, depth - 1, nodes))
    return ('ite', rand_tree(rng, depth - 1, nodes), rand_tree(rng, depth - 1, nodes), rand_tree(rng, depth - 1, nodes))


def value(t):
    k = t[0]
    if k == 'var':
        return T.var(t[1], N)
    if k == 'const':
        return FULL if t[1] else 0
    if k == 'at':
        return t[2]
    if k == 'not':
        return T.neg(value(t[2]), N)
    if k == 'bin':
        return sem(t[1], value(t[3]), value(t[4]))
    if k == 'ite':
        return T.ite(value(t[1]), value(t[2]), value(t[3]), N)
    if k == 'q':
        v = value(t[3])
        return T.forall(v, N, t[2]) if t[1] else T.exists(v, N, t[2])
    if k == 's':
        return T.rename(value(t[2]), N, t[1])
    raise ValueError(k)


def prec_of(t):
    if t[0] == 'bin':
        return PREC.index(t[1])
    if t[0] in ('q', 's'):
        return -1          # binders extend as far as possible
    return 100


def spell(t, rng, redundant):
    """token spellings with minimal (or redundant) parentheses"""
    k = t[0]

    def paren(x):
        return ['('] + x + [')']
    if k == 'var':
        out = [vname(t[1])]
    elif k == 'const':
        out = [t[2]]
    elif k == 'at':
        out = ['@', str(t[1])] if t[1] > 0 else ['@', '-', str(-t[1])]
    elif k == 'not':
        x = spell(t[2], rng, redundant)
        out = [t[1]] + (x if prec_of(t[2]) == 100 else paren(x))
    elif k == 'bin':
        p = prec_of(t)
        l = spell(t[3], rng, redundant)
        r = spell(t[4], rng, redundant)
        if prec_of(t[3]) < p:
            l = paren(l)
        if prec_of(t[4]) <= p:      # left associative: equal precedence on the right needs parentheses
            r = paren(r)
        out = l + [t[2]] + r
    elif k == 'ite':
        out = ['ite', '('] + spell(t[1], rng, redundant) + [','] + spell(t[2], rng, redundant) + \
              [','] + spell(t[3], rng, redundant) + [')']
    elif k == 'q':
        names = []
        for j in t[2]:
            names += [vname(j), ',']
        out = ['\\A' if t[1] else '\\E'] + names[:-1] + [':'] + spell(t[3], rng, redundant)
    elif k == 's':
        subs = []
        for old, new in t[1].items():
            subs += [vname(new), '/', vname(old), ',']
        out = ['\\S'] + subs[:-1] + [':'] + spell(t[2], rng, redundant)
    if redundant and rng.random() < 0.3:
        out = paren(out)
    return out


def check(ctx, M, sp, expect, what, autoref=None):
    s = M.s
    if autoref:
        h = s.op(autoref, 'add_expr', Spellings(sp))
        res = s.last_result()
        got = None
        if h is not None:
            node = s.impl.handles[autoref][h].node
            got = oracle.tt_fast(s.impl.amgr[autoref]._bdd, node, [vname(i) for i in range(N)])
    else:
        r = M.op('add_expr', Spellings(sp))
        res = s.last_result()
        got = None if r is None else M.tt(r)
    if not res.startswith('ok:'):
        ctx.violation('C05:rejected', f'{what}: add_expr rejected `{" ".join(sp)}`', M.case())
    elif got != expect:
        ctx.violation('C05:wrong-meaning',
                      f'{what}: `{" ".join(sp)}` denotes {got:#x}, documented meaning {expect:#x}', M.case())
    return res


def pairs_stream(ctx, order):
    """every precedence pair, every spelling"""
    M = Mgr(ctx, f'precedence pairs order={order}', N, order)
    a, b, c = (T.var(j, N) for j in range(3))
    allsp = [(conn, sp) for conn in SPELL for sp in SPELL[conn]]
    for (c1, s1), (c2, s2) in itertools.product(allsp, repeat=2):
        p1, p2 = PREC.index(c1), PREC.index(c2)
        if p1 >= p2:
            e = sem(c2, sem(c1, a, b), c)
        else:
            e = sem(c1, a, sem(c2, b, c))
        sp = ['v0', s1, 'v1', s2, 'v2']
        check(ctx, M, sp, e, 'binary pair')
        M.s.parse(sp)
        ctx.case(('pair', order, s1, s2), True)
        ctx.count('pairs')
    for (c1, s1) in allsp:
        for n in NOTS:
            check(ctx, M, [n, 'v0', s1, 'v1'], sem(c1, T.neg(a, N), b), 'negation binds tighter')
            check(ctx, M, ['v0', s1, n, 'v1'], sem(c1, a, T.neg(b, N)), 'negation operand')
            ctx.case(('not', order, n, s1), True)
        for q, fa in (('\\E', False), ('\\A', True)):
            body = sem(c1, a, b)
            e = T.forall(body, N, [0]) if fa else T.exists(body, N, [0])
            check(ctx, M, [q, 'v0', ':', 'v0', s1, 'v1'], e, 'quantifier scope extends right')
            for (c2, s2) in allsp[::3]:
                inner = sem(c2, b, c)
                qd = T.forall(inner, N, [1]) if fa else T.exists(inner, N, [1])
                check(ctx, M, ['v0', s1, q, 'v1', ':', 'v1', s2, 'v2'], sem(c1, a, qd),
                      'quantifier as right operand')
                M.s.parse(['v0', s1, q, 'v1', ':', 'v1', s2, 'v2'])
            ctx.case(('quant', order, q, s1), True)
    # documented meanings of => <=> # ite, and "-" as a /\ ~b
    check(ctx, M, ['ite', '(', 'v0', ',', 'v1', ',', 'v2', ')'], (a & b) | (T.neg(a, N) & c), 'ite')
    check(ctx, M, ['v0', '-', 'v1'], a & T.neg(b, N), 'diff')
    M.check_table('C05:table')


def random_stream(ctx, order, ntrees, autoref):
    aged = (not autoref) and ctx.rng.random() < 0.5
    M = Mgr(ctx, f'random formulas order={order} autoref={autoref} aged={aged}', N, order, aged=aged)
    rng = ctx.rng
    s = M.s
    A = None
    if autoref:
        A = 'a0'
        s.op(A, 'new', {v: l for v, l in zip(range(N), order)})
    nodes = []
    for _ in range(3):
        t = rng.getrandbits(1 << N)
        if not autoref:
            u = M.build(t)
            if u is not None and abs(u) != 1:
                M.op('incref', u)
                nodes.append((u, t))
    for _ in range(ntrees):
        tree = rand_tree(rng, rng.randint(1, 5), nodes)
        e = value(tree)
        for redundant in (False, True):
            sp = spell(tree, rng, redundant)
            check(ctx, M, sp, e, 'random formula', autoref=A)
            s.parse(sp)
            ctx.case(('random', order, tuple(sp)), e not in (0, FULL))
            ctx.count('random')
        # comments and spacing: implementation only
        if not autoref and rng.random() < 0.3:
            text = ' '.join(sp[:1]) + ' (* a comment *) ' + '  '.join(sp[1:]) + ' \\* trailing'
            import copy
            b2 = copy.copy(M.b)       # throw-away copy: the session's manager is not touched
            try:
                r = b2.add_expr(text)
                got = oracle.tt_fast(b2, r, [vname(i) for i in range(N)])
                if got != e:
                    ctx.violation('C05:comments', f'`{text}` denotes {got:#x}, expected {e:#x}', M.case())
            except Exception as ex:  # noqa: B902
                ctx.violation('C05:comments', f'`{text}` raised {type(ex).__name__}', M.case())
            finally:
                b2._ref = {1: 0}
    # to_expr round trip on everything alive
    if not autoref:
        for u in list(M.b._succ):
            for sgn in (1, -1):
                text = M.op('to_expr', sgn * u)
                if text is None:
                    ctx.violation('C05:to_expr', f'to_expr({sgn * u}) raised', M.case())
                    continue
                import re
                toks = re.findall(r"[A-Za-z_][A-Za-z0-9_'.]*|[(),~]", text)
                r = M.op('add_expr', Spellings(toks))
                from ..impl import Text
                r2 = M.op('add_expr_text', Text(text))     # the printed text itself
                if r2 != sgn * u:
                    ctx.violation('C05:roundtrip', f'add_expr(to_expr({sgn * u})) = {r2} (raw text)', M.case())
                ctx.case(('roundtrip', order, text), abs(u) != 1)
                ctx.count('roundtrip')
                if r != sgn * u:
                    ctx.violation('C05:roundtrip', f'add_expr(to_expr({sgn * u})) = {r}', M.case())
    M.check_table('C05:table')
    # printing again after a collection: freed numbers are taken by other functions (no
    # reordering in between); every printed text must still denote its node
    if not autoref:
        import re
        for _ in range(3):
            for (u, _) in nodes:
                M.op('decref', u)
            nodes = []
            M.op('gc', None)
            for _ in range(3):
                t = rng.getrandbits(1 << N)
                u = M.build(t)
                if u is not None and abs(u) != 1:
                    M.op('incref', u)
                    nodes.append((u, t))
            for u in list(M.b._succ):
                for sgn in (1, -1):
                    text = M.op('to_expr', sgn * u)
                    if text is None:
                        continue
                    toks = re.findall(r"[A-Za-z_][A-Za-z0-9_'.]*|[(),~]", text)
                    r = M.op('add_expr', Spellings(toks))
                    ctx.case(('roundtrip-after-gc', order, text), abs(u) != 1)
                    ctx.count('roundtrip-after-gc')
                    if r != sgn * u:
                        ctx.violation('C05:roundtrip',
                                      f'after a collection and re-use of node numbers: add_expr(to_expr({sgn * u})) = {r}',
                                      M.case())
                        return
    ctx.sample(dict(stream=s.label, first_lines=s.lines[:6]))


def subst_stream(ctx, order, nbodies, autoref):
    """`\\S new/old, ...: body` is a SIMULTANEOUS substitution: every list of two or three pairs
    over the variables (swaps, rotations, chains, several variables to one), written in both
    orders, over arbitrary bodies (held nodes by `@` and small formulas)"""
    import itertools
    rng = ctx.rng
    M = Mgr(ctx, f'substitution lists order={order} autoref={autoref}', N, order)
    s = M.s
    A = None
    bodies = [('bin', 'and', '/\\', ('var', 0), ('not', '~', ('var', 1))),
              ('bin', 'or', '\\/', ('bin', 'and', '&', ('var', 0), ('var', 1)), ('not', '!', ('var', 2)))]
    if autoref:
        A = 'a0'
        s.op(A, 'new', {v: l for v, l in zip(range(N), order)})
        bodies += [rand_tree(rng, 3, []) for _ in range(nbodies)]
    else:
        for _ in range(nbodies):
            t = rng.getrandbits(1 << N)
            u = M.build(t)
            if u is not None and abs(u) != 1:
                M.op('incref', u)
                bodies.append(('at', u, t))
    maps = []
    for img in itertools.product([None] + list(range(N)), repeat=N):
        d = {j: y for j, y in enumerate(img) if y is not None}
        if len(d) >= 2:
            maps.append(d)
    for body in bodies:
        for d in maps:
            items = list(d.items())
            for it in (items, items[::-1]):
                tree = ('s', dict(it), body)
                e = value(tree)
                sp = spell(tree, rng, False)
                check(ctx, M, sp, e, 'substitution list', autoref=A)
                ctx.case(('subst', order, tuple(sp)), e not in (0, FULL))
                ctx.count('subst-list')
    M.check_table('C05:table')
    ctx.sample(dict(stream=s.label, first_lines=s.lines[:6]))


SEPS = ['', '', ' ', '  ', '\t', '\n', ' \n ', ' (* c *) ', '(**)', ' \\* to the end\n', '(* a \\* b *)',
        '(***)', '(** d **)', '(* e **)', '(****)', '(* f * g ) *)', '(*)*)']


def glue(rng, sp):
    """a raw text for the token spellings: random separators, also none at all where the
    neighbouring spellings stay apart (two names, a name and a number, and operator
    characters that would merge into another operator need a real separator)"""
    out = []
    for i, t in enumerate(sp):
        out.append(t)
        if i + 1 == len(sp):
            break
        n = sp[i + 1]
        sep = rng.choice(SEPS)
        alnum = lambda c: c.isalnum() or c in "_'."  # noqa: E731
        if sep in ('', '(**)') and (alnum(t[-1]) and alnum(n[0])):
            sep = ' '
        if sep == '' and not (alnum(t[-1]) or alnum(n[0])) and t[-1] not in '(),' and n[0] not in '(),':
            # two operator spellings next to each other: keep them apart half of the time only
            # (glued operators are the interesting inputs; both sides must agree on them)
            if rng.random() < 0.5:
                sep = ' '
            else:
                glue.merged = True     # two operator spellings touch: they may read as another token
        out.append(sep)
    return ''.join(out)


def text_stream(ctx, order, ntrees):
    """raw text: spacing, both comment forms, glued tokens; tokens, syntax tree, result and
    state compared with the model's character-level lexer"""
    from ..impl import Text
    aged = ctx.rng.random() < 0.5
    M = Mgr(ctx, f'raw text order={order} aged={aged}', N, order, aged=aged)
    rng = ctx.rng
    s = M.s
    for _ in range(ntrees):
        tree = rand_tree(rng, rng.randint(1, 4), [])
        e = value(tree)
        sp = spell(tree, rng, rng.random() < 0.5)
        glue.merged = False
        text = glue(rng, sp)
        separated = not glue.merged
        le = s.lex_text(text)
        pe = s.parse_text(text)
        r = M.op('add_expr_text', Text(text))
        res = s.last_result()
        r_lr = M.op('add_expr_lr', Text(text))          # the two model parsers and dd must agree
        if r_lr != r:
            ctx.violation('C05:parsers-differ', f'{text!r}: second add_expr returned {r_lr}, first {r}', M.case())
        ctx.case(('text', order, text), e not in (0, FULL))
        ctx.count('text')
        canon = s.parse(sp)      # the tree of the spaced spelling
        if separated and pe != canon:
            # only white space and comments were put between the spellings (no two operator
            # spellings touch): the text IS the formula, whatever the implementation's lexer says
            ctx.violation('C05:wrong-meaning',
                          f'{text!r} is not read as the formula {" ".join(sp)!r} (comments / spacing '
                          f'changed the token stream)', M.case())
        if pe == canon:
            # the text reads as the formula it was made from: it must mean the same
            if not res.startswith('ok:'):
                ctx.violation('C05:rejected', f'add_expr rejected {text!r}', M.case())
            elif M.tt(r) != e:
                ctx.violation('C05:wrong-meaning', f'{text!r} denotes {M.tt(r):#x}, documented {e:#x}', M.case())
        else:
            ctx.count('text-glued-differently')
    # malformed / adversarial texts: outcomes must agree
    for text in ['', '   ', 'a<-b', '(*)', 'a (* open', 'a = > b', 'a $ b', '1a', 'a!b', "a'b", 'a \\*', '\\* only',
                 'v0&&&v1', 'v0|||v1', 'v0=>>v1', 'v0<=>=>v1', 'v0--v1', 'v0->-v1', 'v0/\\/\\v1', 'v0\\/\\/v1',
                 'itex', 'Truea', 'ite (v0,v1,v2)', 'v0\n\n&\nv1', '(* (* *) v0', 'v0 (* *) *)', '@', '@ 1', '@-1', '@- 1',
                 'v0 \\A v1', '\\Av0:v0', '\\E v0,:v0', '\\S v0/v1 v0', 'v0 # ^ v1', '~~v0', '!~!v0', 'v0.v1', '.v0', "'v0"]:
        s.lex_text(text)
        s.parse_text(text)
        # the LR model (PLY's tables) follows the state also when the text is rejected late
        M.op('add_expr_lr', Text(text))
        ctx.count('text-adversarial')
    M.check_table('C05:table')


def keyword_like_names(ctx):
    """variables whose names differ from a reserved word only in letter case, or contain one
    (`tRUE`, `FALSe`, `Ite`, `true_`, `itex`): the documented keywords are the exact spellings
    TRUE/True/true, FALSE/False/false and ite, everything else is a name.  Implementation and
    oracle only (the session's variables are named v0, v1, ...): dd.bdd and dd.autoref."""
    import dd.bdd as _b
    import dd.autoref as _a
    rng = ctx.rng
    pool = ['tRUE', 'FALSe', 'TRue', 'fALSE', 'true_', 'false1', 'itex', 'x']
    names = rng.sample(pool, 4)
    n = len(names)

    def tab(b, u):
        return oracle.tt_fast(b, u, names)
    var = {v: T.var(i, n) for i, v in enumerate(names)}
    for autoref in (False, True):
        A = _a.BDD() if autoref else None
        b = A._bdd if autoref else _b.BDD()
        order = names[:]
        rng.shuffle(order)
        b.declare(*order)
        mgr = A if autoref else b
        case = dict(stream='keyword-like names', names=order, autoref=autoref)
        held = []
        try:
            for _ in range(10):
                x, y, z = (rng.choice(names) for _ in range(3))
                kind = rng.randrange(5)
                if kind == 0:
                    text, e = x, var[x]
                elif kind == 1:
                    text, e = f'{x} /\\ ~ {y}', var[x] & T.neg(var[y], n)
                elif kind == 2:
                    text, e = f'ite({x}, {y}, FALSE) \\/ (TRUE /\\ {z})', T.ite(var[x], var[y], 0, n) | var[z]
                elif kind == 3:
                    text, e = f'\\E {x}: ({x} <=> {y})', T.full(n)
                else:
                    text, e = f'({x} => true) /\\ ({y} \\/ False)', var[y]
                ctx.case(('keyword-like', autoref, text), True)
                ctx.count('keyword-like-names')
                try:
                    r = mgr.add_expr(text)
                except Exception as ex:  # noqa: B902
                    ctx.violation('C05:rejected', f'add_expr rejected `{text}` ({type(ex).__name__}) with the '
                                  f'declared names {order}', dict(case, text=text))
                    break
                held.append(r)
                u = r.node if autoref else r
                if tab(b, u) != e:
                    ctx.violation('C05:meaning', f'`{text}` (names {order}) denotes {tab(b, u):#x}, expected {e:#x}',
                                  dict(case, text=text))
                    break
                back = mgr.to_expr(r)
                r2 = mgr.add_expr(back)
                held.append(r2)
                if (r2.node if autoref else r2) != u:
                    ctx.violation('C05:roundtrip', f'add_expr(to_expr(u)) differs from u for `{text}` '
                                  f'(printed as `{back}`)', dict(case, text=text, printed=back))
                    break
        finally:
            held.clear()


def run(ctx):
    q = ctx.quick
    rng = ctx.rng
    for _ in range(3 if q else 30):
        keyword_like_names(ctx)
    orders = gen.orders(3)
    for order in (orders[:1] if q else orders[:2]):
        pairs_stream(ctx, order)
    for order in orders:
        random_stream(ctx, order, 12 if q else 150, autoref=False)
        random_stream(ctx, order, 6 if q else 60, autoref=True)
    for order in (orders[:2] if q else orders):
        text_stream(ctx, order, 25 if q else 300)
    for order in (rng.sample(orders, 2) if q else orders):
        subst_stream(ctx, order, 2 if q else 6, autoref=False)
    subst_stream(ctx, rng.choice(orders), 1 if q else 4, autoref=True)
