"""C07 - reordering never changes what a held reference denotes."""
import itertools

from .. import gen, oracle, tt as T
from .base import Mgr, replay  # noqa: F401
from ..impl import vname

RULE = ('sets of held functions over <=5 variables (pairs of functions of 3 variables '
        'sampled/enumerated) x every adjacent pair x repetitions; every target permutation of '
        '<=4 variables; every pairing; sifting from every starting order; adjacent swaps with the node '
        'limit 0-8 above the table size (refused before any change, or completed); a case is '
        '(held truth tables, starting order, operation); non-trivial = a held function is '
        'non-constant')
EXHAUSTIVE = {'quick': False, 'thorough': False}
ASSUMES = ['explicit reorderings are run both with dynamic reordering disabled and enabled (low threshold)']


DYN = [False]      # run the explicit reorderings with dynamic reordering enabled


class Held:
    def __init__(self, ctx, label, n, order, tts, aged=False):
        if DYN[0]:
            label = 'dynamic-on ' + label
        self.ctx = ctx
        self.n = n
        self.M = Mgr(ctx, label, n, order, aged=aged)
        self.ledger = {1: 1}
        for u in self.M.held:           # from ageing
            self.ledger[abs(u)] = self.ledger.get(abs(u), 0) + 1
        self.refs = {}
        for t in tts:
            u = self.M.build(t)
            if u is None:
                continue
            self.M.op('incref', u)
            self.ledger[abs(u)] = self.ledger.get(abs(u), 0) + 1
            self.refs.setdefault(u, t)
        self.names_tt = {u: self.by_name(u) for u in list(self.refs) + list(self.M.held)}
        self.dyn = DYN[0]
        if self.dyn:
            # growth threshold low enough for a request at the first node created
            self.M.op('configure', True)
            self.M.op('set_last_len', ctx.rng.choice([1, 2, 3]))

    def by_name(self, u):
        return oracle.tt_fast(self.M.b, u, [vname(i) for i in range(self.n)])

    def check(self, what):
        M = self.M
        b = M.b
        for u, t in self.names_tt.items():
            if abs(u) not in b._succ:
                self.ctx.violation('C07:held-node-lost', f'{what}: held node {u} disappeared', M.case())
                return False
            if self.by_name(u) != t:
                self.ctx.violation('C07:held-changed',
                                   f'{what}: held reference {u} denoted {t:#x}, now {self.by_name(u):#x}',
                                   M.case())
                return False
        bad = oracle.check_table(b, external=self.ledger)
        if bad:
            self.ctx.violation('C07:not-canonical', f'{what}: {bad[:3]}', M.case())
            return False
        last = M.s.last_result()
        M.op('assert_consistent')
        if not M.s.ok():
            self.ctx.violation('C07:not-canonical', f'{what}: BDD.assert_consistent() fails', M.case())
            return False
        if last == 'err:needs_reordering':
            self.ctx.violation('C07:signal', f'{what}: the internal reordering signal reached the caller', M.case())
            return False
        if self.dyn and b._last_len is None:
            self.ctx.violation('C07:disabled-afterwards', f'{what}: dynamic reordering was switched off', M.case())
            return False
        return True

    def order(self):
        b = self.M.b
        return [b._level_to_var[i] for i in range(len(b.vars))]

    def finish(self):
        if self.dyn:
            self.M.op('configure', False)
        for u in self.refs:
            self.M.op('decref', u)


def swaps(ctx, n, order, tts, reps, aged):
    H = Held(ctx, f'swap n={n} order={order} held={len(tts)} aged={aged}', n, order, tts, aged)
    rng = ctx.rng
    for _ in range(reps):
        x = rng.randrange(n - 1)
        before = H.order()
        r = H.M.op('swap', x, x + 1)
        ctx.case(('swap', n, tuple(order), tuple(tts), x, len(H.M.s.lines)), any(t not in (0, T.full(n)) for t in tts))
        ctx.count('swap')
        if r is None:
            ctx.violation('C07:swap-rejected', f'swap({x},{x + 1}) raised', H.M.case())
            break
        after = H.order()
        exp = list(before)
        exp[x], exp[x + 1] = exp[x + 1], exp[x]
        if after != exp:
            ctx.violation('C07:order', f'after swap({x},{x + 1}) order is {after}, expected {exp}', H.M.case())
        if r[1] != len(H.M.b):
            ctx.violation('C07:swap-size', f'swap returned new size {r[1]}, len is {len(H.M.b)}', H.M.case())
        if not H.check(f'swap({x},{x + 1})'):
            break
    H.finish()
    ctx.sample(dict(stream=H.M.s.label, first_lines=H.M.s.lines[:6]))


def to_order(ctx, n, order, tts, target):
    H = Held(ctx, f'reorder-to n={n} {order}->{target}', n, order, tts)
    if n >= 2 and ctx.rng.random() < 0.5:
        # an order that names only SOME variables (or levels that are no permutation) is
        # refused; whatever the call does, afterwards either the requested levels hold or
        # nothing moved
        k = ctx.rng.randrange(1, n)
        vs = ctx.rng.sample(range(n), k)
        part = {v: l for v, l in zip(vs, ctx.rng.sample(range(n), k))}
        before = dict(H.M.b.vars)
        r = H.M.op('reorder', part)
        ctx.count('partial-order-request')
        now = dict(H.M.b.vars)
        if now != before and any(now['v%d' % v] != l for v, l in part.items()):
            ctx.violation('C07:order', f'reorder({part}) returned {"normally" if r is not None else "an error"}: '
                          f'the order changed to {now} but the requested levels do not hold', H.M.case())
        H.check('reorder(partial order)')
    H.M.op('reorder', {v: l for v, l in zip(range(n), target)})
    ctx.case(('to-order', n, tuple(order), tuple(target), tuple(tts)), True)
    ctx.count('reorder-to-order')
    b = H.M.b
    got = {int(k[1:]): l for k, l in b.vars.items()}
    if got != {v: l for v, l in zip(range(n), target)}:
        ctx.violation('C07:order', f'requested {target}, got {got}', H.M.case())
    H.check('reorder(order)')
    H.finish()


def pairs(ctx, n, order, tts, pairing):
    H = Held(ctx, f'pairs n={n} order={order} pairs={pairing}', n, order, tts)
    r = H.M.op('reorder_to_pairs', pairing)
    ctx.case(('pairs', n, tuple(order), tuple(sorted(pairing.items())), tuple(tts)), True)
    ctx.count('reorder-to-pairs')
    b = H.M.b
    if H.M.s.ok():
        for x, y in pairing.items():
            if abs(b.vars[vname(x)] - b.vars[vname(y)]) != 1:
                ctx.violation('C07:pairs-not-adjacent',
                              f'after reorder_to_pairs({pairing}) levels are {b.vars}', H.M.case())
    H.check('reorder_to_pairs')
    H.finish()


def sifting(ctx, n, order, tts, reps=1, aged=False):
    H = Held(ctx, f'sift n={n} order={order} held={len(tts)} aged={aged}', n, order, tts, aged)
    for _ in range(reps):
        H.M.op('gc', None)
        before = len(H.M.b)
        H.M.op('reorder', None)
        ctx.case(('sift', n, tuple(order), tuple(tts), len(H.M.s.lines)), any(t not in (0, T.full(n)) for t in tts))
        ctx.count('sifting')
        if not H.M.s.ok():
            ctx.violation('C07:sifting-raised', f'reorder(bdd) raised with {n} variable(s)', H.M.case())
            break
        if len(H.M.b) > before:
            ctx.violation('C07:sifting-grew', f'sifting went from {before} to {len(H.M.b)} nodes', H.M.case())
        if not H.check('reorder()'):
            break
    H.finish()


def autoref_views(ctx, n, target):
    """the order as seen through dd.autoref (`vars`, `var_levels`, `level_of_var`,
    `var_at_level`) after reorderings, with live Functions"""
    rng = ctx.rng
    s = ctx.session(f'autoref reorder n={n} target={target}')
    A = 'a0'
    s.op(A, 'new', {v: v for v in range(n)})
    from .C12 import abuild, by_name
    hs = [abuild(s, A, rng.getrandbits(1 << n) | 6, n) for _ in range(2)]
    a = s.impl.amgr[A]
    H = s.impl.handles[A]
    before = {h: (by_name(a._bdd, H[h].node, n), H[h].node) for h in hs}
    case = lambda: dict(stream=s.label, lines=list(s.lines))  # noqa: E731

    def views(what):
        lv = {x: a.level_of_var(x) for x in a.vars}
        inv = {a.var_at_level(l): l for l in range(len(a.vars))}
        if not (dict(a.vars) == lv == inv == dict(a.var_levels)):
            ctx.violation('C07:views-disagree',
                          f'{what}: vars={dict(a.vars)} level_of_var={lv} var_at_level={inv} '
                          f'var_levels={dict(a.var_levels)}', case)
            return False
        for h, (t, node) in before.items():
            if H[h].node != node or by_name(a._bdd, H[h].node, n) != t:
                ctx.violation('C07:held-changed', f'{what}: live Function {h} changed', case)
                return False
        return True
    s.op(A, 'reorder', {v: l for v, l in zip(range(n), target)})
    ctx.case(('autoref-views', n, tuple(target)), True)
    ctx.count('autoref-views')
    ok = views('reorder(order)')
    if ok and {vname(v): l for v, l in zip(range(n), target)} != dict(a.vars):
        ctx.violation('C07:order', f'requested {target}, bdd.vars shows {dict(a.vars)}', case)
    if ok:
        s.op(A, 'reorder', None)
        views('reorder()')
    for h in hs:
        s.op(A, 'drop', h)


def tight_swaps(ctx, n, order, tts, reps):
    """adjacent swaps with the node limit a few nodes above the table size: `swap` either
    refuses BEFORE changing anything (`RuntimeError`: its estimate of the new nodes does not
    fit) or completes; a swap that starts and then meets the full table half-way would leave
    levels relabelled and the unique table popped (round-22 seed: the estimate looking at one
    successor only)"""
    H = Held(ctx, f'tight swap n={n} order={order} held={len(tts)}', n, order, tts, False)
    rng = ctx.rng
    for _ in range(reps):
        x = rng.randrange(n - 1)
        slack = rng.choice([0, 1, 2, 2, 3, 3, 4, 5, 6, 8])
        H.M.op('set_max_nodes', len(H.M.b) + slack)
        before = H.order()
        r = H.M.op('swap', x, x + 1)
        H.M.op('set_max_nodes', None)
        ctx.case(('tight-swap', n, tuple(order), tuple(tts), x, slack, len(H.M.s.lines)), True)
        ctx.count('tight-swap:' + ('refused' if r is None else 'done'))
        after = H.order()
        exp = list(before)
        if r is not None:
            exp[x], exp[x + 1] = exp[x + 1], exp[x]
        if after != exp:
            ctx.violation('C07:order', f'after swap({x},{x + 1}) at max_nodes=len+{slack} '
                          f'({"done" if r is not None else "refused"}) order is {after}, expected {exp}', H.M.case())
            break
        if not H.check(f'swap({x},{x + 1}) at max_nodes=len+{slack}'):
            break
    H.finish()
    ctx.sample(dict(stream=H.M.s.label, first_lines=H.M.s.lines[:6]))


def run(ctx):
    q = ctx.quick
    rng = ctx.rng
    run_streams(ctx, q, rng)
    for n in (2, 3, 4):
        for target in (gen.orders(n) if not q or n < 4 else rng.sample(gen.orders(n), 6)):
            autoref_views(ctx, n, target)
    # the same explicit reorderings while dynamic reordering is enabled
    DYN[0] = True
    try:
        run_streams(ctx, True, rng)
    finally:
        DYN[0] = False
    # swaps at a tight node limit (last, so that the streams above are the same cases as before)
    for _ in range(60 if q else 400):
        n_ = rng.choice([3, 3, 4])
        order = list(range(n_))
        rng.shuffle(order)
        tight_swaps(ctx, n_, order, [rng.getrandbits(1 << n_) for _ in range(rng.randint(1, 3))],
                    reps=8 if q else 10)


def sparse_tt(rng, n, used):
    """a random function of the variables in `used` only (the others stay declared but unused)"""
    t = rng.getrandbits(1 << n)
    for j in range(n):
        if j not in used:
            t = T.cofactor(t, n, {j: rng.random() < 0.5})
    return t


def unused_streams(ctx, q, rng):
    """managers in which some (or all) declared variables occur in no node: the order is
    still a bijection that every reordering must move"""
    n = 5
    for _ in range(6 if q else 60):
        used = rng.sample(range(n), rng.choice([0, 1, 2, 2, 3]))
        tts = [sparse_tt(rng, n, used) for _ in range(rng.randint(1, 2))]
        order = list(range(n))
        rng.shuffle(order)
        vs = list(range(n))
        rng.shuffle(vs)
        pairing = {vs[0]: vs[1]} if rng.random() < 0.5 else {vs[0]: vs[1], vs[2]: vs[3]}
        pairs(ctx, n, order, tts, pairing)
    for _ in range(4 if q else 40):
        n = rng.choice([3, 4, 5])
        used = rng.sample(range(n), rng.randint(0, n - 1))
        tts = [sparse_tt(rng, n, used) for _ in range(rng.randint(1, 2))]
        order = list(range(n))
        rng.shuffle(order)
        target = list(range(n))
        rng.shuffle(target)
        to_order(ctx, n, order, tts, target)
        sifting(ctx, n, order, tts, reps=1, aged=False)
        swaps(ctx, n, order, tts, reps=4, aged=False)


def run_streams(ctx, q, rng):
    unused_streams(ctx, q, rng)
    # swaps: pairs of held functions over 3 variables, every order
    for order in gen.orders(3):
        for _ in range(3 if q else 40):
            tts = [rng.randrange(256) for _ in range(rng.randint(1, 3))]
            swaps(ctx, 3, order, tts, reps=4 if q else 8, aged=rng.random() < 0.3)
    for n in (2, 4, 5):
        for _ in range(3 if q else 25):
            order = list(range(n))
            rng.shuffle(order)
            tts = [rng.getrandbits(1 << n) for _ in range(rng.randint(1, 4))]
            swaps(ctx, n, order, tts, reps=5 if q else 12, aged=rng.random() < 0.3)
    # every target permutation
    for n in (2, 3, 4):
        targets = gen.orders(n)
        if q and n == 4:
            targets = rng.sample(targets, 8)
        for target in targets:
            order = list(range(n))
            rng.shuffle(order)
            to_order(ctx, n, order, [rng.getrandbits(1 << n) for _ in range(2)], target)
    # every pairing of 4 variables, random pairings of 5/6
    for (a, c) in itertools.permutations(range(4), 2):
        rest = [v for v in range(4) if v not in (a, c)]
        for pairing in ({a: c}, {a: c, rest[0]: rest[1]}):
            order = list(range(4))
            rng.shuffle(order)
            if q and rng.random() < 0.5:
                continue
            pairs(ctx, 4, order, [rng.getrandbits(16) for _ in range(2)], pairing)
    for _ in range(2 if q else 20):
        n = rng.choice([5, 6])
        vs = list(range(n))
        rng.shuffle(vs)
        pairing = {vs[0]: vs[1], vs[2]: vs[3]}
        order = list(range(n))
        rng.shuffle(order)
        pairs(ctx, n, order, [rng.getrandbits(1 << n) for _ in range(2)], pairing)
    # sifting
    for n in (1, 2, 3, 4, 5):
        for _ in range(2 if q else 15):
            order = list(range(n))
            rng.shuffle(order)
            tts = [rng.getrandbits(1 << n) for _ in range(rng.randint(1, 3))]
            sifting(ctx, n, order, tts, reps=2, aged=rng.random() < 0.3)
