"""C18 - structural views (low/high, descendants, sizes, graph exports) are
faithful."""
import itertools
import re

from .. import gen, oracle, tt as T
from .base import Mgr, handle_tt, replay  # noqa: F401
from ..impl import vname

RULE = ('functions by truth table (<=4 variables; 3 variables sampled/all) x order x sign x sets '
        'of roots; Shannon expansion through autoref handles, descendants/len, and evaluation of '
        'the exported networkx/DOT graphs; kept handles whose views were read, re-read after '
        'reorderings (explicit orders, sifting, adjacent exchanges) and collections; non-trivial = non-constant function')
EXHAUSTIVE = {'quick': False, 'thorough': False}
ASSUMES = ['DotGraph text formatting and Graphviz are glue: the DOT text is parsed back by the harness']


def parse_value(text):
    """canonical value text (nested lists of atoms) -> Python lists of str"""
    pos = [0]

    def go():
        if text[pos[0]] == '[':
            pos[0] += 1
            out = []
            if text[pos[0]] == ']':
                pos[0] += 1
                return out
            while True:
                out.append(go())
                c = text[pos[0]]
                pos[0] += 1
                if c == ']':
                    return out
        st = pos[0]
        while pos[0] < len(text) and text[pos[0]] not in ',]':
            pos[0] += 1
        return text[st:pos[0]]
    return go()


def parse_graph(text):
    """canonical graph value text -> (nodes{u:level}, edges[(u,v,solid,compl)], refs, labels)"""
    ns, es, rs, ls = parse_value(text[len('ok:'):])
    nodes = {int(u): int(l) for u, l in ns}
    edges = [(int(u), int(v), a == 'T', c == 'T') for u, v, a, c in es]
    refs = [int(x) for x in rs]
    labels = {int(u): (None if v == '()' else int(v)) for u, v in ls}
    return nodes, edges, refs, labels


def eval_graph(nodes, edges, root, level_var, n):
    """truth table of `root` (signed) evaluated on the exported graph"""
    then, els = {}, {}
    for u, v, solid, compl in edges:
        if solid:
            then[u] = v
        else:
            els[u] = (v, compl)
    memo = {}

    def go(u):
        if u in memo:
            return memo[u]
        if u not in then:
            r = T.full(n)
        else:
            x = T.var(level_var[nodes[u]], n)
            hi = go(then[u])
            lo = go(els[u][0])
            if els[u][1]:
                lo = T.neg(lo, n)
            r = T.ite(x, hi, lo, n)
        memo[u] = r
        return r
    t = go(abs(root))
    return t if root > 0 else T.neg(t, n)


def bdd_stream(ctx, n, order, tts, aged=False):
    M = Mgr(ctx, f'views n={n} order={order} aged={aged}', n, order, aged=aged)
    rng = ctx.rng
    refs = []
    for t in tts:
        u = M.build(t)
        if u is None:
            continue
        M.op('incref', u)
        refs.append((rng.choice([1, -1]) * u, t))
        if aged and rng.random() < 0.5:
            # free numbers and let later nodes re-use them; move levels
            M.build(rng.getrandbits(1 << n))
            M.op('gc', None)
            if n >= 2 and rng.random() < 0.5:
                x = rng.randrange(n - 1)
                M.op('swap', x, x + 1)
    refs = [(u, M.tt(u)) for u, _ in refs]
    for _ in range(len(refs)):
        k = rng.randint(1, min(3, len(refs)))
        roots = rng.sample(refs, k)
        rs = [u for u, _ in roots]
        b = M.b
        keep = oracle.reachable(b, rs) | {1}
        d = M.op('descendants', rs)
        ctx.case((n, order, 'descendants', tuple(rs)), True)
        if d is None or set(d) != keep:
            ctx.violation('C18:descendants', f'descendants({rs}) = {d}, reachable = {sorted(keep)}', M.case())
        ln = M.op('len')
        if ln != len(b._succ):
            ctx.violation('C18:len', f'len(bdd) = {ln}', M.case())
        level_var = {l: int(v[1:]) for l, v in b._level_to_var.items()}
        # exported from ONE root, the multigraph has exactly one then-edge and one
        # else-edge per non-terminal node (read-only call, outside the session; with
        # several roots dd re-expands a root that was already reached: not required)
        import dd.bdd as _ddb
        for r1 in rs[:2]:
            g1 = _ddb.to_nx(b, {r1})
            for u in g1.nodes:
                outs = sorted((d['value'], v) for _, v, d in g1.out_edges(u, data=True))
                want = [] if u == 1 else sorted([(False, abs(b._succ[u][1])), (True, abs(b._succ[u][2]))])
                if outs != want:
                    ctx.violation('C18:export-edge-multiplicity',
                                  f'to_nx({{{r1}}}): node {u} has out-edges {outs}, expected {want}', M.case())
                    break
        for opname, arg in (('to_nx', rs), ('to_dot', rs)):
            M.op(opname, arg)
            res = M.s.last_result()
            ctx.case((n, order, opname, tuple(rs)), True)
            ctx.count(opname)
            if not res.startswith('ok:'):
                ctx.violation('C18:export-rejected', f'{opname}({rs}) raised', M.case())
                continue
            nodes, edges, xrefs, labels = parse_graph(res)
            if set(nodes) != keep:
                ctx.violation('C18:export-nodes', f'{opname}: nodes {sorted(nodes)}, reachable {sorted(keep)}', M.case())
                continue
            if any(nodes[u] != b._succ[u][0] for u in nodes):
                ctx.violation('C18:export-levels', f'{opname}: wrong level attribute', M.case())
            if opname == 'to_dot':
                if sorted(xrefs) != sorted(set(rs)):
                    ctx.violation('C18:export-roots', f'to_dot: reference edges {xrefs}, roots {rs}', M.case())
                for u, v in labels.items():
                    exp = None if u == 1 else level_var[nodes[u]]
                    if v != exp:
                        ctx.violation('C18:export-label', f'to_dot: node {u} labelled {v}, expected {exp}', M.case())
            for (u, t) in roots:
                tu = M.tt(u)
                got = eval_graph(nodes, edges, u, level_var, n)
                if got != tu:
                    ctx.violation('C18:export-function',
                                  f'{opname}: exported graph evaluates to {got:#x} at root {u}, '
                                  f'the manager says {tu:#x}', M.case())
    # the views of the WHOLE manager (read-only calls, outside the session): `levels()` lists
    # every node once, from the terminal's level up to the root level; a DOT export without
    # roots shows every node
    b = M.b
    from ..impl import show_value
    lv = list(b.levels())
    ctx.count('whole-manager-views')
    if sorted(u for u, _, _, _ in lv) != sorted(b._succ) or any(b._succ[u] != (i, v, w) for u, i, v, w in lv):
        ctx.violation('C18:levels', 'levels() does not list every node with its triple exactly once', M.case())
    if [i for _, i, _, _ in lv] != sorted((i for _, i, _, _ in lv), reverse=True):
        ctx.violation('C18:levels', 'levels() is not ordered from the bottom level up', M.case())
    if [u for u, _, _, _ in b.levels(skip_terminals=True)] != [u for u, _, _, _ in lv if u != 1]:
        ctx.violation('C18:levels', 'levels(skip_terminals=True) differs from levels() without the terminal', M.case())
    try:
        nodes, edges, xrefs, labels = parse_graph('ok:' + show_value(M.s.impl.op_to_dot(b, None)))
        if set(nodes) != set(b._succ):
            ctx.violation('C18:export-nodes', f'to_dot(roots=None): nodes {sorted(nodes)}, table {sorted(b._succ)}',
                          M.case())
    except Exception as e:  # noqa: B902
        ctx.violation('C18:export-rejected', f'to_dot(roots=None) raised {type(e).__name__}', M.case())
    for u, _ in refs:
        M.op('decref', u)
    ctx.sample(dict(stream=M.s.label, first_lines=M.s.lines[:8]))


def autoref_stream(ctx, n, order, tts):
    s = ctx.session(f'handles n={n} order={order}')
    A = 'a0'
    s.op(A, 'new', {v: l for v, l in zip(range(n), order)})

    def tt_of(h):
        node = s.impl.handles[A][h].node
        return oracle.tt_fast(s.impl.amgr[A]._bdd, node, [vname(i) for i in range(n)])
    case = lambda: dict(stream=s.label, lines=list(s.lines))  # noqa: E731
    for t in tts:
        # build through autoref: disjunction of cubes
        h = s.op(A, 'false')
        for k in range(1 << n):
            if (t >> k) & 1:
                c = s.op(A, 'cube', {j: bool(T.getbit(k, j, n)) for j in range(n)})
                h2 = s.op(A, 'fapply', 'or', h, c)
                s.op(A, 'drop', h)
                s.op(A, 'drop', c)
                h = h2
        for sign in (1, -1):
            u = h if sign == 1 else s.op(A, 'fapply', 'not', h, None)
            tu = tt_of(u)
            v = s.op(A, 'varof', u)
            neg = s.op(A, 'negated', u)
            lo = s.op(A, 'low', u)
            hi = s.op(A, 'high', u)
            ctx.case((n, order, 'shannon', t, sign), t not in (0, T.full(n)))
            ctx.count('shannon')
            if v is None:
                if lo is not None or hi is not None or tu not in (0, T.full(n)):
                    ctx.violation('C18:terminal-view', 'terminal handle has children', case)
                e = T.full(n)
            else:
                e = T.ite(T.var(v, n), tt_of(hi), tt_of(lo), n)
            if neg:
                e = T.neg(e, n)
            if e != tu:
                ctx.violation('C18:shannon', f'expanding on var/high/low/negated gives {e:#x}, u is {tu:#x}', case)
            r = s.op(A, 'succ', u)
            if r is not None and v is not None:
                e2 = T.ite(T.var(v, n), tt_of(r[2]), tt_of(r[1]), n)
                if neg:
                    e2 = T.neg(e2, n)
                if e2 != tu:
                    ctx.violation('C18:succ', f'succ(u) expansion gives {e2:#x}, u is {tu:#x}', case)
                lvl = s.op(A, 'level', u)
                if r[0] != lvl:
                    ctx.violation('C18:succ', 'succ level differs from u.level', case)
            ln = s.op(A, 'len', u)
            node = s.impl.handles[A][u].node
            exp = len(oracle.reachable(s.impl.amgr[A]._bdd, [node]) | {1})
            if ln != exp:
                ctx.violation('C18:dag-size', f'len(u) = {ln}, reachable nodes = {exp}', case)
            for x in [lo, hi] + (list(r[1:]) if r else []):
                if x is not None:
                    s.op(A, 'drop', x)
            if sign == -1:
                s.op(A, 'drop', u)
        s.op(A, 'drop', h)
        if ctx.rng.random() < 0.7:
            # the next function lands on the node numbers of this one: nothing remembered per
            # node number (sizes, variables, children) may survive the collection
            s.op(A, 'gc')
            ctx.count('collected-between-functions')


def kept_handles_stream(ctx, n, order, tts):
    """Long-lived handles whose views were already read, then reorderings (explicit
    orders, sifting, swaps) and collections: the views of the SAME handle objects
    still expand to the handle's function."""
    s = ctx.session(f'kept handles n={n} order={order}')
    A = 'a0'
    rng = ctx.rng
    s.op(A, 'new', {v: l for v, l in zip(range(n), order)})
    case = lambda: dict(stream=s.label, lines=list(s.lines))  # noqa: E731
    kept = []
    for t in tts:
        h = s.op(A, 'false')
        for k in range(1 << n):
            if (t >> k) & 1:
                c = s.op(A, 'cube', {j: bool(T.getbit(k, j, n)) for j in range(n)})
                h2 = s.op(A, 'fapply', 'or', h, c)
                s.op(A, 'drop', h)
                s.op(A, 'drop', c)
                h = h2
        if rng.random() < 0.5:
            h2 = s.op(A, 'fapply', 'not', h, None)
            s.op(A, 'drop', h)
            h, t = h2, T.neg(t, n)
        kept.append((h, t))

    def views(when):
        for h, t in kept:
            ctx.case((n, order, 'kept', t, when), t not in (0, T.full(n)))
            ctx.count('kept-view')
            got = handle_tt(s, A, h, n)
            if got != t:
                ctx.violation('C18:kept-handle-view',
                              f'{when}: a kept handle read through var/low/high/negated expands to '
                              f'{got:#x}, it denotes {t:#x}', case)
                return False
            v = s.op(A, 'varof', h)
            lvl = s.op(A, 'level', h)
            b = s.impl.amgr[A]._bdd
            if v is not None and b._level_to_var.get(lvl) != vname(v):
                ctx.violation('C18:kept-handle-view',
                              f'{when}: handle.var = v{v} but level {lvl} carries {b._level_to_var.get(lvl)}', case)
                return False
        return True
    if views('fresh'):
        for i in range(4):
            k = rng.random()
            if k < 0.5:
                s.op(A, 'reorder', dict(zip(range(n), rng.sample(range(n), n))))
            elif k < 0.75:
                s.op(A, 'reorder', None)
            elif n >= 2:
                # exchange two adjacent levels
                b = s.impl.amgr[A]._bdd
                lv = {j: b.vars[vname(j)] for j in range(n)}
                x = rng.randrange(n - 1)
                s.op(A, 'reorder', {j: (x + 1 if l == x else x if l == x + 1 else l) for j, l in lv.items()})
            if rng.random() < 0.4:
                s.op(A, 'gc')
            if not views(f'after reordering {i}'):
                break
    for h, _ in kept:
        s.op(A, 'drop', h)
    ctx.sample(dict(stream=s.label, first_lines=s.lines[:8]))


def run(ctx):
    q = ctx.quick
    rng = ctx.rng
    for order in gen.orders(3):
        kept_handles_stream(ctx, 3, order, rng.sample(range(256), 3 if q else 16))
    for order in rng.sample(gen.orders(4), 2 if q else 12):
        kept_handles_stream(ctx, 4, order, [rng.getrandbits(16) for _ in range(3 if q else 8)])
    for order in gen.orders(3):
        bdd_stream(ctx, 3, order, sorted(rng.sample(range(256), 6 if q else 60)))
        bdd_stream(ctx, 3, order, sorted(rng.sample(range(256), 6 if q else 40)), aged=True)
        autoref_stream(ctx, 3, order, sorted(rng.sample(range(256), 5 if q else 50)))
    for order in rng.sample(gen.orders(4), 2 if q else 12):
        bdd_stream(ctx, 4, order, [rng.getrandbits(16) for _ in range(4 if q else 20)])
        bdd_stream(ctx, 4, order, [rng.getrandbits(16) for _ in range(4 if q else 20)], aged=True)
        autoref_stream(ctx, 4, order, [rng.getrandbits(16) for _ in range(2 if q else 10)])
    for n in (1, 2):
        for order in gen.orders(n):
            bdd_stream(ctx, n, order, range(1 << (1 << n)))
            autoref_stream(ctx, n, order, range(1 << (1 << n)))
