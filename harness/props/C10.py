"""C10 - count, pick, pick_iter, support describe exactly the satisfying
assignments."""
import itertools

from .. import gen, oracle, tt as T
from .base import Mgr, replay  # noqa: F401

RULE = ('functions by truth table (<=4 variables; all 256 of 3 variables in thorough) x every '
        'care set (subset/superset of the support) x every n up to support+3 x order x sign; also '
        'the same functions placed at scattered levels of managers declaring 9..33 variables; '
        'non-trivial = non-constant function')
EXHAUSTIVE = {'quick': False, 'thorough': False}
ASSUMES = []


def models(t, n, over):
    """set of assignments (as frozensets of (var, bool)) over the variables
    `over` that force t true however completed"""
    out = set()
    others = [j for j in range(n) if j not in over]
    for vals in itertools.product((False, True), repeat=len(over)):
        d = dict(zip(over, vals))
        if T.cofactor(t, n, d) == T.full(n):
            out.add(frozenset(d.items()))
    return out


def stream(ctx, n, order, tts, positions=None, total=None):
    """`positions`/`total`: the manager declares `total` variables and the
    function's variables 0..n-1 sit at the levels `positions` (in `order`),
    so that the support skips levels and reaches deep ones"""
    if positions is None:
        aged = ctx.rng.random() < 0.5
        M = Mgr(ctx, f'sat n={n} order={order} aged={aged}', n, order, aged=aged)
    else:
        full = [None] * total
        for j in range(n):
            full[j] = positions[order[j]]
        rest = [l for l in range(total) if l not in positions]
        for j in range(n, total):
            full[j] = rest[j - n]
        M = Mgr(ctx, f'sat n={n} order={order} at levels {positions} of {total}', total, full)
    rng = ctx.rng
    undeclared = False
    tts = [0] + [t for t in tts if t != 0]      # FALSE (and its complement TRUE) always
    for t0 in tts:
        u0 = gen.build_tt(M.s, M.m, t0, list(range(n)))
        if u0 is None:
            continue
        M.op('incref', u0)
        for rnd in (0, 1):
            if rnd == 1:
                # the same questions again after the unused variables were removed (levels
                # renumbered, no collection): nothing remembered about a node may survive
                # (on the first NON-constant function: a constant has nothing remembered)
                if positions is None or undeclared or abs(u0) == 1:
                    break
                M.op('undeclare', list(range(n, total)))
                undeclared = True
                ctx.count('after-undeclare')
            for sign in (1, -1):
                u = sign * u0
                t = t0 if sign == 1 else T.neg(t0, n)
                sup = sorted(T.support(t, n))
                k = len(sup)
                nontriv = t not in (0, T.full(n))
                # support / is_essential
                r = M.op('support', u)
                ctx.case((n, order, 'support', t), nontriv)
                if r is None or sorted(r) != sup:
                    ctx.violation('C10:support', f'support of {t:#x} is {r}, expected {sup}', M.case())
                for j in range(n):
                    e = M.op('is_essential', u, j)
                    if e != (j in sup):
                        ctx.violation('C10:is_essential', f'is_essential({j}) = {e} for {t:#x}', M.case())
                # a name that is not declared is documented as "not essential"
                e = M.op('is_essential', u, n + 50)
                if e is not False:
                    ctx.violation('C10:is_essential', f'is_essential(undeclared) = {e} for {t:#x}', M.case())
                # count
                nsat = T.count(t) >> (n - k)   # models over the support
                for nn in [None] + list(range(0, k + 4)):
                    r = M.op('count', u, nn)
                    ctx.case((n, order, 'count', t, nn), nontriv)
                    ctx.count('count')
                    if nn is not None and nn < k:
                        if r is not None:
                            ctx.violation('C10:count-accepted',
                                          f'count(n={nn}) accepted although the support has {k} variables', M.case())
                    else:
                        e = nsat << ((k if nn is None else nn) - k)
                        if r != e:
                            ctx.violation('C10:count', f'count({t:#x}, n={nn}) = {r}, expected {e}', M.case())
                # pick_iter over care sets
                cares = [None]
                for r_ in range(n + 1):
                    for c in itertools.combinations(range(n), r_):
                        cares.append(list(c))
                if len(cares) > 9:
                    cares = [None] + rng.sample(cares[1:], 8)
                for care in cares:
                    got = M.op('pick_iter', u, care)
                    ctx.case((n, order, 'pick_iter', t, None if care is None else tuple(care)), nontriv)
                    ctx.count('pick_iter')
                    if got is None:
                        ctx.violation('C10:pick_iter-rejected', 'pick_iter rejected valid arguments', M.case())
                        continue
                    cset = set(sup) if care is None else set(care)
                    seen = set()
                    covered = 0
                    ok = True
                    for a in got:
                        d = dict(a)
                        if not cset <= set(d):
                            ctx.violation('C10:pick_iter-care',
                                          f'assignment {d} does not mention every care variable {sorted(cset)}', M.case())
                            ok = False
                            break
                        if T.cofactor(t, n, d) != T.full(n):
                            ctx.violation('C10:pick_iter-not-model',
                                          f'assignment {d} does not force {t:#x}', M.case())
                            ok = False
                            break
                        f = frozenset(d.items())
                        if f in seen:
                            ctx.violation('C10:pick_iter-duplicate', f'assignment {d} yielded twice', M.case())
                            ok = False
                            break
                        seen.add(f)
                    if ok:
                        # pairwise incompatible and jointly covering all models
                        cover = 0
                        for f in seen:
                            c = T.full(n)
                            for j, bval in f:
                                c &= T.var(j, n) if bval else T.neg(T.var(j, n), n)
                            if cover & c:
                                ctx.violation('C10:pick_iter-overlap', f'assignments overlap at {dict(f)}', M.case())
                            cover |= c
                        if cover != t:
                            ctx.violation('C10:pick_iter-cover',
                                          f'assignments cover {cover:#x}, function is {t:#x}', M.case())
                        if care is None and len(seen) != nsat:
                            ctx.violation('C10:pick_iter-count',
                                          f'{len(seen)} assignments over the support, count says {nsat}', M.case())
                    p = M.op('pick', u, care)
                    if (p is None) != (t == 0):
                        ctx.violation('C10:pick-none', f'pick = {p} for {t:#x}', M.case())
                    elif p is not None and frozenset(dict(p).items()) not in seen:
                        ctx.violation('C10:pick-not-in-iter', f'pick {p} is not among pick_iter', M.case())
        M.op('decref', u0)
        if rng.random() < 0.6:
            # the next function lands on the node numbers of this one: nothing remembered
            # about a node number (support, essential variables, counts) may survive
            M.op('gc', None)
            ctx.count('collected-between-functions')
    ctx.sample(dict(stream=M.s.label, first_lines=M.s.lines[:8]))


def run(ctx):
    q = ctx.quick
    rng = ctx.rng
    for n in (1, 2):
        for order in gen.orders(n):
            stream(ctx, n, order, range(1 << (1 << n)))
    for order in gen.orders(3):
        stream(ctx, 3, order, sorted(rng.sample(range(256), 10 if q else 256)))
    # (x_i xor x_j) /\ x_k /\ x_l and the like: a node two levels above the terminals that is
    # reached through a regular AND a complemented edge within one count
    shared = []
    for i, j in itertools.combinations(range(4), 2):
        k, l = [v for v in range(4) if v not in (i, j)]
        x = [T.var(v, 4) for v in range(4)]
        shared.append((x[i] ^ x[j]) & x[k] & x[l])
        shared.append(T.ite(x[i], T.ite(x[j], x[k], T.neg(x[k] & x[l], 4), 4),
                            T.ite(x[j], T.full(4), T.neg(x[k] & x[l], 4), 4), 4))
    for order in rng.sample(gen.orders(4), 2 if q else 12):
        stream(ctx, 4, order, [rng.getrandbits(16) for _ in range(3 if q else 30)] + (rng.sample(shared, 4) if q else shared))
    # supports that skip levels in managers with many declared variables
    for positions, total in (((1, 8), 10), ((2, 9), 12), ((7, 8), 9), ((0, 3, 16), 17)):
        # (fixed cases: a deep level together with a shallow one, beyond the sizes at which the
        # iteration order of a small Python set of levels happens to be increasing)
        n = len(positions)
        stream(ctx, n, tuple(range(n)), [T.var(0, n) & T.var(n - 1, n), rng.getrandbits(1 << n)],
               positions=list(positions), total=total)
    for _ in range(6 if q else 60):
        n = rng.choice([2, 2, 3, 4])
        total = rng.choice([9, 10, 12, 17, 20, 33])
        positions = sorted(rng.sample(range(total), n))
        if rng.random() < 0.5:
            positions[-1] = total - 1 - rng.randrange(0, 2) if total - 2 not in positions[:-1] and total - 1 not in positions[:-1] else positions[-1]
        order = rng.choice(gen.orders(n))
        tts = [rng.getrandbits(1 << n) for _ in range(3 if q else 8)]
        stream(ctx, n, order, tts, positions=sorted(set(positions)) if len(set(positions)) == n else sorted(rng.sample(range(total), n)), total=total)
