"""C03 - quantification equals the disjunction/conjunction of cofactors."""
import itertools

from .. import gen, oracle, tt as T
from .base import Mgr, replay  # noqa: F401

RULE = ('functions by truth table (all 256 of 3 variables in thorough, sampled in quick; sampled '
        'for 4 variables) x every subset of variables x both quantifiers x every order x both '
        'signs x names/levels as keys x fresh/aged manager; a case is that tuple; non-trivial = '
        'the function depends on a quantified variable')
EXHAUSTIVE = {'quick': False, 'thorough': False}
ASSUMES = []


def subsets(n):
    for r in range(n + 1):
        for c in itertools.combinations(range(n), r):
            yield list(c)


def stream(ctx, n, order, tts, aged):
    M = Mgr(ctx, f'quantify n={n} order={order} aged={aged}', n, order, aged=aged)
    rng = ctx.rng
    for t in tts:
        u = M.build(t)
        if u is None:
            continue
        M.op('incref', u)
        for qs in subsets(n):
            for fa in (False, True):
                for sign in (1, -1):
                    tt_u = t if sign == 1 else T.neg(t, n)
                    expect = T.forall(tt_u, n, qs) if fa else T.exists(tt_u, n, qs)
                    kind = rng.choice(['n', 'n', 'l'])
                    keys = qs if kind == 'n' else [M.b.vars[f'v{j}'] for j in qs]
                    r = M.op('quantify', sign * u, kind, keys, fa)
                    ctx.case((n, order, aged, t, tuple(qs), fa, sign),
                             any(T.depends(t, n, j) for j in qs))
                    ctx.count('quantify')
                    if r is None:
                        ctx.violation('C03:rejected', 'quantify rejected valid arguments', M.case())
                        continue
                    got = M.tt(r)
                    if got != expect:
                        ctx.violation('C03:wrong-function',
                                      f'quantify({"forall" if fa else "exists"} {qs}) of {tt_u:#x} gave '
                                      f'{got:#x}, expected {expect:#x}', M.case())
                    if not qs or not any(T.depends(t, n, j) for j in qs):
                        if r != sign * u:
                            ctx.violation('C03:noop-changed-reference',
                                          f'quantifying over {qs} outside the support returned {r}, not {sign * u}',
                                          M.case())
        # the quantifier forms of apply: variables from the first operand
        v = M.build(rng.getrandbits(1 << n))
        if v is not None:
            tv = M.tt(v)
            sup = sorted(T.support(tv, n))
            for alias, fa in (('\\A', True), ('forall', True), ('\\E', False), ('exists', False)):
                r = M.op('apply', alias, v, u, None)
                expect = T.forall(t, n, sup) if fa else T.exists(t, n, sup)
                ctx.case((n, order, 'apply', alias, t, tv), bool(sup))
                ctx.count('apply-quant')
                if r is None or M.tt(r) != expect:
                    ctx.violation('C03:apply-quantifier',
                                  f'apply({alias!r}, v, u) with support(v)={sup}: got '
                                  f'{None if r is None else hex(M.tt(r))}, expected {expect:#x}', M.case())
        M.op('decref', u)
        if aged and rng.random() < 0.3:
            M.op('gc', None)
    ctx.sample(dict(stream=M.s.label, first_lines=M.s.lines[:8]))


def reordering_stream(ctx, n, ncases, P='C03'):
    """quantification while dynamic reordering fires (natural trigger with a
    lowered threshold): the result must be the same function"""
    rng = ctx.rng
    for _ in range(ncases):
        order = list(range(n))
        rng.shuffle(order)
        M = Mgr(ctx, f'quantify under reordering n={n} order={order}', n, order)
        t = rng.getrandbits(1 << n)
        tv = rng.getrandbits(1 << n)
        if n == 6 and rng.random() < 0.7:
            # order-sensitive function: pairs (p, p+3) with all first members above all
            # second members; sifting moves the quantified variables to other levels
            pairs = list(range(6))
            rng.shuffle(pairs)
            t = 0
            for k in range(3):
                t |= T.var(pairs[k], n) & T.var(pairs[k + 3], n)
            tv = T.full(n)
            for k in range(3):
                tv &= T.var(pairs[k + 3], n)
            M.s.lines  # (same manager; the order is replaced by swaps below)
            M.op('reorder', {v: l for l, v in enumerate(pairs)})
        u = M.build(t)
        v = M.build(tv)
        if u is None or v is None:
            continue
        M.op('incref', u)
        M.op('incref', v)
        M.op('gc', None)
        for k in (1, 2, 3, 5, 8, 12):
            M.op('configure', True)
            M.op('set_last_len', k)
            fa = rng.random() < 0.5
            if rng.random() < 0.5:
                qs = rng.sample(range(n), rng.randint(1, n))
                r = M.op('quantify', u, 'n', qs, fa)
                what = f'quantify({qs}, forall={fa})'
            else:
                qs = sorted(T.support(tv, n))
                r = M.op('apply', rng.choice(['\\A', 'forall'] if fa else ['\\E', 'exists']), v, u, None)
                what = f'apply quantifier over support {qs}'
            expect = T.forall(t, n, qs) if fa else T.exists(t, n, qs)
            ctx.case(('reordering', n, tuple(order), t, tv, k, what), True)
            ctx.count('quantify-under-reordering')
            if r is None or abs(r) not in M.b._succ or M.tt(r) != expect:
                got = None if (r is None or abs(r) not in M.b._succ) else hex(M.tt(r))
                ctx.violation(P + ':wrong-under-reordering',
                              f'{what} with reordering enabled (threshold {k}) gave {got}, expected {expect:#x}',
                              M.case())
            if M.tt(u) != t:
                ctx.violation(P + ':operand-changed', 'operand changed', M.case())
            M.op('configure', False)
        M.op('decref', u)
        M.op('decref', v)


def autoref_stream(ctx, n, order, tts):
    """the same questions through dd.autoref (`quantify`, `exist`, `forall` of the wrapper; the
    runner hands the variables over as a one-shot iterator, as the signature allows), including
    a declared variable outside the support"""
    from .C12 import abuild, by_name
    rng = ctx.rng
    s = ctx.session(f'autoref quantify n={n} order={order}')
    A = 'a0'
    s.op(A, 'new', {v: l for v, l in zip(range(n + 1), list(order) + [n])})
    H = s.impl.handles
    a = s.impl.amgr[A]
    case = lambda: dict(stream=s.label, lines=list(s.lines))  # noqa: E731
    for t in tts:
        f = abuild(s, A, t, n)
        if rng.random() < 0.5:
            g = s.op(A, 'fapply', 'not', f, None)
            s.op(A, 'drop', f)
            f, t = g, T.neg(t, n)
        for qs in subsets(n + 1):
            if len(qs) > 2 and rng.random() < 0.5:
                continue
            qs = list(qs)
            rng.shuffle(qs)
            fa = rng.random() < 0.5
            r = s.op(A, 'quantify', f, qs, fa)
            inner = [v for v in qs if v < n]
            expect = T.forall(t, n, inner) if fa else T.exists(t, n, inner)
            ctx.case(('autoref', n, tuple(order), t, tuple(qs), fa), bool(set(inner) & set(T.support(t, n))))
            ctx.count('autoref-quantify')
            if r is None:
                ctx.violation('C03:rejected', f'autoref quantify({qs}, forall={fa}) rejected', case)
                continue
            got = by_name(a._bdd, H[A][r].node, n)
            if got != expect:
                ctx.violation('C03:wrong-result',
                              f'autoref quantify({qs}, forall={fa}) of {t:#x} gave {got:#x}, expected {expect:#x}', case)
            s.op(A, 'drop', r)
        if by_name(a._bdd, H[A][f].node, n) != t:
            ctx.violation('C03:operand-changed', 'operand changed', case)
        s.op(A, 'drop', f)
    s.op(A, 'gc')


def run(ctx):
    q = ctx.quick
    for order in ctx.rng.sample(gen.orders(3), 2 if q else 6):
        autoref_stream(ctx, 3, order, ctx.rng.sample(range(256), 4 if q else 40))
    reordering_stream(ctx, 4, 6 if q else 60)
    reordering_stream(ctx, 5, 3 if q else 30)
    reordering_stream(ctx, 6, 30 if q else 150)
    rng = ctx.rng
    for order in gen.orders(3):
        for aged in (False, True):
            tts = sorted(rng.sample(range(256), 6 if q else 64))
            stream(ctx, 3, order, tts, aged)
    for order in (rng.sample(gen.orders(4), 2 if q else 12)):
        stream(ctx, 4, order, [rng.getrandbits(16) for _ in range(2 if q else 12)], rng.random() < 0.5)
    for e in (1, 2):
        stream(ctx, e, list(range(e)), range(1 << (1 << e)), False)
