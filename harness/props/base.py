"""Helpers shared by the property modules."""
import json

from .. import gen, oracle, tt as T
from ..impl import vname


class Mgr:
    """A session with one manager over variables 0..nv-1 and semantic
    observation helpers (truth tables by walking succ())."""

    def __init__(self, ctx, label, nv, order=None, full=True, aged=False, m=0,
                 session=None, keep_order=False):
        self.ctx = ctx
        self.nv = nv
        self.m = m
        self.names = list(range(nv))
        self.s = session if session is not None else ctx.session(label, full=full)
        order = list(order) if order is not None else list(range(nv))
        self.s.op(m, 'new', {v: l for v, l in zip(self.names, order)})
        self.held = []
        if aged:
            self.held = gen.age(self.s, m, ctx.rng, nv, steps=12)
            if keep_order:
                # the history moved levels: put the requested order back
                self.s.op(m, 'reorder', {v: l for v, l in zip(self.names, order)})

    @property
    def b(self):
        return self.s.impl.mgr[self.m]

    def op(self, name, *args):
        return self.s.op(self.m, name, *args)

    def build(self, t):
        return gen.build_tt(self.s, self.m, t, self.names)

    def hold(self, u):
        self.op('incref', u)
        self.held.append(u)
        return u

    def tt(self, u):
        """truth table of `u` by variable names; -1 (no truth table) when `u` or a node
        below it is not in the table: a dangling result, which callers report because it
        differs from every expected table"""
        try:
            return oracle.tt_fast(self.b, u, [vname(i) for i in self.names])
        except KeyError:
            return -1

    def case(self):
        s = self.s
        return lambda: dict(stream=s.label, lines=list(s.lines))

    def check_table(self, key, what='manager not canonical'):
        bad = oracle.check_table(self.b)
        if bad:
            self.ctx.violation(key, f'{what}: {bad[:3]}', self.case())
        return not bad


def handle_tt(s, A, h, n):
    """Truth table of the autoref handle `h`, read ONLY through the handle's own
    attributes (var / low / high / negated), as a client traversal would; the
    root handle is the live Python object, the children are fresh handles that
    are dropped again."""
    def go(x, top):
        v = s.op(A, 'varof', x)
        neg = s.op(A, 'negated', x)
        if v is None:
            r = T.full(n)
        else:
            lo = s.op(A, 'low', x)
            hi = s.op(A, 'high', x)
            tlo = go(lo, False)
            thi = go(hi, False)
            s.op(A, 'drop', lo)
            s.op(A, 'drop', hi)
            # low/high are the cofactors of the REGULAR node
            r = T.ite(T.var(v, n), thi, tlo, n)
        return T.neg(r, n) if neg else r
    return go(h, True)


def replay(payload):
    """Print a replay file; if it carries case lines, run them on the
    implementation and on the model and show both outputs."""
    print(json.dumps({k: v for k, v in payload.items() if k != 'case'}, indent=1)[:3000])
    case = payload.get('case') or {}
    lines = case.get('lines') if isinstance(case, dict) else None
    if not lines and payload.get('correspondence'):
        lines = payload['correspondence'][0].get('shrunk_case')
    if lines:
        from .. import session as S
        e = S.replay_impl(lines)
        g = S.run_model(lines)
        for l, a, c in zip(lines, e, g):
            mark = '' if (a is None or a == c) else '   <== DIFFERS'
            print(l + mark)
            if mark:
                print('  impl :', a)
                print('  model:', c)
        print(f'{len(lines)} lines replayed')
    else:
        print(json.dumps(case, indent=1)[:3000])
    return 0
