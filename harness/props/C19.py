"""C19 - the C back ends (dd/cudd.pyx, dd/cudd_zdd.pyx, dd/sylvan.pyx,
dd/buddy.pyx), at SOURCE level: nothing can be built or run here.

What this module does (the *search for a failing input*; the obligations are
the theorems of coq/Properties/C19*.v over the same generated tables):

  apply   the operator chain of each wrapper's `apply` (scanned by
          translator/gen_capply.py, also stored in Generated/capply.json) is
          interpreted with a Python copy of the library-semantics table of
          coq/Model/CSem.v and compared with the chain of dd.bdd.BDD.apply
          (translator/gen_pyapply.py) on every alias of the vocabulary of
          dd/_abc.py and all 8 valuations of the operands; quantifier
          branches are compared on the forall flag and the operand roles.
  refs    the reference-event skeletons (translator/gen_cref.py,
          Generated/cref.json) are checked path by path with a Python port
          of `balanced`, `handle_ok`, `returns_ok` of coq/Model/CRefSem.v.

Keys:  C19:apply:<lib>:<canonical-op>     C19:ref:<lib>:<function>
No sessions: there is nothing executable."""
import itertools
import json
import os
import re
import sys

import fcntl
import time

from ..framework import VERIF, COQ, sh

RULE = ('every alias of the operator vocabulary of dd/_abc.py x the 8 valuations of '
        '(u, v, w) for each of the 4 wrappers (a case is (wrapper, alias, valuation); '
        'quantifier aliases: one case per alias on (forall flag, function role, variables role)); '
        'every path of every function of the 4 wrappers that touches reference counts, '
        'the Function handle of each wrapper, every return of every function that deals '
        'with nodes; distinct by that signature')
EXHAUSTIVE = {'quick': True, 'thorough': True}
ASSUMES = [
    'the C libraries compute what their documentation says (table lib_sem / const_sem / quant_conv of coq/Model/CSem.v)',
    'a loop that stores referenced nodes into a C array / dict and the loop that dereferences its elements range over the same elements',
    'paths that end in `raise` (including exceptions raised implicitly by calls) are outside the property',
    'two branch tests are taken to agree only when they are the same text on unassigned variables',
    'which node a C variable holds is identified by the variable name',
]
TRUSTED = [
    'translator/pyxscan.py + gen_capply.py + gen_cref.py: text scanners of the .pyx sources (fail-closed on unrecognised shapes)',
    'coq/Model/CSem.v: hand-written semantics of the library calls (documentation of CUDD, Sylvan, BuDDy), argument conventions of the quantifier entry points',
    'coq/Model/CRefSem.v: the definition of a disciplined path (balanced, handle_ok, returns_ok)',
    'harness/props/C19.py repeats both tables in Python for the search; a disagreement between the two copies shows up as oracle/theorem disagreement',
]

GEN = os.path.join(COQ, 'Generated')
TRANSLATOR = os.path.join(VERIF, 'translator')
LIBS = ['cudd', 'cudd_zdd', 'sylvan', 'buddy']
ROLES = {'RU': 0, 'RV': 1, 'RW': 2}
ROLE_NAME = {'RU': 'u (first operand)', 'RV': 'v (second operand)', 'RW': 'w (third operand)'}

# ---------------------------------------------------------------------------
# Python copy of coq/Model/CSem.v
# ---------------------------------------------------------------------------
CONST_SEM = {
    'Cudd_ReadOne(mgr)': True, 'Cudd_ReadLogicZero(mgr)': False,
    'Cudd_ReadZddOne(mgr, 0)': True,
    'sy.sylvan_true': True, 'sy.sylvan_false': False,
    'buddy.bdd_true()': True, 'buddy.bdd_false()': False,
}


def _ite(a, b, c):
    return b if a else c


LIB_SEM = {
    'Cudd_Not': (1, lambda a: not a),
    'Cudd_bddAnd': (2, lambda a, b: a and b),
    'Cudd_bddOr': (2, lambda a, b: a or b),
    'Cudd_bddNand': (2, lambda a, b: not (a and b)),
    'Cudd_bddNor': (2, lambda a, b: not (a or b)),
    'Cudd_bddXor': (2, lambda a, b: a != b),
    'Cudd_bddXnor': (2, lambda a, b: a == b),
    'Cudd_bddIte': (3, _ite),
    'Cudd_zddIntersect': (2, lambda a, b: a and b),
    'Cudd_zddUnion': (2, lambda a, b: a or b),
    'Cudd_zddDiff': (2, lambda a, b: a and not b),
    'Cudd_zddIte': (3, _ite),
    'sylvan_not': (1, lambda a: not a),
    'sylvan_and': (2, lambda a, b: a and b),
    'sylvan_xor': (2, lambda a, b: a != b),
    'sylvan_ite': (3, _ite),
    'sylvan_or': (2, lambda a, b: a or b),
    'sylvan_nand': (2, lambda a, b: not (a and b)),
    'sylvan_nor': (2, lambda a, b: not (a or b)),
    'sylvan_imp': (2, lambda a, b: (not a) or b),
    'sylvan_invimp': (2, lambda a, b: a or not b),
    'sylvan_equiv': (2, lambda a, b: a == b),
    'sylvan_biimp': (2, lambda a, b: a == b),
    'sylvan_diff': (2, lambda a, b: a and not b),
    'sylvan_less': (2, lambda a, b: (not a) and b),
    'bdd_not': (1, lambda a: not a),
    'bdd_and': (2, lambda a, b: a and b),
    'bdd_or': (2, lambda a, b: a or b),
    'bdd_xor': (2, lambda a, b: a != b),
    'bdd_imp': (2, lambda a, b: (not a) or b),
    'bdd_biimp': (2, lambda a, b: a == b),
    'bdd_ite': (3, _ite),
}
# (forall?, index of the function argument, index of the variables argument)
QUANT_CONV = {
    'Cudd_bddUnivAbstract': (True, 0, 1), 'Cudd_bddExistAbstract': (False, 0, 1),
    'sylvan_forall': (True, 0, 1), 'sylvan_exists': (False, 0, 1),
    'bdd_forall': (True, 0, 1), 'bdd_exist': (False, 0, 1),
    '_forall_root': (True, 0, 1), '_exist_root': (False, 0, 1),
}


def cterm_sem(t, val):
    """value of a C term on the valuation (bu, bv, bw); None = no meaning"""
    k = t['k']
    if k == 'op':
        return val[ROLES[t['role']]]
    if k == 'const':
        return CONST_SEM.get(t['name'])
    if k == 'call':
        ent = LIB_SEM.get(t['name'])
        if ent is None or ent[0] != len(t['args']):
            return None
        args = [cterm_sem(a, val) for a in t['args']]
        if any(a is None for a in args):
            return None
        return bool(ent[1](*args))
    return None


def cterm_uses(t):
    if t['k'] in ('op', 'supportcube'):
        return [t['role']]
    if t['k'] == 'call':
        return [r for a in t['args'] for r in cterm_uses(a)]
    return []


def cterm_quant(t):
    """(forall?, role that is quantified, role that supplies the variables)"""
    if t['k'] != 'call' or t['name'] not in QUANT_CONV or len(t['args']) != 2:
        return None
    fa, fi, vi = QUANT_CONV[t['name']]
    f, v = t['args'][fi], t['args'][vi]
    if f['k'] != 'op' or v['k'] not in ('op', 'supportcube'):
        return None
    return (fa, f['role'], v['role'])


def show_term(t):
    k = t['k']
    if k == 'op':
        return {'RU': 'u.node', 'RV': 'v.node', 'RW': 'w.node'}[t['role']]
    if k == 'const':
        return t['name']
    if k == 'supportcube':
        return 'cube(support(%s))' % {'RU': 'u', 'RV': 'v', 'RW': 'w'}[t['role']]
    return '%s(%s)' % (t['name'], ', '.join(show_term(a) for a in t['args']))


# ---------------------------------------------------------------------------
# the Python manager's rows (translator/gen_pyapply.py)
# ---------------------------------------------------------------------------
def _translator():
    if TRANSLATOR not in sys.path:
        sys.path.insert(0, TRANSLATOR)


def _parse_operand(toks):
    t = toks.pop(0)
    if t == '(':
        need = toks.pop(0)
        assert need == 'ONeg', need
        o = _parse_operand(toks)
        assert toks.pop(0) == ')'
        return ('neg', o)
    assert t in ('OU', 'OV', 'OW', 'OTrue', 'OFalse'), t
    return t


def parse_template(s):
    toks = re.findall(r'[()]|\w+', s)
    head = toks.pop(0)
    if head == 'TRet':
        return ('ret', _parse_operand(toks))
    if head == 'TIte':
        return ('ite', _parse_operand(toks), _parse_operand(toks), _parse_operand(toks))
    if head == 'TQuant':
        fa = toks.pop(0) == 'true'
        return ('quant', fa, _parse_operand(toks), _parse_operand(toks))
    raise ValueError(s)


def operand_sem(o, val):
    if isinstance(o, tuple):
        return not operand_sem(o[1], val)
    return {'OU': val[0], 'OV': val[1], 'OW': val[2], 'OTrue': True, 'OFalse': False}[o]


def template_sem(t, val):
    if t[0] == 'ret':
        return operand_sem(t[1], val)
    if t[0] == 'ite':
        return operand_sem(t[2], val) if operand_sem(t[1], val) else operand_sem(t[3], val)
    return None


def python_rows():
    """[(aliases, template, source text)], vocabulary dict"""
    _translator()
    import gen_pyapply as G
    tree = G.parse('dd/bdd.py')
    fn = G.find_func(G.find_class(tree, 'BDD').body, 'apply')
    _, table, _ = G.apply_chain(fn)
    voc = G.vocab()
    rows = [(names, parse_template(t), t) for names, t in table]
    return rows, voc


def canonical(aliases):
    for a in aliases:
        if a.isalpha():
            return a
    return aliases[0]


def find_row(rows, op):
    for r in rows:
        if op in r[0]:
            return r
    return None


# ---------------------------------------------------------------------------
# tables of the wrappers
# ---------------------------------------------------------------------------
def fresh_tables(ctx):
    """scan the sources now; compare with the stored json"""
    _translator()
    out = {}
    try:
        import gen_capply
        import gen_cref
        from common import TranslationError
    except Exception as e:  # noqa: B902
        ctx.obligation_broken('translator import failed', repr(e))
        return None, None
    try:
        cap = {lib: gen_capply.scan(lib) for lib in LIBS}
        gen_capply._SIG.clear()
    except TranslationError as e:
        ctx.obligation_broken('translator gen_capply: source of `apply` not recognised', str(e))
        cap = None
    try:
        cref = {lib: gen_cref.jsonable(gen_cref.scan_lib(lib)) for lib in LIBS}
    except TranslationError as e:
        ctx.obligation_broken('translator gen_cref: reference code not recognised', str(e))
        cref = None
    for name, fresh in (('capply.json', cap), ('cref.json', cref)):
        p = os.path.join(GEN, name)
        if fresh is None:
            continue
        try:
            stored = json.load(open(p))
        except Exception as e:  # noqa: B902
            ctx.obligation_broken(f'Generated/{name} missing or unreadable (run translator/generate.py)', repr(e))
            continue
        if json.loads(json.dumps(fresh, sort_keys=True)) != stored:
            ctx.obligation_broken(
                f'Generated/{name} is stale with respect to the sources (run translator/generate.py)', '')
    return cap, cref


# ---------------------------------------------------------------------------
# apply
# ---------------------------------------------------------------------------
VALUATIONS = list(itertools.product([True, False], repeat=3))


def check_apply(ctx, cap, rows, voc):
    unary = voc['_UnaryOperatorSymbol']
    binary = voc['_BinaryOperatorSymbol']
    ternary = voc['_TernaryOperatorSymbol']
    vocab = unary + binary + ternary
    for lib in LIBS:
        d = cap[lib]
        src = d['file']
        crows = d['rows']
        failures = {}      # canonical op -> list of failing cases

        def fail(op, what, case):
            failures.setdefault(op, []).append((what, case))

        def crow(op):
            for r in crows:
                if op in r['aliases']:
                    return r
            return None
        not_accepted = []
        for op in vocab:
            r = crow(op)
            py = find_row(rows, op)
            if r is None:
                not_accepted.append(op)
                ctx.count(f'{lib}:not-accepted')
                continue
            if py is None:
                ctx.violation(f'C19:apply:{lib}:{op}', f'dd.bdd.BDD.apply has no branch for {op!r}',
                              dict(lib=lib, alias=op))
                continue
            can = canonical(py[0])
            where = f'{src}:{r["line"]}'
            allowed = (['RU'] if op in unary else ['RU', 'RV'] if op in binary
                       else ['RU', 'RV', 'RW'])
            if py[1][0] == 'quant':
                _, fa, vars_of, fn = py[1]
                want = (fa, 'R' + fn[1:], 'R' + vars_of[1:])
                got = cterm_quant(r['term'])
                ctx.case((lib, op, 'quantifier-roles'))
                ctx.count(f'{lib}:quantifier-alias')
                if got != want:
                    def rd(x):
                        if x is None:
                            return 'not a quantifier call known to the convention table'
                        return dict(forall=x[0], quantified_operand=ROLE_NAME[x[1]],
                                    variables_from=ROLE_NAME[x[2]])
                    fail(can, f'{lib} apply({op!r}): operand roles differ from dd.bdd.BDD.apply',
                         dict(lib=lib, alias=op, source=where, c_branch=r['source'],
                              c_term=show_term(r['term']), wrapper=rd(got),
                              python_branch=py[2], python=rd(want)))
            else:
                for val in VALUATIONS:
                    a = cterm_sem(r['term'], val)
                    b = template_sem(py[1], val)
                    ctx.case((lib, op, val))
                    ctx.count(f'{lib}:valuation')
                    if a is None or a != b:
                        fail(can, f'{lib} apply({op!r}) differs from dd.bdd.BDD.apply',
                             dict(lib=lib, alias=op, valuation=dict(u=val[0], v=val[1], w=val[2]),
                                  wrapper_value=a, python_value=b, source=where,
                                  c_branch=r['source'], c_term=show_term(r['term']),
                                  python_branch=py[2]))
            bad = [x for x in cterm_uses(r['term']) if x not in allowed]
            if bad:
                fail(can, f'{lib} apply({op!r}) reads an operand that its arity does not provide',
                     dict(lib=lib, alias=op, source=where, operands=bad, c_term=show_term(r['term'])))
        # symbols outside the vocabulary
        for r in crows:
            for a in r['aliases']:
                ctx.case((lib, a, 'in-vocabulary'))
                if a not in vocab:
                    ctx.violation(f'C19:apply:{lib}:extra:{a}',
                                  f'{lib} apply accepts {a!r}, which dd/_abc.py does not list',
                                  dict(lib=lib, alias=a, source=f'{src}:{r["line"]}'))
        # operand-shape guards
        ar = d['arity']
        if ar['kind'] == 'own':
            for g in ar['guards']:
                for a in g['aliases']:
                    want = ['GVNotNone'] if a in unary else ['GVNone'] if a in binary else None
                    ctx.case((lib, a, 'operand-guard'))
                    if g['conds'] != want:
                        ctx.violation(f'C19:apply:{lib}:arity:{a}',
                                      f'{lib} apply({a!r}) checks its optional operand differently from dd.bdd',
                                      dict(lib=lib, alias=a, guards=g['conds'], expected=want))
            for s in d['symbols'] or []:
                if crow(s) is None:
                    ctx.violation(f'C19:apply:{lib}:unbound:{s}',
                                  f'{lib} apply lets {s!r} through but has no branch for it',
                                  dict(lib=lib, alias=s))
        for can, fs in failures.items():
            what, first = fs[0]
            ctx.violation(f'C19:apply:{lib}:{can}', what,
                          dict(first, failing_cases=len(fs),
                               all_failing=[dict(alias=c['alias'], valuation=c.get('valuation'))
                                            for _, c in fs][:16]))
        ctx.sample(dict(lib=lib, accepted=len(vocab) - len(not_accepted), not_accepted=not_accepted,
                        example=dict(alias=crows[-1]['aliases'][0], c_term=show_term(crows[-1]['term']))))


# ---------------------------------------------------------------------------
# references: port of coq/Model/CRefSem.v
# ---------------------------------------------------------------------------
def _remove1(x, held):
    if x in held:
        h = list(held)
        h.remove(x)
        return h
    return None


class Unbalanced(Exception):
    pass


def _step(e, inloop, held, kind, params, strict=False):
    """('cont', held) | ('done', ok, reason)"""
    k = e[0]

    def strip(h):
        return [x for x in h if not x.startswith('!')]
    if k in ('ref', 'owned'):
        return ('cont', [e[1]] + [x for x in held if x != '!' + e[1]])
    if k in ('deref', 'derefl'):
        h = _remove1(e[1], held)
        if h is None:
            return ('done', False, f'{e[1]} released without a reference being held')
        if k == 'deref' and e[1] not in h:
            # the function's own reference is gone and the node may be reclaimed
            h = ['!' + e[1]] + h
        return ('cont', h)
    if k in ('wrap', 'ret_node', 'init') and ('!' + e[-1]) in held:
        return ('done', False, f'{e[-1]} used ({k}) after its reference was released')
    if k == 'store' and ('!' + e[2]) in held:
        return ('done', False, f'{e[2]} stored after its reference was released')
    if k == 'store':
        h = _remove1(e[2], held)
        if h is None:
            return ('done', False, f'{e[2]} stored into {e[1]} without a reference being held')
        return ('cont', h if e[1] in params else ['@' + e[1]] + h)
    if k == 'fill':
        return ('cont', held if e[1] in params else ['@' + e[1]] + held)
    if k == 'derefelem':
        if not inloop:
            return ('done', False, f'element of {e[1]} released outside a loop')
        if e[1] in params:
            return ('cont', held)
        h = _remove1('@' + e[1], held)
        if h is None:
            return ('done', False, f'elements of {e[1]} released but {e[1]} holds no references')
        return ('cont', h)
    if k == 'loop':
        effects = []
        for body in e[1]:
            h = held
            res = None
            for e2 in body:
                r = _step(e2, True, h, kind, params, strict)
                if r[0] == 'done':
                    res = r
                    break
                h = r[1]
            if res is not None:
                if not res[1]:
                    return res
                continue
            extra = strip(h)
            missing = []
            for x in strip(held):
                if x in extra:
                    extra.remove(x)
                else:
                    missing.append(x)
            if not extra and not missing:
                effects.append(('neutral', None))
            elif len(extra) == 1 and not missing and extra[0].startswith('@'):
                effects.append(('fill', extra[0]))
            elif len(missing) == 1 and not extra and missing[0].startswith('@'):
                effects.append(('drain', missing[0]))
            else:
                return ('done', False,
                        f'a repetition of the loop keeps {extra} and releases {missing}')
        kinds = {k2 for k2, _ in effects}
        names = {c for _, c in effects if c is not None}
        if not effects or kinds == {'neutral'}:
            return ('cont', held)
        if len(names) != 1 or ('fill' in kinds and 'drain' in kinds) or (
                'drain' in kinds and 'neutral' in kinds):
            return ('done', False, 'the ways through the loop body have different effects')
        c = names.pop()
        if 'fill' in kinds:
            return ('cont', [c] + held)
        h = _remove1(c, held)
        if h is None:
            return ('done', False, f'{c} drained but not held')
        return ('cont', h)
    if k in ('ret_wrapped', 'ret_other'):
        return ('done', not strip(held), f'still held at return: {strip(held)}')
    if k == 'ret_node':
        if kind != 'KCdef':
            return ('done', False, f'bare node {e[1]} returned to Python')
        return ('done', not strip(held), f'still held at return: {strip(held)}')
    if k == 'raise':
        if strict:
            return ('done', not strip(held), f'still held at the raise: {strip(held)}')
        return ('done', True, '')
    return ('cont', held)


def _refs(p):
    return [e[1] for e in p if e[0] in ('ref', 'owned')]


def _derefs(p):
    return [e[1] for e in p if e[0] in ('deref', 'derefl')]


# functions whose raising paths may still hold something (internal assertion failures, NULL
# results of the library), with the number of such paths: the statement of
# C19_raising_paths_<lib> in coq/Properties/C19.v
RAISE_EXEMPT = {
    'cudd': {'BDD._load_dddmp': 1, '_test_incref': 1, '_test_decref': 1},
    'cudd_zdd': {'_c_compose': 3, '_compose_root': 2, '_compose': 5},
    'sylvan': {},
    'buddy': {},
}


def balanced(m, p, strict=False):
    """(ok, reason)"""
    if m['api'] is not None:
        simple = all(e[0] in ('ref', 'deref', 'derefl', 'ret_other', 'raise') for e in p)
        if simple and p and p[-1][0] == 'raise':
            if strict and (_refs(p) or _derefs(p)):
                return False, 'forwarder changes a count and then raises'
            return True, ''
        evs = _refs(p) + _derefs(p)
        ok = (simple and (not _derefs(p) if m['api'] else not _refs(p)) and len(evs) <= 1
              and all(re.split(r'[.\[]', x)[0] in m['params'] and re.split(r'[.\[]', x)[0] != 'self'
                      for x in evs))
        return ok, 'forwarder does something else than one count change on its parameter'
    w = [e[1] for e in p if e[0] == 'wrap']
    if len(set(w)) != len(w):
        return False, 'a node is wrapped twice on one path'
    held = []
    for e in p:
        r = _step(e, False, held, m['kind'], m['params'], strict)
        if r[0] == 'done':
            return r[1], ('' if r[1] else r[2])
        held = r[1]
    held = [x for x in held if not x.startswith('!')]
    return (not held), ('' if not held else f'still held at the end: {held}')


def _ends_in_raise(p):
    return bool(p) and p[-1][0] == 'raise'


def handle_problems(h):
    out = []
    if h['ctor'] == 'wrap':
        for p in h['wrap']:
            ok = (len(p) == 3 and p[0][0] == 'new' and p[1][0] == 'init' and p[2][0] == 'ret_handle'
                  and p[0][1] == p[1][1] == p[2][1] and p[1][2] in h['wrap_params'])
            if not ok:
                out.append(('wrap', p, 'wrap is not `f = Function(); f.init(node, ..); return f`'))
        if not h['wrap']:
            out.append(('wrap', [], 'wrap has no path'))
    elif h['ctor'] != 'Function' or h['wrap']:
        out.append(('wrap', [], 'unknown constructor'))
    live = False
    for p in h['init']:
        if _ends_in_raise(p):
            continue
        live = True
        r = _refs(p)
        if not (len(r) == 1 and r[0] in h['init_params'] and not _derefs(p)
                and ['setnode', r[0]] in [list(e) for e in p]):
            out.append((h['init_name'], p, 'creating a Function does not take exactly one reference on the node it stores'))
    if not live:
        out.append((h['init_name'], [], 'no path creates a Function'))
    for name, paths in (('Function.__dealloc__', h['dealloc']), ('_test_call_dealloc', h['dealloc_copy'])):
        if name == '_test_call_dealloc' and not paths:
            continue
        live = False
        for p in paths:
            if _ends_in_raise(p):
                continue
            kinds = [e[0] for e in p]
            if 'notlive' in kinds:
                if _refs(p) or _derefs(p):
                    out.append((name, p, 'a handle that is not live still changes a count'))
                continue
            live = True
            d = _derefs(p)
            after = kinds[kinds.index('deref') + 1:] if 'deref' in kinds else []
            if _refs(p) or d != ['self.node'] or 'clearnode' not in after:
                out.append((name, p, 'disposal does not give back exactly one reference of self.node and clear the handle'))
        if not live:
            out.append((name, [], 'no path disposes of a live handle'))
    return out


def check_refs(ctx, cref):
    for lib in LIBS:
        d = cref[lib]
        src = d['file']
        for (fn, p, why) in handle_problems(d['handle']):
            ctx.violation(f'C19:ref:{lib}:{fn}', f'{lib}: {why}',
                          dict(lib=lib, function=fn, source=src, path=p))
        for k in ('wrap', 'init', 'dealloc', 'dealloc_copy'):
            for i, p in enumerate(d['handle'][k]):
                ctx.case((lib, 'handle', k, i))
                ctx.count(f'{lib}:handle-path')
        for m in d['methods']:
            for i, p in enumerate(m['paths']):
                ok, why = balanced(m, p)
                ctx.case((lib, m['name'], i))
                ctx.count(f'{lib}:path')
                if not ok:
                    ctx.violation(f'C19:ref:{lib}:{m["name"]}',
                                  f'{lib} {m["name"]}: {why}',
                                  dict(lib=lib, function=m['name'], source=f'{src}:{m["line"]}',
                                       path_index=i, path=p, reason=why))
        # raising paths included (strict discipline), up to the named exceptions
        for m in d['methods']:
            failing = []
            for i, p in enumerate(m['paths']):
                if _ends_in_raise(p):
                    ctx.count(f'{lib}:raising-path')
                ok, why = balanced(m, p, strict=True)
                if not ok:
                    failing.append((i, p, why))
            allowed = RAISE_EXEMPT[lib].get(m['name'], 0)
            if failing:
                ctx.count(f'{lib}:raising-path-holding-a-reference', len(failing))
            if len(failing) > allowed:
                i, p, why = failing[-1]
                ctx.violation(f'C19:ref-raise:{lib}:{m["name"]}',
                              f'{lib} {m["name"]}: {len(failing)} raising path(s) leave a reference behind '
                              f'({allowed} known): {why}',
                              dict(lib=lib, function=m['name'], source=f'{src}:{m["line"]}',
                                   paths=[dict(path_index=i2, path=p2, reason=w2) for i2, p2, w2 in failing]))
        for r in d['returns']:
            for x in r['rets']:
                ctx.case((lib, r['name'], 'return', x['line']))
                ctx.count(f'{lib}:return')
                if x['kind'] == 'ret_node' and r['kind'] != 'KCdef':
                    ctx.violation(f'C19:ref:{lib}:{r["name"]}',
                                  f'{lib} {r["name"]} hands a bare library node to Python',
                                  dict(lib=lib, function=r['name'], source=f'{src}:{x["line"]}',
                                       returned=x['x']))
        ctx.sample(dict(lib=lib, functions_with_reference_calls=[m['name'] for m in d['methods']],
                        paths=sum(len(m['paths']) for m in d['methods']),
                        functions_returning_nodes=len(d['returns'])))


# ---------------------------------------------------------------------------
# the isolated obligations Properties/C19_*.v
# ---------------------------------------------------------------------------
CHAIN = ['Model/CSem.v', 'Model/CRefSem.v', 'Generated/CApply.v', 'Generated/CRef.v',
         'Proofs/CApply.v']


def _stale(v, deps):
    vo = v[:-2] + '.vo'
    if not os.path.exists(vo):
        return True
    t = os.path.getmtime(vo)
    return any(os.path.exists(d) and os.path.getmtime(d) > t for d in [v] + deps)


def _coqc(rel):
    return sh(f'cd {COQ} && timeout 600 coqc -Q . DD {rel}', timeout=700)


class _BuildLock:
    """the framework's build lock, taken without blocking for ever (the
    same process may already hold it through another descriptor)"""

    def __enter__(self):
        self.f = open(os.path.join(VERIF, '.build.lock'), 'w')
        t0 = time.time()
        while True:
            try:
                fcntl.flock(self.f, fcntl.LOCK_EX | fcntl.LOCK_NB)
                self.held = True
                return self
            except OSError:
                if time.time() - t0 > 900:
                    self.held = False
                    return self
                time.sleep(0.5)

    def __exit__(self, *a):
        if self.held:
            fcntl.flock(self.f, fcntl.LOCK_UN)
        self.f.close()


def isolated_files():
    d = os.path.join(COQ, 'Properties')
    return sorted(f for f in os.listdir(d) if re.fullmatch(r'C19_\w+\.v', f))


def check_isolated(ctx):
    """Properties/C19_<x>.v are kept apart so that one false statement does
    not hide the others.  Make sure each has an up-to-date .vo (compiling
    it, and what it needs, with coqc when the build did not) and report the
    ones that do not compile."""
    already = ' '.join(b['name'] for b in ctx.broken)
    with _BuildLock():
        deps = []
        for rel in CHAIN:
            v = os.path.join(COQ, rel)
            if not os.path.exists(v):
                ctx.obligation_broken(f'{rel} is missing', '')
                return
            if _stale(v, [x[:-2] + '.vo' for x in deps]):
                rc, out = _coqc(rel)
                if rc != 0:
                    try:
                        os.remove(v[:-2] + '.vo')
                    except OSError:
                        pass
                    if rel not in already:
                        ctx.obligation_broken(f'{rel} does not build', out)
                    return
            deps.append(v)
        for f in isolated_files():
            rel = 'Properties/' + f
            v = os.path.join(COQ, rel)
            vo = v[:-2] + '.vo'
            out = ''
            if _stale(v, [x[:-2] + '.vo' for x in deps]):
                try:
                    os.remove(vo)
                except OSError:
                    pass
                rc, out = _coqc(rel)
                if rc != 0:
                    for junk in (v[:-2] + '.glob',
                                 os.path.join(COQ, 'Properties', '.' + f[:-2] + '.aux')):
                        try:
                            os.remove(junk)
                        except OSError:
                            pass
            if not os.path.exists(vo):
                ctx.count('isolated-obligation-broken')
                if rel not in already:
                    ctx.obligation_broken(f'{rel} does not build', out)
                continue
            # closed under the global context ?
            base = f[:-2]
            thms = re.findall(r'^\s*(?:Theorem|Corollary)\s+(\w+)', open(v).read(), re.M)
            tmp = os.path.join(COQ, 'Properties', f'_assum_{base}.v')
            with open(tmp, 'w') as fh:
                fh.write(f'From DD Require Import Properties.{base}.\n')
                for t in thms:
                    fh.write(f'Print Assumptions {base}.{t}.\n')
            rc, out = _coqc(f'Properties/_assum_{base}.v')
            for ext in ('v', 'vo', 'vok', 'vos', 'glob'):
                try:
                    os.remove(os.path.join(COQ, 'Properties', f'_assum_{base}.{ext}'))
                except OSError:
                    pass
            try:
                os.remove(os.path.join(COQ, 'Properties', f'._assum_{base}.aux'))
            except OSError:
                pass
            if rc != 0 or out.count('Closed under the global context') != len(thms):
                ctx.obligation_broken(f'{rel}: assumptions not closed', out)
            else:
                ctx.count('isolated-obligation-discharged', len(thms))


# ---------------------------------------------------------------------------
def run(ctx):
    cap, cref = fresh_tables(ctx)
    try:
        rows, voc = python_rows()
    except Exception as e:  # noqa: B902
        ctx.obligation_broken('translator gen_pyapply: dd.bdd.BDD.apply not recognised', repr(e))
        rows = None
    if cap is not None and rows is not None:
        check_apply(ctx, cap, rows, voc)
    if cref is not None:
        check_refs(ctx, cref)
    check_isolated(ctx)


def replay(payload):
    """Print the recorded case, then re-evaluate it on the sources as they
    are now (wrapper branch and dd.bdd branch side by side)."""
    print(json.dumps(payload, indent=1, default=str)[:6000])
    case = payload.get('case') or {}
    key = payload.get('key', '')
    if not isinstance(case, dict):
        return 0
    lib = case.get('lib')

    class _C:
        broken = []

        def obligation_broken(self, n, d):
            print('translator:', n, d[:500])
    if key.startswith('C19:apply:') and lib in LIBS and 'alias' in case:
        _translator()
        import gen_capply
        rows, voc = python_rows()
        d = gen_capply.scan(lib)
        op = case['alias']
        r = next((x for x in d['rows'] if op in x['aliases']), None)
        py = find_row(rows, op)
        print(f'--- now, {d["file"]} apply({op!r}):')
        if r is None:
            print('    not accepted')
            return 0
        print(f'    wrapper  line {r["line"]}: {r["source"]}')
        print(f'    dd.bdd   : {py[2] if py else None}')
        if py and py[1][0] == 'quant':
            print('    wrapper roles (forall, quantified, variables from):', cterm_quant(r['term']))
            print('    dd.bdd  roles (forall, quantified, variables from):',
                  (py[1][1], 'R' + py[1][3][1:], 'R' + py[1][2][1:]))
        elif py:
            for val in VALUATIONS:
                print(f'    u={val[0]!s:5} v={val[1]!s:5} w={val[2]!s:5}  wrapper={cterm_sem(r["term"], val)}'
                      f'  dd.bdd={template_sem(py[1], val)}')
    elif key.startswith('C19:ref:') and lib in LIBS:
        _translator()
        import gen_cref
        d = gen_cref.jsonable(gen_cref.scan_lib(lib))
        fn = case.get('function')
        for m in d['methods']:
            if m['name'] == fn:
                print(f'--- now, {d["file"]}:{m["line"]} {fn}:')
                for i, p in enumerate(m['paths']):
                    print('   ', i, balanced(m, p), p)
        for (f2, p, why) in handle_problems(d['handle']):
            print('    handle:', f2, why, p)
    return 0
