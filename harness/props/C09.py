"""C09 - dynamic reordering is invisible: same results wherever it fires."""
from .. import gen, oracle, tt as T, impl as _impl
from .base import Mgr, replay  # noqa: F401
from ..impl import vname

RULE = ('for every operation (connectives, ite, quantify, let x3, cube, var, copy into the '
        'manager, image, preimage, find_or_add; dd.bdd with referenced operands and dd.autoref) '
        'and every position k = 1..K of the node-creation request at which reordering can be '
        'triggered (enumerated until the operation makes fewer than k requests), plus natural '
        'triggering at lowered thresholds; a case is (operation, operands, k)')
EXHAUSTIVE = {'quick': False, 'thorough': False}
ASSUMES = ['operands are referenced (incref / live Function)',
           'add_expr and load are exercised by the C05 / C12 streams']
N = 4


def setup(ctx, label, tts, order=None, extra_mgr=False):
    """fresh manager over N variables with the given functions built and
    referenced; reordering still disabled"""
    M = Mgr(ctx, label, N, order or list(range(N)))
    refs = []
    for t in tts:
        u = M.build(t)
        M.op('incref', u)
        refs.append(u)
    M.op('gc', None)
    return M, refs


OPS = ['and', 'xor', 'ite', 'quantify', 'apply_exists', 'apply_forall', 'let_bool', 'let_ref',
       'let_name', 'cube', 'var', 'copy', 'image', 'preimage', 'find_or_add', 'compose1',
       'quantify_levels', 'cofactor_levels', 'quantify_forall',
       'compose_direct1', 'compose_direct2', 'rename_direct', 'cube_names']


def run_one(ctx, opname, tts, k, natural=None):
    """returns True when the trigger fired (or natural mode), False when the
    operation made fewer than k requests"""
    rng = ctx.rng
    label = f'{opname} k={k} natural={natural}'
    M, refs = setup(ctx, label, tts)
    s = M.s
    n = N
    full = T.full(n)
    t0, t1, t2 = tts[:3]
    u0, u1, u2 = refs[:3]
    before = {u: M.tt(u) for u in refs}
    if opname == 'copy':
        # source manager 1 (reordering off) with another order
        s.op(1, 'new', {v: l for v, l in zip(range(n), [3, 1, 0, 2])})
        src = gen.build_tt(s, 1, t0, list(range(n)))
    M.op('configure', True)
    if natural is not None:
        M.op('set_last_len', natural)
    else:
        M.op('set_trig', k)
    expect = None
    if opname == 'and':
        r = M.op('apply', 'and', u0, u1, None)
        expect = t0 & t1
    elif opname == 'xor':
        r = M.op('apply', '#', u0, -u1, None)
        expect = t0 ^ T.neg(t1, n)
    elif opname == 'ite':
        r = M.op('ite', u0, u1, u2)
        expect = T.ite(t0, t1, t2, n)
    elif opname == 'quantify':
        r = M.op('quantify', u0, 'n', [0, 2], False)
        expect = T.exists(t0, n, [0, 2])
    elif opname == 'quantify_forall':
        # (the harness passes `forall=` by keyword, as BDD.forall does)
        r = M.op('quantify', u0, 'n', [1, 3], True)
        expect = T.forall(t0, n, [1, 3])
    elif opname == 'quantify_levels':
        # keys given as LEVELS (dd.bdd accepts both): the variables at those levels now
        r = M.op('quantify', u0, 'l', [0, 2], False)
        expect = T.exists(t0, n, [0, 2])
    elif opname == 'cofactor_levels':
        r = M.op('cofactor', u0, 'l', {1: True, 3: False})
        expect = T.cofactor(t0, n, {1: True, 3: False})
    elif opname in ('apply_exists', 'apply_forall'):
        fa = opname == 'apply_forall'
        sup = sorted(T.support(t1, n))
        r = M.op('apply', rng.choice(['\\A', 'forall'] if fa else ['\\E', 'exists']), u1, u0, None)
        expect = T.forall(t0, n, sup) if fa else T.exists(t0, n, sup)
    elif opname == 'let_bool':
        r = M.op('let_bool', {1: True, 3: False}, u0)
        expect = T.cofactor(t0, n, {1: True, 3: False})
    elif opname == 'let_ref':
        r = M.op('let_ref', {0: u1, 2: u2}, u0)
        expect = T.vector_compose(t0, n, {0: t1, 2: t2})
    elif opname == 'compose1':
        r = M.op('let_ref', {1: u1}, u0)
        expect = T.vector_compose(t0, n, {1: t1})
    elif opname in ('compose_direct1', 'compose_direct2'):
        # the public `BDD.compose` itself (not through `let`), one and two variables
        one = opname.endswith('1')
        r = M.op('compose', u0, {1: u1} if one else {0: u1, 2: u2})
        expect = T.vector_compose(t0, n, {1: t1} if one else {0: t1, 2: t2})
    elif opname == 'rename_direct':
        r = M.op('rename', u0, {0: 1, 1: 0, 2: 3})
        expect = T.rename(t0, n, {0: 1, 1: 0, 2: 3})
    elif opname == 'let_name':
        r = M.op('let_name', {0: 1, 1: 0, 2: 3}, u0)
        expect = T.rename(t0, n, {0: 1, 1: 0, 2: 3})
    elif opname == 'cube_names':
        # a conjunction of positive literals given as an iterable of names (the runner
        # passes a one-shot iterator)
        r = M.op('cube', {0: True, 1: True, 2: True, 3: True})
        expect = T.var(0, n) & T.var(1, n) & T.var(2, n) & T.var(3, n)
    elif opname == 'cube':
        r = M.op('cube', {0: True, 1: False, 2: True, 3: True})
        expect = T.var(0, n) & T.neg(T.var(1, n), n) & T.var(2, n) & T.var(3, n)
    elif opname == 'var':
        r = M.op('var', 3)
        expect = T.var(3, n)
    elif opname == 'copy':
        r = s.op(0, 'copy', 1, src)
        expect = t0
    elif opname in ('image', 'preimage'):
        # pairs (0,1) and (2,3): unprimed 0,2 ; primed 1,3
        tset = T.exists(t1, n, [1, 3])
        sset = M  # placeholder
        M.op('configure', False)
        sref = M.build(tset)
        M.op('incref', sref)
        before[sref] = M.tt(sref)
        M.op('configure', True)
        if natural is not None:
            M.op('set_last_len', natural)
        else:
            M.op('set_trig', k)
        if opname == 'preimage':
            r = M.op('preimage', u0, sref, 'n', {0: 1, 2: 3}, 'n', [1, 3], False)
            expect = T.exists(t0 & T.rename(tset, n, {0: 1, 2: 3}), n, [1, 3])
        else:
            r = M.op('image', u0, sref, 'n', {1: 0, 3: 2}, 'n', [0, 2], False)
            expect = T.rename(T.exists(t0 & tset, n, [0, 2]), n, {1: 0, 3: 2})
    elif opname == 'find_or_add':
        # children: two held nodes below level 0
        M.op('configure', False)
        lo = M.build(T.cofactor(t1, n, {0: False}) if M.b.vars['v0'] == 0 else 0)
        hi = M.build(T.cofactor(t2, n, {0: True}) if M.b.vars['v0'] == 0 else full)
        for x in (lo, hi):
            M.op('incref', x)
            before[x] = M.tt(x)
        M.op('configure', True)
        if natural is not None:
            M.op('set_last_len', natural)
        else:
            M.op('set_trig', k)
        r = M.op('find_or_add', 0, lo, hi)
        expect = T.ite(T.var(0, n), M.tt(hi) if r is not None or True else 0, M.tt(lo), n) if abs(lo) in M.b._succ and abs(hi) in M.b._succ else None
    res = s.last_result()
    fired = natural is not None or getattr(M.b, '_verif_trig', None) is None
    M.b._verif_trig = None
    ctx.case((opname, tuple(tts[:3]), k, natural), True)
    ctx.count('op:' + opname)
    key = 'C09:undecorated:' + opname if opname in ('image', 'preimage', 'copy', 'find_or_add') else 'C09:' + opname
    if opname.endswith('_levels'):
        key = 'C09:by-level:' + opname.split('_')[0]
    if res == 'err:needs_reordering':
        ctx.violation(key, f'{opname}: the internal reordering signal reached the caller '
                           f'(request {k if natural is None else "natural"})', M.case())
    elif not res.startswith('ok:'):
        ctx.violation(key, f'{opname}: raised with reordering enabled (request {k}) '
                           f'although it succeeds with reordering disabled', M.case())
    else:
        if expect is not None and (abs(r) not in M.b._succ or M.tt(r) != expect):
            ctx.violation(key, f'{opname}: result with the trigger at request {k} denotes '
                               f'{hex(M.tt(r)) if abs(r) in M.b._succ else "a freed node"}, expected {expect:#x}',
                          M.case())
        if M.b._last_len is None:
            ctx.violation(key if 'undecorated' in key else 'C09:disabled-afterwards',
                          f'{opname}: dynamic reordering is disabled after the call', M.case())
    for u, t in before.items():
        if abs(u) not in M.b._succ or M.tt(u) != t:
            ctx.violation(key, f'{opname}: referenced operand {u} changed or was freed', M.case())
            break
    bad = oracle.check_table(M.b)
    if bad:
        ctx.violation(key, f'{opname}: manager not canonical afterwards: {bad[:2]}', M.case())
    M.op('configure', False)
    return fired


def autoref_one(ctx, opname, tts, k):
    """the same through dd.autoref (operands are live Functions)"""
    rng = ctx.rng
    n = N
    s = ctx.session(f'autoref {opname} k={k}')
    A = 'a0'
    s.op(A, 'new', {v: v for v in range(n)})
    hs = []
    for t in tts[:3]:
        h = s.op(A, 'false')
        for kk in range(1 << n):
            if (t >> kk) & 1:
                c = s.op(A, 'cube', {j: bool(T.getbit(kk, j, n)) for j in range(n)})
                h2 = s.op(A, 'fapply', 'or', h, c)
                s.op(A, 'drop', h)
                s.op(A, 'drop', c)
                h = h2
        hs.append(h)
    s.op(A, 'gc')
    b = s.impl.amgr[A]._bdd

    def tt_of(h):
        return oracle.tt_fast(b, s.impl.handles[A][h].node, [vname(i) for i in range(n)])
    before = {h: tt_of(h) for h in hs}
    s.op(A, 'configure', True)
    s.op(A, 'set_trig', k)
    t0, t1, t2 = tts[:3]
    if opname == 'and':
        r = s.op(A, 'fapply', 'and', hs[0], hs[1])
        expect = t0 & t1
    elif opname == 'ite':
        r = s.op(A, 'ite', hs[0], hs[1], hs[2])
        expect = T.ite(t0, t1, t2, n)
    elif opname == 'quantify':
        r = s.op(A, 'quantify', hs[0], [1, 2], True)
        expect = T.forall(t0, n, [1, 2])
    elif opname == 'let_ref':
        r = s.op(A, 'let_ref', {0: hs[1], 3: hs[2]}, hs[0])
        expect = T.vector_compose(t0, n, {0: t1, 3: t2})
    elif opname == 'le':
        r = s.op(A, 'le', hs[0], hs[1])
        expect = None
        if r != ((t0 & ~t1 & T.full(n)) == 0):
            ctx.violation('C09:le', f'<= gave {r} with the trigger at request {k}', lambda: dict(lines=list(s.lines)))
    res = s.last_result()
    fired = getattr(b, '_verif_trig', None) is None
    b._verif_trig = None
    case = lambda: dict(stream=s.label, lines=list(s.lines))  # noqa: E731
    ctx.case(('autoref', opname, tuple(tts[:3]), k), True)
    ctx.count('autoref:' + opname)
    if not res.startswith('ok:'):
        ctx.violation('C09:autoref:' + opname, f'{opname}: {res} with the trigger at request {k}', case)
    elif expect is not None and tt_of(r) != expect:
        ctx.violation('C09:autoref:' + opname, f'{opname}: wrong result with the trigger at request {k}', case)
    if b._last_len is None:
        ctx.violation('C09:disabled-afterwards', f'autoref {opname}: reordering disabled afterwards', case)
    for h, t in before.items():
        if tt_of(h) != t:
            ctx.violation('C09:autoref:' + opname, f'live Function {h} changed', case)
    s.op(A, 'configure', False)
    return fired


def witness_levels(ctx):
    """the machine-checked witness C09_quantify_levels_refuted on the implementation:
    f = (v0 /\ v2) \/ (v1 /\ v3), the request fires at the first node created by
    quantify(f, {level 0}); the retry reads level 0 against the new order"""
    n = 4
    M = Mgr(ctx, 'witness quantify by level', n, list(range(n)))
    vs = [M.op('var', j) for j in range(n)]
    for v in vs:
        M.op('incref', v)
    a = M.op('apply', 'and', vs[0], vs[2], None)
    M.op('incref', a)
    c = M.op('apply', 'and', vs[1], vs[3], None)
    M.op('incref', c)
    f = M.op('apply', 'or', a, c, None)
    M.op('incref', f)
    tf = M.tt(f)
    M.op('configure', True)
    for lvl in (1, 2, 0):
        # the variable at that level NOW (dynamic reordering may already have moved it)
        v_now = int(M.b._level_to_var[lvl][1:])
        M.op('set_trig', 1)
        r = M.op('quantify', f, 'l', [lvl], False)
        M.b._verif_trig = None
        ctx.case(('witness-levels', lvl), True)
        if r is None or M.tt(r) != T.exists(tf, n, [v_now]):
            ctx.violation('C09:by-level:quantify',
                          f'quantify(f, {{level {lvl}}}) with the request at the first node creation: the result '
                          f'is not \\E v{v_now}. f (the retry quantified the variable that sifting moved to '
                          f'that level)', M.case())
            break
    M.op('configure', False)


def failed_guarded(ctx, n):
    """`image`, `preimage` and `copy` switch reordering requests off while they run; when
    they FAIL (overlapping rename, undeclared variable, a function of a variable the target
    lacks) the threshold must be back: dynamic reordering is enabled afterwards iff it was"""
    rng = ctx.rng
    order = list(range(n))
    rng.shuffle(order)
    M = Mgr(ctx, f'failed guarded call n={n} order={order}', n, order)
    s = M.s
    t = rng.getrandbits(1 << n) | 1
    u = M.build(t)
    if u is None or abs(u) == 1:
        return
    M.op('incref', u)
    # a source manager with one more variable
    s.op(1, 'new', {v: l for v, l in zip(range(n + 1), range(n + 1))})
    w = gen.build_tt(s, 1, (rng.getrandbits(1 << (n + 1)) | 2) ^ 1, list(range(n + 1)))
    for k in (1, 3, 7):
        M.op('configure', True)
        M.op('set_last_len', k)
        calls = [('image', (u, u, 'n', {0: 1 % n, 1 % n: 0}, 'n', [0], False)),
                 ('preimage', (u, u, 'n', {0: 1 % n, 1 % n: 0}, 'n', [0], False)),
                 ('image', (u, u, 'n', {0: 1 % n}, 'n', [n + 5], False))]
        if w is not None and abs(w) != 1:
            calls.append(('copy', (1, w)))
        name, args = rng.choice(calls)
        r = M.op(name, *args)
        ctx.case(('failed-guarded', n, name, k), True)
        ctx.count('failed-guarded:' + name + (':accepted' if r is not None else ''))
        if r is None and (M.b._last_len != k or not M.b.configure()['reordering']):
            ctx.violation('C09:reordering-disabled',
                          f'after the failed {name} (threshold {k}) dynamic reordering is '
                          f'{"on" if M.b._last_len is not None else "OFF"} with threshold {M.b._last_len}', M.case())
            break
        if M.tt(u) != t:
            ctx.violation('C09:operand-changed', f'held reference changed by the failed {name}', M.case())
            break
        M.op('configure', False)
    M.op('decref', u)


def run(ctx):
    q = ctx.quick
    rng = ctx.rng
    _impl.install_trigger(True)
    try:
        witness_levels(ctx)
        for opname in OPS:
            for rep in range(1 if q else 4):
                tts = [rng.getrandbits(1 << N) for _ in range(3)]
                k = 1
                while k <= (12 if q else 60):
                    if not run_one(ctx, opname, tts, k):
                        break
                    k += 1
                ctx.count('max-k:' + opname, k - 1)
        for opname in ('and', 'ite', 'quantify', 'let_ref', 'le'):
            tts = [rng.getrandbits(1 << N) for _ in range(3)]
            k = 1
            while k <= (8 if q else 40):
                if not autoref_one(ctx, opname, tts, k):
                    break
                k += 1
    finally:
        _impl.install_trigger(False)
    # natural triggering at lowered thresholds
    for opname in OPS:
        for ll in ((1, 3) if q else (1, 2, 3, 5, 8, 13)):
            tts = [rng.getrandbits(1 << N) for _ in range(3)]
            run_one(ctx, opname, tts, 0, natural=ll)
    # quantification (method and the quantifier rows of `apply`) of order-sensitive functions
    # of 6 variables while requests fire naturally: sifting MOVES the quantified variables
    from . import C03
    C03.reordering_stream(ctx, 6, 12 if q else 80, P='C09')
    # calls that run with requests DISABLED (image / preimage / copy) and fail: dynamic
    # reordering is still enabled afterwards, at the same threshold
    for _ in range(4 if q else 30):
        failed_guarded(ctx, rng.choice([3, 4]))
    # a decorated call whose RETRY (after the served request) raises a genuine error:
    # the caller sees that error and reordering is still enabled afterwards
    from . import C17
    for n in (2, 3, 4):
        for kind in ('undeclared', 'syntax'):
            for _ in range(1 if q else 6):
                C17.failed_retry(ctx, n, kind, P='C09')
