"""C08 - dd.autoref keeps live Functions valid and releases exactly what is
dropped."""
from .. import gen, oracle, tt as T
from .base import handle_tt, replay  # noqa: F401
from ..impl import vname

RULE = ('random histories over the autoref alphabet (constructions, connectives via BDD.apply '
        'and Function operators, comparisons, let/quantify/cube, low/high/succ traversals, '
        'drops in random order, collections, reorderings) with dynamic reordering off and on; '
        'histories with the node limit of the wrapped manager set through the wrapper at tight '
        'values (RuntimeError of a full table inside operations, comparisons, copies, reorderings); '
        'JSON files that cannot be loaded (every failure kind, also files that are not reduced) into fresh, '
        'dumping and in-use managers; '
        'the harness owns every Function object; a case is one step of one history')
EXHAUSTIVE = {'quick': False, 'thorough': False}
ASSUMES = ['CPython frees a Function when its last reference is deleted (the harness holds exactly one reference per handle)',
           'aliasing of a handle (assignment) creates no new Function: modelled as the same handle']


class AH:
    def __init__(self, ctx, label, n, reordering, P='C08'):
        self.ctx = ctx
        self.P = P          # prefix of the violation keys (the stream is also used by C17)
        self.n = n
        self.A = 'a0'
        self.s = ctx.session(label)
        self.s.op(self.A, 'new', {v: v for v in range(n)})
        self.live = {}      # hid -> truth table
        self.ok = True
        if reordering:
            self.s.op(self.A, 'configure', True)
            self.s.op(self.A, 'set_last_len', ctx.rng.choice([2, 3, 4, 6]))

    @property
    def b(self):
        return self.s.impl.amgr[self.A]._bdd

    def case(self):
        s = self.s
        return lambda: dict(stream=s.label, lines=list(s.lines))

    def tt_of(self, h):
        node = self.s.impl.handles[self.A][h].node
        return oracle.tt_fast(self.b, node, [vname(i) for i in range(self.n)])

    def reg(self, h, expect=None, what=''):
        if h is None:
            return None
        got = self.tt_of(h)
        if expect is not None and got != expect:
            self.ctx.violation(self.P + ':wrong-function', f'{what}: got {got:#x}, expected {expect:#x}', self.case())
            self.ok = False
        self.live[h] = got
        return h

    def observe(self):
        b = self.b
        H = self.s.impl.handles[self.A]
        ext = {1: 1}
        for h, f in H.items():
            ext[abs(f.node)] = ext.get(abs(f.node), 0) + 1
        bad = oracle.check_table(b, external=ext)
        if bad:
            self.ctx.violation(self.P + ':counts', f'counts vs in-degree + live Functions: {bad[:3]}', self.case())
            self.ok = False
            return
        for h, t in self.live.items():
            if h not in H:
                continue
            if abs(H[h].node) not in b._succ:
                self.ctx.violation(self.P + ':live-node-freed', f'live Function {h} lost its node', self.case())
                self.ok = False
                return
            if self.tt_of(h) != t:
                self.ctx.violation(self.P + ':live-changed', f'live Function {h} changed its function', self.case())
                self.ok = False
                return

    def walk(self, when):
        H = self.s.impl.handles[self.A]
        for h, t in list(self.live.items()):
            if h in H:
                got = handle_tt(self.s, self.A, h, self.n)
                if got != t:
                    self.ctx.violation(self.P + ':handle-view',
                                       f'{when}: live Function {h} read through its own var/low/high/'
                                       f'negated denotes {got:#x}, expected {t:#x}', self.case())
                    self.ok = False
                    return

    def step(self):
        rng = self.ctx.rng
        s, A, n = self.s, self.A, self.n
        hs = [h for h in self.live if h in s.impl.handles[A]]
        full = T.full(n)
        k = rng.random()
        if k < 0.15 or len(hs) < 2:
            v = rng.randrange(n)
            self.reg(s.op(A, 'var', v), T.var(v, n), 'var')
        elif k < 0.3:
            a, c = rng.choice(hs), rng.choice(hs)
            r3 = rng.random()
            if r3 < 0.12:
                # the unary and the ternary form of `apply`
                self.reg(s.op(A, 'apply', rng.choice(gen.ALIASES['not']), a, None, None),
                         T.neg(self.live[a], n), 'apply not')
            elif r3 < 0.24:
                e_ = rng.choice(hs)
                self.reg(s.op(A, 'apply', 'ite', a, c, e_),
                         T.ite(self.live[a], self.live[c], self.live[e_], n), 'apply ite')
            else:
                name = rng.choice(['and', 'or', 'xor', 'implies', 'equiv', 'diff'])
                self.reg(s.op(A, 'apply', rng.choice(gen.ALIASES[name]), a, c, None),
                         gen.conn(name, self.live[a], self.live[c], full), f'apply {name}')
        elif k < 0.38:
            a, c = rng.choice(hs), rng.choice(hs)
            o = rng.choice(['not', 'and', 'or', 'implies', 'equiv'])
            if o == 'not':
                self.reg(s.op(A, 'fapply', 'not', a, None), T.neg(self.live[a], n), '~')
            else:
                self.reg(s.op(A, 'fapply', o, a, c), gen.conn(o, self.live[a], self.live[c], full), o)
        elif k < 0.40 and n >= 2:
            # the module-level image / preimage of dd.autoref over the pair (v0, v1)
            # (v1 primed); preimage only while the pair is adjacent (documented precondition)
            t, src = rng.choice(hs), rng.choice(hs)
            tt_, ts = self.live[t], T.exists(self.live[src], n, [1])
            # the set: the source function with the primed variable quantified away
            sref = self.reg(s.op(A, 'quantify', src, [1], False), ts, 'exists v1')
            if sref is not None:
                lv = self.b.vars
                adj = abs(lv[vname(0)] - lv[vname(1)]) == 1
                if adj and rng.random() < 0.5:
                    e = T.exists(tt_ & T.rename(ts, n, {0: 1}), n, [1])
                    self.reg(s.op(A, 'preimage', t, sref, {0: 1}, [1], False), e, 'preimage')
                else:
                    e = T.rename(T.exists(tt_ & ts, n, [0]), n, {1: 0})
                    self.reg(s.op(A, 'image', t, sref, {1: 0}, [0], False), e, 'image')
        elif k < 0.42:
            # the printed formula of a handle, read back
            from ..impl import Text
            a = rng.choice(hs)
            text = s.op(A, 'to_expr', a)
            if text is not None:
                self.reg(s.op(A, 'add_expr_text', Text(text)), self.live[a], 'add_expr(to_expr(u))')
        elif k < 0.425:
            # a copy into the SAME manager (module-level `copy_bdd`): a second handle on
            # the same node, with its own reference
            a = rng.choice(hs)
            self.reg(s.op(A, 'copy', int(A[1:]), a), self.live[a], 'copy into the same manager')
        elif k < 0.44:
            # formulas from a small pool, so that the SAME text is added again later,
            # after its first result was dropped and collected and its number re-used
            from ..impl import Spellings
            pool = [(['v0', '/\\', 'v1'], T.var(0, n) & T.var(1 % n, n)),
                    (['v0', '\\/', '~', 'v1'], T.var(0, n) | T.neg(T.var(1 % n, n), n)),
                    (['v1', '#', 'v0'], T.var(1 % n, n) ^ T.var(0, n)),
                    (['~', 'v0'], T.neg(T.var(0, n), n))]
            sp, e = rng.choice(pool)
            sp = [t if not t.startswith('v') else f'v{int(t[1:]) % n}' for t in sp]
            self.reg(s.op(A, 'add_expr', Spellings(sp)), e, 'add_expr ' + ' '.join(sp))
        elif k < 0.46:
            # read-only queries through the wrapper (count; the harness also creates
            # pick / pick_iter iterators that are dropped unused, half-used and used)
            a = rng.choice(hs)
            r = s.op(A, 'count', a, n)
            e = bin(self.live[a]).count('1')
            if s.ok() and r != e:
                self.ctx.violation(self.P + ':query', f'count gave {r}, expected {e}', self.case())
                self.ok = False
            sp = s.op(A, 'support', a)
            if s.ok() and set(sp) != set(T.support(self.live[a], n)):
                self.ctx.violation(self.P + ':query', f'support gave {sp}', self.case())
                self.ok = False
        elif k < 0.5:
            a, c = rng.choice(hs), rng.choice(hs)
            o = rng.choice(['eq', 'ne', 'le', 'lt'])
            r = s.op(A, o, a, c)
            ta, tc = self.live[a], self.live[c]
            e = {'eq': ta == tc, 'ne': ta != tc, 'le': (ta & ~tc & full) == 0,
                 'lt': (ta & ~tc & full) == 0 and ta != tc}[o]
            if r != e:
                self.ctx.violation(self.P + ':comparison', f'{o} gave {r}, expected {e}', self.case())
                self.ok = False
        elif k < 0.58:
            a = rng.choice(hs)
            o = rng.choice(['low', 'high', 'succ'])
            if o == 'succ':
                r = s.op(A, 'succ', a)
                if r is not None:
                    for h in r[1:]:
                        self.reg(h)
            else:
                self.reg(s.op(A, o, a))
        elif k < 0.64:
            g, a, c = (rng.choice(hs) for _ in range(3))
            self.reg(s.op(A, 'ite', g, a, c), T.ite(self.live[g], self.live[a], self.live[c], n), 'ite')
        elif k < 0.7:
            a = rng.choice(hs)
            qs = rng.sample(range(n), rng.randint(0, n))
            fa = rng.random() < 0.5
            e = T.forall(self.live[a], n, qs) if fa else T.exists(self.live[a], n, qs)
            self.reg(s.op(A, 'quantify', a, qs, fa), e, 'quantify')
        elif k < 0.76:
            a = rng.choice(hs)
            form = rng.choice(['b', 'r', 'n'])
            keys = rng.sample(range(n), rng.randint(1, n))
            if rng.random() < 0.2:
                # nothing to substitute: dd returns the very same Function object
                keys = []
                form = rng.choice(['b', 'r', 'n'])
                h0 = s.op(A, {'b': 'let_bool', 'r': 'let_ref', 'n': 'let_name'}[form], {}, a)
                if h0 != a:
                    self.ctx.violation(self.P + ':let-empty', f'let({{}}, u) returned handle {h0}, not u itself ({a})', self.case())
                    self.ok = False
                self.observe()
                return
            if form == 'b':
                d = {j: rng.random() < 0.5 for j in keys}
                self.reg(s.op(A, 'let_bool', d, a), T.cofactor(self.live[a], n, d), 'let const')
            elif form == 'r':
                d = {j: rng.choice(hs) for j in keys}
                self.reg(s.op(A, 'let_ref', d, a),
                         T.vector_compose(self.live[a], n, {j: self.live[h] for j, h in d.items()}), 'let fn')
            else:
                d = {j: rng.randrange(n) for j in keys}
                self.reg(s.op(A, 'let_name', d, a), T.rename(self.live[a], n, d), 'let name')
        elif k < 0.9:
            h = rng.choice(hs)
            s.op(A, 'drop', h)
            self.live.pop(h, None)
        elif k < 0.95:
            s.op(A, 'gc')
        else:
            # a client traversal through the handles' own var/low/high/negated gives
            # the same function before and after the reordering, on the SAME objects
            self.walk('before reorder')
            s.op(A, 'reorder', None if rng.random() < 0.5 else
                 dict(zip(range(n), rng.sample(range(n), n))))
            self.walk('after reorder')
        if s.last_result() == 'err:needs_reordering':
            self.ctx.violation(self.P + ':signal', 'the reordering signal reached the caller', self.case())
            self.ok = False
        self.observe()

    def finish(self):
        s, A = self.s, self.A
        hs = list(s.impl.handles[A])
        self.ctx.rng.shuffle(hs)
        for h in hs:
            s.op(A, 'drop', h)
        ok = s.op(A, 'shutdown')
        if ok is not True:
            self.ctx.violation(self.P + ':shutdown', 'shutdown check failed after all Functions were dropped', self.case())
        elif len(self.b._succ) != 1:
            self.ctx.violation(self.P + ':shutdown', f'nodes left after shutdown: {sorted(self.b._succ)}', self.case())


def reuse(ctx, opA, opB, opC):
    """a result stays alive while its operand dies and is collected; another
    function takes the freed number; the same operator is applied to it:
    every live Function (the new result included) must denote its function"""
    n = 3
    h = AH(ctx, f'autoref reuse {opA} {opB} {opC}', n, reordering=False)
    s, A = h.s, h.A
    full = T.full(n)
    x = h.reg(s.op(A, 'var', 0), T.var(0, n))
    y = h.reg(s.op(A, 'var', 1), T.var(1, n))
    z = h.reg(s.op(A, 'var', 2), T.var(2, n))
    a = h.reg(s.op(A, 'fapply', opA, x, y), gen.conn(opA, h.live[x], h.live[y], full), 'a')
    r = h.reg(s.op(A, 'fapply', opC, a, z), gen.conn(opC, h.live[a], h.live[z], full), 'r')
    h.observe()
    for d in (a, x, y):
        s.op(A, 'drop', d)
        h.live.pop(d, None)
    s.op(A, 'gc')
    h.observe()
    x = h.reg(s.op(A, 'var', 0), T.var(0, n))
    y = h.reg(s.op(A, 'var', 1), T.var(1, n))
    c = h.reg(s.op(A, 'fapply', opB, x, y), gen.conn(opB, h.live[x], h.live[y], full), 'c')
    t = h.reg(s.op(A, 'fapply', opC, c, z), gen.conn(opC, h.live[c], h.live[z], full),
              'the operator applied to a function that took a freed number')
    h.observe()
    ctx.case(('autoref-reuse', opA, opB, opC), True)
    ctx.count('reuse')
    if h.ok:
        h.finish()


def expr_reuse(ctx, t1, t2, order):
    """the same formula TEXT added twice: its first result is dropped and collected, other
    formulas take the freed numbers, then the text is added again (nothing the wrapper
    remembers about a text may outlive the node)"""
    from ..impl import Spellings
    n = 3
    h = AH(ctx, f'autoref same text twice {" ".join(t1[0])} | {" ".join(t2[0])} order={order}', n,
           reordering=False)
    s, A = h.s, h.A
    if tuple(order) != (0, 1, 2):
        s.op(A, 'reorder', dict(zip(range(n), order)))
    a = h.reg(s.op(A, 'add_expr', Spellings(t1[0])), t1[1], 'first time')
    h.observe()
    if a is not None:
        s.op(A, 'drop', a)
        h.live.pop(a, None)
    s.op(A, 'gc')
    h.observe()
    b = h.reg(s.op(A, 'add_expr', Spellings(t2[0])), t2[1], 'other formula')
    c = h.reg(s.op(A, 'add_expr', Spellings(t1[0])), t1[1], 'the same text again, after its node was freed')
    h.observe()
    ctx.case(('autoref-text-twice', tuple(t1[0]), tuple(t2[0]), tuple(order)), True)
    ctx.count('text-twice')
    if h.ok:
        h.finish()


def full_table_autoref(ctx, i, n, reordering, P='C08'):
    """the node limit of the wrapped manager, set THROUGH dd.autoref (`bdd._bdd.max_nodes = k`
    on a `dd.autoref.BDD`): model and implementation, state compared after every call.  Some
    live Functions, then the limit at tight values (the number of nodes, or the largest
    number, + 0..4) followed by calls of every kind that creates nodes -- apply / ite / let /
    quantify / `f <= g` / `f < g` / add_expr / a copy from another manager / reorder -- and
    collections, drops, the limit lifted again; so that `RuntimeError('full ...')` is met in
    the middle of the wrapped operations, inside the comparison operators (whose temporary
    `~ self` dies with the frame) and at the pre-check of `swap`.  Oracle after EVERY call:
    counts exact (in-degree + live Functions), every live Function keeps its function, a
    failed call creates no Function; around reorderings and after a RuntimeError the live
    Functions are also read through their own var / low / high / negated."""
    from ..impl import Spellings
    rng = ctx.rng
    h = AH(ctx, f'autoref full table {i} n={n} reordering={reordering}', n, reordering, P=P)
    s, A = h.s, h.A
    full = T.full(n)
    names = [vname(j) for j in range(n)]
    # another manager (its own variable order) with a few Functions: the sources of copies
    B = 'a1'
    ob = list(range(n))
    rng.shuffle(ob)
    s.op(B, 'new', {v: ob[v] for v in range(n)})
    src = {}

    def btt(hh):
        return oracle.tt_fast(s.impl.amgr[B]._bdd, s.impl.handles[B][hh].node, names)

    bx = [s.op(B, 'var', v) for v in range(n)]
    for hh in bx:
        src[hh] = btt(hh)
    for _ in range(3):
        r = s.op(B, 'fapply', rng.choice(['and', 'or', 'equiv']), rng.choice(list(src)), rng.choice(list(src)))
        if r is not None:
            src[r] = btt(r)
    # some live Functions
    for _ in range(rng.randint(6, 12)):
        h.step()
        if not h.ok:
            return
    reached = set()

    def live():
        return [x for x in h.live if x in s.impl.handles[A]]

    def after(what):
        """verdicts after one call of the burst"""
        res = s.last_result()
        rt = (not res.startswith('ok:')) and 'RuntimeError' in (getattr(s.impl, 'last_exc', '') or '')
        ctx.case(('autoref-full', what, n, reordering, rt), True)
        if rt:
            reached.add(what)
            ctx.count('full-table-autoref:reached:' + what)
        if res == 'err:needs_reordering':
            ctx.violation(P + ':signal', f'{what}: the reordering signal reached the caller', h.case())
            h.ok = False
        h.observe()
        return rt

    pool = [(['v0', '/\\', 'v1'], T.var(0, n) & T.var(1 % n, n)),
            (['v0', '\\/', '~', 'v1'], T.var(0, n) | T.neg(T.var(1 % n, n), n)),
            (['v1', '#', 'v0'], T.var(1 % n, n) ^ T.var(0, n)),
            (['(', 'v0', '<=>', f'v{n - 1}', ')', '/\\', '~', 'v1'],
             T.neg(T.var(0, n) ^ T.var(n - 1, n), n) & T.neg(T.var(1 % n, n), n))]
    for rnd in range(rng.randint(5, 8)):
        if not h.ok:
            break
        b = h.b
        extra = rng.choice([0, 0, 1, 1, 2, 3, 4])
        lim = (len(b) + extra) if rng.random() < 0.6 else (max(b._succ) + 1 + extra)
        s.op(A, 'set_max_nodes', lim)
        after('set_max_nodes')
        for _ in range(rng.randint(3, 6)):
            if not h.ok:
                break
            hs = live()
            if len(hs) < 2:
                # (the variables exist: no node is needed)
                h.reg(s.op(A, 'var', rng.randrange(n)))
                after('var')
                continue
            nh = len(s.impl.handles[A])
            a, c, e_ = (rng.choice(hs) for _ in range(3))
            ta, tc, te = h.live[a], h.live[c], h.live[e_]
            what = rng.choice(['apply', 'apply', 'fapply', 'ite', 'let_bool', 'let_ref', 'let_name',
                               'quantify', 'le', 'le', 'lt', 'lt', 'add_expr', 'copy', 'copy',
                               'sift', 'reorder', 'gc', 'drop', 'cube', 'var', 'none'])
            creates = True
            if what == 'apply':
                name = rng.choice(['and', 'or', 'xor', 'implies', 'equiv', 'diff'])
                h.reg(s.op(A, 'apply', rng.choice(gen.ALIASES[name]), a, c, None),
                      gen.conn(name, ta, tc, full), f'apply {name}')
            elif what == 'fapply':
                o = rng.choice(['and', 'or', 'implies', 'equiv'])
                h.reg(s.op(A, 'fapply', o, a, c), gen.conn(o, ta, tc, full), o)
            elif what == 'ite':
                h.reg(s.op(A, 'ite', a, c, e_), T.ite(ta, tc, te, n), 'ite')
            elif what == 'let_bool':
                d = {j: rng.random() < 0.5 for j in rng.sample(range(n), rng.randint(1, n))}
                h.reg(s.op(A, 'let_bool', d, a), T.cofactor(ta, n, d), 'let const')
            elif what == 'let_ref':
                d = {j: rng.choice(hs) for j in rng.sample(range(n), rng.randint(1, n))}
                h.reg(s.op(A, 'let_ref', d, a),
                      T.vector_compose(ta, n, {j: h.live[x] for j, x in d.items()}), 'let fn')
            elif what == 'let_name':
                d = {j: rng.randrange(n) for j in rng.sample(range(n), rng.randint(1, n))}
                h.reg(s.op(A, 'let_name', d, a), T.rename(ta, n, d), 'let name')
            elif what == 'quantify':
                qs = rng.sample(range(n), rng.randint(1, n))
                fa = rng.random() < 0.5
                h.reg(s.op(A, 'quantify', a, qs, fa),
                      T.forall(ta, n, qs) if fa else T.exists(ta, n, qs), 'quantify')
            elif what in ('le', 'lt'):
                creates = False
                r = s.op(A, what, a, c)
                e = (ta & ~tc & full) == 0 and (what == 'le' or ta != tc)
                if s.ok() and r != e:
                    ctx.violation(P + ':comparison', f'{what} gave {r}, expected {e}', h.case())
                    h.ok = False
            elif what == 'add_expr':
                sp, e = rng.choice(pool)
                h.reg(s.op(A, 'add_expr', Spellings(sp)), e, 'add_expr ' + ' '.join(sp))
            elif what == 'copy':
                x = rng.choice(list(src))
                h.reg(s.op(A, 'copy', int(B[1:]), x), src[x], 'copy from the other manager')
            elif what == 'cube':
                d = {j: rng.random() < 0.5 for j in rng.sample(range(n), rng.randint(1, n))}
                e = full
                for j, v in d.items():
                    e &= T.var(j, n) if v else T.neg(T.var(j, n), n)
                h.reg(s.op(A, 'cube', d), e, 'cube')
            elif what == 'var':
                v = rng.randrange(n)
                h.reg(s.op(A, 'var', v), T.var(v, n), 'var')
            elif what in ('sift', 'reorder'):
                creates = False
                h.walk('before reorder')
                nh = len(s.impl.handles[A])
                s.op(A, 'reorder', None if what == 'sift' else
                     dict(zip(range(n), rng.sample(range(n), n))))
                rt = after(what)
                if h.ok:
                    h.walk('after reorder' + (' (RuntimeError)' if rt else ''))
                continue
            elif what == 'gc':
                creates = False
                s.op(A, 'gc')
            elif what == 'drop':
                creates = False
                s.op(A, 'drop', a)
                h.live.pop(a, None)
                nh -= 1
            else:
                creates = False
                s.op(A, 'set_max_nodes', None)
            rt = after(what)
            if not h.ok:
                break
            got = len(s.impl.handles[A])
            if not s.ok() and got != nh:
                ctx.violation(P + ':failed-call-made-function',
                              f'{what} failed and the number of live Functions went from {nh} to {got}',
                              h.case())
                h.ok = False
            elif s.ok() and creates and got != nh + 1:
                ctx.violation(P + ':handles', f'{what} succeeded: {nh} -> {got} live Functions', h.case())
                h.ok = False
            if rt and h.ok and rng.random() < 0.5:
                # the live Functions, read through their own attributes, on the full table
                h.walk(f'after the RuntimeError of {what}')
                h.observe()
    ctx.count('full-table-autoref' + (':reached' if reached else ''))
    if not h.ok:
        return
    # later work: the limit lifted, everything works again
    s.op(A, 'set_max_nodes', None)
    hs = live()
    if len(hs) >= 2:
        a, c = rng.choice(hs), rng.choice(hs)
        h.reg(s.op(A, 'fapply', 'and', a, c), h.live[a] & h.live[c], 'after the limit was lifted')
        if not s.ok():
            ctx.violation(P + ':later-call', 'a conjunction fails after the limit was lifted', h.case())
            h.ok = False
        r = s.op(A, 'le', a, c)
        if r != ((h.live[a] & ~h.live[c] & full) == 0):
            ctx.violation(P + ':comparison', f'<= gave {r} after the limit was lifted', h.case())
            h.ok = False
        h.observe()
    for x in list(s.impl.handles[B]):
        s.op(B, 'drop', x)
    if s.op(B, 'shutdown') is not True:
        ctx.violation(P + ':shutdown', 'shutdown check of the source manager failed', h.case())
    if h.ok:
        h.finish()
    ctx.sample(dict(stream=s.label, first_lines=s.lines[:12]))


def run(ctx):
    q = ctx.quick
    ops = ['and', 'or', 'implies', 'equiv']
    n3 = 3
    texts = [(['v0', '/\\', 'v1'], T.var(0, n3) & T.var(1, n3)),
             (['v1', '\\/', 'v2'], T.var(1, n3) | T.var(2, n3)),
             (['~', '(', 'v0', '#', 'v2', ')'], T.neg(T.var(0, n3) ^ T.var(2, n3), n3)),
             (['v0', '=>', '(', 'v1', '/\\', '~', 'v2', ')'],
              T.neg(T.var(0, n3), n3) | (T.var(1, n3) & T.neg(T.var(2, n3), n3))),
             (['ite', '(', 'v2', ',', 'v0', ',', 'v1', ')'], T.ite(T.var(2, n3), T.var(0, n3), T.var(1, n3), n3))]
    for i, t1 in enumerate(texts):
        for j, t2 in enumerate(texts):
            if i != j and (not q or (i + j) % 2):
                expr_reuse(ctx, t1, t2, ctx.rng.choice(gen.orders(3)))
    for opA in ops:
        for opB in ops:
            for opC in (['and', 'or'] if q else ops):
                if opA != opB:
                    reuse(ctx, opA, opB, opC)
    for i in range(16 if q else 200):
        h = AH(ctx, f'autoref history {i}', ctx.rng.choice([2, 3, 3, 4]), reordering=(i % 2 == 1))
        for j in range(50 if q else 120):
            h.step()
            ctx.case(('autoref', i, j), True)
            if not h.ok:
                break
        if h.ok:
            h.finish()
        ctx.sample(dict(stream=h.s.label, first_lines=h.s.lines[:12]))
    # (last, so that the histories above are the same cases as before for a given seed)
    for i in range(24 if q else 240):
        full_table_autoref(ctx, i, ctx.rng.choice([3, 3, 4]), reordering=(i % 3 == 2))
    # JSON files that cannot be loaded, of every failure kind (`KeyError` for an unknown
    # identifier or a parent listed first, `AssertionError` for a negated node line,
    # `KeyError`/`ValueError` for a bad level), also not reduced: every reference the loader
    # took is released, so that the counts stay "in-edges + live Functions" and the manager is
    # empty once the Functions are gone (the stream of C17; round-21 seeds)
    from . import C17
    rng = ctx.rng
    for fault in ('unknown-child', 'unknown-root', 'bad-level', 'parent-first', 'negated-node'):
        for receiver in ('fresh', 'same', 'in-use'):
            for alias in (False, True):
                for _ in range(1 if q else 6):
                    C17.json_faults(ctx, rng.choice([2, 3]), receiver, fault, alias=alias, P='C08')
