"""C11 - copying between managers preserves the function by variable name."""
from .. import gen, oracle, tt as T
from .base import Mgr, replay  # noqa: F401
from ..impl import vname

RULE = ('functions by truth table (<=4 variables) x every pair of source/target orders (3 '
        'variables: all 36; 4 variables sampled) x targets with extra variables and '
        'pre-existing nodes x several roots sharing the target; non-trivial = non-constant')
EXHAUSTIVE = {'quick': False, 'thorough': False}
ASSUMES = ['every variable of the support is declared in the target',
           'copy_bdds_from/_copy.copy_bdd are exercised through dd.autoref managers (the Function interface)']


def stream(ctx, n, so, to, tts, extra, aged):
    s = ctx.session(f'copy n={n} src={so} tgt={to} extra={extra} aged={aged}')
    src = Mgr(ctx, None, n, so, m=0, session=s)
    # target: same names (other order) plus extra variables interleaved
    tnames = list(range(n + extra))
    tlev = list(to) + list(range(n, n + extra))
    if extra:
        ctx.rng.shuffle(tlev)
    tgt = Mgr(ctx, None, n + extra, tlev, m=1, session=s, aged=aged)
    before = {u: tgt.tt(u) for u in tgt.held}
    for t in tts:
        u = src.build(t)
        if u is None:
            continue
        for sign in (1, -1):
            r = s.op(1, 'copy', 0, sign * u)
            ctx.case((n, so, to, extra, aged, t, sign), t not in (0, T.full(n)))
            ctx.count('copy')
            if r is None:
                ctx.violation('C11:rejected', 'copy rejected a valid reference', src.case())
                continue
            tu = t if sign == 1 else T.neg(t, n)
            # by name: the target has extra variables the function ignores
            got = oracle.tt_fast(tgt.b, r, [vname(i) for i in range(n)] + [vname(i) for i in range(n, n + extra)])
            exp = sum(((tu >> (k >> extra)) & 1) << k for k in range(1 << (n + extra)))
            if got != exp:
                ctx.violation('C11:wrong-function',
                              f'copy of {tu:#x}: target denotes {got:#x}, expected {exp:#x}', src.case())
            if src.tt(sign * u) != tu:
                ctx.violation('C11:source-changed', 'the source manager changed', src.case())
    if not tgt.check_table('C11:target-table', 'target not canonical'):
        return
    src.check_table('C11:source-table', 'source not canonical')
    for u, t in before.items():
        if tgt.tt(u) != t:
            ctx.violation('C11:target-held-changed', f'pre-existing target reference {u} changed', src.case())
    ctx.sample(dict(stream=s.label, first_lines=s.lines[:8]))


def dyn_stream(ctx, n, so, to, tts, P='C11'):
    """`BDD.copy` into a target in which dynamic reordering is ENABLED and the threshold is
    reached while the copy runs: the copy runs with requests disabled in the TARGET (the level
    map is computed once), so no reordering is served inside it, the signal does not escape,
    the threshold is restored, and the copy denotes the same function by name; the target
    holds sub-functions already (what a served reordering would keep and re-use); `P` is the
    prefix of the violation keys (the stream is also used by C06)"""
    rng = ctx.rng
    s = ctx.session(f'copy into a reordering target n={n} src={so} tgt={to}')
    src = Mgr(ctx, None, n, so, m=0, session=s)
    tgt = Mgr(ctx, None, n, to, m=1, session=s, aged=rng.random() < 0.5)
    names = [vname(i) for i in range(n)]
    for t in tts:
        u = src.build(t)
        if u is None:
            continue
        # cofactors first, kept: the later copy of the whole function meets them in the target
        kept = []
        j = so.index(0) if 0 in so else 0
        for val in (False, True):
            c = s.op(0, 'cofactor', u, 'n', {j: val}) if rng.random() < 0.7 else None
            if c is not None and abs(c) != 1:
                r0 = s.op(1, 'copy', 0, c)
                if r0 is not None and abs(r0) != 1:
                    s.op(1, 'incref', r0)
                    kept.append(r0)
        s.op(1, 'gc', None)
        s.op(1, 'configure', True)
        for sign in (1, -1):
            k = rng.choice([1, 1, 2, 3, 5, 8])
            s.op(1, 'set_last_len', k)
            r = s.op(1, 'copy', 0, sign * u)
            ctx.case(('dyn', n, so, to, t, sign, k), t not in (0, T.full(n)))
            ctx.count('copy-into-reordering-target')
            tu = t if sign == 1 else T.neg(t, n)
            if r is None:
                ctx.violation(P + ':rejected', 'copy into a target with reordering enabled was rejected', src.case())
                continue
            if abs(r) not in tgt.b._succ or oracle.tt_fast(tgt.b, r, names) != tu:
                ctx.violation(P + ':wrong-function',
                              f'copy of {tu:#x} into a target with reordering enabled (threshold {k}) denotes '
                              'another function', src.case())
            if tgt.b._last_len != k:
                ctx.violation(P + ':threshold', f'threshold {k} became {tgt.b._last_len} during the copy', src.case())
        s.op(1, 'configure', False)
        for r0 in kept:
            s.op(1, 'decref', r0)
    tgt.check_table(P + ':target-table', 'target not canonical')
    ctx.sample(dict(stream=s.label, first_lines=s.lines[:8]))


def autoref_copy_stream(ctx, n, so, to, tts):
    """copies between two dd.autoref managers through `BDD.copy` (the method) and the
    module-level `copy_bdd` (the runner alternates): each copy is a Function of the target
    that denotes the same function of the names and holds one reference"""
    from .C12 import abuild, by_name
    s = ctx.session(f'autoref copy n={n} src={so} tgt={to}')
    s.op('a0', 'new', {v: l for v, l in zip(range(n), so)})
    s.op('a1', 'new', {v: l for v, l in zip(range(n), to)})
    H = s.impl.handles
    a1 = s.impl.amgr['a1']
    case = lambda: dict(stream=s.label, lines=list(s.lines))  # noqa: E731
    got = []
    for t in tts:
        f = abuild(s, 'a0', t, n)
        if ctx.rng.random() < 0.5:
            g = s.op('a0', 'fapply', 'not', f, None)
            f, t = g, T.neg(t, n)
        h = s.op('a1', 'copy', 0, f)
        ctx.case(('autoref-copy', n, so, to, t), t not in (0, T.full(n)))
        ctx.count('autoref-copy')
        if h is None:
            ctx.violation('C11:rejected', 'autoref copy rejected a valid Function', case)
            continue
        got.append(h)
        if by_name(a1._bdd, H['a1'][h].node, n) != t:
            ctx.violation('C11:wrong-function', f'autoref copy of {t:#x} denotes another function', case)
    ext = {1: 1}
    for u in [abs(f.node) for f in H['a1'].values()]:
        ext[u] = ext.get(u, 0) + 1
    bad = oracle.check_table(a1._bdd, external=ext)
    if bad:
        ctx.violation('C11:target-table', f'autoref target: {bad[:3]}', case)
    for h in got:
        s.op('a1', 'drop', h)
    s.op('a1', 'gc')
    if set(a1._bdd._succ) != {1}:
        ctx.violation('C11:target-table', 'nodes survive after every copy was dropped', case)


def missing_stream(ctx, n, so, tts):
    """the target does NOT declare one of the source's variables (and declares a foreign one,
    so that every level number of the source exists in the target): a function that depends
    on the missing variable cannot be copied -- the call must refuse, never return a
    function of other variables; the others copy as usual"""
    rng = ctx.rng
    miss = rng.randrange(n)
    tids = [v for v in range(n) if v != miss] + [n]
    tl = list(range(n))
    rng.shuffle(tl)
    s = ctx.session(f'copy n={n} src={so} target lacks v{miss}, declares {dict(zip(tids, tl))}')
    src = Mgr(ctx, None, n, so, m=0, session=s)
    s.op(1, 'new', dict(zip(tids, tl)))
    tb = s.impl.mgr[1]
    for t in tts:
        u = src.build(t)
        if u is None:
            continue
        for sign in (1, -1):
            r = s.op(1, 'copy', 0, sign * u)
            tu = t if sign == 1 else T.neg(t, n)
            dep = T.depends(t, n, miss)
            ctx.case((n, so, 'missing', miss, tuple(tl), t, sign), dep)
            ctx.count('copy-missing' + (':dependent' if dep else ''))
            if dep:
                if r is not None:
                    ctx.violation('C11:wrong-function',
                                  f'copy of {tu:#x}, which depends on v{miss}, into a manager without v{miss} '
                                  f'returned {r} instead of refusing', src.case())
            else:
                if r is None:
                    ctx.violation('C11:rejected', f'copy of {tu:#x} (independent of the missing v{miss}) refused',
                                  src.case())
                else:
                    # evaluate by name over the source's names; the missing one is irrelevant
                    names = [vname(i) if i != miss else vname(n) for i in range(n)]
                    got = oracle.tt_fast(tb, r, names)
                    if got != tu:
                        ctx.violation('C11:wrong-function',
                                      f'copy of {tu:#x}: target denotes {got:#x}', src.case())
    bad = oracle.check_table(tb)
    if bad:
        ctx.violation('C11:target-table', f'target not canonical: {bad[:2]}', src.case())
    ctx.sample(dict(stream=s.label, first_lines=s.lines[:8]))


def fn_stream(ctx, n, so, to, tts, extra, reordering):
    """dd._copy.copy_bdds_from through the Function interface (dd.autoref source and target):
    one memo for several roots (shared and complemented roots, a root given twice, a constant),
    target in use, with dynamic reordering enabled in the target or not"""
    from .C12 import abuild, by_name
    rng = ctx.rng
    s = ctx.session(f'copy_bdds_from n={n} src={so} tgt={to} extra={extra} reordering={reordering}')
    s.op('a0', 'new', {v: l for v, l in zip(range(n), so)})
    tlev = list(to) + list(range(n, n + extra))
    if extra:
        rng.shuffle(tlev)
    s.op('a1', 'new', {v: l for v, l in zip(range(n + extra), tlev)})
    H = s.impl.handles
    old = [abuild(s, 'a1', rng.getrandbits(1 << (n + extra)), n + extra) for _ in range(1)]
    a0, a1 = s.impl.amgr['a0'], s.impl.amgr['a1']
    before = {h: by_name(a1._bdd, H['a1'][h].node, n + extra) for h in old}
    roots, exp = [], []
    for t in tts:
        f = abuild(s, 'a0', t, n)
        roots.append(f)
        exp.append(t)
        if rng.random() < 0.5:
            g = s.op('a0', 'fapply', 'not', f, None)
            roots.append(g)
            exp.append(T.neg(t, n))
    if roots and rng.random() < 0.5:
        roots.append(roots[0])
        exp.append(exp[0])
    if rng.random() < 0.3:
        roots.append(s.op('a0', 'true'))
        exp.append(T.full(n))
    if reordering:
        s.op('a1', 'configure', True)
        s.op('a1', 'set_last_len', rng.choice([1, 2, 3]))
    got = s.op('a1', 'copy_bdds_from', 0, roots)
    case = lambda: dict(stream=s.label, lines=list(s.lines))  # noqa: E731
    ctx.case(('copy_bdds_from', n, so, to, extra, reordering, tuple(exp)), any(t not in (0, T.full(n)) for t in exp))
    ctx.count('copy_bdds_from')
    if got is None:
        ctx.violation('C11:rejected', f'copy_bdds_from rejected valid roots ({s.last_result()})', case)
        return
    for h, t in zip(got, exp):
        g = by_name(a1._bdd, H['a1'][h].node, n + extra)
        e = sum(((t >> (k >> extra)) & 1) << k for k in range(1 << (n + extra)))
        if g != e:
            ctx.violation('C11:wrong-function', f'copy_bdds_from: root {t:#x} copied as {g:#x}', case)
            break
    for h, t in before.items():
        if by_name(a1._bdd, H['a1'][h].node, n + extra) != t:
            ctx.violation('C11:target-held-changed', f'live Function {h} of the target changed', case)
    for m in ('a0', 'a1'):
        am = s.impl.amgr[m]
        ext = {1: 1}
        for u in [abs(f.node) for f in H[m].values()]:
            ext[u] = ext.get(u, 0) + 1
        bad = oracle.check_table(am._bdd, external=ext)
        if bad:
            ctx.violation('C11:target-table' if m == 'a1' else 'C11:source-table', f'{m}: {bad[:3]}', case)
    s.op('a1', 'configure', False)
    for h in sorted(set(got)):
        s.op('a1', 'drop', h)
    s.op('a1', 'gc')


def copy_vars(ctx, n, order, pre=None, autoref=False):
    """`dd._copy.copy_vars(source, target)` reproduces names and levels, or refuses; `pre`:
    variables the target declares beforehand (name -> level; possibly in conflict)"""
    s = ctx.session(f'copy_vars n={n} order={order} pre={pre} autoref={autoref}')
    S, Tg = ('a0', 'a1') if autoref else (0, 1)
    s.op(S, 'new', {v: l for v, l in zip(range(n), order)})
    s.op(Tg, 'new', dict(pre or {}))
    if not s.ok():
        return
    mg = s.impl.amgr if autoref else s.impl.mgr
    b0, b1 = mg[S], mg[Tg]
    before = dict(b1.vars)
    ok = s.copy_vars(S, Tg)
    case = lambda: dict(stream=s.label, lines=list(s.lines))  # noqa: E731
    ctx.case(('copy_vars', n, tuple(order), tuple(sorted((pre or {}).items())), autoref), True)
    ctx.count('copy_vars' + ('' if ok else ':refused'))
    if ok:
        bad = {v: (l, b1.vars.get(v)) for v, l in b0.vars.items() if b1.vars.get(v) != l}
        if bad:
            ctx.violation('C11:copy_vars', f'copy_vars returned but names/levels are not reproduced: {bad} '
                                           f'(target declared {before})', case)
    else:
        # a refusal is legitimate only when the request is impossible
        possible = all(before.get(v, l) == l for v, l in b0.vars.items()) and \
            all(v in b0.vars or l not in b0.vars.values() for v, l in before.items())
        if possible and not pre:
            ctx.violation('C11:copy_vars', 'copy_vars refused a fresh target', case)
    # the views of the target still describe one bijection
    bb = b1._bdd if autoref else b1
    if sorted(bb.vars.values()) != list(range(len(bb.vars))) or \
            any(bb._level_to_var.get(l) != v for v, l in bb.vars.items()):
        if not (pre and not ok):
            ctx.violation('C11:copy_vars', f'target order is not a bijection: {bb.vars}', case)


def run(ctx):
    q = ctx.quick
    rng = ctx.rng
    for so in gen.orders(3):
        for to in gen.orders(3):
            stream(ctx, 3, so, to, sorted(rng.sample(range(256), 4 if q else 40)),
                   extra=rng.choice([0, 0, 1, 2]), aged=rng.random() < 0.4)
    o4 = gen.orders(4)
    for _ in range(4 if q else 40):
        stream(ctx, 4, rng.choice(o4), rng.choice(o4), [rng.getrandbits(16) for _ in range(3 if q else 10)],
               extra=rng.choice([0, 1, 2]), aged=rng.random() < 0.5)
    for n in (1, 2):
        for so in gen.orders(n):
            for to in gen.orders(n):
                stream(ctx, n, so, to, range(1 << (1 << n)), 0, False)
    for _ in range(8 if q else 80):
        n_ = rng.choice([3, 4, 5])
        dyn_stream(ctx, n_, tuple(rng.sample(range(n_), n_)), tuple(rng.sample(range(n_), n_)),
                   [rng.getrandbits(1 << n_) for _ in range(3)])
    for _ in range(6 if q else 60):
        n_ = rng.choice([3, 4])
        autoref_copy_stream(ctx, n_, rng.choice(gen.orders(n_)), rng.choice(gen.orders(n_)),
                            [rng.getrandbits(1 << n_) for _ in range(4)])
    for _ in range(6 if q else 60):
        n_ = rng.choice([3, 4])
        missing_stream(ctx, n_, rng.choice(gen.orders(n_)), [rng.getrandbits(1 << n_) for _ in range(6)])
    o3 = gen.orders(3)
    for so in (o3 if not q else rng.sample(o3, 3)):
        for to in o3:
            fn_stream(ctx, 3, so, to, [rng.randrange(256) for _ in range(rng.randint(1, 3))],
                      extra=rng.choice([0, 0, 1]), reordering=rng.random() < 0.4)
    for _ in range(3 if q else 30):
        # (one root only: the runner then calls `dd._copy.copy_bdd` itself)
        fn_stream(ctx, 3, rng.choice(o3), rng.choice(o3), [rng.randrange(256)], extra=rng.choice([0, 1]),
                  reordering=rng.random() < 0.4)
    for _ in range(3 if q else 30):
        fn_stream(ctx, 4, rng.choice(o4), rng.choice(o4), [rng.getrandbits(16) for _ in range(2)],
                  extra=rng.choice([0, 1]), reordering=rng.random() < 0.4)
    # larger copies into a target that reorders several times WHILE it is being copied into
    # (what the memo keeps must stay alive and keep its meaning across those reorderings)
    for _ in range(6 if q else 60):
        so = tuple(rng.sample(range(5), 5))
        to = tuple(rng.sample(range(5), 5))
        fn_stream(ctx, 5, so, to, [rng.getrandbits(32) for _ in range(rng.randint(2, 3))],
                  extra=rng.choice([0, 1, 2]), reordering=True)
    # copy_vars with gaps is impossible (levels are a bijection): every order of <= 4
    import dd._copy as C
    for n in (1, 2, 3, 4):
        for order in gen.orders(n):
            copy_vars(ctx, n, order, autoref=rng.random() < 0.3)
    # targets that already declare some of the names (at the same or at other levels) or
    # other names at some of the levels
    for _ in range(20 if q else 300):
        n = rng.choice([3, 4])
        order = rng.choice(gen.orders(n))
        k = rng.randint(1, n)
        names = rng.sample(range(n + 2), k)      # n, n+1: names the source does not have
        levels = list(range(k))
        rng.shuffle(levels)
        pre = dict(zip(names, levels))
        r = rng.random()
        inv = {l: v for v, l in zip(range(n), order)}
        if r < 0.3:
            # agreeing prefix: the source's own levels for the lowest levels
            pre = {inv[l]: l for l in range(k)}
        elif r < 0.65 and k >= 2:
            # the source's own variables of the lowest k levels, at permuted levels
            lv = list(range(k))
            while lv == list(range(k)):
                rng.shuffle(lv)
            pre = {inv[l]: lv[l] for l in range(k)}
        copy_vars(ctx, n, order, pre=pre, autoref=rng.random() < 0.3)
