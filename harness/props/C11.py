"""C11 - copying between managers preserves the function by variable name."""
from .. import gen, oracle, tt as T
from .base import Mgr, replay  # noqa: F401
from ..impl import vname

RULE = ('functions by truth table (<=4 variables) x every pair of source/target orders (3 '
        'variables: all 36; 4 variables sampled) x targets with extra variables and '
        'pre-existing nodes x several roots sharing the target; non-trivial = non-constant')
EXHAUSTIVE = {'quick': False, 'thorough': False}
ASSUMES = ['every variable of the support is declared in the target']


def stream(ctx, n, so, to, tts, extra, aged):
    s = ctx.session(f'copy n={n} src={so} tgt={to} extra={extra} aged={aged}')
    src = Mgr(ctx, None, n, so, m=0, session=s)
    # target: same names (other order) plus extra variables interleaved
    tnames = list(range(n + extra))
    tlev = list(to) + list(range(n, n + extra))
    if extra:
        ctx.rng.shuffle(tlev)
    tgt = Mgr(ctx, None, n + extra, tlev, m=1, session=s, aged=aged)
    before = {u: tgt.tt(u) for u in tgt.held}
    for t in tts:
        u = src.build(t)
        if u is None:
            continue
        for sign in (1, -1):
            r = s.op(1, 'copy', 0, sign * u)
            ctx.case((n, so, to, extra, aged, t, sign), t not in (0, T.full(n)))
            ctx.count('copy')
            if r is None:
                ctx.violation('C11:rejected', 'copy rejected a valid reference', src.case())
                continue
            tu = t if sign == 1 else T.neg(t, n)
            # by name: the target has extra variables the function ignores
            got = oracle.tt_fast(tgt.b, r, [vname(i) for i in range(n)] + [vname(i) for i in range(n, n + extra)])
            exp = sum(((tu >> (k >> extra)) & 1) << k for k in range(1 << (n + extra)))
            if got != exp:
                ctx.violation('C11:wrong-function',
                              f'copy of {tu:#x}: target denotes {got:#x}, expected {exp:#x}', src.case())
            if src.tt(sign * u) != tu:
                ctx.violation('C11:source-changed', 'the source manager changed', src.case())
    if not tgt.check_table('C11:target-table', 'target not canonical'):
        return
    src.check_table('C11:source-table', 'source not canonical')
    for u, t in before.items():
        if tgt.tt(u) != t:
            ctx.violation('C11:target-held-changed', f'pre-existing target reference {u} changed', src.case())
    ctx.sample(dict(stream=s.label, first_lines=s.lines[:8]))


def copy_vars(ctx, n, order):
    """copy_vars reproduces names and levels (dd._copy.copy_vars: add_var by level)"""
    s = ctx.session(f'copy_vars n={n} order={order}')
    s.op(0, 'new', {v: l for v, l in zip(range(n), order)})
    s.op(1, 'new', {})
    # the implementation iterates `source.vars` (dict order = declaration order)
    for v in range(n):
        s.op(1, 'add_var', v, order[v])
    b0, b1 = s.impl.mgr[0], s.impl.mgr[1]
    ctx.case(('copy_vars', n, order), True)
    if b0.vars != b1.vars:
        ctx.violation('C11:copy_vars', f'{b0.vars} copied as {b1.vars}', lambda: dict(lines=list(s.lines)))


def run(ctx):
    q = ctx.quick
    rng = ctx.rng
    for so in gen.orders(3):
        for to in gen.orders(3):
            stream(ctx, 3, so, to, sorted(rng.sample(range(256), 4 if q else 40)),
                   extra=rng.choice([0, 0, 1, 2]), aged=rng.random() < 0.4)
    o4 = gen.orders(4)
    for _ in range(4 if q else 40):
        stream(ctx, 4, rng.choice(o4), rng.choice(o4), [rng.getrandbits(16) for _ in range(3 if q else 10)],
               extra=rng.choice([0, 1, 2]), aged=rng.random() < 0.5)
    for n in (1, 2):
        for so in gen.orders(n):
            for to in gen.orders(n):
                stream(ctx, n, so, to, range(1 << (1 << n)), 0, False)
    # copy_vars with gaps is impossible (levels are a bijection): every order of <= 4
    import dd._copy as C
    for n in (1, 2, 3, 4):
        for order in gen.orders(n):
            copy_vars(ctx, n, order)
