"""C04 - `let` performs exact simultaneous substitution (constants,
functions, names)."""
import itertools

from .. import gen, oracle, tt as T
from .base import Mgr, replay  # noqa: F401

RULE = ('functions by truth table (3 variables: sampled/all; 4 variables sampled) x partial '
        'assignments (all) x variable-to-variable maps (all, injective or not) x sampled '
        'replacement tuples (also mentioning replaced variables) x order x sign x fresh/aged; '
        'single-variable substitution: every variable x a pool of replacements x both signs (3 variables: '
        'all 256 functions in the thorough tier); '
        'non-trivial = the substitution touches the support')
EXHAUSTIVE = {'quick': False, 'thorough': False}
ASSUMES = []


def partial_assignments(n):
    for vals in itertools.product((None, False, True), repeat=n):
        d = {j: v for j, v in enumerate(vals) if v is not None}
        yield d


def var_maps(n, rng, limit):
    allmaps = []
    for img in itertools.product([None] + list(range(n)), repeat=n):
        d = {j: y for j, y in enumerate(img) if y is not None}
        if d:
            allmaps.append(d)
    if len(allmaps) > limit:
        allmaps = rng.sample(allmaps, limit)
    return allmaps


def check(ctx, M, what, r, expect, before):
    if r is None:
        ctx.violation('C04:rejected', f'{what} rejected valid arguments', M.case())
        return
    got = M.tt(r)
    if got == -1:
        ctx.violation('C04:wrong-function', f'{what}: the returned reference {r} is not a node of the manager', M.case())
        return
    if got != expect:
        ctx.violation('C04:wrong-function', f'{what}: got {got:#x}, expected {expect:#x}', M.case())
    u, t = before
    if M.tt(u) != t:
        ctx.violation('C04:operand-changed', f'{what}: the operand itself changed', M.case())


def stream(ctx, n, order, tts, aged, nmaps, nsubs):
    M = Mgr(ctx, f'let n={n} order={order} aged={aged}', n, order, aged=aged)
    rng = ctx.rng
    pool = []
    for _ in range(3):
        tg = rng.getrandbits(1 << n)
        g = M.build(tg)
        if g is not None:
            M.op('incref', g)
            pool.append((g, tg))
    for t in tts:
        u0 = M.build(t)
        if u0 is None:
            continue
        M.op('incref', u0)
        for sign in (1, -1):
            u = sign * u0
            tu = t if sign == 1 else T.neg(t, n)
            # the empty dictionary: `let` returns its argument (all three value kinds look alike)
            r0 = M.op('let_bool', {}, u)
            check(ctx, M, 'let({})', r0, tu, (u, tu))
            if r0 is not None and r0 != u:
                ctx.violation('C04:wrong-function', f'let({{}}, {u}) returned another reference {r0}', M.case())
            r0 = M.op('rename', u, {})
            if r0 != u:
                ctx.violation('C04:wrong-function', f'rename({u}, {{}}) returned {r0}', M.case())
            # constants
            for d in partial_assignments(n):
                if not d:
                    continue
                order_keys = list(d.items())
                rng.shuffle(order_keys)
                dd_ = dict(order_keys)
                if rng.random() < 0.5:
                    r = M.op('let_bool', dd_, u)
                else:
                    kind = rng.choice(['n', 'l'])
                    keyed = dd_ if kind == 'n' else {M.b.vars[f'v{j}']: v for j, v in dd_.items()}
                    r = M.op('cofactor', u, kind, keyed)
                check(ctx, M, f'let({d})', r, T.cofactor(tu, n, d), (u, tu))
                ctx.case((n, order, aged, 'const', t, sign, tuple(sorted(d.items()))),
                         any(T.depends(t, n, j) for j in d))
                ctx.count('let-const')
            # variable to variable
            for d in var_maps(n, rng, nmaps):
                items = list(d.items())
                rng.shuffle(items)
                r = M.op('let_name', dict(items), u)
                check(ctx, M, f'let(rename {d})', r, T.rename(tu, n, d), (u, tu))
                ctx.case((n, order, aged, 'rename', t, sign, tuple(sorted(d.items()))),
                         any(T.depends(t, n, j) for j in d))
                ctx.count('let-rename')
            # functions
            for _ in range(nsubs):
                k = rng.randint(1, n)
                keys = rng.sample(range(n), k)
                sub = {j: rng.choice(pool) for j in keys}
                r = M.op('let_ref', {j: g for j, (g, _) in sub.items()}, u)
                check(ctx, M, f'let(compose {keys})', r,
                      T.vector_compose(tu, n, {j: tg for j, (_, tg) in sub.items()}), (u, tu))
                ctx.case((n, order, aged, 'compose', t, sign,
                          tuple(sorted((j, tg) for j, (_, tg) in sub.items()))), True)
                ctx.count('let-compose')
        M.op('decref', u0)
        if aged and rng.random() < 0.3:
            M.op('gc', None)
            pool = [(g, tg) for g, tg in pool]   # pool refs are held
    ctx.sample(dict(stream=M.s.label, first_lines=M.s.lines[:8]))


def stream_compose1(ctx, n, order, tts, ng, aged):
    """single-variable substitution (the recursion `_compose` with its own memo): every
    variable x every replacement of a pool (some not depending on all variables) x both signs
    of the operand and of the replacement"""
    M = Mgr(ctx, f'compose1 n={n} order={order} aged={aged}', n, order, aged=aged)
    rng = ctx.rng
    full = T.full(n)
    pool = []
    for i in range(ng):
        tg = rng.getrandbits(1 << n)
        if i % 2:
            # independent of one or two variables
            for j in rng.sample(range(n), rng.randint(1, min(2, n - 1))):
                tg = T.cofactor(tg, n, {j: rng.random() < 0.5})
        g = M.build(tg)
        if g is not None:
            M.op('incref', g)
            pool.append((g, tg))
    for t in tts:
        u0 = M.build(t)
        if u0 is None:
            continue
        M.op('incref', u0)
        # two rounds over the same (operand, replacement) pairs, separated by a swap of
        # adjacent levels or a collection: nothing may be remembered across the calls
        for rnd in (0, 1):
            for sign in (1, -1):
                u = sign * u0
                tu = t if sign == 1 else T.neg(t, n)
                for j in range(n):
                    for g, tg in pool:
                        gs = rng.choice((1, -1)) if rnd == 0 else 1
                        tgs = tg if gs == 1 else T.neg(tg, n)
                        r = M.op('let_ref', {j: gs * g}, u)
                        check(ctx, M, f'let(compose [{j}])', r, T.vector_compose(tu, n, {j: tgs}), (u, tu))
                        ctx.case((n, order, aged, 'compose1', t, sign, j, tgs, rnd),
                                 T.depends(t, n, j) and tgs not in (0, full))
                        ctx.count('let-compose1')
            if rnd == 0:
                if rng.random() < 0.7 and n >= 2:
                    x = rng.randrange(n - 1)
                    M.op('swap', x, x + 1)
                else:
                    M.op('gc', None)
                    M.build(rng.getrandbits(1 << n))
        M.op('decref', u0)
    M.check_table('C04:table')
    ctx.sample(dict(stream=M.s.label, first_lines=M.s.lines[:8]))


def run(ctx):
    q = ctx.quick
    rng = ctx.rng
    for order in (rng.sample(gen.orders(3), 2) if q else gen.orders(3)):
        stream_compose1(ctx, 3, order, sorted(rng.sample(range(256), 20)) if q else range(256),
                        6, rng.random() < 0.5)
    for order in rng.sample(gen.orders(4), 2 if q else 8):
        stream_compose1(ctx, 4, order, [rng.getrandbits(16) for _ in range(4 if q else 40)],
                        6, rng.random() < 0.5)
    for order in gen.orders(3):
        for aged in (False, True):
            stream(ctx, 3, order, sorted(rng.sample(range(256), 3 if q else 40)), aged,
                   nmaps=12 if q else 63, nsubs=6 if q else 30)
    for order in rng.sample(gen.orders(4), 2 if q else 10):
        stream(ctx, 4, order, [rng.getrandbits(16) for _ in range(1 if q else 8)],
               rng.random() < 0.5, nmaps=10 if q else 80, nsubs=6 if q else 30)
    stream(ctx, 2, (0, 1), range(16), False, nmaps=8, nsubs=4)
    stream(ctx, 2, (1, 0), range(16), True, nmaps=8, nsubs=4)
    # the three forms of `let` while a dynamic reordering is served inside the call
    # (the request forced at the k-th node creation, as in the C09 streams)
    from . import C09
    from .. import impl as _impl
    _impl.install_trigger(True)
    try:
        for opname in ('let_bool', 'let_ref', 'let_name', 'compose1'):
            for _ in range(1 if q else 4):
                tts = [rng.getrandbits(1 << C09.N) for _ in range(3)]
                k = 1
                while k <= (8 if q else 40) and C09.run_one(ctx, opname, tts, k):
                    k += 1
    finally:
        _impl.install_trigger(False)
