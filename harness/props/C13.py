"""C13 - image and preimage equal rename, conjoin, quantify."""
import itertools

from .. import gen, oracle, tt as T
from .base import Mgr, replay  # noqa: F401

RULE = ('transition relations and sets over 1-3 primed/unprimed pairs by truth table '
        '(1 pair: all 16 x 4 exhaustively; 2-3 pairs sampled) x every order keeping pairs '
        'adjacent (arbitrary orders for image) x both quantifiers x every admissible subset of '
        'quantified variables x names/levels as keys; image results fed back as the source of a second '
        'image; non-trivial = relation and set non-constant')
EXHAUSTIVE = {'quick': False, 'thorough': False}
ASSUMES = ['the rename map is injective (pairs); keys disjoint from values',
           'dynamic reordering is enabled (threshold already reached) around a quarter of the calls: '
           'since fix 127a6e6 no request is served inside image/preimage, the order and the result '
           'are the same as with reordering disabled']


def _dyn_on(M, rng):
    if rng.random() < 0.25:
        M.op('configure', True)
        M.op('set_last_len', 1)
        return True
    return False


def _dyn_off(M, on):
    if on:
        if M.b._last_len is None:
            M.ctx.violation('C13:reordering-disabled',
                            'dynamic reordering is disabled after image/preimage', M.case())
        M.op('configure', False)


def adjacent_orders(npairs, rng, limit=None):
    """orders (var -> level) in which unprimed 2i and primed 2i+1 are adjacent"""
    out = []
    for perm in itertools.permutations(range(npairs)):
        for flips in itertools.product((0, 1), repeat=npairs):
            lev = {}
            l = 0
            for p in perm:
                a, b = 2 * p, 2 * p + 1
                if flips[p]:
                    a, b = b, a
                lev[a] = l
                lev[b] = l + 1
                l += 2
            out.append([lev[v] for v in range(2 * npairs)])
    if limit and len(out) > limit:
        out = rng.sample(out, limit)
    return out


def run_stream(ctx, npairs, order, cases, image_only=False):
    n = 2 * npairs
    aged = ctx.rng.random() < 0.5
    M = Mgr(ctx, f'relprod pairs={npairs} order={order} aged={aged}', n, order, aged=aged, keep_order=True)
    rng = ctx.rng
    unprimed = [2 * i for i in range(npairs)]
    primed = [2 * i + 1 for i in range(npairs)]
    for (tt_trans, tt_set_over_unprimed) in cases:
        trans = M.build(tt_trans)
        # the set mentions unprimed variables only
        tset = T.rename(tt_set_over_unprimed, n, {})  # as given over all n vars
        for j in primed:
            tset = T.cofactor(tset, n, {j: False})
        sset = M.build(tset)
        if trans is None or sset is None:
            continue
        M.op('incref', trans)
        M.op('incref', sset)
        for fa in (False, True):
            # preimage: rename target unprimed->primed, quantify primed
            if not image_only:
                ren = {u: p for u, p in zip(unprimed, primed)}
                for qs in ([primed] + ([rng.sample(primed, rng.randint(0, npairs))] if npairs > 1 else [[]])):
                    kind = rng.choice(['n', 'l'])
                    lv = {v: M.b.vars[f'v{v}'] for v in range(n)}
                    rn = ren if kind == 'n' else {lv[k]: lv[v] for k, v in ren.items()}
                    qkind = rng.choice(['n', 'l'])
                    qq = qs if qkind == 'n' else [lv[v] for v in qs]
                    on = _dyn_on(M, rng)
                    r = M.op('preimage', trans, sset, kind, rn, qkind, qq, fa)
                    _dyn_off(M, on)
                    target_renamed = T.rename(tset, n, ren)
                    conj = tt_trans & target_renamed
                    exp = T.forall(conj, n, qs) if fa else T.exists(conj, n, qs)
                    ctx.case(('pre', npairs, tuple(order), tt_trans, tset, fa, tuple(qs)),
                             tt_trans not in (0, T.full(n)) and tset not in (0, T.full(n)))
                    ctx.count('preimage')
                    if r is None:
                        ctx.violation('C13:preimage-rejected', 'preimage rejected documented arguments', M.case())
                    elif M.tt(r) != exp:
                        ctx.violation('C13:preimage-wrong',
                                      f'preimage(forall={fa}, q={qs}) = {M.tt(r):#x}, expected {exp:#x}', M.case())
            # image: quantify unprimed (all of them: rename targets must be quantified), rename primed->unprimed
            ren = {p: u for u, p in zip(unprimed, primed)}
            qs = list(unprimed)
            if rng.random() < 0.35:
                # some renamed (primed) variables are quantified as well: legal, the
                # precondition constrains the rename TARGETS only
                qs = qs + rng.sample(primed, rng.randint(1, npairs))
            kind = rng.choice(['n', 'l'])
            lv = {v: M.b.vars[f'v{v}'] for v in range(n)}
            rn = ren if kind == 'n' else {lv[k]: lv[v] for k, v in ren.items()}
            qkind = rng.choice(['n', 'l'])
            qq = qs if qkind == 'n' else [lv[v] for v in qs]
            on = _dyn_on(M, rng)
            r = M.op('image', trans, sset, kind, rn, qkind, qq, fa)
            _dyn_off(M, on)
            conj = tt_trans & tset
            qd = T.forall(conj, n, qs) if fa else T.exists(conj, n, qs)
            exp = T.rename(qd, n, ren)
            ctx.case(('img', npairs, tuple(order), tt_trans, tset, fa),
                     tt_trans not in (0, T.full(n)) and tset not in (0, T.full(n)))
            ctx.count('image')
            if r is None:
                ctx.violation('C13:image-rejected', 'image rejected documented arguments', M.case())
            elif M.tt(r) != exp:
                ctx.violation('C13:image-wrong',
                              f'image(forall={fa}) = {M.tt(r):#x}, expected {exp:#x}', M.case())
            elif abs(r) != 1 and (image_only or rng.random() < 0.3):
                # the result is a set over the unprimed variables: fed back as the source (the
                # next step of a reachability iteration) it must again give the stated function
                # (a result that is not an ordered diagram evaluates correctly by name and is
                # mis-read by the next call: round-21 seed)
                M.op('incref', r)
                r2 = M.op('image', trans, r, kind, rn, qkind, qq, fa)
                conj2 = tt_trans & exp
                exp2 = T.rename(T.forall(conj2, n, qs) if fa else T.exists(conj2, n, qs), n, ren)
                ctx.case(('img2', npairs, tuple(order), tt_trans, exp, fa), True)
                ctx.count('image-of-image')
                if r2 is None:
                    ctx.violation('C13:image-rejected', 'image rejected its own result as the source', M.case())
                elif M.tt(r2) != exp2:
                    ctx.violation('C13:image-wrong',
                                  f'second step image(forall={fa}) = {M.tt(r2):#x}, expected {exp2:#x}', M.case())
                M.op('decref', r)
        M.op('decref', trans)
        M.op('decref', sset)
    M.check_table('C13:table')
    ctx.sample(dict(stream=M.s.label, first_lines=M.s.lines[:8]))


def run(ctx):
    q = ctx.quick
    rng = ctx.rng
    # one pair: exhaustive
    for order in ([0, 1], [1, 0]):
        cases = [(t, s) for t in range(16) for s in range(16)]
        if q:
            cases = rng.sample(cases, 64)
        run_stream(ctx, 1, order, cases)
    for npairs in (2, 3):
        n = 2 * npairs
        for order in adjacent_orders(npairs, rng, limit=4 if q else 24):
            cases = [(rng.getrandbits(1 << n), rng.getrandbits(1 << n)) for _ in range(3 if q else 20)]
            run_stream(ctx, npairs, order, cases)
        # image under arbitrary orders (pairs not adjacent: accepted with a warning)
        for _ in range(3 if q else 24):
            order = list(range(n))
            rng.shuffle(order)
            cases = [(rng.getrandbits(1 << n), rng.getrandbits(1 << n)) for _ in range(3 if q else 12)]
            run_stream(ctx, npairs, order, cases, image_only=True)
