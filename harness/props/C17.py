"""C17 - an operation that raises leaves the manager and all references
intact."""
from .. import gen, oracle, tt as T
from .base import Mgr, replay  # noqa: F401
from ..impl import vname, Spellings, Text

RULE = ('random histories (builds, connectives, collections, swaps) with a rejected call of '
        'every kind injected at every point, dynamic reordering off and on (natural trigger with '
        'a lowered threshold); a case is (kind of rejected call, history position); all are '
        'non-trivial when the manager holds at least one non-constant function')
EXHAUSTIVE = {'quick': False, 'thorough': False}
ASSUMES = ['formulas rejected late (syntax error or illegal character after a valid prefix) are replayed on the '
           'LR model with the regenerated PLY tables: the exact state is compared',
           'unreadable files: JSON files with an unknown child/root id, a bad level or a parent before its '
           'children, also files that are not reduced (two identifiers for one node), loaded through dd.autoref']


def bad_calls(M, rng, held):
    """(kind, opname, args) of calls that must be rejected"""
    n = M.nv
    b = M.b
    live = list(held) or [1]
    u = rng.choice(live)
    unknown = max(b._succ) + rng.randint(3, 9)
    undeclared = n + rng.randint(0, 3)
    out = [
        ('undeclared-variable', 'var', (undeclared,)),
        ('unknown-node', 'apply', ('and', u, unknown, None)),
        ('unknown-node', 'apply', ('or', -unknown, u, None)),
        ('unknown-node', 'apply', ('not', unknown, None, None)),
        ('unknown-operator', 'apply', ('nand', u, u, None)),
        ('wrong-arity', 'apply', ('and', u, None, None)),
        ('wrong-arity', 'apply', ('not', u, u, None)),
        ('wrong-arity', 'apply', ('ite', u, u, None)),
        ('wrong-arity', 'apply', ('or', u, u, u)),
        ('unknown-node', 'find_or_add', (0, unknown, 1)),
        ('unknown-node', 'find_or_add', (0, 1, unknown)),
        ('unknown-node', 'find_or_add', (0, u, -unknown)),
        ('unknown-node', 'to_expr', (unknown,)),
        ('unknown-node', 'to_expr', (-unknown,)),
        ('unknown-node', 'to_dot', ([u, unknown],)),
        ('unknown-node', 'to_nx', ([unknown],)),
        ('unknown-node', 'is_essential', (unknown, 0)),
        ('unknown-node', 'let_ref', ({0: unknown}, u)),
        ('unknown-node', 'let_bool', ({0: True}, unknown)),
        ('unknown-node', 'ite', (u, unknown, u)),
        ('unknown-node', 'ite', (unknown, u, u)),
        ('unknown-node', 'ite', (u, u, -unknown)),
        ('bad-level', 'find_or_add', (n + 2, -1, 1)),
        ('unknown-node', 'incref', (unknown,)),
        ('unknown-node', 'decref', (unknown,)),
        ('unknown-node', 'ref', (unknown,)),
        ('unknown-node', 'cofactor', (unknown, 'n', {0: True})),
        ('undeclared-variable', 'cofactor', (u, 'n', {undeclared: True})),
        ('undeclared-variable', 'cofactor', (u, 'n', {0: True, undeclared: False})),
        ('undeclared-variable', 'quantify', (u, 'n', [undeclared], False)),
        ('undeclared-variable', 'quantify', (u, 'n', [0, undeclared], True)),
        ('bad-level', 'quantify', (u, 'l', [n + 3], False)),
        ('undeclared-variable', 'compose', (u, {undeclared: u})),
        ('undeclared-variable', 'compose', (u, {0: u, undeclared: u})),
        ('undeclared-variable', 'rename', (u, {0: undeclared})),
        ('unknown-node', 'rename', (unknown, {0: 1 % n})),
        ('undeclared-variable', 'cube', ({0: True, undeclared: True},)),
        ('count-too-few', 'count', (rng.choice(live), 0)) if len(T.support(M.tt(rng.choice(live)), n)) > 0 else None,
        ('unknown-node', 'count', (unknown, None)),
        ('unknown-node', 'pick_iter', (unknown, None)),
        ('unknown-node', 'support', (unknown,)),
        ('unknown-node', 'succ', (unknown,)),
        ('unknown-node', 'copy', (0, unknown)) if False else None,
        ('unknown-node', 'gc', ([unknown],)),
        ('unknown-node', 'descendants', ([u, unknown],)),
        ('level-conflict', 'add_var', (0, (b.vars[vname(0)] + 1) % max(n, 1) if n > 1 else 5)),
        ('level-conflict', 'add_var', (undeclared + 5, 0)),
        ('bad-order', 'swap', (0, n + 1)),
        # boundary levels: the terminal's level n, a negative level, the pair reversed
        ('bad-order', 'swap', (n - 1, n)) if n >= 1 else None,
        ('bad-order', 'swap', (n, n - 1)) if n >= 1 else None,
        ('bad-order', 'swap', (n - 2, n)) if n >= 2 else None,
        ('bad-order', 'swap', (-1, 0)),
        ('bad-order', 'swap', (0, 2)) if n >= 3 else None,
        ('bad-order', 'swap', (1, 1)) if n >= 2 else None,
        ('bad-order', 'reorder', ({0: 0},)) if n >= 2 else None,
        ('bad-order', 'reorder', ({**{v: v for v in range(n - 1)}, undeclared: n - 1},)) if n >= 2 else None,
        # the same with the declared variables REVERSED, so that swaps happen before the
        # undeclared name is met
        ('bad-order', 'reorder', ({**{v: n - 2 - i for i, v in enumerate(
            sorted(range(n), key=lambda v: b.vars[vname(v)])[:n - 1])}, undeclared: n - 1},)) if n >= 3 else None,
        ('unknown-variable', 'undeclare', ([undeclared],)),
        ('unknown-variable', 'level_of_var', (undeclared,)),
        ('unknown-variable', 'var_at_level', (n + 2,)),
        ('overlap', 'image', (u, u, 'n', {0: 1 % n, 1 % n: 0}, 'n', [0], False)) if n >= 2 else None,
        ('overlap', 'preimage', (u, u, 'n', {0: 1 % n, 1 % n: 0}, 'n', [0], False)) if n >= 2 else None,
        ('undeclared-variable', 'image', (u, u, 'n', {0: 1 % n}, 'n', [undeclared], False)) if n >= 2 else None,
    ]
    # a formula that creates nodes before the offending name is reached
    def rand_expr(d):
        if d == 0 or rng.random() < 0.2:
            return [rng.choice(['', '~']) + f'v{rng.randrange(n)}'] if rng.random() < 0.5 else [f'v{rng.randrange(n)}']
        op = rng.choice(['/\\', '\\/', '#', '=>', '<=>'])
        return ['('] + rand_expr(d - 1) + [op] + rand_expr(d - 1) + [')']
    toks = []
    for t in rand_expr(3) + ['\\/', f'v{undeclared}']:
        if t.startswith('~') and len(t) > 1:
            toks += ['~', t[1:]]
        else:
            toks.append(t)
    from ..impl import Text
    out.append(('undeclared-variable', 'add_expr', (Spellings(toks),)))
    out.append(('undeclared-variable', 'add_expr_lr', (Text(' '.join(toks)),)))
    # rejected late: the nodes of the valid prefix exist; the LR model follows that state
    out.append(('syntax-error', 'add_expr_lr', (Text(' '.join(toks[:-2] + [')', ')'])),)))
    out.append(('syntax-error', 'add_expr_lr', (Text(' '.join(toks[:-2]) + ' v0 v1'),)))
    out.append(('syntax-error', 'add_expr_lr', (Text(' '.join(toks[:-2]) + ' $ v0'),)))
    used = [v for v in range(n) if any(b._succ[k][0] == b.vars[vname(v)] for k in b._succ)]
    if used:
        out.append(('variable-in-use', 'undeclare', ([rng.choice(used)],)))
        unused = [v for v in range(n) if v not in used]
        if unused:
            # a removable variable together with one that is still in use: nothing may change
            mix = [rng.choice(unused), rng.choice(used)]
            rng.shuffle(mix)
            out.append(('variable-in-use', 'undeclare', (mix,)))
            out.append(('variable-in-use', 'undeclare', (sorted(unused) + [rng.choice(used)],)))
    if b._last_len is not None:
        # the public find_or_add raises the internal signal when dynamic reordering
        # is enabled: that is C09's known finding, not a failing call of this property
        out = [c for c in out if c is None or c[1] != 'find_or_add']
    return [c for c in out if c is not None]


def history(ctx, n, steps, reordering):
    rng = ctx.rng
    order = list(range(n))
    rng.shuffle(order)
    M = Mgr(ctx, f'faults n={n} reordering={reordering}', n, order)
    s = M.s
    ledger = {1: 1}
    held = {}
    if reordering:
        M.op('configure', True)
        M.op('set_last_len', rng.choice([2, 3, 5]))

    def snapshot():
        memo = {}
        return {u: oracle.tt_fast(M.b, u, [vname(i) for i in range(n)], memo) for u in held}

    kind = None
    roots_now = []
    for step in range(steps):
        k = rng.random()
        kind = None
        if k < 0.3:
            t = rng.getrandbits(1 << n)
            u = gen.build_tt(s, 0, t, list(range(n)))
            if u is not None and abs(u) in M.b._succ:
                M.op('incref', u)
                ledger[abs(u)] = ledger.get(abs(u), 0) + 1
                held[u] = held.get(u, 0) + 1
        elif k < 0.4 and len(held) >= 2:
            a, c = rng.sample(list(held), 2)
            M.op('apply', rng.choice(['and', 'or', 'xor']), a, c, None)
        elif k < 0.47:
            M.op('gc', None)
        elif k < 0.49 and held:
            # the `roots` attribute (explicit reorderings protect what it names)
            roots_now = rng.sample(list(held), min(len(held), rng.randint(1, 2)))
            M.op('set_roots', roots_now)
        elif k < 0.52 and n >= 2:
            x = rng.randrange(n - 1)
            if not reordering:
                M.op('swap', x, x + 1)
        elif k < 0.57 and held:
            u = rng.choice(list(held))
            if u in roots_now and held[u] == 1:
                # `roots` may only name nodes that stay referenced
                roots_now = [x for x in roots_now if x != u]
                M.op('set_roots', roots_now)
            M.op('decref', u)
            ledger[abs(u)] -= 1
            held[u] -= 1
            if not held[u]:
                del held[u]
        else:
            # inject one rejected call
            calls = bad_calls(M, rng, held)
            kind, name, args = rng.choice(calls)
            before_tt = snapshot()
            before_vars = dict(M.b.vars)
            before_cfg = M.b._last_len is None
            r = M.op(name, *args)
            ctx.case((kind, name, reordering, len(s.lines)), bool(held))
            ctx.count('rejected:' + kind)
            res = s.last_result()
            if res.startswith('ok:'):
                # not rejected: fine for the property (nothing failed), but
                # worth counting
                ctx.count('accepted:' + kind)
            elif res == 'err:needs_reordering':
                ctx.violation('C17:signal-escaped', f'{name}{args} raised the internal reordering signal', M.case())
                break
            if not res.startswith('ok:'):
                # (with dynamic reordering enabled a reordering may be served before the
                # call fails: the order may then change, it must only stay a bijection)
                if M.b.vars != before_vars and kind not in ('bad-order',) and before_cfg:
                    ctx.violation('C17:order-changed', f'rejected {name}{args} changed the variable order', M.case())
                if (M.b._last_len is None) != before_cfg:
                    ctx.violation('C17:configuration-changed',
                                  f'rejected {name}{args} switched dynamic reordering '
                                  f'{"off" if M.b._last_len is None else "on"}', M.case())
                    break
                after = snapshot()
                if after != before_tt:
                    ctx.violation('C17:reference-changed', f'rejected {name}{args} changed a held reference', M.case())
                    break
        bad = oracle.check_table(M.b, external=ledger)
        if bad:
            ctx.violation('C17:not-canonical', f'after step {step}: {bad[:3]}', M.case())
            break
        if kind is not None:
            M.op('assert_consistent')
            if not s.ok():
                ctx.violation('C17:not-canonical', f'after step {step}: BDD.assert_consistent() fails', M.case())
                break
        if sorted(M.b.vars.values()) != list(range(len(M.b.vars))):
            ctx.violation('C17:order-not-bijection', f'{M.b.vars}', M.case())
            break
    for u, c in held.items():
        for _ in range(c):
            M.op('decref', u)
    M.op('configure', False)
    M.op('gc', None)
    ctx.sample(dict(stream=s.label, first_lines=s.lines[:10]))


def failed_retry(ctx, n, kind, P='C17'):
    """the call fails only AFTER a dynamic reordering was served: the first
    attempt raises the internal signal, the retry meets the offending name"""
    rng = ctx.rng
    M = Mgr(ctx, f'failed retry n={n} kind={kind}', n, list(range(n)))
    s = M.s
    held = []
    ledger = {1: 1}
    for _ in range(2):
        u = M.build(rng.getrandbits(1 << n))
        if u is not None and abs(u) != 1:
            M.op('incref', u)
            ledger[abs(u)] = ledger.get(abs(u), 0) + 1
            held.append(u)
    M.op('gc', None)
    before = {u: M.tt(u) for u in held}
    M.op('configure', True)
    M.op('set_last_len', 1)
    toks = []
    for j in range(n):
        toks += ['(', f'v{j}', rng.choice(['#', '<=>', '/\\', '\\/']), f'v{(j + 1) % n}', ')', rng.choice(['#', '\\/'])]
    toks += [f'v{n + 2}'] if kind == 'undeclared' else ['(', ')']
    from ..impl import Text
    M.op('add_expr_lr', Text(' '.join(toks)))
    res = s.last_result()
    ctx.case(('failed-retry', n, kind, tuple(toks)), True)
    ctx.count('failed-retry:' + kind)
    if res.startswith('ok:'):
        ctx.violation(P + ':accepted', 'a formula with an undeclared name / syntax error was accepted', M.case())
    if M.b._last_len is None:
        ctx.violation(P + ':configuration-changed',
                      'the rejected add_expr (rejected on the retry after a dynamic reordering) '
                      'left dynamic reordering switched off', M.case())
    for u, t in before.items():
        if abs(u) not in M.b._succ or M.tt(u) != t:
            ctx.violation(P + ':reference-changed', f'held reference {u} changed', M.case())
    bad = oracle.check_table(M.b, external=ledger)
    if bad:
        ctx.violation(P + ':not-canonical', f'{bad[:3]}', M.case())
    if kind == 'undeclared':
        # later calls behave normally
        if held:
            r = M.op('apply', 'or', held[0], held[-1], None)
            if r is None or M.tt(r) != (before[held[0]] | before[held[-1]]):
                ctx.violation(P + ':later-call', 'a call after the rejected one misbehaves', M.case())
        for u in held:
            M.op('decref', u)
        M.op('configure', False)
        M.op('gc', None)


def json_faults(ctx, n, receiver, fault, alias=False, P='C17'):
    """a JSON file that cannot be loaded (dd.autoref): the receiver keeps
    exact counts, its live Functions keep their functions, and a later load
    of the intact file works.  With `alias` the file is NOT reduced: a second identifier
    describes a node that the file lists already (and a later line or root may use it), which
    the loader accepts (`dump` never writes such a file), so that the references the loader takes
    per identifier and the nodes it creates are not in one-to-one correspondence.  `P` is the
    prefix of the violation keys (the stream is also used by C08)."""
    from ..impl import JNodes
    from .C12 import abuild, by_name
    rng = ctx.rng
    s = ctx.session(f'json fault={fault} n={n} recv={receiver}' + (' alias' if alias else ''))
    A = 'a0'
    s.op(A, 'new', {v: v for v in range(n)})
    hs = [abuild(s, A, rng.getrandbits(1 << n) | 2, n) for _ in range(2)]
    d = s.op(A, 'json_dump', hs)
    if d is None:
        return
    lv, rt, ns = d
    ns = [tuple(x) for x in ns]
    if len(ns) < 2:
        return
    if alias:
        for _ in range(rng.choice([1, 2])):
            i = rng.randrange(len(ns))
            k, l, lo, hi = ns[i]
            K = 7000 + len(ns)
            ns.insert(i + 1, (K, l, lo, hi))
            # a later line (or a root) may reach the node through the second identifier
            users = [j for j in range(i + 2, len(ns))
                     if any(isinstance(x, int) and abs(x) == k for x in ns[j][2:])]
            if users and rng.random() < 0.6:
                j = rng.choice(users)
                kk, ll, a, b = ns[j]
                sub = lambda x: (K if x > 0 else -K) if isinstance(x, int) and abs(x) == k else x  # noqa: E731
                ns[j] = (kk, ll, sub(a), sub(b))
            elif rng.random() < 0.5:
                rt = [((K if x > 0 else -K) if isinstance(x, int) and abs(x) == k else x) for x in rt]
    R = A if receiver == 'same' else 'a1'
    if R != A:
        s.op(R, 'new', {} if receiver == 'fresh' else {v: n - 1 - v for v in range(n)})
        if receiver == 'in-use':
            abuild(s, R, rng.getrandbits(1 << n), n)
    H = s.impl.handles
    r = s.impl.amgr[R]
    before = {h: by_name(r._bdd, f.node, n) for h, f in H[R].items()}
    bad_ns, bad_rt = list(ns), list(rt)
    if fault == 'unknown-child':
        i = rng.randrange(1, len(ns))
        k, l, lo, hi = ns[i]
        bad_ns[i] = (k, l, 9000 + k, hi)
    elif fault == 'unknown-root':
        bad_rt[-1] = 9001
    elif fault == 'bad-level':
        k, l, lo, hi = ns[-1]
        bad_ns[-1] = (k, n + 3, lo, hi)
    elif fault == 'parent-first':
        bad_ns = [ns[-1]] + ns[:-1]
    elif fault == 'negated-node':
        # a line that denotes the COMPLEMENT of a node (both edges flipped): the file format
        # stores regular nodes only, the loader refuses it; in the receiver that dumped the
        # file this function (up to complement) is a node the caller holds
        def flip(x):
            return {'T': 'F', 'F': 'T'}.get(x, None) or (-x if isinstance(x, int) else x)
        i = rng.randrange(len(ns))
        k, l, lo, hi = ns[i]
        bad_ns[i] = (k, l, flip(lo), flip(hi))
    got = s.op(R, 'json_load', {v: l for v, l in lv}, bad_rt, JNodes(bad_ns), False)
    case = lambda: dict(stream=s.label, lines=list(s.lines))  # noqa: E731
    ctx.case(('json-fault', fault, receiver, n, tuple(bad_ns), tuple(bad_rt)), True)
    ctx.count('json-fault:' + fault + (':alias' if alias else ''))
    if got is not None:
        ctx.count('json-fault-accepted:' + fault)
        for h in got:
            s.op(R, 'drop', h)
    ext = {1: 1}
    for u in [abs(f.node) for f in H[R].values()]:
        ext[u] = ext.get(u, 0) + 1
    bad = oracle.check_table(r._bdd, external=ext)
    if bad:
        ctx.violation(P + ':json-counts', f'after the rejected JSON load ({fault}): {bad[:3]}', case)
    for h, t in before.items():
        if by_name(r._bdd, H[R][h].node, n) != t:
            ctx.violation(P + ':reference-changed', f'live Function {h} changed after the rejected load', case)
            break
    # the intact file still loads, and everything can be released
    ok = s.op(R, 'json_load', {v: l for v, l in lv}, rt, JNodes(ns), False)
    if ok is None:
        ctx.violation(P + ':later-call', 'the intact file is rejected after the failed load', case)
    else:
        for h in ok:
            s.op(R, 'drop', h)
    for h in list(H[R]):
        s.op(R, 'drop', h)
    s.op(R, 'gc')
    if set(r._bdd._succ) != {1}:
        ctx.violation(P + ':json-counts', f'nodes {sorted(r._bdd._succ)} survive a collection with no live Function', case)
    if R != A:
        for h in list(H[A]):
            s.op(A, 'drop', h)


def undeclare_mix(ctx, order, reordering):
    """a rejected undeclare_vars whose arguments mix a removable variable that lies ABOVE
    used levels with a variable that is still in use: nothing may change"""
    rng = ctx.rng
    n = 4
    M = Mgr(ctx, f'undeclare mix order={order} reordering={reordering}', n, order)
    s = M.s
    used_vars = rng.sample(range(n), 2)
    t = 0
    # a function of exactly the two used variables
    a, c = used_vars
    for k in range(1 << n):
        if T.getbit(k, a, n) != T.getbit(k, c, n) or (T.getbit(k, a, n) and rng.random() < 0):
            t |= 1 << k
    u = M.build(t)
    M.op('incref', u)
    M.op('gc', None)
    if reordering:
        M.op('configure', True)
    before_tt = M.tt(u)
    before_vars = dict(M.b.vars)
    before_succ = dict(M.b._succ)
    unused = [v for v in range(n) if v not in used_vars]
    for args in ([unused[0], a], [c, unused[1]], unused + [a], [a, c]):
        M.op('undeclare', list(args))
        ctx.case(('undeclare-mix', tuple(order), tuple(args), reordering), True)
        ctx.count('rejected:undeclare-mix')
        if s.ok():
            ctx.violation('C17:accepted', f'undeclare_vars{args} accepted although a variable is in use', M.case())
            return
        if dict(M.b.vars) != before_vars or dict(M.b._succ) != before_succ:
            ctx.violation('C17:order-changed', f'rejected undeclare_vars{args} changed the variables or the nodes', M.case())
            return
        if M.tt(u) != before_tt:
            ctx.violation('C17:reference-changed', f'rejected undeclare_vars{args} changed a held reference', M.case())
            return
        bad = oracle.check_table(M.b, external={1: 1, abs(u): 1})
        if bad:
            ctx.violation('C17:not-canonical', f'after rejected undeclare_vars{args}: {bad[:3]}', M.case())
            return
    # the removable ones can still be removed, and the function survives by name
    r = M.op('undeclare', unused)
    if r is None:
        ctx.violation('C17:later-call', 'undeclare_vars of the unused variables fails after the rejected calls', M.case())
    M.op('configure', False)
    M.op('decref', u)


def full_table(ctx, n, limit_extra):
    """a call that fails because `max_nodes` is reached (`RuntimeError`): implementation and
    oracle only (the correspondence with the model is the stream `full_table_model`).  Held references keep their functions, counts stay exact,
    `_min_free` stays the least free number, and work continues once the limit is raised."""
    import dd.bdd as _ddb
    rng = ctx.rng
    b = _ddb.BDD()
    names = [vname(i) for i in range(n)]
    b.declare(*names)
    held = {}
    for _ in range(2):
        t = rng.getrandbits(1 << n)
        u = b.false
        for k in range(1 << n):
            if (t >> k) & 1:
                u = b.apply('or', u, b.cube({names[j]: bool(T.getbit(k, j, n)) for j in range(n)}))
        if abs(u) != 1:
            b.incref(u)
            held[u] = held.get(u, 0) + 1
    tts = {u: oracle.tt_fast(b, u, names) for u in held}
    b.collect_garbage()
    b.max_nodes = len(b) + limit_extra
    case = dict(stream=f'full table n={n} extra={limit_extra}', max_nodes=b.max_nodes,
                held={str(u): hex(t) for u, t in tts.items()})
    failed = False
    for _ in range(12):
        t = rng.getrandbits(1 << n)
        try:
            u = b.false
            for k in range(1 << n):
                if (t >> k) & 1:
                    u = b.apply('or', u, b.cube({names[j]: bool(T.getbit(k, j, n)) for j in range(n)}))
        except RuntimeError:
            failed = True
            break
    ctx.case(('full-table', n, limit_extra, failed), True)
    ctx.count('full-table' + (':reached' if failed else ''))
    ext = {1: 1}
    for u, c in held.items():
        ext[abs(u)] = ext.get(abs(u), 0) + c
    bad = oracle.check_table(b, external=ext)
    if bad:
        ctx.violation('C17:full-table', f'after RuntimeError(full) the manager is inconsistent: {bad[:3]}', case)
    for u, t in tts.items():
        if oracle.tt_fast(b, u, names) != t:
            ctx.violation('C17:reference-changed', f'held reference {u} changed after RuntimeError(full)', case)
    b.max_nodes = 10 ** 9
    try:
        b.collect_garbage()
        t = rng.getrandbits(1 << n)
        u = b.false
        for k in range(1 << n):
            if (t >> k) & 1:
                u = b.apply('or', u, b.cube({names[j]: bool(T.getbit(k, j, n)) for j in range(n)}))
        if oracle.tt_fast(b, u, names) != t:
            ctx.violation('C17:later-call', 'a function built after the limit was raised is wrong', case)
        if oracle.check_table(b, external=ext):
            ctx.violation('C17:full-table', 'inconsistent after later work', case)
        for u, c in held.items():
            for _ in range(c):
                b.decref(u)
        b.collect_garbage()
    except Exception as e:  # noqa: B902
        ctx.violation('C17:later-call', f'work after RuntimeError(full) raised {type(e).__name__}', case)
    # (the shutdown assertion of dd wants zero counts)
    b._succ = {1: b._succ[1]}
    b._ref = {1: 0}


def full_table_model(ctx, n, dynamic):
    """`max_nodes` in the correspondence: histories run through the session (the extracted
    model AND dd, state compared after every operation) in which `bdd.max_nodes = k` is set
    to tight values and then operations of every kind that creates nodes are called --
    apply / ite / let / quantify / reorder (sifting and explicit orders) / swap / collections /
    raising the limit again -- so that `RuntimeError('full ...')` is met inside
    `find_or_add` (midway through an operation) and at the pre-check of `swap` (also inside
    sifting, also inside the sifting of a dynamic reordering).  Oracle: the manager stays
    canonical with exact counts after every call, held references keep their functions, and
    work continues once the limit is lifted."""
    rng = ctx.rng
    order = list(range(n))
    rng.shuffle(order)
    M = Mgr(ctx, f'full table (model) n={n} dynamic={dynamic}', n, order)
    s = M.s
    names = [vname(i) for i in range(n)]
    ledger = {1: 1}
    held = []
    full = (1 << (1 << n)) - 1

    def hold(u):
        if u is not None and abs(u) in M.b._succ and abs(u) != 1:
            M.op('incref', u)
            ledger[abs(u)] = ledger.get(abs(u), 0) + 1
            held.append(u)

    for _ in range(2):
        hold(gen.build_tt(s, 0, rng.randrange(full + 1), list(range(n))))
    M.op('gc', None)
    if dynamic:
        M.op('configure', True)
        M.op('set_last_len', rng.choice([2, 3, 4]))
    reached = 0

    def snapshot():
        memo = {}
        return {u: oracle.tt_fast(M.b, u, names, memo) for u in held}

    for step in range(14):
        b = M.b
        k = rng.random()
        if k < 0.3:
            # a tight limit: just above the table size, or just above the largest number
            extra = rng.choice([0, 1, 1, 2, 3, 4])
            lim = (len(b) + 1 + extra) if rng.random() < 0.6 else (max(b._succ) + 1 + extra)
            M.op('set_max_nodes', lim)
            continue
        if k < 0.36:
            M.op('set_max_nodes', None)
            continue
        before = snapshot()
        cfg_before = b._last_len is None
        live = held or [1]
        u = rng.choice(live)
        v = rng.choice(live)
        what = rng.choice(['build', 'apply', 'ite', 'let_bool', 'let_ref', 'let_name', 'quantify',
                           'sift', 'reorder', 'swap', 'gc', 'cube', 'var'])
        if what == 'build':
            r = gen.build_tt(s, 0, rng.randrange(full + 1), list(range(n)))
            if r is not None and rng.random() < 0.4:
                hold(r)
        elif what == 'apply':
            M.op('apply', rng.choice(['and', 'or', 'xor', 'equiv', 'implies']), u, v, None)
        elif what == 'ite':
            M.op('ite', u, v, -rng.choice(live))
        elif what == 'let_bool':
            M.op('let_bool', {rng.randrange(n): rng.random() < 0.5}, u)
        elif what == 'let_ref':
            M.op('let_ref', {rng.randrange(n): v}, u)
        elif what == 'let_name':
            a, c = rng.randrange(n), rng.randrange(n)
            M.op('let_name', {a: c}, u)
        elif what == 'quantify':
            M.op('quantify', u, 'n', rng.sample(range(n), rng.randint(1, max(1, n - 1))), rng.random() < 0.5)
        elif what == 'cube':
            M.op('cube', {i: rng.random() < 0.5 for i in rng.sample(range(n), rng.randint(1, n))})
        elif what == 'var':
            M.op('var', rng.randrange(n))
        elif what == 'sift':
            M.op('reorder', None)
        elif what == 'reorder':
            o = list(range(n))
            rng.shuffle(o)
            M.op('reorder', {i: o[i] for i in range(n)})
        elif what == 'swap' and n >= 2:
            x = rng.randrange(n - 1)
            M.op('swap', *((x, x + 1) if rng.random() < 0.5 else (x + 1, x)))
        else:
            M.op('gc', None)
        res = s.last_result()
        failed_full = (not res.startswith('ok:')) and 'RuntimeError' in (getattr(s.impl, 'last_exc', '') or '')
        ctx.case(('full-table-model', what, n, dynamic, failed_full), bool(held))
        if failed_full:
            reached += 1
            ctx.count('full-table-model:reached:' + what)
        if res == 'err:needs_reordering':
            ctx.violation('C17:signal-escaped', f'{what} raised the internal reordering signal', M.case())
            break
        ext = dict(ledger)
        bad = oracle.check_table(M.b, external=ext)
        if bad:
            ctx.violation('C17:full-table', f'after {what} ({res}) the manager is inconsistent: {bad[:3]}', M.case())
            break
        after = snapshot()
        if any(after.get(u0) != t0 for u0, t0 in before.items()):
            ctx.violation('C17:reference-changed', f'{what} ({res}) changed a held reference', M.case())
            break
        if sorted(M.b.vars.values()) != list(range(len(M.b.vars))):
            ctx.violation('C17:order-not-bijection', f'{M.b.vars}', M.case())
            break
        if (M.b._last_len is None) != cfg_before:
            ctx.violation('C17:configuration-changed', f'{what} ({res}) switched dynamic reordering', M.case())
            break
        if failed_full:
            M.op('assert_consistent')
            if not s.ok():
                ctx.violation('C17:not-canonical', 'BDD.assert_consistent() fails after RuntimeError(full)', M.case())
                break
    ctx.count('full-table-model' + (':reached' if reached else ''))
    # later work: lift the limit (dynamic reordering off: the intermediate results of the
    # construction below are not referenced)
    M.op('set_max_nodes', None)
    M.op('configure', False)
    t = rng.randrange(full + 1)
    r = gen.build_tt(s, 0, t, list(range(n)))
    if r is None or M.tt(r) != t:
        ctx.violation('C17:later-call', 'a function built after the limit was lifted is wrong', M.case())
    for u in held:
        M.op('decref', u)
    M.op('configure', False)
    M.op('gc', None)
    ctx.sample(dict(stream=s.label, first_lines=s.lines[:10]))


def full_table_ops(ctx, n, op, extra):
    """other operations that run into `max_nodes`: reordering (explicit order, sifting,
    a single swap, dynamic reordering inside an operation), substitution, quantification,
    loading a pickle / JSON dump into the full manager.  After the `RuntimeError` the tables
    are consistent, the order is a bijection, every held reference denotes the function it
    denoted, and the manager works again once the limit is raised.  Implementation and
    oracle only (see `full_table`)."""
    import dd.bdd as _ddb
    import os
    import tempfile
    import dd.autoref as _aut
    rng = ctx.rng
    A = None
    if op == 'load-json':
        # (JSON is read and written through the dd.autoref wrapper)
        A = _aut.BDD()
        b = A._bdd
    else:
        b = _ddb.BDD()
    names = [vname(i) for i in range(n)]
    b.declare(*names)

    def build(t):
        u = b.false
        for k in range(1 << n):
            if (t >> k) & 1:
                u = b.apply('or', u, b.cube({names[j]: bool(T.getbit(k, j, n)) for j in range(n)}))
        return u
    held = {}
    for _ in range(rng.choice([1, 2, 3])):
        u = build(rng.getrandbits(1 << n))
        if abs(u) != 1:
            b.incref(u)
            held[u] = held.get(u, 0) + 1
    if not held:
        ctx.count('full-table-ops:trivial')
        return
    path = None
    if op in ('load-pickle', 'load-json'):
        # a dump of other functions of the same variables, made by a second manager
        C = _aut.BDD() if op == 'load-json' else None
        c = C._bdd if C is not None else _ddb.BDD()
        c.declare(*names)
        rs = []
        for _ in range(2):
            t = rng.getrandbits(1 << n)
            u = c.false
            for k in range(1 << n):
                if (t >> k) & 1:
                    u = c.apply('or', u, c.cube({names[j]: bool(T.getbit(k, j, n)) for j in range(n)}))
            c.incref(u)
            rs.append(u)
        fd, path = tempfile.mkstemp(prefix='ddverif', suffix='.p' if op == 'load-pickle' else '.json')
        os.close(fd)
        if op == 'load-pickle':
            c.dump(path, roots=rs)
        else:
            fs = [C._wrap(u) for u in rs]
            C.dump(path, roots=fs)
            del fs
        for u in rs:
            c.decref(u)
        c.collect_garbage()
    if rng.random() < 0.7:
        b.collect_garbage()
    tts = {u: (oracle.tt_fast(b, u, names)) for u in held}
    b.max_nodes = max(max(b._succ) + 1, len(b) + 1) + extra if rng.random() < 0.5 else len(b) + 1 + extra
    case = dict(stream=f'full table ops n={n} op={op} extra={extra}', max_nodes=b.max_nodes,
                order=dict(b.vars), held={str(u): hex(t) for u, t in tts.items()})
    failed = False
    try:
        if op == 'reorder':
            perm = names[:]
            rng.shuffle(perm)
            case['target'] = perm
            _ddb.reorder(b, {v: i for i, v in enumerate(perm)})
        elif op == 'sift':
            _ddb.reorder(b)
        elif op == 'swap':
            x = rng.randrange(n - 1)
            case['swap'] = x
            b.swap(x, x + 1)
        elif op == 'dynamic':
            b.configure(reordering=True)
            b._last_len = 1
            hs = list(held)
            for _ in range(6):
                # (operands are held references: a reordering collects everything else)
                b.apply(rng.choice(['xor', 'and', 'or', '=>']), rng.choice(hs), -rng.choice(hs))
                b.ite(rng.choice(hs), -rng.choice(hs), rng.choice(hs))
        elif op == 'let':
            for _ in range(6):
                u = rng.choice(list(held))
                g = rng.choice(list(held))
                b.let({rng.choice(names): g}, u)
        elif op == 'quantify':
            for _ in range(6):
                u = rng.choice(list(held))
                b.exist(set(rng.sample(names, rng.randrange(1, n))), build(rng.getrandbits(1 << n)) if rng.random() < 0.5 else u)
        elif op == 'load-pickle':
            b.load(path)
        else:
            loaded = A.load(path)
            del loaded
    except RuntimeError:
        failed = True
        if op == 'dynamic' and b._last_len is None:
            ctx.violation('C17:reordering-disabled', 'the call that failed at the full table (inside the sifting '
                          'of a dynamic reordering) left dynamic reordering switched off', case)
    finally:
        b.configure(reordering=False)
    ctx.case(('full-table-ops', n, op, failed), True)
    ctx.count(f'full-table-ops:{op}' + (':reached' if failed else ''))
    ext = {1: 1}
    for u, c_ in held.items():
        ext[abs(u)] = ext.get(abs(u), 0) + c_
    if not failed and op in ('load-pickle', 'load-json'):
        # the loaded roots are held by the manager's own `roots`/references; release them
        b.max_nodes = 10 ** 9
    try:
        if failed:
            names_now = names
            bad = oracle.check_table(b, external=ext)
            if bad:
                ctx.violation('C17:full-table', f'after RuntimeError(full) in {op} the manager is inconsistent: {bad[:3]}', case)
                return
            for u, t in tts.items():
                if oracle.tt_fast(b, u, names_now) != t:
                    ctx.violation('C17:reference-changed', f'held reference {u} changed after RuntimeError(full) in {op}', case)
                    return
        b.max_nodes = 10 ** 9
        t = rng.getrandbits(1 << n)
        u = build(t)
        if oracle.tt_fast(b, u, names) != t:
            ctx.violation('C17:later-call', f'a function built after the limit was raised is wrong ({op})', case)
        for u, t in tts.items():
            if oracle.tt_fast(b, u, names) != t:
                ctx.violation('C17:reference-changed', f'held reference {u} changed ({op}, failed={failed})', case)
                return
        _ddb.reorder(b)
        for u, t in tts.items():
            if oracle.tt_fast(b, u, names) != t:
                ctx.violation('C17:reference-changed', f'held reference {u} changed by a later reordering ({op})', case)
                return
    except Exception as e:  # noqa: B902
        ctx.violation('C17:later-call', f'work after RuntimeError(full) in {op} raised {type(e).__name__}: {e}'[:200], case)
    finally:
        if path and os.path.exists(path):
            os.unlink(path)
        # (the shutdown assertion of dd wants zero counts)
        b._succ = {1: b._succ[1]}
        b._ref = {1: 0}


def autoref_rejected_expr(ctx, n):
    """`add_expr` through dd.autoref rejected AFTER some operands were already built (an
    undeclared name or a syntax error late in the formula): no Function may stay behind --
    counts exact for the live handles right after the failure (before any other call), and a
    collection leaves exactly the nodes the live handles reach.  Model and implementation."""
    rng = ctx.rng
    s = ctx.session(f'autoref rejected add_expr n={n}')
    A = 'a0'
    order = list(range(n))
    rng.shuffle(order)
    s.op(A, 'new', {v: l for v, l in zip(range(n), order)})
    H = s.impl.handles
    a = s.impl.amgr[A]
    names = [vname(i) for i in range(n)]
    case = lambda: dict(stream=s.label, lines=list(s.lines))  # noqa: E731

    def counts_exact(when):
        ext = {1: 1}
        for f in H[A].values():
            ext[abs(f.node)] = ext.get(abs(f.node), 0) + 1
        bad = oracle.check_table(a._bdd, external=ext)
        if bad:
            ctx.violation('C17:not-canonical', f'{when}: {bad[:3]}', case)
            return False
        return True
    live = {}
    for _ in range(2):
        x, y = rng.sample(range(n), 2)
        sp = ['(', vname(x), rng.choice(['/\\', '\\/', '#', '=>']), vname(y), ')']
        h = s.op(A, 'add_expr', Spellings(sp))
        if h is not None:
            live[h] = oracle.tt_fast(a._bdd, H[A][h].node, names)
    for k in range(6):
        x, y, z = (rng.randrange(n) for _ in range(3))
        good = ['(', vname(x), rng.choice(['\\/', '#']), '~', vname(y), ')']
        tail = rng.choice([['/\\', 'nope'], ['/\\', 'nope', '/\\', '(', vname(z), '=>', vname(x), ')'],
                           ['/\\', '(', vname(z), '/\\', 'v%d' % (n + 3), ')'], ['/\\', ')'], ['/\\', vname(z), vname(x)]])
        if tail[-1] in (')', vname(x)) and 'nope' not in tail:
            # a syntax error met late: the LR parser has reduced (built) the first operand by
            # then; the model follows it with the LR driver
            r = s.op(A, 'add_expr_lr', Text(' '.join(good + tail)))
        else:
            r = s.op(A, 'add_expr', Spellings(good + tail))
        ctx.case(('autoref-rejected-expr', n, k, tuple(tail)), True)
        ctx.count('autoref-rejected-expr' + (':accepted' if r is not None else ''))
        if r is not None:
            ctx.violation('C17:accepted', f'autoref add_expr accepted {" ".join(good + tail)}', case)
            break
        if not counts_exact('right after the rejected add_expr'):
            break
        for h, t in live.items():
            if oracle.tt_fast(a._bdd, H[A][h].node, names) != t:
                ctx.violation('C17:reference-changed', 'a live Function changed', case)
        if rng.random() < 0.5:
            s.op(A, 'gc')
            reach = set()
            todo = [abs(f.node) for f in H[A].values()]
            while todo:
                u = todo.pop()
                if u in reach or u == 1:
                    continue
                reach.add(u)
                _, v, w = a._bdd._succ[u]
                todo += [abs(v), abs(w)]
            extra = set(a._bdd._succ) - reach - {1}
            if extra:
                ctx.violation('C17:leak', f'nodes {sorted(extra)[:4]} survive a collection although no live '
                              'Function reaches them (after a rejected add_expr)', case)
                break
    for h in list(live):
        s.op(A, 'drop', h)
    s.op(A, 'gc')
    if set(a._bdd._succ) != {1}:
        ctx.violation('C17:leak', 'nodes survive after every Function was dropped', case)


def autoref_foreign(ctx, n):
    """calls of dd.autoref that are handed a Function of ANOTHER manager (or a non-Function):
    each wrapper must refuse (an exception), and neither manager may change: same tables,
    exact counts (one reference per live Function), same functions.  Implementation and
    oracle only (the model's handles are per manager)."""
    import dd.autoref as _a
    rng = ctx.rng
    names = [vname(i) for i in range(n)]

    def mk():
        b = _a.BDD()
        b.declare(*names)
        fs = []
        for _ in range(3):
            t = rng.getrandbits(1 << n)
            f = b.false
            for k in range(1 << n):
                if (t >> k) & 1:
                    f = f | b.cube({names[j]: bool(T.getbit(k, j, n)) for j in range(n)})
            fs.append(f)
        return b, fs
    A, fa = mk()
    B, fb = mk()
    f, g, h = fa[0], fb[0], fa[1]

    def snap(b, fs):
        return (dict(b._bdd._succ), dict(b._bdd._ref), dict(b._bdd.vars),
                [oracle.tt_fast(b._bdd, x.node, names) for x in fs])
    calls = {
        'apply(and, f, g)': lambda: A.apply('and', f, g),
        'apply(and, g, f)': lambda: A.apply('and', g, f),
        'apply(ite, f, h, g)': lambda: A.apply('ite', f, h, g),
        'ite(g, f, h)': lambda: A.ite(g, f, h),
        'ite(f, g, h)': lambda: A.ite(f, g, h),
        'ite(f, h, g)': lambda: A.ite(f, h, g),
        'let({x: g}, f)': lambda: A.let({names[0]: g}, f),
        'let({x: f}, g)': lambda: A.let({names[0]: f}, g),
        'let({x: f, y: True}, h)': lambda: A.let({names[0]: f, names[1 % n]: True}, h),
        'quantify(g)': lambda: A.quantify(g, [names[0]]),
        'exist(g)': lambda: A.exist([names[0]], g),
        'support(g)': lambda: A.support(g),
        'count(g)': lambda: A.count(g),
        'pick_iter(g)': lambda: list(A.pick_iter(g)),
        'to_expr(g)': lambda: A.to_expr(g),
        'copy(g, B)': lambda: A.copy(g, B),
        'f & g': lambda: f & g,
        'f | g': lambda: f | g,
        'f.implies(g)': lambda: f.implies(g),
        'f.equiv(g)': lambda: f.equiv(g),
        'f == g': lambda: f == g,
        'f != g': lambda: f != g,
        'f <= g': lambda: f <= g,
        'f < g': lambda: f < g,
        'f == 3': lambda: f == 3,
        'f == None': lambda: f == None,   # noqa: E711
        'f != None': lambda: f != None,   # noqa: E711
        'f != 3': lambda: f != 3,
        'f < 3': lambda: f < 3,
        'f <= 3': lambda: f <= 3,
        'image(f, g)': lambda: _a.image(f, g, {names[1 % n]: names[0]}, {names[0]}),
        'preimage(f, g)': lambda: _a.preimage(f, g, {names[0]: names[1 % n]}, {names[1 % n]}),
        'g in A': lambda: g in A,
        'dump roots of B': lambda: A.dump('/nonexistent-dir/x.p', [g]),
    }
    case = dict(stream=f'autoref foreign arguments n={n}')
    for what, call in calls.items():
        sa, sb = snap(A, fa), snap(B, fb)
        try:
            r = call()
            outcome = 'returned'
        except Exception as e:  # noqa: B902
            r = None
            outcome = type(e).__name__
        ctx.case(('autoref-foreign', n, what), True)
        ctx.count('autoref-foreign:' + ('refused' if outcome != 'returned' else 'returned'))
        if outcome == 'returned' and what not in ('f == 3', 'f <= 3', 'f == None', 'f != None', 'f != 3', 'f < 3'):
            ctx.violation('C17:accepted', f'dd.autoref accepted a Function of another manager: {what} returned {r!r}',
                          dict(case, call=what))
        del r
        if snap(A, fa) != sa or snap(B, fb) != sb:
            ctx.violation('C17:reference-changed', f'a manager changed during the refused call {what} ({outcome})',
                          dict(case, call=what))
            break
    for b, fs in ((A, fa), (B, fb)):
        ext = {1: 1}
        for x in fs:
            ext[abs(x.node)] = ext.get(abs(x.node), 0) + 1
        b.collect_garbage()
        bad = oracle.check_table(b._bdd, external=ext)
        if bad:
            ctx.violation('C17:not-canonical', f'after the refused calls: {bad[:3]}', case)


def run(ctx):
    q = ctx.quick
    rng = ctx.rng
    for n in ((2, 3) if q else (2, 3, 3, 4, 4)):
        autoref_foreign(ctx, n)
    for n in ((3, 4) if q else (2, 3, 3, 4, 4, 5)):
        autoref_rejected_expr(ctx, n)
    for n in (2, 3, 4):
        for extra in ((1, 3) if q else (1, 2, 3, 5, 8, 13)):
            full_table(ctx, n, extra)
    for n in (2, 3, 3, 4):
        for _ in range(6 if q else 40):
            full_table_model(ctx, n, dynamic=(rng.random() < 0.3))
    for op in ('reorder', 'sift', 'swap', 'dynamic', 'let', 'quantify', 'load-pickle', 'load-json'):
        for n in (3, 4):
            for extra in ((0, 1, 2, 4) if q else (0, 1, 2, 3, 4, 6, 9)):
                for _ in range(1 if q else 4):
                    full_table_ops(ctx, n, op, extra)
    for n in (2, 3, 4):
        for kind in ('undeclared', 'syntax'):
            for _ in range(2 if q else 12):
                failed_retry(ctx, n, kind)
    for order in (gen.orders(4) if not q else rng.sample(gen.orders(4), 6)):
        undeclare_mix(ctx, order, reordering=rng.random() < 0.3)
    for fault in ('unknown-child', 'unknown-root', 'bad-level', 'parent-first', 'negated-node'):
        for receiver in ('fresh', 'same', 'in-use'):
            for _ in range((3 if fault == 'negated-node' else 1) if q else 8):
                json_faults(ctx, rng.choice([2, 3]), receiver, fault)
    for i in range(24 if q else 300):
        history(ctx, rng.choice([2, 3, 3, 4]), 40 if q else 80, reordering=(i % 3 == 2))
    # rejected calls of the multi-valued manager (dd.mdd), injected into its histories
    from . import C15
    for lens in ([2], [3], [2, 2], [3, 2]):
        for _ in range(2 if q else 10):
            C15.mdd_ops(ctx, lens, 40 if q else 100, P='C17', rejected=0.25)
    # the full table met THROUGH dd.autoref (model and implementation; the stream of
    # C08; last, so that the streams above are the same cases as before for a given seed)
    from . import C08
    for i in range(4 if q else 40):
        C08.full_table_autoref(ctx, i, rng.choice([3, 4]), reordering=(i % 4 == 3), P='C17')
    # unreadable JSON files whose readable part is NOT reduced (two identifiers for one node):
    # the loader takes one reference per identifier and must release exactly those when the
    # load fails (round-21 seed: the clean-up releasing once per distinct node)
    for fault in ('unknown-root', 'unknown-child', 'bad-level', 'negated-node'):
        for receiver in ('fresh', 'same', 'in-use'):
            for _ in range(2 if q else 8):
                json_faults(ctx, rng.choice([2, 3]), receiver, fault, alias=True)
