"""C17 - an operation that raises leaves the manager and all references
intact."""
from .. import gen, oracle, tt as T
from .base import Mgr, replay  # noqa: F401
from ..impl import vname

RULE = ('random histories (builds, connectives, collections, swaps) with a rejected call of '
        'every kind injected at every point, dynamic reordering off and on (natural trigger with '
        'a lowered threshold); a case is (kind of rejected call, history position); all are '
        'non-trivial when the manager holds at least one non-constant function')
EXHAUSTIVE = {'quick': False, 'thorough': False}
ASSUMES = ['syntax errors in add_expr are exercised by the C05 streams (parser model)',
           'unreadable-file failures are exercised on the implementation only']


def bad_calls(M, rng, held):
    """(kind, opname, args) of calls that must be rejected"""
    n = M.nv
    b = M.b
    live = list(held) or [1]
    u = rng.choice(live)
    unknown = max(b._succ) + rng.randint(3, 9)
    undeclared = n + rng.randint(0, 3)
    out = [
        ('undeclared-variable', 'var', (undeclared,)),
        ('unknown-node', 'apply', ('and', u, unknown, None)),
        ('unknown-node', 'apply', ('or', -unknown, u, None)),
        ('unknown-node', 'apply', ('not', unknown, None, None)),
        ('unknown-operator', 'apply', ('nand', u, u, None)),
        ('wrong-arity', 'apply', ('and', u, None, None)),
        ('wrong-arity', 'apply', ('not', u, u, None)),
        ('wrong-arity', 'apply', ('ite', u, u, None)),
        ('wrong-arity', 'apply', ('or', u, u, u)),
        ('unknown-node', 'find_or_add', (0, unknown, 1)),
        ('bad-level', 'find_or_add', (n + 2, -1, 1)),
        ('unknown-node', 'incref', (unknown,)),
        ('unknown-node', 'decref', (unknown,)),
        ('unknown-node', 'ref', (unknown,)),
        ('unknown-node', 'cofactor', (unknown, 'n', {0: True})),
        ('undeclared-variable', 'cofactor', (u, 'n', {undeclared: True})),
        ('undeclared-variable', 'cofactor', (u, 'n', {0: True, undeclared: False})),
        ('undeclared-variable', 'quantify', (u, 'n', [undeclared], False)),
        ('undeclared-variable', 'quantify', (u, 'n', [0, undeclared], True)),
        ('bad-level', 'quantify', (u, 'l', [n + 3], False)),
        ('undeclared-variable', 'compose', (u, {undeclared: u})),
        ('undeclared-variable', 'compose', (u, {0: u, undeclared: u})),
        ('undeclared-variable', 'rename', (u, {0: undeclared})),
        ('unknown-node', 'rename', (unknown, {0: 1 % n})),
        ('undeclared-variable', 'cube', ({0: True, undeclared: True},)),
        ('count-too-few', 'count', (rng.choice(live), 0)) if len(T.support(M.tt(rng.choice(live)), n)) > 0 else None,
        ('unknown-node', 'count', (unknown, None)),
        ('unknown-node', 'pick_iter', (unknown, None)),
        ('unknown-node', 'support', (unknown,)),
        ('unknown-node', 'succ', (unknown,)),
        ('unknown-node', 'copy', (0, unknown)) if False else None,
        ('unknown-node', 'gc', ([unknown],)),
        ('unknown-node', 'descendants', ([u, unknown],)),
        ('level-conflict', 'add_var', (0, (b.vars[vname(0)] + 1) % max(n, 1) if n > 1 else 5)),
        ('level-conflict', 'add_var', (undeclared + 5, 0)),
        ('bad-order', 'swap', (0, n + 1)),
        ('bad-order', 'swap', (0, 2)) if n >= 3 else None,
        ('bad-order', 'swap', (1, 1)) if n >= 2 else None,
        ('bad-order', 'reorder', ({0: 0},)) if n >= 2 else None,
        ('bad-order', 'reorder', ({**{v: v for v in range(n - 1)}, undeclared: n - 1},)) if n >= 2 else None,
        ('unknown-variable', 'undeclare', ([undeclared],)),
        ('unknown-variable', 'level_of_var', (undeclared,)),
        ('unknown-variable', 'var_at_level', (n + 2,)),
        ('overlap', 'image', (u, u, 'n', {0: 1 % n, 1 % n: 0}, 'n', [0], False)) if n >= 2 else None,
        ('overlap', 'preimage', (u, u, 'n', {0: 1 % n, 1 % n: 0}, 'n', [0], False)) if n >= 2 else None,
        ('undeclared-variable', 'image', (u, u, 'n', {0: 1 % n}, 'n', [undeclared], False)) if n >= 2 else None,
    ]
    used = [v for v in range(n) if any(b._succ[k][0] == b.vars[vname(v)] for k in b._succ)]
    if used:
        out.append(('variable-in-use', 'undeclare', ([rng.choice(used)],)))
    return [c for c in out if c is not None]


def history(ctx, n, steps, reordering):
    rng = ctx.rng
    order = list(range(n))
    rng.shuffle(order)
    M = Mgr(ctx, f'faults n={n} reordering={reordering}', n, order)
    s = M.s
    ledger = {1: 1}
    held = {}
    if reordering:
        M.op('configure', True)
        M.op('set_last_len', rng.choice([2, 3, 5]))

    def snapshot():
        memo = {}
        return {u: oracle.tt_fast(M.b, u, [vname(i) for i in range(n)], memo) for u in held}

    for step in range(steps):
        k = rng.random()
        if k < 0.3:
            t = rng.getrandbits(1 << n)
            u = gen.build_tt(s, 0, t, list(range(n)))
            if u is not None and abs(u) in M.b._succ:
                M.op('incref', u)
                ledger[abs(u)] = ledger.get(abs(u), 0) + 1
                held[u] = held.get(u, 0) + 1
        elif k < 0.4 and len(held) >= 2:
            a, c = rng.sample(list(held), 2)
            M.op('apply', rng.choice(['and', 'or', 'xor']), a, c, None)
        elif k < 0.47:
            M.op('gc', None)
        elif k < 0.52 and n >= 2:
            x = rng.randrange(n - 1)
            if not reordering:
                M.op('swap', x, x + 1)
        elif k < 0.57 and held:
            u = rng.choice(list(held))
            M.op('decref', u)
            ledger[abs(u)] -= 1
            held[u] -= 1
            if not held[u]:
                del held[u]
        else:
            # inject one rejected call
            calls = bad_calls(M, rng, held)
            kind, name, args = rng.choice(calls)
            before_tt = snapshot()
            before_vars = dict(M.b.vars)
            r = M.op(name, *args)
            ctx.case((kind, name, reordering, len(s.lines)), bool(held))
            ctx.count('rejected:' + kind)
            res = s.last_result()
            if res.startswith('ok:'):
                # not rejected: fine for the property (nothing failed), but
                # worth counting
                ctx.count('accepted:' + kind)
            elif res == 'err:needs_reordering':
                ctx.violation('C17:signal-escaped', f'{name}{args} raised the internal reordering signal', M.case())
                break
            if not res.startswith('ok:'):
                if M.b.vars != before_vars and kind not in ('bad-order',):
                    ctx.violation('C17:order-changed', f'rejected {name}{args} changed the variable order', M.case())
                after = snapshot()
                if after != before_tt:
                    ctx.violation('C17:reference-changed', f'rejected {name}{args} changed a held reference', M.case())
                    break
        bad = oracle.check_table(M.b, external=ledger)
        if bad:
            ctx.violation('C17:not-canonical', f'after step {step}: {bad[:3]}', M.case())
            break
        if sorted(M.b.vars.values()) != list(range(len(M.b.vars))):
            ctx.violation('C17:order-not-bijection', f'{M.b.vars}', M.case())
            break
    for u, c in held.items():
        for _ in range(c):
            M.op('decref', u)
    M.op('configure', False)
    M.op('gc', None)
    ctx.sample(dict(stream=s.label, first_lines=s.lines[:10]))


def run(ctx):
    q = ctx.quick
    rng = ctx.rng
    for i in range(24 if q else 300):
        history(ctx, rng.choice([2, 3, 3, 4]), 40 if q else 80, reordering=(i % 3 == 2))
