"""C14 - declaring and undeclaring variables keeps a valid order and all
functions."""
import itertools

from .. import gen, oracle, tt as T
from .base import Mgr, replay  # noqa: F401
from ..impl import vname

RULE = ('interleavings of declare / add_var(level) / build / collect / swap / undeclare(subset) '
        'over up to 6 names: random histories plus all subsets passed to undeclare_vars at '
        'each removal point; a case is one step of one history')
EXHAUSTIVE = {'quick': False, 'thorough': False}
ASSUMES = ['explicit levels given to add_var do not leave a gap (see known findings)']


def views_ok(ctx, M, what):
    b = M.b
    n = len(b.vars)
    names = list(b.vars)
    ok = True
    if sorted(b.vars.values()) != list(range(n)):
        ctx.violation('C14:not-a-bijection', f'{what}: vars = {b.vars}', M.case())
        return False
    if b.var_levels != b.vars:
        ok = False
    for v in names:
        if b.var_at_level(b.level_of_var(v)) != v:
            ok = False
    for l in range(n):
        if b.level_of_var(b.var_at_level(l)) != l:
            ok = False
    if not ok:
        ctx.violation('C14:views-disagree', f'{what}: vars/var_levels/var_at_level/level_of_var disagree', M.case())
    return ok


def history(ctx, steps):
    rng = ctx.rng
    s = ctx.session(f'vars history {steps}')
    s.op(0, 'new', {})
    M = Mgr.__new__(Mgr)
    M.ctx, M.s, M.m, M.nv, M.names, M.held = ctx, s, 0, 0, [], []
    declared = []          # names in declaration order
    held = {}              # ref -> {assignment-by-name truth table over `declared` at build time}
    NAMES = list(range(6))

    def tt_by_name(u):
        names = sorted(int(k[1:]) for k in M.b.vars)
        return names, oracle.tt_fast(M.b, u, [vname(i) for i in names])

    def project(names_old, t_old, names_new):
        """truth table over names_new of a function given over names_old
        (variables not in names_old are ignored; removed ones must be irrelevant)"""
        n_old, n_new = len(names_old), len(names_new)
        r = 0
        for k in range(1 << n_new):
            kk = 0
            for j, v in enumerate(names_old):
                if v in names_new:
                    bit = T.getbit(k, names_new.index(v), n_new)
                else:
                    bit = 0
                kk = T.setbit(kk, j, bit, n_old)
            if (t_old >> kk) & 1:
                r |= 1 << k
        return r

    for _ in range(steps):
        k = rng.random()
        cur = sorted(int(x[1:]) for x in M.b.vars)
        # steps whose precondition fails become declarations (not removals)
        if (0.25 <= k < 0.5 and not cur) or (0.6 <= k < 0.7 and len(cur) < 2) or (0.7 <= k < 0.8 and not held):
            k = rng.random() * 0.25
        if k < 0.25:
            v = rng.choice(NAMES)
            if rng.random() < 0.7:
                before = dict(M.b.vars)
                r = s.op(0, 'add_var', v, None)
                if vname(v) in before:
                    if r != before[vname(v)] or M.b.vars != before:
                        ctx.violation('C14:not-idempotent', f'add_var({v}) on an existing name changed things', M.case())
                elif r != len(before):
                    ctx.violation('C14:not-bottom', f'new variable got level {r}, expected {len(before)}', M.case())
            else:
                # mostly legal or conflicting levels; a gap (known finding, ends the history) rarely
                l = rng.randrange(0, len(cur) + 1) if rng.random() < 0.97 else len(cur) + 1
                before = dict(M.b.vars)
                r = s.op(0, 'add_var', v, l)
                if vname(v) in before:
                    if (r is not None) != (before[vname(v)] == l):
                        ctx.violation('C14:conflict-accepted', f'add_var({v},{l}) with {before}: {r}', M.case())
                elif l in before.values():
                    if r is not None:
                        ctx.violation('C14:conflict-accepted', f'level {l} taken but add_var accepted', M.case())
                elif l > len(before):
                    if r is not None:
                        # a gap: candidate finding
                        ctx.violation('C14:level-gap-accepted',
                                      f'add_var({v}, {l}) accepted with {len(before)} variables declared', M.case())
                        return
        elif k < 0.5 and cur:
            # functions over a random subset of the declared variables, so that
            # some variables stay unused
            sub_ = [v for v in cur if rng.random() < 0.6] or cur[:1]
            n = len(sub_)
            t = rng.getrandbits(1 << n)
            u = gen.build_tt(s, 0, t, sub_)
            if u is not None and abs(u) != 1:
                s.op(0, 'incref', u)
                held.setdefault(u, 0)
                held[u] += 1
        elif k < 0.6:
            s.op(0, 'gc', None)
        elif k < 0.7 and len(cur) >= 2:
            snap = {u: tt_by_name(u) for u in held}
            if rng.random() < 0.5:
                x = rng.randrange(len(cur) - 1)
                s.op(0, 'swap', x, x + 1)
            else:
                # a client reads the order, permutes it and hands it back (the harness does
                # this through `var_levels` every other time)
                lv = list(range(len(cur)))
                rng.shuffle(lv)
                target = dict(zip(cur, lv))
                s.op(0, 'reorder', target)
                ctx.count('reorder-to-order')
                if s.ok() and {int(x_[1:]): l for x_, l in M.b.vars.items()} != target:
                    ctx.violation('C14:order-not-reached', f'reorder({target}) left {M.b.vars}', M.case())
            for u, old in snap.items():
                if tt_by_name(u) != old:
                    ctx.violation('C14:function-changed', f'reference {u} changed by a swap/reorder', M.case())
                    break
        elif k < 0.8 and held:
            u = rng.choice(list(held))
            s.op(0, 'decref', u)
            held[u] -= 1
            if held[u] == 0:
                del held[u]
        else:
            # removal: a subset of the names (declared or not)
            snap = {u: tt_by_name(u) for u in held}
            used = set()
            for (_, _, _) in []:
                pass
            full_levels = {i for i, _, _ in M.b._succ.values()}
            unused = {v for v in cur if M.b.vars[vname(v)] not in full_levels}
            if rng.random() < 0.6 and unused:
                # a subset of the removable variables (the call must succeed)
                sub = [v for v in sorted(unused) if rng.random() < 0.6]
            else:
                sub = [v for v in NAMES if rng.random() < 0.35]
            r = s.op(0, 'undeclare', sub)
            ctx.count('undeclare')
            bad = [v for v in sub if v not in cur or v not in unused]
            if bad:
                if r is not None:
                    ctx.violation('C14:undeclare-accepted', f'undeclare_vars({sub}) accepted although {bad} used/unknown', M.case())
            else:
                exp = set(sub) if sub else unused
                if r is None or set(r) != exp:
                    ctx.violation('C14:undeclare-wrong-set', f'undeclare_vars({sub}) removed {r}, expected {sorted(exp)}', M.case())
                else:
                    new = sorted(int(x[1:]) for x in M.b.vars)
                    if new != [v for v in cur if v not in exp]:
                        ctx.violation('C14:undeclare-wrong-set', f'remaining {new}', M.case())
                    # relative order kept
                    # functions unchanged by name
                    for u, (names_old, t_old) in snap.items():
                        names_new, t_new = tt_by_name(u)
                        if project(names_old, t_old, names_new) != t_new:
                            ctx.violation('C14:function-changed', f'reference {u} changed after undeclare', M.case())
        ctx.case(('vars', id(s), len(s.lines)), True)
        if not views_ok(ctx, M, 'after step'):
            return
        bad = oracle.check_table(M.b)
        if bad:
            ctx.violation('C14:not-canonical', f'{bad[:3]}', M.case())
            return
    for u, c in held.items():
        for _ in range(c):
            s.op(0, 'decref', u)
    ctx.sample(dict(stream=s.label, first_lines=s.lines[:12]))


def order_roundtrip(ctx, n, start, target):
    """the order read through `var_levels`, permuted by the client and handed back to
    `reorder`: the four views describe the requested bijection and the functions are intact"""
    s = ctx.session(f'order round trip n={n} {start}->{target}')
    s.impl.vl_always = True
    M = Mgr(ctx, None, n, start, session=s)
    rng = ctx.rng
    refs = []
    for _ in range(2):
        t = rng.getrandbits(1 << n)
        u = M.build(t)
        if u is not None:
            M.op('incref', u)
            refs.append((u, t))
    M.op('reorder', dict(zip(range(n), target)))
    ctx.case(('order-roundtrip', n, tuple(start), tuple(target)), True)
    ctx.count('order-roundtrip')
    if not views_ok(ctx, M, 'after reorder(var_levels permuted)'):
        return
    if [M.b.vars[vname(v)] for v in range(n)] != list(target):
        ctx.violation('C14:order-not-reached', f'requested {target}, vars = {M.b.vars}', M.case())
    for u, t in refs:
        if M.tt(u) != t:
            ctx.violation('C14:function-changed', f'reference {u} changed by the reordering', M.case())
    # names still denote their variables
    for v in range(n):
        x = M.op('var', v)
        if x is None or M.tt(x) != T.var(v, n):
            ctx.violation('C14:function-changed', f'var(v{v}) does not denote v{v} after the reordering', M.case())
            break
    M.check_table('C14:not-canonical')
    for u, _ in refs:
        M.op('decref', u)


def declare_orders(ctx, n, perm, by_constructor):
    """declare n names with explicit levels in the order `perm` (a level sequence that
    never leaves a gap is not required by BDD(levels): the constructor declares in dict
    order and may pass through gaps; what must hold is the final state)"""
    import itertools
    s = ctx.session(f'declare n={n} levels in order {perm} constructor={by_constructor}')
    if by_constructor:
        s.op(0, 'new', {v: l for v, l in zip(range(n), perm)})
    else:
        s.op(0, 'new', {})
        # bottom-up so that no call leaves a gap: names in increasing level order
        for v in sorted(range(n), key=lambda v: perm[v]):
            s.op(0, 'add_var', v, perm[v])
    from .base import Mgr
    M = Mgr.__new__(Mgr)
    M.ctx, M.nv, M.m, M.names, M.s, M.held = ctx, n, 0, list(range(n)), s, []
    ctx.case(('declare-orders', n, tuple(perm), by_constructor), True)
    ctx.count('declare-orders')
    if not s.ok():
        ctx.violation('C14:declare-rejected', 'a valid set of explicit levels was rejected', M.case())
        return
    if not views_ok(ctx, M, 'after declarations'):
        return
    bad = oracle.check_table(M.b)
    if bad:
        ctx.violation('C14:not-canonical', f'after declaring levels {perm}: {bad[:3]}', M.case())
        return
    # the manager works: parity of all variables
    t = 0
    for k in range(1 << n):
        if bin(k).count('1') % 2:
            t |= 1 << k
    u = M.build(t)
    if u is None or M.tt(u) != t:
        ctx.violation('C14:function-changed', 'parity built after the declarations is wrong', M.case())


def autoref_add_var(ctx, n):
    """add_var through dd.autoref: idempotent re-declaration, conflicting levels (level 0
    included) refused, new names at the next bottom level; live Functions keep their function"""
    from .C12 import abuild, by_name
    rng = ctx.rng
    s = ctx.session(f'autoref add_var n={n}')
    A = 'a0'
    s.op(A, 'new', {v: v for v in range(n)})
    a = s.impl.amgr[A]
    H = s.impl.handles[A]
    hs = [abuild(s, A, rng.getrandbits(1 << n) | 6, n) for _ in range(2)]
    before = {h: by_name(a._bdd, H[h].node, n) for h in hs}
    case = lambda: dict(stream=s.label, lines=list(s.lines))  # noqa: E731
    fresh = n
    for v in list(range(n)) + [n, n + 1]:
        for l in [None] + list(range(0, n + 2)):
            declared = {int(x[1:]): lv for x, lv in a.vars.items()}
            r = s.op(A, 'add_var', v, l)
            ctx.case(('autoref-add_var', n, v, l, tuple(sorted(declared.items()))), True)
            ctx.count('autoref-add_var')
            nv = len(declared)
            if v in declared:
                ok = l is None or l == declared[v]
                if ok and r != declared[v]:
                    ctx.violation('C14:not-idempotent', f'add_var({v},{l}) returned {r}, declared at {declared[v]}', case)
                if not ok and r is not None:
                    ctx.violation('C14:conflict-accepted', f'add_var({v},{l}) accepted although {v} is at level {declared[v]}', case)
            else:
                if l is None or l == nv:
                    if r != nv:
                        ctx.violation('C14:not-bottom', f'new variable {v} got level {r}, expected {nv}', case)
                elif l < nv:
                    if r is not None:
                        ctx.violation('C14:conflict-accepted', f'add_var({v},{l}) accepted although level {l} is taken', case)
                else:
                    if r is not None:
                        ctx.violation('C14:level-gap-accepted', f'add_var({v}, {l}) accepted with {nv} variables declared', case)
                        return
            if {x: lv for x, lv in a.vars.items()} != dict(a.var_levels):
                ctx.violation('C14:views', 'vars and var_levels disagree', case)
            for h, t in before.items():
                if by_name(a._bdd, H[h].node, n) != t:
                    ctx.violation('C14:function-changed', f'live Function {h} changed', case)
                    return
    for h in hs:
        s.op(A, 'drop', h)


def run(ctx):
    q = ctx.quick
    rng = ctx.rng
    import itertools
    for n in (1, 2, 3):
        autoref_add_var(ctx, n)
    for n in (1, 2, 3) if q else (1, 2, 3, 4):
        for perm in itertools.permutations(range(n)):
            declare_orders(ctx, n, perm, True)
            declare_orders(ctx, n, perm, False)
    gen.undeclare_scenarios(ctx, 'C14:not-canonical', 'C14', quick=q)
    for _ in range(40 if q else 400):
        history(ctx, 30 if q else 60)
    for n in (3, 4):
        perms = gen.orders(n)
        for _ in range(8 if q else 80):
            order_roundtrip(ctx, n, rng.choice(perms), rng.choice(perms))
