"""C16 - a DDDMP file loads to the functions it describes."""
import itertools

from .. import gen, oracle, tt as T
from .base import replay  # noqa: F401
from ..impl import vname, DNodes

RULE = ('sets of root functions over <=5 variables, turned into text-mode DDDMP files with a '
        'random node numbering (children before parents), permutation ids with and without gaps, '
        'varinfo modes 0, 1 and 3, complemented roots; a case is (functions, order, numbering, '
        'mode); non-trivial = a root is non-constant')
EXHAUSTIVE = {'quick': False, 'thorough': False}
ASSUMES = ['the terminal is node 1 of the file (as CUDD writes it)',
           'the PLY header parser is glue: exercised by the generated files']


def make_file(rng, n, tts, mode, gaps):
    """Return (header, nodes, expected root truth tables by variable id)."""
    # reduced ordered diagram with complemented else edges, order = variable id order shuffled
    order = list(range(n))
    rng.shuffle(order)                      # order[k] = variable at position k
    pos = {v: k for k, v in enumerate(order)}
    unique = {}                             # (var, then, else_signed) -> node
    nodes = {}                              # node -> (var, then, else)
    counter = [1]

    def mk(v, hi, lo):
        # CUDD: then edge regular; complement on the else edge or on the reference
        if hi == lo:
            return hi
        neg = hi < 0
        if neg:
            hi, lo = -hi, -lo
        key = (v, hi, lo)
        if key not in unique:
            counter[0] += 1
            unique[key] = counter[0]
            nodes[counter[0]] = key
        u = unique[key]
        return -u if neg else u

    def build(t, k):
        if t == 0:
            return -1
        if t == T.full(n):
            return 1
        v = order[k]
        hi = build(T.cofactor(t, n, {v: True}), k + 1)
        lo = build(T.cofactor(t, n, {v: False}), k + 1)
        return mk(v, hi, lo)
    roots = [build(t, 0) for t in tts]
    # keep only reachable nodes; renumber randomly with children before parents
    reach = set()
    stack = [abs(r) for r in roots]
    while stack:
        u = stack.pop()
        if u == 1 or u in reach:
            continue
        reach.add(u)
        _, hi, lo = nodes[u]
        stack += [abs(hi), abs(lo)]
    # topological order: deeper variables first, random inside
    ids = sorted(reach, key=lambda u: (-pos[nodes[u][0]], rng.random()))
    # interleave randomly while keeping children before parents
    placed, new_id, seq = {1: 1}, {}, []
    remaining = list(ids)
    while remaining:
        ready = [u for u in remaining if abs(nodes[u][1]) in placed and abs(nodes[u][2]) in placed]
        u = rng.choice(ready)
        remaining.remove(u)
        placed[u] = len(placed) + 1
        seq.append(u)
    ren = lambda x: (placed[abs(x)] if x > 0 else -placed[abs(x)])  # noqa: E731
    support = sorted({nodes[u][0] for u in reach}, key=lambda v: pos[v])
    if not support:
        return None
    by_pos = list(support)
    # permutation ids: positions in the full order (gaps when some variables are not in the support)
    nvars = n + (rng.randint(0, 3) if gaps else 0)
    permid = {v: pos[v] for v in support}
    if gaps:
        # spread positions
        spread = sorted(rng.sample(range(nvars), len(support)))
        permid = {v: spread[k] for k, v in enumerate(by_pos)}
    # the file may list the support variables in any order (e.g. by index,
    # after a reordering the permids are then not increasing)
    rng.shuffle(support)
    var_id = {v: rng.randrange(0, 40) for v in support}
    while len(set(var_id.values())) < len(support):
        var_id = {v: rng.randrange(0, 40) for v in support}
    ordered = None
    if mode == 3:
        # names of ALL variables in order; positions are the levels
        allv = list(order)
        ordered = allv
        permid = {v: pos[v] for v in support}
        nvars = n
    lines = [(1, 'T', 0, 0)]
    for u in seq:
        v, hi, lo = nodes[u]
        info = {0: f'i{var_id[v]}', 1: f'i{permid[v]}', 3: f'n{v}'}[mode]
        lines.append((placed[u], info, ren(hi), ren(lo)))
    # the optional `.auxids` line (not used by the modes the parser supports): the same ids,
    # another numbering of the same integers, or unrelated numbers
    ids_l = [var_id[v] for v in support]
    k = rng.random()
    if k < 0.4:
        aux = None
    elif k < 0.55:
        aux = list(ids_l)
    elif k < 0.85:
        aux = list(ids_l)
        rng.shuffle(aux)
    else:
        aux = [rng.randrange(0, 40) for _ in support]
    header = [nvars, mode, ordered, support, len(support),
              ids_l, [permid[v] for v in support],
              aux, len(roots), [ren(r) for r in roots], len(lines)]
    return header, DNodes(lines), [t for t in tts]


def run_case(ctx, n, tts, mode, gaps):
    rng = ctx.rng
    made = make_file(rng, n, tts, mode, gaps)
    if made is None:
        return
    header, lines, exp = made
    s = ctx.session(f'dddmp n={n} mode={mode} gaps={gaps}')
    r = s.op(0, 'dddmp_load', header, lines)
    case = lambda: dict(stream=s.label, lines=list(s.lines))  # noqa: E731
    ctx.case((n, tuple(tts), mode, gaps, tuple(x[0] for x in lines)), any(t not in (0, T.full(n)) for t in tts))
    ctx.count(f'mode{mode}')
    if r is None:
        ctx.violation('C16:load-failed', f'load rejected a well-formed file (mode {mode}, gaps={gaps})', case)
        return
    b = s.impl.mgr[0]
    bad = oracle.check_table(b)
    if bad:
        ctx.violation('C16:not-canonical', f'{bad[:2]}', case)
    names = [vname(v) for v in range(n)]
    declared = set(b.vars)
    # evaluate by name over the declared variables
    got = set()
    for u in b.roots:
        t = 0
        for k, bits in enumerate(itertools.product((False, True), repeat=n)):
            asg = {vname(v): bits[v] for v in range(n)}
            if oracle.evaluate(b, u, {x: asg.get(x, False) for x in declared}):
                t |= 1 << k
        got.add(t)
    if got != set(exp):
        ctx.violation('C16:wrong-roots',
                      f'roots denote {sorted(map(hex, got))}, the file describes {sorted(map(hex, exp))}', case)
    ctx.sample(dict(stream=s.label, header=header, nodes=list(lines)[:8]))


def run(ctx):
    q = ctx.quick
    rng = ctx.rng
    for n in (1, 2, 3, 4, 5):
        for _ in range(6 if q else 80):
            k = rng.randint(1, 3)
            tts = [rng.getrandbits(1 << n) for _ in range(k)]
            r = rng.random()
            if r < 0.3:
                # both polarities of one node among the roots
                tts.append(T.neg(tts[0], n))
            elif r < 0.7:
                # complemented roots that are sub-nodes of another root (cofactors by every
                # variable: the one at the top of the file's order is a child of the root)
                for j in range(n):
                    tts.append(T.neg(T.cofactor(tts[0], n, {j: rng.random() < 0.5}), n))
            for mode in (0, 1, 3):
                run_case(ctx, n, tts, mode, gaps=(mode != 3 and rng.random() < 0.5))
    # files that DECLARE a variable none of their nodes mentions (all roots independent of it),
    # somewhere in the middle of the order: the levels below it must not shift
    for n in (3, 4, 5):
        for _ in range(3 if q else 30):
            j = rng.randrange(n)
            val = rng.random() < 0.5
            tts = [T.cofactor(rng.getrandbits(1 << n), n, {j: val}) for _ in range(rng.randint(1, 3))]
            ctx.count('declared-variable-without-nodes')
            for mode in (3, 0, 1):
                run_case(ctx, n, tts, mode, gaps=(mode != 3 and rng.random() < 0.5))
