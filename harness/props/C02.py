"""C02 - canonical form: references are equal exactly when the functions are
equal; the stored diagram is always reduced and ordered.

Streams: every function of n variables (n<=3 quick, 4 sampled/thorough),
under every order, built by several routes (ite on variables; disjunction of
cubes; node by node with find_or_add; substitution; copy from a manager with
another order) must give the same integer, in the model and in the
implementation; histories interleaving constructions, collections, swaps and
declarations, with an independent table check after every step.
"""
import itertools

from .. import gen, oracle, tt as T
from .base import Mgr, replay  # noqa: F401

RULE = ('functions enumerated by truth table (all 2^(2^n), n<=3; sampled for n=4) x '
        'every order x construction route; a case is (n, order, route, truth table); '
        'non-trivial = non-constant function; renaming by names under any variable map and copies '
        'from managers with arbitrary other orders (result = THE reference of the renamed function, '
        'table ordered and reduced); plus random interleaved histories')
EXHAUSTIVE = {'quick': False, 'thorough': False}
ASSUMES = []


def by_cubes(M, t):
    n = M.nv
    r = -1
    for k in range(1 << n):
        if (t >> k) & 1:
            c = M.op('cube', {j: bool(T.getbit(k, j, n)) for j in range(n)})
            r = M.op('apply', 'or', r, c, None)
    return r


def by_nodes(M, t):
    """bottom-up with find_or_add in the manager's current order"""
    n = M.nv
    lv = {j: M.b.vars[f'v{j}'] for j in range(n)}
    order = sorted(range(n), key=lambda j: lv[j])

    def go(pos, fixed):
        if pos == n:
            k = 0
            for j in range(n):
                k = T.setbit(k, j, fixed[j], n)
            return 1 if (t >> k) & 1 else -1
        j = order[pos]
        lo = go(pos + 1, {**fixed, j: False})
        hi = go(pos + 1, {**fixed, j: True})
        return M.op('find_or_add', lv[j], lo, hi)
    return go(0, {})


def by_subst(M, t):
    """build with variable 0 replaced by constant, then recombine via let"""
    n = M.nv
    t0 = T.cofactor(t, n, {0: False})
    t1 = T.cofactor(t, n, {0: True})
    f0 = M.build(t0)
    f1 = M.build(t1)
    x = M.op('var', 0)
    g = M.op('ite', x, f1, f0)
    # identity substitutions must not change the reference
    g2 = M.op('let_ref', {0: x}, g)
    return g2


def stream_routes(ctx, n, order, tts):
    M = Mgr(ctx, f'routes n={n} order={order}', n, order)
    # second manager with the reversed order, for the copy route
    s = M.s
    s.op(1, 'new', {v: l for v, l in zip(range(n), reversed(order))})
    for t in tts:
        refs = {}
        refs['ite'] = M.build(t)
        refs['cubes'] = by_cubes(M, t)
        refs['nodes'] = by_nodes(M, t)
        refs['subst'] = by_subst(M, t)
        other = gen.build_tt(s, 1, t, list(range(n)))
        refs['copy'] = s.op(0, 'copy', 1, other)
        vals = set(refs.values())
        if len(vals) != 1 or None in vals:
            ctx.violation('C02:routes-differ',
                          f'truth table {t:#x} got different references by route: {refs}', M.case())
        else:
            got = M.tt(refs['ite'])
            if got != t:
                ctx.violation('C02:wrong-function', f'built {t:#x}, denotes {got:#x}', M.case())
        for route in refs:
            ctx.case((n, order, route, t), t not in (0, T.full(n)))
        ctx.count('functions')
    M.check_table('C02:table')
    ctx.sample(dict(stream=s.label, first_lines=s.lines[:8]))


def stream_subst(ctx, n, order, tts, reps):
    """simultaneous substitution of 2..n variables by (possibly negated)
    variables or other functions: the result must be THE node of the
    substituted function, and the table stays reduced and ordered"""
    rng = ctx.rng
    M = Mgr(ctx, f'subst n={n} order={order}', n, order)
    vs = [M.op('var', j) for j in range(n)]
    for v in vs:
        M.op('incref', v)
    for t in tts:
        f = M.build(t)
        M.op('incref', f)
        for _ in range(reps):
            js = rng.sample(range(n), rng.randint(2, n))
            sub, subt = {}, {}
            for j in js:
                if rng.random() < 0.75:
                    x = rng.randrange(n)
                    sg = rng.choice([1, 1, -1])
                    sub[j] = sg * vs[x]
                    subt[j] = T.var(x, n) if sg == 1 else T.neg(T.var(x, n), n)
                else:
                    tt2 = rng.getrandbits(1 << n)
                    sub[j] = M.build(tt2)
                    subt[j] = tt2
            for u in sub.values():
                M.op('incref', u)
            r = M.op('let_ref', sub, f)
            e = T.vector_compose(t, n, subt)
            ctx.case((n, order, 'vsubst', t, tuple(sorted(subt.items()))), True)
            ctx.count('vsubst')
            if r is None:
                ctx.violation('C02:subst-rejected', 'simultaneous substitution rejected', M.case())
            else:
                M.op('incref', r)
                ok = M.check_table('C02:table', 'table after simultaneous substitution')
                d = M.build(e)
                if ok and M.tt(r) != e:
                    ctx.violation('C02:wrong-function', f'substitution denotes {M.tt(r):#x}, expected {e:#x}', M.case())
                elif ok and d != r:
                    ctx.violation('C02:routes-differ',
                                  f'substitution gave {r}, the connectives give {d} for {e:#x}', M.case())
                M.op('decref', r)
                if not ok:
                    return
            for u in sub.values():
                M.op('decref', u)
        M.op('decref', f)
        if rng.random() < 0.3:
            M.op('gc', None)


def stream_copies(ctx, n, order, tts, aged):
    """`copy.copy(bdd)` and `bdd.reduction()`: the copy has the same tables; the reduction
    is a canonical manager whose roots denote the functions of the old roots"""
    M = Mgr(ctx, f'copies n={n} order={order} aged={aged}', n, order, aged=aged)
    s = M.s
    refs = []
    for t in tts:
        u = M.build(t)
        if u is None:
            continue
        M.op('incref', u)
        refs.append((u * ctx.rng.choice([1, -1]), t))
    refs = [(u, M.tt(u)) for u, _ in refs]
    M.op('set_roots', [u for u, _ in refs])
    s.op(1, 'copy_manager', 0)
    ctx.case(('copies', n, tuple(order), tuple(t for _, t in refs), aged), True)
    ctx.count('copies')
    a, c = s.impl.mgr[0], s.impl.mgr[1]
    if not (a._succ == c._succ and a._pred == c._pred and a._ref == c._ref and a.vars == c.vars
            and a._min_free == c._min_free and set(a.roots) == set(c.roots)):
        ctx.violation('C02:copy-differs', 'copy.copy(bdd) does not have the tables of the original', M.case())
    # the copy is independent: work in it, the original is untouched
    before = dict(a._succ)
    if refs:
        s.op(1, 'apply', 'xor', refs[0][0], refs[-1][0], None)
    if a._succ != before:
        ctx.violation('C02:copy-shares', 'work in the copy changed the original', M.case())
    # from now on the two managers number their new nodes independently: the same
    # question asked in both, after each created OTHER nodes, has the same answer
    # (nothing computed in one may be remembered by the other)
    names = list(range(n))
    for _ in range(3):
        ta, tb = ctx.rng.getrandbits(1 << n), ctx.rng.getrandbits(1 << n)
        ops = ctx.rng.sample(['and', 'or', 'xor', 'equiv', 'implies'], 2)
        res = {}
        for m, first in ((1, ops[0]), (0, ops[1])):
            ua = gen.build_tt(s, m, ta, names)
            ub = gen.build_tt(s, m, tb, names)
            if ua is None or ub is None:
                break
            s.op(m, 'incref', ua)
            s.op(m, 'incref', ub)
            res[m] = (ua, ub)
            s.op(m, 'apply', first, ua, ub, None)       # different work in each manager
        if len(res) < 2:
            break
        for m in (0, 1):
            ua, ub = res[m]
            for name in ops:
                r = s.op(m, 'apply', name, ua, ub, None)
                e = gen.conn(name, ta, tb, T.full(n))
                ctx.count('copies-apply')
                bm = s.impl.mgr[m]
                got = -1
                if r is not None:
                    try:
                        got = oracle.tt_fast(bm, r, [f'v{i}' for i in range(n)])
                    except KeyError:
                        got = -1
                if got != e:
                    ctx.violation('C02:copy-shares',
                                  f'after copy.copy, manager {m}: {name} of {ta:#x},{tb:#x} gave {got:#x}, '
                                  f'expected {e:#x}', M.case())
                    return
            bad = oracle.check_table(s.impl.mgr[m], external=None) if False else None
        for m in (0, 1):
            ua, ub = res[m]
            s.op(m, 'decref', ua)
            s.op(m, 'decref', ub)
    s.op(2, 'reduction', 0)
    if not s.ok():
        ctx.violation('C02:reduction-failed', 'reduction() raised on a consistent manager', M.case())
        return
    r = s.impl.mgr[2]
    bad = oracle.check_table(r)
    if bad:
        ctx.violation('C02:reduction-not-canonical', f'{bad[:3]}', M.case())
    want = sorted(t for _, t in refs)
    got = sorted(oracle.tt_fast(r, u, [f'v{i}' for i in range(n)]) for u in r.roots)
    if sorted(set(want)) != got:
        ctx.violation('C02:reduction-roots', f'roots of the reduction denote {got}, the old roots {want}', M.case())
    s.op(2, 'assert_consistent')
    for u, _ in refs:
        M.op('decref', abs(u))


def stream_renames(ctx, n, order, order2, tts, nmaps, aged):
    """renaming by variable names (any map, monotone or not on the support) and copying from a
    manager with an ARBITRARY other order create nodes outside `ite`: the result must be THE
    reference of the renamed function and the table must stay ordered and reduced"""
    import itertools
    rng = ctx.rng
    M = Mgr(ctx, f'renames n={n} order={order} other={order2} aged={aged}', n, order, aged=aged)
    s = M.s
    s.op(1, 'new', {v: l for v, l in zip(range(n), order2)})
    maps = []
    for img in itertools.product([None] + list(range(n)), repeat=n):
        d = {j: y for j, y in enumerate(img) if y is not None and y != j}
        if d:
            maps.append(d)
    for t in tts:
        f = M.build(t)
        if f is None:
            continue
        M.op('incref', f)
        for d in (maps if len(maps) <= nmaps else rng.sample(maps, nmaps)):
            items = list(d.items())
            rng.shuffle(items)
            r = M.op('let_name', dict(items), f)
            ctx.case((n, order, 'rename', t, tuple(sorted(d.items()))), any(T.depends(t, n, j) for j in d))
            ctx.count('rename')
            if r is None:
                continue   # (acceptance is C04's subject)
            M.op('incref', r)
            e = T.rename(t, n, d)
            g = M.build(e)
            if g != r:
                ctx.violation('C02:rename-second-reference',
                              f'let({d}) of {t:#x} returned {r}, the renamed function {e:#x} is {g}', M.case())
            M.op('decref', r)
            if not M.check_table('C02:rename-table', f'table after let({d})'):
                return
        other = gen.build_tt(s, 1, t, list(range(n)))
        c = s.op(0, 'copy', 1, other)
        ctx.count('copy-in')
        if c != f:
            ctx.violation('C02:copy-second-reference',
                          f'copy of {t:#x} from order {order2} returned {c}, the function is {f}', M.case())
        if not M.check_table('C02:copy-table', 'table after copy'):
            return
        M.op('decref', f)
    ctx.sample(dict(stream=s.label, first_lines=s.lines[:8]))


def stream_reorder_cache(ctx, n, reps):
    """a warm result cache across an explicit `reorder(bdd, order)` (no collection first;
    its swaps free inner nodes that only level-x parents kept alive): the same question
    asked again after new nodes took the freed numbers has the same answer, and connectives
    agree with the node-by-node route"""
    rng = ctx.rng
    full = T.full(n)
    for _ in range(reps):
        order = list(range(n))
        rng.shuffle(order)
        M = Mgr(ctx, f'reorder with a warm cache n={n} order={order}', n, order)
        vs = [M.op('var', j) for j in range(n)]
        for v in vs:
            M.op('incref', v)
        # inner results used only inside held outer ones
        qs = []
        for _ in range(3):
            i, j, k = rng.sample(range(n), 3) if n >= 3 else (0, 1, 0)
            o1, o2 = rng.choice(['and', 'or', 'xor']), rng.choice(['and', 'or', 'xor'])
            inner = M.op('apply', o1, vs[j], vs[k], None)
            ti = gen.conn(o1, T.var(j, n), T.var(k, n), full)
            outer = M.op('apply', o2, vs[i], inner, None)
            if outer is not None and abs(outer) != 1:
                M.op('incref', outer)
            qs.append((o1, j, k, ti))
        target = list(range(n))
        rng.shuffle(target)
        M.op('reorder', dict(zip(range(n), target)))
        for _ in range(2):
            M.build(rng.getrandbits(1 << n))        # new nodes take freed numbers
        for (o1, j, k, ti) in qs:
            r = M.op('apply', o1, vs[j], vs[k], None)
            ctx.case(('reorder-cache', n, tuple(order), tuple(target), o1, j, k), True)
            ctx.count('reorder-cache')
            if r is None or M.tt(r) != ti:
                ctx.violation('C02:routes-differ',
                              f'after reorder(order), {o1}(v{j}, v{k}) asked again returned {r} denoting '
                              f'{M.tt(r) if r is not None else None}, expected {ti:#x}', M.case())
                return
            g = M.build(ti)
            if g != r:
                ctx.violation('C02:routes-differ', f'{o1}(v{j}, v{k}) is {r}, built node by node {g}', M.case())
                return
        if not M.check_table('C02:table', 'after reorder with a warm cache'):
            return


def stream_large(ctx, n, target):
    """a manager with several hundred nodes (node numbers beyond every small-integer
    special case of the host language): redundant tests must still be eliminated and
    equal functions must still be one reference"""
    rng = ctx.rng
    M = Mgr(ctx, f'large n={n} target={target}', n, list(range(n)))
    full = T.full(n)
    vs = [M.op('var', j) for j in range(n)]
    pool = [(v, T.var(j, n)) for j, v in enumerate(vs)]
    for v, _ in pool:
        M.op('incref', v)
    guard = 0
    while len(M.b) < target and guard < 400:
        guard += 1
        (a, ta), (c, tc) = rng.sample(pool, 2)
        name = rng.choice(['and', 'or', 'xor', 'equiv', 'implies'])
        r = M.op('apply', rng.choice(gen.ALIASES[name]), a * rng.choice([1, -1]) if False else a, c, None)
        if r is None:
            break
        tr = gen.conn(name, ta, tc, full)
        if r not in [x for x, _ in pool] and abs(r) != 1:
            M.op('incref', r)
            pool.append((r, tr))
    ctx.count('large-nodes', len(M.b))
    M.check_table('C02:table', 'large manager')
    # redundant tests over separately computed equal children
    big = [x for x in pool if abs(x[0]) > 256]
    for _ in range(40):
        (f, tf) = rng.choice(big) if big and rng.random() < 0.8 else rng.choice(pool[n:] or pool)
        (z, tz) = rng.choice(pool[:n])
        ctx.case(('large', n, len(M.s.lines)), True)
        r1 = M.op('ite', z, f, f)
        a1 = M.op('apply', 'and', z, f, None)
        a2 = M.op('apply', 'and', -z, f, None)
        r2 = M.op('apply', 'or', a1, a2, None) if a1 is not None and a2 is not None else None
        # a parent whose two cofactors are the same function reached by different routes
        g1 = M.op('apply', 'or', f, z, None)
        g2 = M.op('apply', 'or', z, f, None)
        for what, r in (('ite(z, f, f)', r1), ('(z /\\ f) \\/ (~z /\\ f)', r2)):
            if r != f:
                ctx.violation('C02:routes-differ', f'{what} gave {r}, f is {f} (manager of {len(M.b)} nodes)', M.case())
                return
        if g1 != g2:
            ctx.violation('C02:routes-differ', f'f \\/ z and z \\/ f are {g1} and {g2}', M.case())
            return
        if not M.check_table('C02:table', 'large manager'):
            return


def stream_history(ctx, n, steps):
    rng = ctx.rng
    order = list(range(n))
    rng.shuffle(order)
    M = Mgr(ctx, f'history n={n}', n, order)
    held = {}   # ref -> truth table (at the current set of variables)
    nv = n
    for _ in range(steps):
        k = rng.random()
        if k < 0.35:
            t = rng.getrandbits(1 << nv)
            u = gen.build_tt(M.s, 0, t, list(range(nv)))
            if u is not None:
                if u not in held:
                    M.op('incref', u)
                    held[u] = t
        elif k < 0.5 and len(held) >= 2:
            a, c = rng.sample(list(held), 2)
            name = rng.choice(['and', 'or', 'xor', 'implies', 'equiv', 'diff'])
            r = M.op('apply', rng.choice(gen.ALIASES[name]), a, c, None)
            if r is not None and r not in held:
                M.op('incref', r)
                held[r] = gen.conn(name, held[a], held[c], T.full(nv))
        elif k < 0.58 and held and nv >= 2:
            # derived operations: every route to a function must give the canonical node
            a = rng.choice(list(held))
            kind = rng.choice(['vsubst', 'vsubst', 'subst1', 'cof', 'quant', 'rename'])
            r = e = None
            if kind in ('vsubst', 'subst1'):
                js = rng.sample(range(nv), 1 if kind == 'subst1' else rng.randint(2, nv))
                sub = {}
                for j in js:
                    if rng.random() < 0.6:
                        x = rng.randrange(nv)
                        v = M.op('var', x)
                        sub[j] = (v, T.var(x, nv))
                        if rng.random() < 0.3 and v is not None:
                            sub[j] = (-v, T.neg(T.var(x, nv), nv))
                    else:
                        c = rng.choice(list(held))
                        sub[j] = (c, held[c])
                if all(v[0] is not None for v in sub.values()):
                    r = M.op('let_ref', {j: v[0] for j, v in sub.items()}, a)
                    e = T.vector_compose(held[a], nv, {j: v[1] for j, v in sub.items()})
            elif kind == 'cof':
                vals = {j: rng.random() < 0.5 for j in rng.sample(range(nv), rng.randint(1, nv))}
                r = M.op('let_bool', vals, a)
                e = T.cofactor(held[a], nv, vals)
            elif kind == 'quant':
                q = rng.sample(range(nv), rng.randint(1, nv))
                fa = rng.random() < 0.5
                r = M.op('quantify', a, 'n', q, fa)
                e = (T.forall if fa else T.exists)(held[a], nv, q)
            else:
                sup = sorted(T.support(held[a], nv))
                free = [j for j in range(nv) if j not in sup]
                if sup and free:
                    x = rng.choice(sup)
                    y = rng.choice(free)
                    r = M.op('let_name', {x: y}, a)
                    e = T.rename(held[a], nv, {x: y})
            if r is not None and e is not None and r not in held:
                M.op('incref', r)
                held[r] = e
        elif k < 0.62:
            M.op('gc', None)
        elif k < 0.75 and nv >= 2:
            x = rng.randrange(nv - 1)
            M.op('swap', x, x + 1)
        elif k < 0.8 and nv < 6:
            M.op('add_var', nv, None)
            # truth tables get one more (least significant) variable
            held = {u: sum(((t >> (kk >> 1)) & 1) << kk for kk in range(1 << (nv + 1)))
                    for u, t in held.items()}
            nv += 1
            M.nv = nv
            M.names = list(range(nv))
        elif k < 0.9 and held:
            u = rng.choice(list(held))
            M.op('decref', u)
            del held[u]
        elif k < 0.95:
            M.op('reorder', None)
        else:
            # remove the unused variables; the held truth tables lose those columns
            b = M.b
            full_levels = {i for i, _, _ in b._succ.values()}
            unused = sorted(int(v[1:]) for v, l in b.vars.items() if l not in full_levels)
            r = M.op('undeclare', [])
            if r is not None and unused:
                # rename the remaining variables is not possible: names are fixed, so
                # simply stop using this history's truth-table bookkeeping
                for u in held:
                    M.op('decref', u)
                held = {}
                keep = [v for v in range(nv) if v not in unused]
                if keep != list(range(len(keep))):
                    break
                nv = len(keep)
                M.nv = nv
                M.names = list(range(nv))
        # independent re-check of the node table after every step, and dd's own check
        if not M.check_table('C02:table'):
            break
        M.op('assert_consistent')
        if not M.s.ok():
            ctx.violation('C02:assert-consistent', 'BDD.assert_consistent() fails on a manager built by public calls', M.case())
            break
        # pairwise: equal reference <=> equal function
        memo = {}
        tts = {u: oracle.tt_fast(M.b, u, [f'v{i}' for i in range(nv)], memo) for u in held}
        inv = {}
        for u, t in tts.items():
            if t != held[u]:
                ctx.violation('C02:denotation-changed',
                              f'held {u} denoted {held[u]:#x}, now {t:#x}', M.case())
            if t in inv and inv[t] != u:
                ctx.violation('C02:not-canonical',
                              f'references {inv[t]} and {u} denote the same function', M.case())
            inv[t] = u
            if (T.full(nv) ^ t) in inv and inv[T.full(nv) ^ t] != -u:
                ctx.violation('C02:not-canonical',
                              f'{u} and {inv[T.full(nv) ^ t]} are complements but not negations', M.case())
        ctx.case(('history', n, len(M.s.lines)), True)
        ctx.count('history-steps')
    for u in held:
        M.op('decref', u)


def run(ctx):
    q = ctx.quick
    rng = ctx.rng
    gen.undeclare_scenarios(ctx, 'C02:undeclare-not-canonical', 'C02', quick=q)
    for n in (1, 2):
        for order in gen.orders(n):
            stream_routes(ctx, n, order, range(1 << (1 << n)))
    for order in gen.orders(3):
        tts = range(256) if not q else sorted(rng.sample(range(256), 24))
        stream_routes(ctx, 3, order, tts)
    for order in (gen.orders(4) if not q else rng.sample(gen.orders(4), 3)):
        stream_routes(ctx, 4, order, [rng.getrandbits(16) for _ in range(6 if q else 16)])
    for order in (gen.orders(3) if not q else rng.sample(gen.orders(3), 3)):
        stream_subst(ctx, 3, order, sorted(rng.sample(range(256), 6 if q else 32)), 4 if q else 8)
    for order in rng.sample(gen.orders(4), 1 if q else 6):
        stream_subst(ctx, 4, order, [rng.getrandbits(16) for _ in range(3 if q else 12)], 4 if q else 8)
    for n in (2, 3, 4):
        for _ in range(3 if q else 16):
            order = rng.choice(gen.orders(n))
            stream_copies(ctx, n, order, [rng.getrandbits(1 << n) for _ in range(rng.randint(1, 3))],
                          aged=rng.random() < 0.5)
    for n in (3, 4):
        for _ in range(3 if q else 10):
            order, order2 = rng.choice(gen.orders(n)), rng.choice(gen.orders(n))
            stream_renames(ctx, n, order, order2,
                           [rng.getrandbits(1 << n) for _ in range(3 if q else 6)] + [(1 << (1 << n)) - 2, 1 << ((1 << n) - 1)],
                           12 if q else 40, rng.random() < 0.5)
    for n_ in (3, 4, 5):
        stream_reorder_cache(ctx, n_, 6 if q else 30)
    stream_large(ctx, 9, 320 if q else 700)
    if not q:
        stream_large(ctx, 10, 800)
    for i in range(6 if q else 30):
        stream_history(ctx, rng.choice([2, 3, 4]), 30 if q else 60)
