"""C06 - garbage collection frees exactly the unreachable nodes; counts stay
exact; nothing computed after a collection refers to a freed node or a stale
cache entry."""
import itertools

from .. import gen, oracle, tt as T
from .base import Mgr, replay  # noqa: F401
from ..impl import vname

RULE = ('histories over {var, and, not-and, xor, incref, release-at-zero, decref, collect, collect(roots), swap, '
        'ite on a recycled cache key}: all sequences up to length L over a 13-letter alphabet '
        '(3 variables) exhaustively (L=4 quick, 5 thorough) and long random histories; a case is '
        'one step of one history; distinct by the history prefix; copies into a second manager whose '
        'dynamic reordering is enabled and due (no collection may run inside the copy)')
EXHAUSTIVE = {'quick': True, 'thorough': True}
ASSUMES = ['a release on a node whose count is 0 is documented as having no effect: exercised; a release that '
           'drops a count below the number of stored edges is a caller error and is not generated']

LETTERS = ['var0', 'var1', 'var2', 'and', 'nand', 'xor', 'incref', 'decref', 'decref0', 'gc', 'gcroots', 'swap', 'ite']


class Hist:
    """One history with the harness's own ledger of external references."""

    def __init__(self, ctx, label, full=True, session=None):
        self.M = Mgr(ctx, label, 3, (0, 1, 2), full=full, session=session)
        self.ctx = ctx
        self.ledger = {1: 1}          # node -> external references
        self.held = []                # refs we incref'd (with multiplicity)
        self.tts = {}                 # held ref -> truth table
        self.recent = [1, -1]         # results since the last collection
        self.key = None               # an ite key to recycle across collections
        self.ok = True

    def live(self):
        return [u for u in self.recent if abs(u) in self.M.b._succ]

    def step(self, letter, rng=None):
        M = self.M
        pick = (lambda l: l[-1]) if rng is None else rng.choice
        if letter.startswith('var'):
            r = M.op('var', int(letter[3]))
            if r is not None:
                self.recent.append(r)
        elif letter in ('and', 'nand', 'xor'):
            a = pick(self.recent)
            c = self.recent[-2] if rng is None else rng.choice(self.recent)
            if letter == 'xor':
                r = M.op('apply', 'xor', a, c, None)
            else:
                r = M.op('apply', 'and', a, -c if letter == 'nand' else c, None)
            if r is not None:
                self.recent.append(r)
        elif letter == 'incref':
            u = pick(self.recent)
            M.op('incref', u)
            self.ledger[abs(u)] = self.ledger.get(abs(u), 0) + 1
            self.held.append(u)
            self.tts[u] = M.tt(u)
        elif letter == 'decref':
            if self.held:
                u = self.held.pop(0 if rng is None else rng.randrange(len(self.held)))
                M.op('decref', u)
                self.ledger[abs(u)] -= 1
                if u not in self.held:
                    self.tts.pop(u, None)
        elif letter == 'decref0':
            # one release too many on a node whose count is 0 (no stored edge, no external
            # reference): documented as "no effect" (a warning); later increments count from 0
            zero = [u for u in self.recent if abs(u) in M.b._succ and M.b._ref[abs(u)] == 0]
            if zero:
                u = pick(zero)
                M.op('decref', u)
                M.op('incref', u)
                self.ledger[abs(u)] = self.ledger.get(abs(u), 0) + 1
                self.held.append(u)
                self.tts[u] = M.tt(u)
        elif letter == 'gc':
            before = set(M.b._succ)
            M.op('gc', None)
            self.after_collect(before, exact=True)
        elif letter == 'gcroots':
            before = set(M.b._succ)
            # the roots are references as the operations returned them (complemented ones
            # included), some still referenced, some not
            roots = list(self.recent[-3:])
            M.op('gc', roots)
            if not M.s.ok():
                self.ctx.violation('C06:rooted-collection-rejected',
                                   f'collect_garbage({roots}) raised for references of the manager',
                                   M.case())
                self.ok = False
                return
            self.after_collect(before, exact=False)
        elif letter == 'swap':
            before = set(M.b._succ)
            x = 0 if rng is None else rng.randrange(2)
            M.op('swap', x, x + 1)
            self.after_collect(before, exact=False, swapped=True)
        elif letter == 'ite':
            # re-ask a cached question after node numbers may have been reused
            live = self.live()
            if self.key is None or any(abs(k) not in M.b._succ for k in self.key):
                self.key = (pick(live), live[-2] if rng is None else rng.choice(live),
                            live[0] if rng is None else rng.choice(live))
            g, u, v = self.key
            n = 3
            e = T.ite(M.tt(g), M.tt(u), M.tt(v), n)
            r = M.op('ite', g, u, v)
            if r is None or M.tt(r) != e:
                self.ctx.violation('C06:stale-result',
                                   f'ite{self.key} returned {r} which denotes '
                                   f'{None if r is None else hex(M.tt(r))}, expected {e:#x}', M.case())
                self.ok = False
            elif r is not None:
                self.recent.append(r)
        self.observe()

    def after_collect(self, before, exact, swapped=False):
        M = self.M
        b = M.b
        roots = [n for n, c in self.ledger.items() if c > 0]
        keep = oracle.reachable(b, [r for r in roots if r in b._succ]) | {1}
        missing = [r for r in roots if r not in b._succ]
        if missing:
            self.ctx.violation('C06:referenced-node-deleted',
                               f'nodes {missing} with external references were deleted', M.case())
            self.ok = False
        if exact and set(b._succ) != keep:
            self.ctx.violation('C06:collect-not-exact',
                               f'after collect_garbage(): nodes {sorted(b._succ)}, reachable from '
                               f'referenced nodes: {sorted(keep)}', M.case())
            self.ok = False
        if not swapped:
            gone = before - set(b._succ)
        self.recent = [u for u in self.recent if abs(u) in b._succ and
                       (abs(u) in keep)] or [1, -1]
        if 1 not in [abs(u) for u in self.recent]:
            self.recent = [1, -1] + self.recent
        if b._ite_table:
            self.ctx.violation('C06:cache-not-reset', 'the ite table survived a collection', M.case())

    def observe(self):
        M = self.M
        b = M.b
        bad = oracle.check_table(b, external=self.ledger)
        if bad:
            self.ctx.violation('C06:counts', f'counts/table: {bad[:3]}', M.case())
            self.ok = False
        for u, t in self.tts.items():
            if abs(u) not in b._succ:
                continue
            if M.tt(u) != t:
                self.ctx.violation('C06:held-changed', f'held reference {u} changed its function', M.case())
                self.ok = False
        # every cached ite result must be valid now
        for (g, u, v), w in b._ite_table.items():
            if any(abs(x) not in b._succ for x in (g, u, v, w)):
                self.ctx.violation('C06:cache-dangling',
                                   f'ite table entry {(g, u, v)}:{w} refers to a freed node', M.case())
                self.ok = False
                break

    def finish(self):
        for u in self.held:
            self.M.op('decref', u)
        self.held = []


def swap_shapes(ctx, tts):
    """held functions (and a held inner node) across level swaps, then the
    parent is released and collected: counts must be exact after every step and
    the inner node must survive with its function"""
    rng = ctx.rng
    for t in tts:
        h = Hist(ctx, f'swap-shape {t:#x}')
        M = h.M
        f = M.build(t)
        if f is None or abs(f) == 1:
            continue

        def hold(u):
            M.op('incref', u)
            h.ledger[abs(u)] = h.ledger.get(abs(u), 0) + 1
            h.held.append(u)
            h.tts[u] = M.tt(u)
        hold(f)
        h.observe()
        for x in rng.sample([0, 1, 0, 1], 3):
            M.op('swap', x, x + 1)
            h.observe()
            ctx.case(('swap-shape', t, len(M.s.lines)), True)
            # hold an inner node of f (a second referrer of a shared child)
            inner = [u for u in oracle.reachable(M.b, [abs(f)]) if u not in (1, abs(f))]
            if inner and rng.random() < 0.7:
                hold(rng.choice(sorted(inner)))
        # release the parent, collect, re-use the freed numbers
        h.held.remove(f)
        M.op('decref', f)
        h.ledger[abs(f)] -= 1
        if f not in h.held:
            h.tts.pop(f, None)
        before = set(M.b._succ)
        M.op('gc', None)
        h.after_collect(before, exact=True)
        h.observe()
        M.build(rng.getrandbits(8))
        h.observe()
        ctx.count('swap-shapes')
        h.finish()
        if not h.ok:
            break


def exhaustive(ctx, L):
    """all words of length L (prefix-closed: shorter histories are covered as
    prefixes); one session per first two letters to keep sessions small"""
    n = 0
    for word in itertools.product(LETTERS, repeat=L):
        h = Hist(ctx, 'exh ' + ' '.join(word))
        for i, letter in enumerate(word):
            h.step(letter)
            ctx.case(word[:i + 1], True)
            if not h.ok:
                break
        h.finish()
        n += 1
    ctx.count('exhaustive-histories', n)


def random_history(ctx, steps):
    rng = ctx.rng
    h = Hist(ctx, f'random {steps}')
    for i in range(steps):
        letter = rng.choice(LETTERS)
        h.step(letter, rng)
        ctx.case(('random', id(h), i), True)
        ctx.count('letter:' + letter)
        if not h.ok:
            break
    h.finish()
    ctx.sample(dict(stream=h.M.s.label, first_lines=h.M.s.lines[:15]))


def copied_manager(ctx, n):
    """`copy.copy(bdd)` gives a second manager with its OWN counts: references taken and
    released in one of the two, collections and new nodes there, leave the other's counts
    exact for the other's own ledger, and nothing the other still holds is freed"""
    rng = ctx.rng
    order = list(range(n))
    rng.shuffle(order)
    M = Mgr(ctx, f'counts in a copied manager n={n} order={order}', n, order, aged=rng.random() < 0.5)
    s = M.s
    held = {0: {}, 1: {}}
    tts = {}
    for u in M.held:
        # (references left by the manager's earlier history)
        if abs(u) != 1:
            held[0][u] = held[0].get(u, 0) + 1
            tts[0, u] = tts[1, u] = M.tt(u)
        else:
            held[0][1] = held[0].get(1, 0) + 1
    for _ in range(3):
        t = rng.getrandbits(1 << n)
        u = M.build(t)
        if u is None or abs(u) == 1:
            continue
        M.op('incref', u)
        held[0][u] = held[0].get(u, 0) + 1
        tts[0, u] = tts[1, u] = M.tt(u)
    if not held[0]:
        return
    s.op(1, 'copy_manager', 0)
    held[1] = dict(held[0])
    b = {0: s.impl.mgr[0], 1: s.impl.mgr[1]}
    names = list(range(n))

    def check(when):
        for m in (0, 1):
            ext = {1: 1}
            for u, c in held[m].items():
                ext[abs(u)] = ext.get(abs(u), 0) + c
            bad = oracle.check_table(b[m], external=ext)
            if bad:
                ctx.violation('C06:counts', f'{when}: manager {m}: {bad[:3]}', M.case())
                return False
            for u in held[m]:
                if abs(u) == 1:
                    continue
                if abs(u) not in b[m]._succ or oracle.tt_fast(b[m], u, [vname(i) for i in names]) != tts[m, u]:
                    ctx.violation('C06:freed-or-changed', f'{when}: manager {m}: held reference {u} is gone or changed',
                                  M.case())
                    return False
        return True
    if not check('right after the copy'):
        return
    for step in range(10):
        m = rng.randrange(2)
        k = rng.randrange(5)
        if k == 0 and held[m]:
            u = rng.choice(list(held[m]))
            s.op(m, 'decref', u)
            held[m][u] -= 1
            if not held[m][u]:
                del held[m][u]
        elif k == 1 and held[m]:
            u = rng.choice(list(held[m]))
            s.op(m, 'incref', u)
            held[m][u] += 1
        elif k == 2:
            s.op(m, 'gc', None)
        elif k == 3:
            s.op(m, 'incref', 1)
            s.op(m, 'decref', 1)
        else:
            t = rng.getrandbits(1 << n)
            u = gen.build_tt(s, m, t, names)
            if u is not None and abs(u) != 1 and rng.random() < 0.5:
                s.op(m, 'incref', u)
                held[m][u] = held[m].get(u, 0) + 1
                tts[m, u] = t
        ctx.case(('copied-manager', n, step, m, k), True)
        ctx.count('copied-manager-step')
        if not check(f'step {step} in manager {m}'):
            return
    for m in (0, 1):
        for u, c in list(held[m].items()):
            for _ in range(c):
                s.op(m, 'decref', u)
        s.op(m, 'gc', None)


def run(ctx):
    q = ctx.quick
    for n in ((3, 4) if q else (2, 3, 3, 4, 4, 5)):
        copied_manager(ctx, n)
    gen.reuse_scenarios(ctx, 'C06:stale-result', 'C06', reps=12 if q else 150)
    parity = [0x96, 0x69, 0x66, 0x99, 0x3c, 0xc3, 0x5a, 0xa5, 0x6a, 0x9a, 0x1e, 0x78]
    swap_shapes(ctx, parity + (sorted(ctx.rng.sample(range(256), 20)) if q else list(range(256))))
    exhaustive(ctx, 3 if q else 4)
    global LETTERS
    if q:
        # length 4 over the letters that create shared/complemented children and move levels
        saved = LETTERS
        LETTERS = ['var0', 'var1', 'xor', 'and', 'incref', 'gc', 'swap']
        exhaustive(ctx, 4)
        LETTERS = saved
    if not q:
        # length 5 over the letters that change reachability
        saved = LETTERS
        LETTERS = ['var0', 'var1', 'xor', 'and', 'incref', 'decref', 'gc', 'swap', 'ite']
        exhaustive(ctx, 5)
        LETTERS = saved
    for _ in range(6 if q else 60):
        random_history(ctx, 60 if q else 200)
    # copies INTO a manager whose dynamic reordering is enabled and due: a reordering served in
    # the middle of the copy would start with a collection that frees the copy's unheld
    # intermediate results (round-21 seed: the guard of `copy_bdd` put on the source manager)
    from . import C11
    rng = ctx.rng
    for _ in range(4 if q else 40):
        n_ = rng.choice([3, 4, 5])
        C11.dyn_stream(ctx, n_, tuple(rng.sample(range(n_), n_)), tuple(rng.sample(range(n_), n_)),
                       [rng.getrandbits(1 << n_) for _ in range(3)], P='C06')
