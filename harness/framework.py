"""Check framework: build, obligations, correspondence, verdict, evidence.

    ./check <Cxx> --tier quick|thorough [--seed N] [--replay FILE]

Verdict logic (DESIGN.md section 6):
  * all proof obligations check, model and implementation agree on every
    stream, the semantic oracle is clean                          -> exit 0
  * the oracle exhibits a concrete failing input                  -> VIOLATION
    (or KNOWN-FINDING when listed in known_findings.txt)
  * an obligation or the correspondence is broken and no failing input is
    found                                   -> VIOLATION ... no-failing-input-found
"""
import argparse
import fcntl
import hashlib
import importlib
import json
import os
import random
import re
import subprocess
import sys
import time

VERIF = os.path.dirname(os.path.dirname(os.path.abspath(__file__)))
COQ = os.path.join(VERIF, 'coq')
REPLAYS = os.path.join(VERIF, 'replays')
EVIDENCE = os.path.join(VERIF, 'evidence')
FORBIDDEN = re.compile(
    r'\b(Admitted|admit|Axiom|Axioms|Parameter|Parameters|Conjecture|Hypothesis|Variable)\b'
    r'|Unset\s+Guard|bypass_check|Admit\s+Obligations|type-in-type|impredicative-set')

TRUSTED_BASE = [
    'Coq 8.16.1 kernel (coqc); vm_compute for finite-domain theorems and Examples; no native_compute',
    'std++ 1.8.0, coq-record-update, Coq standard library (no axioms used: see assumptions)',
    'translators /verif/translator/*.py (Python ast / line scanners) for Generated/*.v; gen_lalr.py runs the '
    'repository grammar module under PLY (/venv/bin/python) to obtain the LALR tables: PLY table construction trusted',
    'extraction (ExtrOcamlBasic directives only) + /verif/ocaml/main.ml driver: used for the correspondence check only',
    'correspondence harness /verif/harness (digests, order-oracle recording, generators): model/code agreement is tested, not proved',
    'CPython semantics of dict/set and pickle/json/shelve containers are modelled or trusted, not verified; '
    'PLY: lexer rule order and LR driver modelled, LALR table construction trusted',
]


def sh(cmd, timeout=3000, cwd=None, env=None):
    p = subprocess.run(cmd, shell=True, cwd=cwd, env=env, text=True,
                       capture_output=True, timeout=timeout)
    return p.returncode, p.stdout + p.stderr


class Lock:
    def __enter__(self):
        self.f = open(os.path.join(VERIF, '.build.lock'), 'w')
        fcntl.flock(self.f, fcntl.LOCK_EX)

    def __exit__(self, *a):
        fcntl.flock(self.f, fcntl.LOCK_UN)
        self.f.close()


def known_findings():
    out = []
    p = os.path.join(VERIF, 'known_findings.txt')
    if os.path.exists(p):
        for line in open(p):
            line = line.strip()
            m = re.match(r'finding:\s+property=(\w+)\s+key=(\S+)\s+(.*)', line)
            if m:
                out.append((m.group(1), m.group(2), m.group(3)))
    return out


class Ctx:
    """What a property module sees."""

    def __init__(self, pid, tier, seed):
        self.pid = pid
        self.tier = tier
        self.quick = tier == 'quick'
        self.seed = seed
        self.rng = random.Random(seed)
        self.sessions = []        # (label, Session)
        self.violations = []      # dicts
        self.known = []
        self.broken = []          # broken obligations / correspondence
        self.stats = dict()
        self.samples = []
        self.distinct = set()
        self.evaluations = 0
        self.t0 = time.time()
        self._known = [k for k in known_findings() if k[0] == pid]

    # -- sessions ---------------------------------------------------------
    def session(self, label, full=True):
        from . import session as S
        s = S.Session(full=full)
        s.label = label
        self.sessions.append(s)
        return s

    # -- statistics ---------------------------------------------------------
    def count(self, key, n=1):
        self.stats[key] = self.stats.get(key, 0) + n

    def case(self, sig, nontrivial=True):
        """register one evaluated case with a hashable signature"""
        self.evaluations += 1
        if nontrivial:
            self.distinct.add(hashlib.blake2b(
                repr(sig).encode(), digest_size=8).digest())

    def sample(self, x, limit=6):
        if len(self.samples) < limit:
            self.samples.append(x)

    # -- oracle verdicts ------------------------------------------------------
    def violation(self, key, what, case):
        """The implementation breaks the property on a concrete input."""
        for (_, k, text) in self._known:
            if k == key:
                if key not in [x['key'] for x in self.known]:
                    self.known.append(dict(key=key, what=what,
                                           case=case() if callable(case) else case))
                self.stats['known:' + key] = self.stats.get('known:' + key, 0) + 1
                return
        if callable(case):
            case = case()
        n = sum(1 for v in self.violations if v['key'] == key)
        self.stats['violations:' + key] = self.stats.get('violations:' + key, 0) + 1
        if n < 2 and len(self.violations) < 30:
            self.violations.append(dict(key=key, what=what, case=case))

    def obligation_broken(self, name, detail):
        self.broken.append(dict(name=name, detail=detail[-3000:]))

    def out_of_time(self, budget):
        return time.time() - self.t0 > budget


# ----------------------------------------------------------------------------
# build and proof obligations
# ----------------------------------------------------------------------------
def regenerate(ctx):
    """Run the translators; each writes Generated/<X>.v only on change."""
    gen = os.path.join(VERIF, 'translator', 'generate.py')
    if not os.path.exists(gen):
        return
    rc, out = sh(f'python3 {gen}', timeout=300)
    if rc != 0:
        if ctx is not None:
            ctx.obligation_broken('translator', out)
        else:
            print(out)


def build(targets=None):
    t = ' '.join(targets) if targets else ''
    rc, out = sh(f'{VERIF}/build.sh {t}', timeout=3400)
    return rc, out


# properties whose streams depend on the implementation's set/dict iteration
# orders (sifting): the thorough tier repeats the quick streams under other hash seeds
HASHSEED_PROPS = {'C06', 'C07', 'C08', 'C09', 'C14', 'C17'}


def property_files(pid):
    """Properties/<pid>.v and Properties/<pid><suffix>.v (e.g. C04a.v, C19_x.v)"""
    listed = [l.strip() for l in open(os.path.join(COQ, '_CoqProject'))]
    out = []
    for l in sorted(listed):
        m = re.match(rf'^Properties/({pid}(?:[a-z]|_\w+)?)\.v$', l)
        if m:
            out.append(m.group(1))
    return out


def theorems_of(pid):
    out = []
    for base in property_files(pid):
        src = open(os.path.join(COQ, 'Properties', base + '.v')).read()
        src = re.sub(r'\(\*.*?\*\)', '', src, flags=re.S)
        out += [(base, t) for t in re.findall(r"^\s*(?:Theorem|Corollary)\s+([\w']+)", src, re.M)]
    return out


def check_obligations(ctx):
    """Compile Properties/<pid>*.v, print the assumptions of each theorem,
    scan the development for forbidden declarations."""
    pid = ctx.pid
    pairs = theorems_of(pid)
    thms = [t for _, t in pairs]
    res = dict(theorems=thms, assumptions=dict(), discharged=0)
    files = property_files(pid)
    if not files:
        ctx.obligation_broken(f'no Properties/{pid}*.v', '')
        return res
    rc, out = build([f'Properties/{b}.vo' for b in files])
    built = []
    for b in files:
        vo = os.path.join(COQ, 'Properties', f'{b}.vo')
        v = os.path.join(COQ, 'Properties', f'{b}.v')
        # (a stale .vo left by an earlier build does not count: when make fails for
        # these targets none of them is taken as checked)
        if rc == 0 and os.path.exists(vo) and os.path.getmtime(vo) >= os.path.getmtime(v):
            built.append(b)
        else:
            ctx.obligation_broken(f'Properties/{b}.v does not build', out)
    if not thms:
        ctx.obligation_broken(f'Properties/{pid}*.v state no theorem', '')
        return res
    pairs = [(b, t) for b, t in pairs if b in built]
    if not pairs:
        return res
    # assumptions, checked on this run (in parallel chunks: each Print Assumptions
    # costs about half a second)
    nchunks = max(1, min(10, (len(pairs) + 7) // 8))
    chunks = [pairs[i::nchunks] for i in range(nchunks)]
    pairs = [x for c in chunks for x in c]
    procs = []
    for i, chunk in enumerate(chunks):
        name = f'_assum_{pid}_{i}'
        with open(os.path.join(COQ, 'Properties', name + '.v'), 'w') as f:
            for b in built:
                f.write(f'From DD Require Import Properties.{b}.\n')
            for b, t in chunk:
                f.write(f'Print Assumptions {b}.{t}.\n')
        procs.append((name, subprocess.Popen(
            f'cd {COQ} && timeout 900 coqc -Q . DD Properties/{name}.v', shell=True, text=True,
            stdout=subprocess.PIPE, stderr=subprocess.STDOUT)))
    rc, out = 0, ''
    for name, q in procs:
        o, _ = q.communicate(timeout=1000)
        out += o
        rc = rc or q.returncode
        for ext in ('v', 'vo', 'vok', 'vos', 'glob'):
            try:
                os.remove(os.path.join(COQ, 'Properties', f'{name}.{ext}'))
            except OSError:
                pass
        try:
            os.remove(os.path.join(COQ, 'Properties', f'.{name}.aux'))
        except OSError:
            pass
    if rc != 0:
        ctx.obligation_broken('Print Assumptions failed', out)
        return res
    blocks = re.split(r'(?=Closed under the global context|Axioms:)', out)
    blocks = [b for b in blocks if b.startswith('Closed') or b.startswith('Axioms:')]
    for (_, t), b in zip(pairs, blocks):
        if b.startswith('Closed'):
            res['assumptions'][t] = 'closed'
            res['discharged'] += 1
        else:
            ax = ' '.join(b.split())
            res['assumptions'][t] = ax
            # only standard-library axioms are acceptable; none is expected
            if re.search(r'\bDD\.', ax):
                ctx.obligation_broken(f'{t} depends on a declared axiom', ax)
            else:
                res['discharged'] += 1
    if len(blocks) != len(pairs):
        ctx.obligation_broken('assumption report incomplete', out)
    # forbidden declarations anywhere in the development
    hits = []
    # the development = the files of _CoqProject (scratch files that are not built do not count)
    listed = {l.strip() for l in open(os.path.join(COQ, '_CoqProject')) if l.strip().endswith('.v')}
    for root, _, fls in os.walk(COQ):
        for fn in fls:
            if fn.endswith('.v') and os.path.relpath(os.path.join(root, fn), COQ) in listed:
                txt = open(os.path.join(root, fn)).read()
                code = re.sub(r'\(\*.*?\*\)', lambda m: '\n' * m.group(0).count('\n'), txt, flags=re.S)
                for k, line in enumerate(code.split('\n'), 1):
                    if FORBIDDEN.search(line):
                        hits.append(f'{fn}:{k}: {line.strip()}')
    if hits:
        ctx.obligation_broken('forbidden declaration in the development', '\n'.join(hits))
    res['forbidden_scan'] = 'clean' if not hits else hits
    return res


# ----------------------------------------------------------------------------
# correspondence
# ----------------------------------------------------------------------------
def run_correspondence(ctx):
    """Replay every recorded session on the extracted model, compare."""
    from . import session as S
    mism = []
    total_lines = 0
    batch = []
    for s in ctx.sessions:
        s.close()
    # group sessions per mode; each session starts with '!reset'
    for full in (True, False):
        group = [s for s in ctx.sessions if s.full == full]
        i = 0
        while i < len(group):
            chunk, n = [], 0
            while i < len(group) and n < 20000:
                chunk.append(group[i])
                n += len(group[i].lines)
                i += 1
            lines = []
            for s in chunk:
                lines.append('!reset')
                lines.extend(s.lines)
            try:
                got = S.run_model(lines, full=full, timeout=1800)
            except Exception as e:  # noqa: B902
                ctx.obligation_broken('model driver failed', repr(e))
                return mism
            k = 0
            for s in chunk:
                g = got[k:k + len(s.lines)]
                k += len(s.lines)
                total_lines += len(s.lines)
                j = S.compare(s.lines, s.expect, g)
                if j is not None:
                    mism.append((s, j, g))
    ctx.stats['model_lines_compared'] = total_lines
    ctx.stats['sessions'] = len(ctx.sessions)
    return mism


def shrink(lines, full, budget=60):
    """Delta-debug a mismatching case: smallest sub-sequence of lines on
    which model and implementation still differ."""
    from . import session as S
    t0 = time.time()

    target = [None]

    def differs(ls):
        try:
            e = S.replay_impl(ls, full=full)
            g = S.run_model(ls, full=full, timeout=120)
        except Exception:  # noqa: B902
            return False
        j = S.compare(ls, e, g)
        if j is None:
            return False
        # the candidate must differ at the SAME operation line as the original case (a
        # shorter case that differs somewhere else, for another reason, is not a shrink)
        if target[0] is None:
            target[0] = ls[j]
        return ls[j] == target[0]

    if not differs(lines):
        return lines, False
    cur = list(lines)
    chunk = max(1, len(cur) // 2)
    while chunk >= 1 and time.time() - t0 < budget:
        i = 0
        changed = False
        while i < len(cur) and time.time() - t0 < budget:
            # manager creations are never removed (an operation on a manager
            # that does not exist differs for a reason of the harness only)
            keep = [l for l in cur[i:i + chunk] if len(l.split()) > 1 and l.split()[1] == 'new']
            cand = cur[:i] + keep + cur[i + chunk:]
            if cand and len(cand) < len(cur) and differs(cand):
                cur = cand
                changed = True
            else:
                i += chunk
        if not changed:
            chunk //= 2
    return cur, True


def write_replay(pid, name, payload):
    os.makedirs(REPLAYS, exist_ok=True)
    p = os.path.join(REPLAYS, f'{pid}_{name}.json')
    with open(p, 'w') as f:
        json.dump(payload, f, indent=1, default=str)
    return p


# ----------------------------------------------------------------------------
# main
# ----------------------------------------------------------------------------
def main(argv=None):
    ap = argparse.ArgumentParser()
    ap.add_argument('pid')
    ap.add_argument('--tier', default=os.environ.get('VERIF_TIER', 'quick'))
    ap.add_argument('--seed', type=int,
                    default=int(os.environ.get('VERIF_SEED', '0') or 0))
    ap.add_argument('--replay')
    ap.add_argument('--no-build', action='store_true')
    ap.add_argument('--sub', default='',
                    help='internal: secondary run under another PYTHONHASHSEED; tag of its replay files')
    a = ap.parse_args(argv)
    pid = a.pid
    if a.tier not in ('quick', 'thorough'):
        a.tier = 'quick'
    mod = importlib.import_module(f'harness.props.{pid}')
    if a.replay:
        return mod.replay(json.load(open(a.replay)))
    ctx = Ctx(pid, a.tier, a.seed)
    t0 = time.time()
    with Lock():
        if not a.no_build:
            regenerate(ctx)
            rc, out = build()
            if rc != 0 or re.search(r'^Error|\nError', out):
                ctx.obligation_broken('coq build', out)
        if a.sub:
            obl = dict(theorems=[], discharged=0, assumptions={}, forbidden_scan=None)
        else:
            obl = check_obligations(ctx)
    t_build = time.time() - t0
    # property-specific streams and oracle
    try:
        mod.run(ctx)
    except Exception as e:  # noqa: B902
        import traceback
        ctx.obligation_broken('harness error', traceback.format_exc())
    mism = run_correspondence(ctx)
    # ---- verdict ----
    lines_out = []
    exit_code = 0
    for k in ctx.known:
        lines_out.append(f'KNOWN-FINDING: property={pid} {k["key"]} {k["what"]}')
    nviol = 0
    for v in ctx.violations[:5]:
        p = write_replay(pid, f'{a.sub}input_{nviol}', dict(
            property=pid, kind='input', key=v['key'], what=v['what'],
            case=v['case'], seed=a.seed, tier=a.tier,
            hashseed=os.environ.get('PYTHONHASHSEED')))
        lines_out.append(f'VIOLATION property={pid} replay={p}')
        nviol += 1
        exit_code = 1
    found_input = bool(ctx.violations)
    if mism and hasattr(mod, 'search'):
        # focused search for a failing input around the mismatching case
        for (s, j, g) in mism[:3]:
            try:
                mod.search(ctx, s, j)
            except Exception:  # noqa: B902
                pass
        for v in ctx.violations[nviol:nviol + 3]:
            p = write_replay(pid, f'{a.sub}input_{nviol}', dict(
                property=pid, kind='input', key=v['key'], what=v['what'],
                case=v['case'], seed=a.seed, tier=a.tier,
                hashseed=os.environ.get('PYTHONHASHSEED')))
            lines_out.append(f'VIOLATION property={pid} replay={p}')
            nviol += 1
            exit_code = 1
            found_input = True
    if (mism or ctx.broken) and not found_input:
        from . import session as S
        payload = dict(property=pid, kind='obligation', seed=a.seed, tier=a.tier,
                       broken=ctx.broken, correspondence=[])
        for (s, j, g) in mism[:3]:
            small, ok = shrink(s.lines[:j + 1], s.full)
            payload['correspondence'].append(dict(
                stream=getattr(s, 'label', ''),
                first_differing_line=s.lines[j] if j < len(s.lines) else None,
                difference=S.explain(s.expect[j] if j < len(s.expect) else None,
                                     g[j] if j < len(g) else None),
                shrunk_case=small, shrunk=ok))
        name = a.sub + ('correspondence' if mism else 'obligation')
        p = write_replay(pid, name, payload)
        lines_out.append(
            f'VIOLATION property={pid} replay={p} no-failing-input-found')
        exit_code = 1
    elif (mism or ctx.broken):
        # a failing input was found; still record what broke
        write_replay(pid, 'broken', dict(property=pid, broken=ctx.broken,
                                         mismatches=len(mism)))
    # ---- the same streams under other hash seeds (set/dict iteration orders of the
    # implementation change: sifting visits the variables in set order) ----
    hash_runs = []
    if a.tier == 'thorough' and pid in HASHSEED_PROPS and not a.sub:
        import subprocess
        for hs in (1, 2, 3):
            env = dict(os.environ, PYTHONHASHSEED=str(hs))
            q = subprocess.run([sys.executable, '-W', 'ignore', '-c',
                                'import sys; from harness.framework import main; sys.exit(main())',
                                pid, '--tier', 'quick', '--seed', str(1000 + hs), '--no-build',
                                '--sub', f'hs{hs}_'],
                               env=env, capture_output=True, text=True, timeout=7200)
            outl = [l for l in q.stdout.split('\n') if l.strip()]
            hash_runs.append(dict(hashseed=hs, exit=q.returncode, summary=outl[-1] if outl else q.stderr[-300:]))
            for l in outl:
                if l.startswith('VIOLATION'):
                    lines_out.append(l)
                    exit_code = 1
                    nviol += 1
                elif l.startswith('KNOWN-FINDING') and l not in lines_out:
                    lines_out.append(l)
            if q.returncode not in (0, 1):
                lines_out.append(f'VIOLATION property={pid} replay={write_replay(pid, f"hs{hs}_crash", dict(property=pid, kind="obligation", stderr=q.stderr[-3000:]))} no-failing-input-found')
                exit_code = 1
    if a.sub:
        for l in lines_out:
            print(l)
        print(f'{pid} sub-run hashseed={os.environ.get("PYTHONHASHSEED")}: sessions={len(ctx.sessions)} '
              f'lines={ctx.stats.get("model_lines_compared", 0)} evaluations={ctx.evaluations} '
              f'mismatches={len(mism)} violations={nviol} exit={exit_code}')
        return exit_code
    # ---- evidence ----
    wall = time.time() - t0
    cov = dict(
        obligations=max(1, len(obl['theorems'])) if obl['theorems'] else 1,
        discharged=obl['discharged'],
        checker_cmd=f'cd /verif/coq && make -f Makefile.coq Properties/{pid}*.vo '
                    f'&& coqc Print Assumptions (per theorem); ./check {pid} --tier {a.tier}',
        trusted_base=TRUSTED_BASE + list(getattr(mod, 'TRUSTED', [])),
        theorems=obl['theorems'],
        assumptions=obl['assumptions'],
        forbidden_scan=obl.get('forbidden_scan'),
        evaluations=ctx.evaluations,
        distinct_nontrivial=len(ctx.distinct),
        rule=getattr(mod, 'RULE', ''),
        samples=ctx.samples or [s.lines[:12] for s in ctx.sessions[:2]],
        traces_validated_against_impl=len(ctx.sessions),
        model_lines_compared=ctx.stats.get('model_lines_compared', 0),
        correspondence_mismatches=len(mism),
        broken_obligations=[b['name'] for b in ctx.broken],
        known_findings=[k['key'] for k in ctx.known],
        histogram={k: v for k, v in sorted(ctx.stats.items())},
        exhaustive=bool(getattr(mod, 'EXHAUSTIVE', {}).get(a.tier, False)),
        build_s=round(t_build, 1),
        hash_seed_runs=hash_runs,
    )
    ev = dict(property_id=pid, tier=a.tier, seed=a.seed, level='proof',
              coverage=cov, assumptions=list(getattr(mod, 'ASSUMES', [])),
              wall_s=round(wall, 1), violations=nviol + (1 if exit_code and not nviol else 0))
    os.makedirs(EVIDENCE, exist_ok=True)
    with open(os.path.join(EVIDENCE, f'{pid}.json'), 'w') as f:
        json.dump(ev, f, indent=1, default=str)
    for l in lines_out:
        print(l)
    print(f'{pid} {a.tier}: theorems={len(obl["theorems"])} discharged={obl["discharged"]} '
          f'sessions={len(ctx.sessions)} lines={ctx.stats.get("model_lines_compared", 0)} '
          f'evaluations={ctx.evaluations} mismatches={len(mism)} '
          f'violations={nviol} known={len(ctx.known)} wall={wall:.0f}s exit={exit_code}')
    return exit_code
