"""Shared generators: functions from truth tables, aged managers."""
import itertools

ALIASES = {
    'not': ['~', 'not', '!'],
    'and': ['and', '/\\', '&', '&&'],
    'or': ['or', '\\/', '|', '||'],
    'xor': ['#', 'xor', '^'],
    'implies': ['=>', '->', 'implies'],
    'equiv': ['<=>', '<->', 'equiv'],
    'diff': ['diff', '-'],
}


def conn(name, a, b, full):
    """connective on truth-table masks"""
    if name == 'and':
        return a & b
    if name == 'or':
        return a | b
    if name == 'xor':
        return a ^ b
    if name == 'implies':
        return (~a & full) | b
    if name == 'equiv':
        return ~(a ^ b) & full
    if name == 'diff':
        return a & ~b & full
    raise ValueError(name)


def build_tt(s, m, tt, names):
    """Build the function with truth table `tt` over variable ids `names`
    (first id = most significant choice) through session ops; returns a ref
    or None when an op was rejected."""
    n = len(names)

    def go(j, lo, hi):
        if j == n:
            return 1 if (tt >> lo) & 1 else -1
        mid = (lo + hi) // 2
        f0 = go(j + 1, lo, mid)
        f1 = go(j + 1, mid, hi)
        if f0 is None or f1 is None:
            return None
        if f0 == f1:
            return f0
        x = s.op(m, 'var', names[j])
        if x is None:
            return None
        return s.op(m, 'ite', x, f1, f0)
    return go(0, 0, 1 << n)


def orders(n):
    return list(itertools.permutations(range(n)))


def age(s, m, rng, nv, steps=12, held=None):
    """Random prior history: builds, collections (freed and re-used node
    numbers), warm ite cache, swaps.  `held`: list of refs with an incref
    (kept alive); returns it."""
    held = [] if held is None else held
    full = (1 << (1 << nv)) - 1
    names = list(range(nv))
    last = None
    for _ in range(steps):
        k = rng.random()
        if k < 0.45:
            u = build_tt(s, m, rng.randrange(full + 1), names)
            last = u if (u is not None and abs(u) != 1) else None
            if u is not None and rng.random() < 0.5:
                s.op(m, 'incref', u)
                held.append(u)
        elif k < 0.6:
            s.op(m, 'gc', None)
            last = None
        elif k < 0.65 and last is not None:
            # a rooted collection that names the latest (possibly unreferenced) result
            s.op(m, 'gc', [last])
            last = None
        elif k < 0.75 and nv >= 2:
            x = rng.randrange(nv - 1)
            s.op(m, 'swap', x, x + 1)
            last = None
        elif k < 0.85 and held:
            u = held.pop(rng.randrange(len(held)))
            s.op(m, 'decref', u)
        else:
            if held:
                a = rng.choice(held)
                b = rng.choice(held)
                s.op(m, 'apply', rng.choice(['and', 'or', 'xor']), a, b, None)
    return held


def reuse_scenarios(ctx, key, label, nv=3, reps=10):
    """Targeted histories around collection and node-number re-use:
    (A) operands held, result dropped, collect, other nodes take the freed
        numbers, the same question is asked again;
    (B) result held, an operand dropped, collect, another function takes the
        operand's number, the same operator is applied to it.
    Every result is checked semantically; every step is compared with the
    model through the session."""
    from . import oracle, tt as T
    from .impl import vname
    rng = ctx.rng
    names = list(range(nv))
    full = T.full(nv)
    for rep in range(reps):
        order = list(names)
        rng.shuffle(order)
        s = ctx.session(f'{label} reuse rep={rep}')
        s.op(0, 'new', {v: l for v, l in zip(names, order)})
        b = s.impl.mgr[0]

        def tt(u):
            return oracle.tt_fast(b, u, [vname(i) for i in names])

        def check(what, r, e):
            if r is None or abs(r) not in b._succ or tt(r) != e:
                got = None if (r is None or abs(r) not in b._succ) else hex(tt(r))
                ctx.violation(key, f'{what}: returned {r} denoting {got}, expected {e:#x}',
                              lambda: dict(stream=s.label, lines=list(s.lines)))
                return False
            return True
        ok = True
        for _ in range(6):
            name = rng.choice(['and', 'or', 'xor', 'implies', 'equiv', 'diff'])
            alias = rng.choice(ALIASES[name])
            ta, tc = rng.randrange(1, full), rng.randrange(1, full)
            a = build_tt(s, 0, ta, names)
            c = build_tt(s, 0, tc, names)
            if a is None or c is None or abs(a) == 1 or abs(c) == 1:
                continue
            e = conn(name, ta, tc, full)
            scenario = rng.choice('AB')
            s.op(0, 'incref', a)
            s.op(0, 'incref', c)
            r = s.op(0, 'apply', alias, a, c, None)
            ok = check(f'{scenario}: first {alias}', r, e) and ok
            if scenario == 'A':
                # full collection, or the ROOTED one that names the dropped result
                if r is not None and abs(r) != 1 and rng.random() < 0.5:
                    s.op(0, 'gc', [r])
                else:
                    s.op(0, 'gc', None)
                # other functions take the freed numbers
                for _ in range(rng.randint(1, 3)):
                    build_tt(s, 0, rng.randrange(full + 1), names)
                r2 = s.op(0, 'apply', alias, a, c, None)
                ok = check(f'A: {alias} asked again after collection and re-use', r2, e) and ok
                s.op(0, 'decref', a)
                s.op(0, 'decref', c)
            else:
                if r is not None and abs(r) != 1:
                    s.op(0, 'incref', r)
                s.op(0, 'decref', a)
                if rng.random() < 0.5:
                    s.op(0, 'gc', [a])
                else:
                    s.op(0, 'gc', None)
                th = rng.randrange(1, full)
                h = build_tt(s, 0, th, names)
                if h is not None:
                    r2 = s.op(0, 'apply', alias, h, c, None)
                    ok = check(f'B: {alias} on a function that re-uses a freed number', r2,
                               conn(name, th, tc, full)) and ok
                if r is not None and abs(r) != 1:
                    s.op(0, 'decref', r)
                s.op(0, 'decref', c)
            ctx.case((label, 'reuse', scenario, alias, ta, tc, tuple(order)), True)
            ctx.count('reuse:' + scenario)
            if not ok:
                break


def undeclare_scenarios(ctx, key, label, quick=True):
    """variables declared, nodes with identical children created in every
    order of their levels, unused variables removed (implicitly and by name):
    the table must stay canonical and building a held function again must
    return the same reference"""
    import itertools
    from . import oracle
    rng = ctx.rng
    n = 4
    cases = []
    for k in (2, 3):
        for used in itertools.combinations(range(n), k):
            for perm in itertools.permutations(used):
                cases.append((used, perm))
    if quick:
        cases = rng.sample(cases, 24)
    cases = [(4, used, perm) for used, perm in cases]
    # wide managers (9-12 levels) with few occupied levels, one of them 8 or more: what a
    # compaction that follows the iteration order of a set of small integers gets wrong
    # (round-22 seed); sets of ints iterate in increasing order below 8
    for _ in range(10 if quick else 80):
        nw = rng.choice([9, 10, 12])
        k = rng.choice([2, 2, 3])
        used = sorted(rng.sample(range(nw), k - 1) + [rng.randrange(8, nw)])
        used = tuple(sorted(set(used)))
        perm = list(used)
        rng.shuffle(perm)
        cases.append((nw, used, tuple(perm)))
    for n, used, perm in cases:
        for explicit in (False, True):
            s = ctx.session(f'{label} undeclare n={n} used={used} created={perm} explicit={explicit}')
            s.op(0, 'new', {v: v for v in range(n)})
            b = s.impl.mgr[0]
            refs = {}
            for v in perm:
                u = s.op(0, 'var', v)
                s.op(0, 'incref', u)
                refs[v] = u
            # a second family with identical children: ite(v, p, q) for two variables
            if len(perm) >= 3:
                lo = max(perm)
                for v in perm:
                    if v != lo:
                        w = s.op(0, 'ite', refs[v], refs[lo], -refs[lo])
                        if w is not None:
                            s.op(0, 'incref', w)
            unused = [v for v in range(n) if v not in used]
            r = s.op(0, 'undeclare', unused if explicit else [])
            case = lambda s=s: dict(stream=s.label, lines=list(s.lines))  # noqa: E731
            ctx.case((label, 'undeclare', n, used, perm, explicit), True)
            ctx.count('undeclare-scenario')
            if r is None:
                ctx.violation(key, f'undeclare_vars refused to remove the unused variables {unused}', case)
                continue
            bad = oracle.check_table(b)
            if bad:
                ctx.violation(key, f'after undeclare_vars: {bad[:2]}', case)
                continue
            for v in perm:
                u2 = s.op(0, 'var', v)
                if u2 != refs[v]:
                    ctx.violation(key, f'var({v}) returned {u2} after undeclare_vars, the held reference is {refs[v]}', case)
                    break
            bad = oracle.check_table(b)
            if bad:
                ctx.violation(key, f'after rebuilding: {bad[:2]}', case)
