"""Shared generators: functions from truth tables, aged managers."""
import itertools

ALIASES = {
    'not': ['~', 'not', '!'],
    'and': ['and', '/\\', '&', '&&'],
    'or': ['or', '\\/', '|', '||'],
    'xor': ['#', 'xor', '^'],
    'implies': ['=>', '->', 'implies'],
    'equiv': ['<=>', '<->', 'equiv'],
    'diff': ['diff', '-'],
}


def conn(name, a, b, full):
    """connective on truth-table masks"""
    if name == 'and':
        return a & b
    if name == 'or':
        return a | b
    if name == 'xor':
        return a ^ b
    if name == 'implies':
        return (~a & full) | b
    if name == 'equiv':
        return ~(a ^ b) & full
    if name == 'diff':
        return a & ~b & full
    raise ValueError(name)


def build_tt(s, m, tt, names):
    """Build the function with truth table `tt` over variable ids `names`
    (first id = most significant choice) through session ops; returns a ref
    or None when an op was rejected."""
    n = len(names)

    def go(j, lo, hi):
        if j == n:
            return 1 if (tt >> lo) & 1 else -1
        mid = (lo + hi) // 2
        f0 = go(j + 1, lo, mid)
        f1 = go(j + 1, mid, hi)
        if f0 is None or f1 is None:
            return None
        if f0 == f1:
            return f0
        x = s.op(m, 'var', names[j])
        if x is None:
            return None
        return s.op(m, 'ite', x, f1, f0)
    return go(0, 0, 1 << n)


def orders(n):
    return list(itertools.permutations(range(n)))


def age(s, m, rng, nv, steps=12, held=None):
    """Random prior history: builds, collections (freed and re-used node
    numbers), warm ite cache, swaps.  `held`: list of refs with an incref
    (kept alive); returns it."""
    held = [] if held is None else held
    full = (1 << (1 << nv)) - 1
    names = list(range(nv))
    for _ in range(steps):
        k = rng.random()
        if k < 0.45:
            u = build_tt(s, m, rng.randrange(full + 1), names)
            if u is not None and rng.random() < 0.5:
                s.op(m, 'incref', u)
                held.append(u)
        elif k < 0.6:
            s.op(m, 'gc', None)
        elif k < 0.75 and nv >= 2:
            x = rng.randrange(nv - 1)
            s.op(m, 'swap', x, x + 1)
        elif k < 0.85 and held:
            u = held.pop(rng.randrange(len(held)))
            s.op(m, 'decref', u)
        else:
            if held:
                a = rng.choice(held)
                b = rng.choice(held)
                s.op(m, 'apply', rng.choice(['and', 'or', 'xor']), a, b, None)
    return held
