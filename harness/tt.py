"""Truth tables as bit masks (independent semantic oracle).

A function of variables 0..n-1 is an int with 2**n bits; bit k is the value
under assignment k, where variable j has value (k >> (n-1-j)) & 1 (variable
0 is the most significant choice), the convention of oracle.tt_fast with
names listed in order 0..n-1.
"""
import functools


@functools.lru_cache(None)
def full(n):
    return (1 << (1 << n)) - 1


@functools.lru_cache(None)
def var(j, n):
    m = 0
    for k in range(1 << n):
        if (k >> (n - 1 - j)) & 1:
            m |= 1 << k
    return m


def neg(t, n):
    return ~t & full(n)


def ite(g, u, v, n):
    return (g & u) | (neg(g, n) & v)


def value(t, k):
    return (t >> k) & 1


def subst(t, n, fn):
    """generic substitution: bit k of the result is bit fn(k) of t"""
    r = 0
    for k in range(1 << n):
        if (t >> fn(k)) & 1:
            r |= 1 << k
    return r


def setbit(k, j, b, n):
    s = n - 1 - j
    return (k | (1 << s)) if b else (k & ~(1 << s))


def getbit(k, j, n):
    return (k >> (n - 1 - j)) & 1


def cofactor(t, n, values):
    """values: dict var -> bool"""
    def fn(k):
        for j, b in values.items():
            k = setbit(k, j, b, n)
        return k
    return subst(t, n, fn)


def exists(t, n, vs):
    r = t
    for j in vs:
        r = cofactor(r, n, {j: False}) | cofactor(r, n, {j: True})
    return r


def forall(t, n, vs):
    r = t
    for j in vs:
        r = cofactor(r, n, {j: False}) & cofactor(r, n, {j: True})
    return r


def vector_compose(t, n, sub):
    """sub: dict var -> truth table; simultaneous"""
    def fn(k):
        k2 = k
        for j, g in sub.items():
            k2 = setbit(k2, j, (g >> k) & 1, n)
        return k2
    return subst(t, n, fn)


def rename(t, n, d):
    """d: dict var -> var; simultaneous (x reads the value of d[x])"""
    def fn(k):
        k2 = k
        for x, y in d.items():
            k2 = setbit(k2, x, getbit(k, y, n), n)
        return k2
    return subst(t, n, fn)


def depends(t, n, j):
    return cofactor(t, n, {j: False}) != cofactor(t, n, {j: True})


def support(t, n):
    return {j for j in range(n) if depends(t, n, j)}


def count(t):
    return bin(t).count('1')
