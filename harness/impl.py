"""Implementation side of the correspondence check.

Runs operations on the real `dd` from /repo, records the iteration orders
the implementation used (the model's oracle tape), and renders results and
manager states in the same canonical text as the extracted model's driver
(`/verif/ocaml/main.ml`).
"""
import os
import sys
import logging
import warnings

REPO = os.environ.get('DD_REPO', '/repo')
if REPO not in sys.path:
    sys.path.insert(0, REPO)
warnings.simplefilter('ignore')
logging.disable(logging.CRITICAL)

import dd  # noqa: E402
import dd.bdd as _b  # noqa: E402

assert os.path.realpath(dd.__file__).startswith(os.path.realpath(REPO)), dd.__file__


def vname(i):
    return f'v{i}'


def vid(name):
    return int(name[1:])


# --------------------------------------------------------------------------
# oracle recording: wrap the places where the implementation iterates over
# Python sets, without changing what it does
# --------------------------------------------------------------------------
class _Rec:
    events = None        # list of lists (tape), or None when not recording
    names_slot = None    # index of the entry being filled by _reorder_var
    last_levels = None
    trig = None          # forced trigger countdown (C09), see patch below
    malloc = None        # MDD: answers of _free.pop()


_orig_swap = _b.BDD.swap
_orig_levels = _b.BDD._levels
_orig_reorder_var = _b._reorder_var
_orig_apply_sifting = _b._apply_sifting
_orig_request = _b._request_reordering


def _resolve(self, x, y):
    """levels (a < c) that `swap` will work on, or None"""
    try:
        xx = self.vars[x] if x in self.vars else x
        yy = self.vars[y] if y in self.vars else y
        if not isinstance(xx, int) or not isinstance(yy, int):
            return None
        return (min(xx, yy), max(xx, yy))
    except Exception:
        return None


def _swap(self, x, y, all_levels=None):
    rec = _Rec.events
    if rec is None or self._last_len is not None:
        # (with reordering requests enabled, swap first disables them and calls
        # itself again: the orders are recorded in that inner call)
        return _orig_swap(self, x, y, all_levels)
    ac = _resolve(self, x, y)
    if all_levels is not None:
        if ac is not None and ac[0] in all_levels and ac[1] in all_levels:
            rec.append(list(all_levels[ac[0]]))
            rec.append(list(all_levels[ac[1]]))
        return _orig_swap(self, x, y, all_levels)
    # all_levels is None: the sets are created inside; read them afterwards
    _Rec.last_levels = None
    slot = len(rec)
    rec.append(None)
    rec.append(None)
    try:
        return _orig_swap(self, x, y, None)
    finally:
        lv = _Rec.last_levels
        if (lv is not None and ac is not None and
                ac[0] in lv and ac[1] in lv):
            rec[slot] = lv[ac[0]]
            rec[slot + 1] = lv[ac[1]]


def _levels(self):
    r = _orig_levels(self)
    if _Rec.events is not None:
        _Rec.last_levels = {i: list(s) for i, s in r.items()}
    return r


def _apply_sifting(bdd):
    if _Rec.events is not None:
        # placeholder for the visiting order of `set(bdd.vars)`; it sits
        # after nothing else: the model pops it before any swap order
        _Rec.names_slot = len(_Rec.events)
        slot = []
        _Rec.events.append(slot)
        try:
            return _orig_apply_sifting(bdd)
        finally:
            # a pass that is aborted (a swap refused by a full table) has not visited
            # every variable: the model pops the WHOLE order first, so the variables that
            # were never reached are appended (their order cannot matter)
            seen = set(slot)
            for v in sorted(vid(x) + 1 for x in bdd.vars):
                if v not in seen:
                    slot.append(v)
    return _orig_apply_sifting(bdd)


def _reorder_var(bdd, var, levels):
    if _Rec.events is not None and _Rec.names_slot is not None:
        _Rec.events[_Rec.names_slot].append(vid(var) + 1)
    return _orig_reorder_var(bdd, var, levels)


def _request_reordering(bdd):
    if _Rec.trig is None:
        return _orig_request(bdd)
    if bdd._last_len is None:
        return
    t = getattr(bdd, '_verif_trig', None)
    if t is not None and t > 0:
        if t == 1:
            bdd._verif_trig = None
            raise _b._NeedsReordering()
        bdd._verif_trig = t - 1
    return _orig_request(bdd)


def _install_mdd():
    import dd.mdd as _m
    orig = _m.MDD._allocate

    def _allocate(self):
        had_free = bool(self._free)
        u = orig(self)
        if had_free and _Rec.malloc is not None:
            _Rec.malloc.append(u)
        return u
    _m.MDD._allocate = _allocate


def install():
    _install_mdd()
    _b.BDD.swap = _swap
    _b.BDD._levels = _levels
    _b._reorder_var = _reorder_var
    _b._apply_sifting = _apply_sifting


def install_trigger(on=True):
    """Replace `_request_reordering` by the counting variant (C09)."""
    _Rec.trig = True if on else None
    _b._request_reordering = _request_reordering if on else _orig_request


install()


# --------------------------------------------------------------------------
# canonical text
# --------------------------------------------------------------------------
def show_value(v):
    if v is None:
        return '()'
    if isinstance(v, bool):
        return 'T' if v else 'F'
    if isinstance(v, int):
        return str(v)
    if isinstance(v, (list, tuple)):
        return '[' + ','.join(show_value(x) for x in v) + ']'
    if isinstance(v, (set, frozenset)):
        return '[' + ','.join(show_value(x) for x in sorted(v)) + ']'
    if isinstance(v, str):
        return v
    raise TypeError(v)


def _t3(t):
    i, v, w = t
    return f'({i},{0 if v is None else v},{0 if w is None else w})'


def digest(b, vars_view=None):
    """`vars_view`: the `vars` attribute as the user sees it (dd.autoref keeps
    its own alias of the wrapped manager's dict)"""
    succ = ';'.join(f'{u}:{_t3(t)}' for u, t in sorted(b._succ.items()))
    pred = ';'.join(
        f'{_t3(t)}:{u}' for t, u in sorted(
            b._pred.items(),
            key=lambda kv: (kv[0][0], kv[0][1] or 0, kv[0][2] or 0)))
    ref = ';'.join(f'{u}:{r}' for u, r in sorted(b._ref.items()))
    ite = ';'.join(
        f'({g},{u},{v}):{w}' for (g, u, v), w in sorted(b._ite_table.items()))
    vars_ = ';'.join(
        f'{k}:{l}' for k, l in sorted(
            (vid(k), l) for k, l in (b.vars if vars_view is None else vars_view).items()))
    l2v = ';'.join(
        f'{l}:{k}' for l, k in sorted(
            (l, vid(k)) for l, k in b._level_to_var.items()))
    ll = 'none' if b._last_len is None else str(b._last_len)
    ctx = 'T' if b._reordering_context else 'F'
    mx = 'none' if b.max_nodes == sys.maxsize else str(b.max_nodes)
    return (f'succ={{{succ}}} pred={{{pred}}} ref={{{ref}}} mf={b._min_free} '
            f'ite={{{ite}}} vars={{{vars_}}} l2v={{{l2v}}} ll={ll} ctx={ctx} mx={mx}')


class Extra:
    """result of an operation whose case line gets extra (oracle) arguments
    that are known only after the implementation ran"""
    def __init__(self, value, extra):
        self.value = value
        self.extra = extra


class Raw(str):
    """a value already rendered in canonical text"""


def _graph_value(nodes, edges, refs, labels):
    def srt(items):
        return sorted(set(items))
    n = srt(f'[{u},{l}]' for u, l in nodes)
    e = srt(f'[{u},{v},{"T" if a else "F"},{"T" if c else "F"}]' for u, v, a, c in edges)
    r = srt(str(u) for u in refs)
    lb = srt(f'[{u},{"()" if v is None else v}]' for u, v in labels)
    return Raw('[[' + ','.join(n) + '],[' + ','.join(e) + '],[' + ','.join(r) + '],[' + ','.join(lb) + ']]')


def parse_dot(text):
    """DOT text written by dd._utils.DotGraph -> abstract graph value.
    Legend (doc.md): solid = then, dashed = else, taillabel -1 = complement,
    nodes labelled `<var>-<id>`, layer nodes "L<level>", references "ref<u>"."""
    import re
    nodes, edges, refs, labels = [], [], [], []
    layer = None
    level_of = {}
    node_re = re.compile(r'^\s*("?[\w@.-]+"?) \[(.*)\];\s*$')
    edge_re = re.compile(r'^\s*("?[\w@.-]+"?) -> ("?[\w@.-]+"?) \[(.*)\];\s*$')
    cur_layer = None
    for line in text.split('\n'):
        m = edge_re.match(line)
        if m:
            u, v, attr = m.groups()
            at = dict(re.findall(r'(\w+)="([^"]*)"', attr))
            if at.get('style') == 'invis':
                continue
            if u.startswith('"ref'):
                r = int(u.strip('"')[3:])
                if (at.get('taillabel') == '-1') != (r < 0) or int(v) != abs(r) or at.get('style') != 'dashed':
                    raise AssertionError(f'reference edge {line}')
                refs.append(r)
                continue
            solid = at.get('style') == 'solid'
            if not solid and at.get('style') != 'dashed':
                raise AssertionError(line)
            edges.append((int(u), int(v), solid, at.get('taillabel') == '-1'))
            continue
        m = node_re.match(line)
        if m:
            u, attr = m.groups()
            at = dict(re.findall(r'(\w+)="([^"]*)"', attr))
            if u.startswith('"L'):
                cur_layer = int(u.strip('"')[1:])
                continue
            if u.startswith('"ref'):
                if cur_layer != -1:
                    raise AssertionError(f'reference node outside the ref layer: {line}')
                continue
            var, _, ident = at['label'].rpartition('-')
            if int(ident) != int(u):
                raise AssertionError(line)
            nodes.append((int(u), cur_layer))
            labels.append((int(u), None if var == 'True' else vid(var)))
    return _graph_value(nodes, edges, refs, labels)


class Spellings(list):
    """token spellings of a formula (hex-encoded in the case line)"""


_ply_parser = [None]


class Text(str):
    """raw text of a formula (hex-encoded in the case line)"""


def ply_tokens(text):
    """tokens of the implementation's lexer, rendered like the model's [show_tokens]"""
    import dd._parser as P
    lx = P.Lexer()
    lx.lexer.input(str(text))
    out = []
    while True:
        t = lx.lexer.token()
        if t is None:
            break
        out.append(f'{t.type}:{t.value}')
    return ' '.join(out)


def ply_tree(spellings):
    """syntax tree of the implementation's parser, rendered like the
    model's [show_ast]"""
    import dd._parser as P
    if _ply_parser[0] is None:
        _ply_parser[0] = P.Parser()
    t = _ply_parser[0].parse(str(spellings) if isinstance(spellings, Text) else ' '.join(spellings))

    def show(t):
        if hasattr(t, 'operands'):
            op, xs = t.operator, t.operands
            if op in ('\\A', '\\E'):
                names, e = xs
                return f'({op} [{" ".join(n.value for n in names)}] {show(e)})'
            if op == '\\S':
                e, subs = xs
                return '(\\S [' + ' '.join(f'{new.value}/{old.value}' for old, new in subs) + f'] {show(e)})'
            return '(' + ' '.join([op] + [show(x) for x in xs]) + ')'
        if t.type == 'bool':
            return 'T' if t.value.lower() == 'true' else 'F'
        if t.type == 'num':
            return '@' + str(int(t.value))
        return t.value
    return show(t)


def dddmp_text(header, nodes):
    """text-mode DDDMP file from the structured header and node lines"""
    nv, vi, ordv, sup, ns, ids, perm, aux, nr, roots, nn = header
    out = ['.ver DDDMP-2.0', '.mode A', f'.varinfo {vi}']
    # optional header lines that do not change the contents: a diagram name (every third
    # file, decided by the contents so that a case replays identically)
    if (nn + nr + ns) % 3 == 0:
        out.append('.dd diagram_%d' % nn)
    out += [f'.nnodes {nn}', f'.nvars {nv}', f'.nsuppvars {ns}']
    if sup is not None:
        out.append('.suppvarnames ' + ' '.join(vname(v) for v in sup))
    if ordv is not None:
        out.append('.orderedvarnames ' + ' '.join(vname(v) for v in ordv))
    out.append('.ids ' + ' '.join(map(str, ids)))
    out.append('.permids ' + ' '.join(map(str, perm)))
    if aux is not None:
        out.append('.auxids ' + ' '.join(map(str, aux)))
    out.append(f'.nroots {nr}')
    out.append('.rootids ' + ' '.join(map(str, roots)))
    out.append('.nodes')
    for (u, info, t, e) in nodes:
        if info == 'T':
            i, idx = 'T', 1
        elif info[0] == 'i':
            i, idx = info[1:], 0
        else:
            i, idx = vname(int(info[1:])), 0
        out.append(f'{u} {i} {idx} {t} {e}')
    out.append('.end')
    return '\n'.join(out) + '\n'


class DNodes(list):
    """body lines of a DDDMP file: (id, info, then, else)"""


class JNodes(list):
    """node lines of a JSON dump: (id, level, low, high); low/high are
    'T', 'F' or signed ids"""


def fmt_arg(a):
    if isinstance(a, (DNodes, JNodes)):
        return '[' + ','.join(f'{u}:{i}:{t}:{e}' for u, i, t, e in a) + ']'
    if isinstance(a, Text):
        return 'x' + a.encode().hex()
    if isinstance(a, Spellings):
        return '[' + ','.join(x.encode().hex() for x in a) + ']'
    if a is None:
        return 'none'
    if isinstance(a, bool):
        return '1' if a else '0'
    if isinstance(a, int):
        return str(a)
    if isinstance(a, str):
        return a
    if isinstance(a, dict):
        return '[' + ','.join(f'{fmt_arg(k)}:{fmt_arg(v)}' for k, v in a.items()) + ']'
    if isinstance(a, (list, tuple)):
        return '[' + ','.join(fmt_arg(x) for x in a) + ']'
    raise TypeError(a)


class ByName:
    """marks a key container given by variable names (ids) or by levels"""
    def __init__(self, byname):
        self.byname = byname

    def __repr__(self):
        return 'n' if self.byname else 'l'


N = 'n'
L = 'l'


def _keys(kind, ks):
    return [vname(k) for k in ks] if kind == N else list(ks)


def _dict(kind, d):
    return {(vname(k) if kind == N else k): v for k, v in d.items()}


class _in_dir:
    """dd._copy creates its shelve directory in the current directory"""
    def __init__(self, d):
        self.d = d

    def __enter__(self):
        import os
        self.old = os.getcwd()
        os.chdir(self.d)

    def __exit__(self, *exc):
        import os
        os.chdir(self.old)


def read_json_dump(fn):
    """(levels {vid: level} in file order, roots, JNodes) of a file written by dd._copy.dump_json"""
    import json

    def ref(x):
        return x if x in ('T', 'F') else int(x)
    lv, rt, ns = None, None, JNodes()
    for line in open(fn):
        line = line.rstrip()
        if line in ('{', '}'):
            continue
        d = json.loads('{' + line.rstrip(',') + '}')
        (k, v), = d.items()
        if k == 'level_of_var':
            lv = {vid(x): l for x, l in v.items()}
        elif k == 'roots':
            rt = {vid(x): u for x, u in v.items()} if isinstance(v, dict) else list(v)
        else:
            ns.append((int(k), int(v[0]), ref(v[1]), ref(v[2])))
    return lv, rt, ns


def write_json_dump(fn, lv, rt, ns):
    """the text dd._copy.dump_json writes for these contents"""
    import json

    def ref(x):
        return f'"{x}"' if x in ('T', 'F') else str(x)
    roots = {vname(k): u for k, u in rt.items()} if isinstance(rt, dict) else list(rt)
    with open(fn, 'w') as fd:
        fd.write('{')
        fd.write('\n"level_of_var": ' + json.dumps({vname(v): l for v, l in lv.items()}) +
                 ',\n"roots": ' + json.dumps(roots))
        for k, l, lo, hi in ns:
            fd.write(f',\n"{k}": [{l}, {ref(lo)}, {ref(hi)}]')
        fd.write('\n}\n')


class Impl:
    """Executes operations on real managers; one method per operation name,
    with the same argument conventions as the driver's text format.
    Manager ids that are strings 'a<k>' denote dd.autoref managers."""

    def __init__(self):
        self.mgr = dict()
        self.amgr = dict()      # 'a0' -> dd.autoref.BDD
        self.mmgr = dict()      # 'm0' -> dd.mdd.MDD
        self.handles = dict()   # 'a0' -> {hid: Function}
        self.next_hid = dict()
        self._vl_calls = 0
        self.vl_always = True    # explicit total orders travel through `var_levels` (client idiom)

    def close(self):
        for b in self.mgr.values():
            b._ref = {1: 0}
        self.mgr = dict()
        self._rm_tmp()
        for k, hs in self.handles.items():
            for f in hs.values():
                f.node = None          # disarm __del__
        self.handles = dict()
        for a in self.amgr.values():
            a._bdd._ref = {1: 0}
        self.amgr = dict()

    # ---- dd.autoref ----
    def _h(self, m, f):
        """register a Function returned to the user; an object that is
        already a handle keeps its id"""
        if f is None:
            return None
        for hid, g in self.handles[m].items():
            if g is f:
                return hid
        hid = self.next_hid[m]
        self.next_hid[m] = hid + 1
        self.handles[m][hid] = f
        return hid

    def arun(self, m, name, *args):
        import dd.autoref as _a
        H = self.handles.get(m)
        a = self.amgr.get(m)

        def F(h):
            return None if h is None else H[h]
        if name == 'new':
            old = self.amgr.get(m)
            if old is not None:
                for f in self.handles[m].values():
                    f.node = None
                old._bdd._ref = {1: 0}
            self.amgr[m] = _a.BDD({vname(k): l for k, l in args[0].items()})
            self.handles[m] = dict()
            self.next_hid[m] = 0
            return None
        if name == 'declare':
            return a.declare(*[vname(v) for v in args[0]])
        if name == 'add_var':
            v, l = args
            return a.add_var(vname(v)) if l is None else a.add_var(vname(v), l)
        if name == 'var':
            return self._h(m, a.var(vname(args[0])))
        if name == 'true':
            return self._h(m, a.true)
        if name == 'false':
            return self._h(m, a.false)
        if name == 'apply':
            o, u, v, w = args
            return self._h(m, a.apply(o, F(u), F(v), F(w)))
        if name == 'ite':
            return self._h(m, a.ite(*[F(x) for x in args]))
        if name == 'let_bool':
            return self._h(m, a.let({vname(k): v for k, v in args[0].items()}, F(args[1])))
        if name == 'let_ref':
            return self._h(m, a.let({vname(k): F(v) for k, v in args[0].items()}, F(args[1])))
        if name == 'let_name':
            return self._h(m, a.let({vname(k): vname(v) for k, v in args[0].items()}, F(args[1])))
        if name == 'quantify':
            # (a one-shot iterator: `qvars` is documented as an iterable)
            if len(args[1]) % 2 == 1:
                fn = a.forall if args[2] else a.exist
                return self._h(m, fn((vname(k) for k in args[1]), F(args[0])))
            return self._h(m, a.quantify(F(args[0]), (vname(k) for k in args[1]), args[2]))
        if name == 'cube':
            d_ = args[0]
            if d_ and all(v is True for v in d_.values()) and len(d_) % 2 == 0:
                return self._h(m, a.cube(vname(k) for k in d_))
            return self._h(m, a.cube({vname(k): v for k, v in d_.items()}))
        if name == 'find_or_add':
            return self._h(m, a.find_or_add(vname(args[0]), F(args[1]), F(args[2])))
        if name == 'support':
            return {vid(x) for x in a.support(F(args[0]))}
        if name == 'count':
            # the read-only enumeration wrappers on the way: an iterator that is never
            # advanced, one abandoned after its first item, one consumed; none of them
            # may leave a trace in the manager (the state is compared after this call)
            f = F(args[0])
            it = a.pick_iter(f)
            del it
            it = a.pick_iter(f)
            first = next(it, None)
            del it
            models = list(a.pick_iter(f))
            one = a.pick(f)
            if (first is None) != (not models) or (one is None) != (not models):
                raise AssertionError('pick / pick_iter disagree about satisfiability')
            if models and a.count(f) != len(models):
                raise AssertionError('count differs from the number of assignments of pick_iter')
            del f
            return a.count(F(args[0]), args[1])
        if name in ('image', 'preimage'):
            t, s, rn, q, fa = args
            fn = _a.image if name == 'image' else _a.preimage
            return self._h(m, fn(F(t), F(s), {vname(k): vname(v) for k, v in rn.items()},
                                 {vname(k) for k in q}, fa))
        if name == 'fapply':
            o, u, v = args
            f = F(u)
            if o == 'not':
                r = ~f
            elif o == 'and':
                r = f & F(v)
            elif o == 'or':
                r = f | F(v)
            elif o == 'implies':
                r = f.implies(F(v))
            elif o == 'equiv':
                r = f.equiv(F(v))
            else:
                r = f._apply(o, F(v))
            return self._h(m, r)
        if name == 'eq':
            r = F(args[0]) == F(args[1])
            if r and hash(F(args[0])) != hash(F(args[1])):
                raise AssertionError('equal Functions with different hashes')
            return r
        if name == 'ne':
            return F(args[0]) != F(args[1])
        if name == 'le':
            return F(args[0]) <= F(args[1])
        if name == 'lt':
            return F(args[0]) < F(args[1])
        if name == 'low':
            return self._h(m, F(args[0]).low)
        if name == 'high':
            return self._h(m, F(args[0]).high)
        if name == 'succ':
            i, v, w = a.succ(F(args[0]))
            return [i, self._h(m, v), self._h(m, w)]
        if name == 'level':
            return F(args[0]).level
        if name == 'varof':
            v = F(args[0]).var
            return None if v is None else vid(v)
        if name == 'ref':
            return F(args[0]).ref
        if name == 'negated':
            return F(args[0]).negated
        if name == 'len':
            f = F(args[0])
            if f.dag_size != len(f):
                raise AssertionError('Function.dag_size differs from len(Function)')
            return len(f)
        if name == 'int':
            return int(F(args[0]))
        if name == 'drop':
            f = H.pop(args[0])
            # the only reference to the object: dies here
            del f
            return None
        if name == 'gc':
            return a.collect_garbage()
        if name == 'reorder':
            o = args[0]
            if o is not None:
                o = {vname(k): l for k, l in o.items()}
                self._vl_calls += 1
                if set(o) == set(a.vars) and (self.vl_always or self._vl_calls % 2 == 0):
                    vl = a.var_levels     # (see op_reorder)
                    for k in list(vl):
                        vl[k] = o[k]
                    o = vl
            return _a.reorder(a, o)
        if name == 'configure':
            if args[0] is None:
                return a.configure()['reordering']
            return a.configure(reordering=args[0])['reordering']
        if name == 'set_last_len':
            a._bdd._last_len = args[0]
            return None
        if name == 'set_trig':
            a._bdd._verif_trig = args[0]
            return None
        if name == 'set_max_nodes':
            # the node limit of the wrapped manager: attribute assignment, as on a
            # `dd.bdd.BDD` (`None` stands for the default)
            a._bdd.max_nodes = sys.maxsize if args[0] is None else args[0]
            return None
        if name == 'copy':
            src, u = args
            srcm = 'a%d' % src
            f = self.handles[srcm][u]
            if srcm == m or u % 2:
                # the module-level function (for a copy into the SAME manager it returns a
                # new handle on the same node, which is what the model's copy does; the
                # method `BDD.copy` would return the argument itself)
                return self._h(m, _a.copy_bdd(f, a))
            return self._h(m, self.amgr[srcm].copy(f, a))
        if name == 'assert_consistent':
            return a.assert_consistent()
        if name == 'copy_bdds_from':
            import dd._copy as _c
            src, hs = args
            srcm = 'a%d' % src
            roots = [self.handles[srcm][h] for h in hs]
            try:
                if len(roots) == 1:
                    # a single root: `copy_bdd(u, target)` with its own (default) memo
                    got = [_c.copy_bdd(roots[0], a)]
                else:
                    got = _c.copy_bdds_from(roots, a)
            finally:
                del roots
            out = [self._h(m, f) for f in got]
            del got
            return out
        if name == 'json_dump':
            roots = args[0]
            if isinstance(roots, dict):
                nodes = {vname(k): H[h] for k, h in roots.items()}
            else:
                nodes = [H[h] for h in roots]
            fn = self._path('dump', '.json')
            with _in_dir(self.tmpdir):
                try:
                    a.dump(fn, nodes)
                finally:
                    del nodes
            lv, rt, ns = read_json_dump(fn)
            return Extra([[[v, l] for v, l in lv.items()],
                          [[k, u] for k, u in rt.items()] if isinstance(rt, dict) else rt,
                          [list(x) for x in ns]], [list(lv)])
        if name == 'json_load':
            import dd._copy as _c
            lv, rt, ns, lo = args
            fn = self._path('load', '.json')
            write_json_dump(fn, lv, rt, ns)
            with _in_dir(self.tmpdir):
                if lo:
                    got = _c.load_json(fn, a, load_order=True)
                else:
                    got = a.load(fn)
            if isinstance(got, dict):
                out = [[vid(k), self._h(m, f)] for k, f in got.items()]
            else:
                out = [self._h(m, f) for f in got]
            del got
            return out
        if name == 'add_expr':
            return self._h(m, a.add_expr(' '.join(args[0])))
        if name in ('add_expr_text', 'add_expr_lr'):
            return self._h(m, a.add_expr(str(args[0])))
        if name == 'to_expr':
            f = F(args[0])
            e = a.to_expr(f)
            if f.to_expr() != e:
                raise AssertionError('Function.to_expr differs from BDD.to_expr')
            str(f)
            str(a)
            return e
        if name == 'shutdown':
            try:
                a._bdd.__del__()
                return True
            except AssertionError:
                return False
        raise KeyError(name)

    def adigest(self, m):
        hs = ';'.join(f'{h}:{f.node}' for h, f in sorted(self.handles[m].items()))
        return digest(self.amgr[m]._bdd, self.amgr[m].vars) + ' handles={' + hs + '}'

    # each op_<name>(b, *args) returns a Python value
    def op_new(self, m, levels):
        old = self.mgr.get(m)
        if old is not None:
            old._ref = {1: 0}
        self.mgr[m] = _b.BDD({vname(k): l for k, l in levels.items()})
        return None

    def op_add_var(self, b, v, l):
        return b.add_var(vname(v), l)

    def op_declare(self, b, vs):
        b.declare(*[vname(v) for v in vs])

    def op_var(self, b, v):
        return b.var(vname(v))

    def op_find_or_add(self, b, i, v, w):
        return b.find_or_add(i, v, w)

    def op_ite(self, b, g, u, v):
        return b.ite(g, u, v)

    def op_apply(self, b, o, u, v, w):
        return b.apply(o, u, v, w)

    def op_incref(self, b, u):
        b.incref(u)

    def op_decref(self, b, u):
        b.decref(u)

    def op_ref(self, b, u):
        return b.ref(u)

    def op_gc(self, b, roots):
        b.collect_garbage(roots)

    def op_swap(self, b, x, y):
        n = len(b.vars)
        if isinstance(x, int) and isinstance(y, int) and 0 <= x < n and 0 <= y < n and (x + y) % 4 == 1:
            # the same call with the variables given by NAME
            return b.swap(b.var_at_level(x), b.var_at_level(y))
        return b.swap(x, y)

    def op_reorder(self, b, order):
        if order is not None:
            order = {vname(k): l for k, l in order.items()}
            self._vl_calls += 1
            if set(order) == set(b.vars) and (self.vl_always or self._vl_calls % 2 == 0):
                # the client idiom: read the order, permute it, hand it back.  The mapping
                # that `var_levels` returns belongs to the caller
                vl = b.var_levels
                for k in list(vl):
                    vl[k] = order[k]
                order = vl
        _b.reorder(b, order)

    def op_reorder_to_pairs(self, b, pairs):
        _b.reorder_to_pairs(b, {vname(k): vname(v) for k, v in pairs.items()})

    def op_configure(self, b, on):
        if on is None:
            return b.configure()['reordering']
        return b.configure(reordering=on)['reordering']

    def op_set_last_len(self, b, l):
        b._last_len = l

    def op_set_trig(self, b, k):
        b._verif_trig = k

    def op_set_roots(self, b, r):
        b.roots = set(r)

    def op_set_max_nodes(self, b, n):
        # the documented way: attribute assignment (`None` stands for the default)
        b.max_nodes = sys.maxsize if n is None else n

    def op_cofactor(self, b, u, kind, values):
        return b.cofactor(u, _dict(kind, values))

    def op_quantify(self, b, u, kind, q, fa):
        # a one-shot iterator: `qvars` is documented as an iterable, and the
        # call may be retried after a dynamic reordering
        ks = list(_keys(kind, q))
        if len(ks) % 2 == 1:
            # the convenience entry points
            return b.forall(iter(ks), u) if fa else b.exist(iter(ks), u)
        return b.quantify(u, iter(ks), forall=fa)

    def op_compose(self, b, u, sub):
        return b.compose(u, {vname(k): g for k, g in sub.items()})

    def op_rename(self, b, u, d):
        return b.rename(u, {vname(k): vname(v) for k, v in d.items()})

    def op_let_bool(self, b, d, u):
        return b.let({vname(k): v for k, v in d.items()}, u)

    def op_let_ref(self, b, d, u):
        return b.let({vname(k): v for k, v in d.items()}, u)

    def op_let_name(self, b, d, u):
        return b.let({vname(k): vname(v) for k, v in d.items()}, u)

    def op_cube(self, b, d):
        if d and all(v is True for v in d.values()) and len(d) % 2 == 0:
            # a conjunction of positive literals may be given as a set of names
            # (as a one-shot iterator: the parameter is documented as an iterable, and the
            # call may be retried after a dynamic reordering)
            return b.cube(vname(k) for k in d)
        return b.cube({vname(k): v for k, v in d.items()})

    def op_copy(self, b, src, u):
        return self.mgr[src].copy(u, b)

    def op_image(self, b, t, s, kind, rn, qkind, q, fa):
        if kind == N:
            rn = {vname(k): vname(v) for k, v in rn.items()}
        return _b.image(t, s, rn, _keys(qkind, q), b, fa)

    def op_preimage(self, b, t, s, kind, rn, qkind, q, fa):
        if kind == N:
            rn = {vname(k): vname(v) for k, v in rn.items()}
        return _b.preimage(t, s, rn, _keys(qkind, q), b, fa)

    def op_support(self, b, u):
        return {vid(x) for x in b.support(u)}

    def op_is_essential(self, b, u, v):
        return b.is_essential(u, vname(v))

    def op_count(self, b, u, n):
        return b.count(u, n)

    def op_pick_iter(self, b, u, care):
        c = None if care is None else {vname(k) for k in care}
        out = [sorted((vid(k), v) for k, v in d.items()) for d in b.pick_iter(u, c)]
        out.sort(key=show_value)
        return out

    def op_pick(self, b, u, care):
        c = None if care is None else {vname(k) for k in care}
        d = b.pick(u, c)
        return None if d is None else sorted((vid(k), v) for k, v in d.items())

    def op_undeclare(self, b, vs):
        return {vid(x) for x in b.undeclare_vars(*[vname(v) for v in vs])}

    def op_descendants(self, b, roots):
        return b.descendants(roots)

    def op_succ(self, b, u):
        i, v, w = b.succ(u)
        return [i, 0 if v is None else v, 0 if w is None else w]

    def op_level_of_var(self, b, v):
        return b.level_of_var(vname(v))

    def op_var_at_level(self, b, l):
        return vid(b.var_at_level(l))

    def op_len(self, b):
        return len(b)

    def op_contains(self, b, u):
        return u in b

    # ---- files (pickle) ----
    def _path(self, fid, ext='.p'):
        import os
        import tempfile
        if getattr(self, 'tmpdir', None) is None:
            self.tmpdir = tempfile.mkdtemp(prefix='ddverif')
        return os.path.join(self.tmpdir, f'f{fid}{ext}')

    def _rm_tmp(self):
        import shutil
        if getattr(self, 'tmpdir', None):
            shutil.rmtree(self.tmpdir, ignore_errors=True)
            self.tmpdir = None

    def op_dump(self, b, fid, roots, *oracle):
        import pickle
        fn = self._path(fid)
        if isinstance(roots, dict):
            roots = {vname(k): u for k, u in roots.items()}
        b.dump(fn, roots=roots)
        d = pickle.load(open(fn, 'rb'))
        return Extra(None, [list(d['succ']), [vid(v) for v in d['vars']]])

    def op_load(self, b, fid, levels):
        r = b.load(self._path(fid), levels=levels)
        if isinstance(r, dict):
            return [[vid(k), u] for k, u in r.items()]
        return r

    def op_dump_manager(self, b, fid, *oracle):
        import pickle
        fn = self._path(fid, '.mp')
        b._dump_manager(fn)
        d = pickle.load(open(fn, 'rb'))
        return Extra(None, [[vid(v) for v in d['vars']]])

    def op_load_manager(self, m, fid):
        old = self.mgr.get(m)
        new = _b.BDD._load_manager(self._path(fid, '.mp'))
        if old is not None:
            old._ref = {1: 0}
        self.mgr[m] = new
        return None

    def op_to_nx(self, b, roots):
        g = _b.to_nx(b, set(roots))
        nodes = sorted({(u, d['level']) for u, d in g.nodes(data=True)})
        edges = sorted({(u, v, d['value'], d['complement']) for u, v, d in g.edges(data=True)})
        return _graph_value(nodes, edges, [], [])

    def op_to_dot(self, b, roots):
        import os
        import tempfile
        d = tempfile.mkdtemp(prefix='ddverif')
        fn = os.path.join(d, 'g.dot')
        try:
            b.dump(fn, roots=roots, filetype='dot')
            text = open(fn).read()
        finally:
            try:
                os.remove(fn)
            except OSError:
                pass
            os.rmdir(d)
        return parse_dot(text)

    def op_copy_manager(self, m, src, *oracle):
        import copy
        srcb = self.mgr[src]
        old = self.mgr.get(m)
        new = copy.copy(srcb)
        if old is not None and old is not srcb:
            old._ref = {1: 0}
        self.mgr[m] = new
        return Extra(None, [[vid(v) for v in srcb.vars]])

    def op_reduction(self, m, src, *oracle):
        srcb = self.mgr[src]
        vo = [vid(v) for v in srcb.vars]
        order = list(srcb._succ)
        old = self.mgr.get(m)
        new = srcb.reduction()
        if old is not None and old is not srcb:
            old._ref = {1: 0}
        self.mgr[m] = new
        return Extra(None, [vo, order])

    def op_assert_consistent(self, b):
        return b.assert_consistent()

    def op_shutdown(self, b):
        try:
            b.__del__()
            return True
        except AssertionError:
            return False

    # ---- MDD ----
    def mrun(self, m, name, *args):
        import dd.mdd as _m
        d = self.mmgr.get(m)
        if name == 'new':
            dv = {vname(v): dict(level=l, len=n) for v, (l, n) in args[0].items()}
            self.mmgr[m] = _m.MDD(dv)
            return None
        if name == 'find_or_add':
            return d.find_or_add(args[0], *args[1])
        if name == 'ite':
            return d.ite(*args)
        if name == 'apply':
            return d.apply(*args)
        if name == 'incref':
            return d.incref(args[0])
        if name == 'decref':
            return d.decref(args[0])
        if name == 'ref':
            return d.ref(args[0])
        if name == 'gc':
            return d.collect_garbage()
        raise KeyError(name)

    def mdigest(self, m):
        d = self.mmgr[m]

        def tup(t):
            return '(' + ','.join(str(x) for x in t if x is not None) + ')'
        succ = ';'.join(f'{u}:{tup(t)}' for u, t in sorted(d._succ.items()))
        pred = ';'.join(f'{tup(t)}:{u}' for t, u in sorted(d._pred.items()))
        ref = ';'.join(f'{u}:{r}' for u, r in sorted(d._ref.items()))
        free = ';'.join(str(u) for u in sorted(d._free))
        ite = ';'.join(f'({g},{u},{v}):{w}' for (g, u, v), w in sorted(d._ite_table.items()))
        return (f'succ={{{succ}}} pred={{{pred}}} ref={{{ref}}} max={d._max} '
                f'free={{{free}}} ite={{{ite}}}')

    def op_bdd_to_mdd(self, b, m, dvars, *oracle):
        import dd.mdd as _m
        dv = {vname(v): dict(level=l, len=2 ** len(bits), bitnames=[vname(x) for x in bits])
              for v, (l, bits) in dvars.items()}
        order = []
        orig = b.levels

        def levels(skip_terminals=False):
            for item in orig(skip_terminals):
                order.append(item[0])
                yield item
        b.levels = levels
        try:
            mdd, umap = _m.bdd_to_mdd(b, dv)
        finally:
            del b.levels
        self.mmgr[m] = mdd
        return Extra([[u, x] for u, x in umap.items()], [order])

    # ---- DDDMP ----
    def op_dddmp_load(self, m, header, nodes):
        import dd.dddmp as _d
        text = dddmp_text(header, nodes)
        fn = self._path(0, '.dddmp')
        with open(fn, 'w') as f:
            f.write(text)
        old = self.mgr.get(m)
        b = _d.load(fn)
        if old is not None:
            old._ref = {1: 0}
        self.mgr[m] = b
        return sorted(b.roots)

    # ---- formulas ----
    def op_add_expr(self, b, spellings):
        return b.add_expr(' '.join(spellings))

    def op_add_expr_text(self, b, text):
        return b.add_expr(str(text))

    def op_add_expr_lr(self, b, text):
        return b.add_expr(str(text))

    def op_to_expr(self, b, u):
        return b.to_expr(u)

    def run(self, m, name, *args):
        """Run one operation; return (tape, result_text, raw_value)."""
        _Rec.events = []
        _Rec.malloc = []
        _Rec.names_slot = None
        try:
            r = None
            try:
                if isinstance(m, str) and m.startswith('m'):
                    r = self.mrun(m, name, *args)
                elif isinstance(m, str):
                    r = self.arun(m, name, *args)
                elif name in ('new', 'load_manager', 'dddmp_load', 'copy_manager', 'reduction'):
                    f = getattr(self, 'op_' + name)
                    r = f(m, *args)
                else:
                    f = getattr(self, 'op_' + name)
                    r = f(self.mgr[m], *args)
                res = 'ok:' + show_value(r.value if isinstance(r, Extra) else r)
            except _b._NeedsReordering:
                res = 'err:needs_reordering'
            except RecursionError:
                raise
            except Exception as e:  # noqa: B902
                res = 'err:rejected'
                # keep only the text: the traceback would keep the frames (and
                # the Function objects in them) alive
                self.last_exc = repr(e)
            tape = [t for t in _Rec.events if t is not None]
            if isinstance(m, str) and m.startswith('m'):
                tape = list(_Rec.malloc)
        finally:
            _Rec.events = None
            _Rec.malloc = None
            _Rec.names_slot = None
        return tape, res, r

    def digest(self, m):
        if isinstance(m, str) and m.startswith('m'):
            return self.mdigest(m)
        if isinstance(m, str):
            return self.adigest(m)
        return digest(self.mgr[m])
