"""Implementation side of the correspondence check.

Runs operations on the real `dd` from /repo, records the iteration orders
the implementation used (the model's oracle tape), and renders results and
manager states in the same canonical text as the extracted model's driver
(`/verif/ocaml/main.ml`).
"""
import os
import sys
import logging
import warnings

REPO = os.environ.get('DD_REPO', '/repo')
if REPO not in sys.path:
    sys.path.insert(0, REPO)
warnings.simplefilter('ignore')
logging.disable(logging.CRITICAL)

import dd  # noqa: E402
import dd.bdd as _b  # noqa: E402

assert os.path.realpath(dd.__file__).startswith(os.path.realpath(REPO)), dd.__file__


def vname(i):
    return f'v{i}'


def vid(name):
    return int(name[1:])


# --------------------------------------------------------------------------
# oracle recording: wrap the places where the implementation iterates over
# Python sets, without changing what it does
# --------------------------------------------------------------------------
class _Rec:
    events = None        # list of lists (tape), or None when not recording
    names_slot = None    # index of the entry being filled by _reorder_var
    last_levels = None
    trig = None          # forced trigger countdown (C09), see patch below


_orig_swap = _b.BDD.swap
_orig_levels = _b.BDD._levels
_orig_reorder_var = _b._reorder_var
_orig_apply_sifting = _b._apply_sifting
_orig_request = _b._request_reordering


def _resolve(self, x, y):
    """levels (a < c) that `swap` will work on, or None"""
    try:
        xx = self.vars[x] if x in self.vars else x
        yy = self.vars[y] if y in self.vars else y
        if not isinstance(xx, int) or not isinstance(yy, int):
            return None
        return (min(xx, yy), max(xx, yy))
    except Exception:
        return None


def _swap(self, x, y, all_levels=None):
    rec = _Rec.events
    if rec is None:
        return _orig_swap(self, x, y, all_levels)
    ac = _resolve(self, x, y)
    if all_levels is not None:
        if ac is not None and ac[0] in all_levels and ac[1] in all_levels:
            rec.append(list(all_levels[ac[0]]))
            rec.append(list(all_levels[ac[1]]))
        return _orig_swap(self, x, y, all_levels)
    # all_levels is None: the sets are created inside; read them afterwards
    _Rec.last_levels = None
    slot = len(rec)
    rec.append(None)
    rec.append(None)
    try:
        return _orig_swap(self, x, y, None)
    finally:
        lv = _Rec.last_levels
        if (lv is not None and ac is not None and
                ac[0] in lv and ac[1] in lv):
            rec[slot] = lv[ac[0]]
            rec[slot + 1] = lv[ac[1]]


def _levels(self):
    r = _orig_levels(self)
    if _Rec.events is not None:
        _Rec.last_levels = {i: list(s) for i, s in r.items()}
    return r


def _apply_sifting(bdd):
    if _Rec.events is not None:
        # placeholder for the visiting order of `set(bdd.vars)`; it sits
        # after nothing else: the model pops it before any swap order
        _Rec.names_slot = len(_Rec.events)
        _Rec.events.append([])
    return _orig_apply_sifting(bdd)


def _reorder_var(bdd, var, levels):
    if _Rec.events is not None and _Rec.names_slot is not None:
        _Rec.events[_Rec.names_slot].append(vid(var) + 1)
    return _orig_reorder_var(bdd, var, levels)


def _request_reordering(bdd):
    if _Rec.trig is None:
        return _orig_request(bdd)
    if bdd._last_len is None:
        return
    t = getattr(bdd, '_verif_trig', None)
    if t is not None and t > 0:
        if t == 1:
            bdd._verif_trig = None
            raise _b._NeedsReordering()
        bdd._verif_trig = t - 1
    return _orig_request(bdd)


def install():
    _b.BDD.swap = _swap
    _b.BDD._levels = _levels
    _b._reorder_var = _reorder_var
    _b._apply_sifting = _apply_sifting


def install_trigger(on=True):
    """Replace `_request_reordering` by the counting variant (C09)."""
    _Rec.trig = True if on else None
    _b._request_reordering = _request_reordering if on else _orig_request


install()


# --------------------------------------------------------------------------
# canonical text
# --------------------------------------------------------------------------
def show_value(v):
    if v is None:
        return '()'
    if isinstance(v, bool):
        return 'T' if v else 'F'
    if isinstance(v, int):
        return str(v)
    if isinstance(v, (list, tuple)):
        return '[' + ','.join(show_value(x) for x in v) + ']'
    if isinstance(v, (set, frozenset)):
        return '[' + ','.join(show_value(x) for x in sorted(v)) + ']'
    if isinstance(v, str):
        return v
    raise TypeError(v)


def _t3(t):
    i, v, w = t
    return f'({i},{0 if v is None else v},{0 if w is None else w})'


def digest(b):
    succ = ';'.join(f'{u}:{_t3(t)}' for u, t in sorted(b._succ.items()))
    pred = ';'.join(
        f'{_t3(t)}:{u}' for t, u in sorted(
            b._pred.items(),
            key=lambda kv: (kv[0][0], kv[0][1] or 0, kv[0][2] or 0)))
    ref = ';'.join(f'{u}:{r}' for u, r in sorted(b._ref.items()))
    ite = ';'.join(
        f'({g},{u},{v}):{w}' for (g, u, v), w in sorted(b._ite_table.items()))
    vars_ = ';'.join(
        f'{k}:{l}' for k, l in sorted((vid(k), l) for k, l in b.vars.items()))
    l2v = ';'.join(
        f'{l}:{k}' for l, k in sorted(
            (l, vid(k)) for l, k in b._level_to_var.items()))
    ll = 'none' if b._last_len is None else str(b._last_len)
    ctx = 'T' if b._reordering_context else 'F'
    return (f'succ={{{succ}}} pred={{{pred}}} ref={{{ref}}} mf={b._min_free} '
            f'ite={{{ite}}} vars={{{vars_}}} l2v={{{l2v}}} ll={ll} ctx={ctx}')


def fmt_arg(a):
    if a is None:
        return 'none'
    if isinstance(a, bool):
        return '1' if a else '0'
    if isinstance(a, int):
        return str(a)
    if isinstance(a, str):
        return a
    if isinstance(a, dict):
        return '[' + ','.join(f'{fmt_arg(k)}:{fmt_arg(v)}' for k, v in a.items()) + ']'
    if isinstance(a, (list, tuple)):
        return '[' + ','.join(fmt_arg(x) for x in a) + ']'
    raise TypeError(a)


class ByName:
    """marks a key container given by variable names (ids) or by levels"""
    def __init__(self, byname):
        self.byname = byname

    def __repr__(self):
        return 'n' if self.byname else 'l'


N = 'n'
L = 'l'


def _keys(kind, ks):
    return [vname(k) for k in ks] if kind == N else list(ks)


def _dict(kind, d):
    return {(vname(k) if kind == N else k): v for k, v in d.items()}


class Impl:
    """Executes operations on real managers; one method per operation name,
    with the same argument conventions as the driver's text format."""

    def __init__(self):
        self.mgr = dict()

    def close(self):
        for b in self.mgr.values():
            b._ref = {1: 0}
        self.mgr = dict()

    # each op_<name>(b, *args) returns a Python value
    def op_new(self, m, levels):
        old = self.mgr.get(m)
        if old is not None:
            old._ref = {1: 0}
        self.mgr[m] = _b.BDD({vname(k): l for k, l in levels.items()})
        return None

    def op_add_var(self, b, v, l):
        return b.add_var(vname(v), l)

    def op_declare(self, b, vs):
        b.declare(*[vname(v) for v in vs])

    def op_var(self, b, v):
        return b.var(vname(v))

    def op_find_or_add(self, b, i, v, w):
        return b.find_or_add(i, v, w)

    def op_ite(self, b, g, u, v):
        return b.ite(g, u, v)

    def op_apply(self, b, o, u, v, w):
        return b.apply(o, u, v, w)

    def op_incref(self, b, u):
        b.incref(u)

    def op_decref(self, b, u):
        b.decref(u)

    def op_ref(self, b, u):
        return b.ref(u)

    def op_gc(self, b, roots):
        b.collect_garbage(roots)

    def op_swap(self, b, x, y):
        return b.swap(x, y)

    def op_reorder(self, b, order):
        if order is not None:
            order = {vname(k): l for k, l in order.items()}
        _b.reorder(b, order)

    def op_reorder_to_pairs(self, b, pairs):
        _b.reorder_to_pairs(b, {vname(k): vname(v) for k, v in pairs.items()})

    def op_configure(self, b, on):
        if on is None:
            return b.configure()['reordering']
        return b.configure(reordering=on)['reordering']

    def op_set_last_len(self, b, l):
        b._last_len = l

    def op_set_trig(self, b, k):
        b._verif_trig = k

    def op_set_roots(self, b, r):
        b.roots = set(r)

    def op_cofactor(self, b, u, kind, values):
        return b.cofactor(u, _dict(kind, values))

    def op_quantify(self, b, u, kind, q, fa):
        return b.quantify(u, _keys(kind, q), forall=fa)

    def op_compose(self, b, u, sub):
        return b.compose(u, {vname(k): g for k, g in sub.items()})

    def op_rename(self, b, u, d):
        return b.rename(u, {vname(k): vname(v) for k, v in d.items()})

    def op_let_bool(self, b, d, u):
        return b.let({vname(k): v for k, v in d.items()}, u)

    def op_let_ref(self, b, d, u):
        return b.let({vname(k): v for k, v in d.items()}, u)

    def op_let_name(self, b, d, u):
        return b.let({vname(k): vname(v) for k, v in d.items()}, u)

    def op_cube(self, b, d):
        return b.cube({vname(k): v for k, v in d.items()})

    def op_copy(self, b, src, u):
        return self.mgr[src].copy(u, b)

    def op_image(self, b, t, s, kind, rn, qkind, q, fa):
        if kind == N:
            rn = {vname(k): vname(v) for k, v in rn.items()}
        return _b.image(t, s, rn, _keys(qkind, q), b, fa)

    def op_preimage(self, b, t, s, kind, rn, qkind, q, fa):
        if kind == N:
            rn = {vname(k): vname(v) for k, v in rn.items()}
        return _b.preimage(t, s, rn, _keys(qkind, q), b, fa)

    def op_support(self, b, u):
        return {vid(x) for x in b.support(u)}

    def op_is_essential(self, b, u, v):
        return b.is_essential(u, vname(v))

    def op_count(self, b, u, n):
        return b.count(u, n)

    def op_pick_iter(self, b, u, care):
        c = None if care is None else {vname(k) for k in care}
        out = [sorted((vid(k), v) for k, v in d.items()) for d in b.pick_iter(u, c)]
        out.sort(key=show_value)
        return out

    def op_pick(self, b, u, care):
        c = None if care is None else {vname(k) for k in care}
        d = b.pick(u, c)
        return None if d is None else sorted((vid(k), v) for k, v in d.items())

    def op_undeclare(self, b, vs):
        return {vid(x) for x in b.undeclare_vars(*[vname(v) for v in vs])}

    def op_descendants(self, b, roots):
        return b.descendants(roots)

    def op_succ(self, b, u):
        i, v, w = b.succ(u)
        return [i, 0 if v is None else v, 0 if w is None else w]

    def op_level_of_var(self, b, v):
        return b.level_of_var(vname(v))

    def op_var_at_level(self, b, l):
        return vid(b.var_at_level(l))

    def op_len(self, b):
        return len(b)

    def op_contains(self, b, u):
        return u in b

    def op_shutdown(self, b):
        try:
            b.__del__()
            return True
        except AssertionError:
            return False

    def run(self, m, name, *args):
        """Run one operation; return (tape, result_text, raw_value)."""
        _Rec.events = []
        _Rec.names_slot = None
        try:
            f = getattr(self, 'op_' + name)
            r = None
            try:
                if name == 'new':
                    r = f(m, *args)
                else:
                    r = f(self.mgr[m], *args)
                res = 'ok:' + show_value(r)
            except _b._NeedsReordering:
                res = 'err:needs_reordering'
            except RecursionError:
                raise
            except Exception as e:  # noqa: B902
                res = 'err:rejected'
                self.last_exc = e
            tape = [t for t in _Rec.events if t is not None]
        finally:
            _Rec.events = None
            _Rec.names_slot = None
        return tape, res, r

    def digest(self, m):
        return digest(self.mgr[m])
