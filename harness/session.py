"""Sessions: operation sequences run on the implementation while they are
generated, then replayed on the extracted model; outputs are compared line
by line.  Also: parsing of case lines (for replay and shrinking)."""
import json
import os
import subprocess
import sys

from . import impl as _impl

DRIVER = os.path.join(os.path.dirname(os.path.dirname(os.path.abspath(__file__))),
                      'ocaml', 'driver')

# argument kinds per operation, used to parse a case line back into Python
SIGS = {
    'new': ['dnn'],
    'add_var': ['int', 'oint'],
    'declare': ['lint'],
    'var': ['int'],
    'find_or_add': ['int', 'int', 'int'],
    'ite': ['int', 'int', 'int'],
    'apply': ['str', 'int', 'oint', 'oint'],
    'incref': ['int'], 'decref': ['int'], 'ref': ['int'],
    'gc': ['olint'],
    'swap': ['int', 'int'],
    'reorder': ['odnn'],
    'reorder_to_pairs': ['dnn'],
    'configure': ['obool'],
    'set_last_len': ['oint'],
    'set_trig': ['oint'],
    'set_roots': ['lint'],
    'set_max_nodes': ['oint'],
    'cofactor': ['int', 'str', 'dnb'],
    'quantify': ['int', 'str', 'lint', 'bool'],
    'compose': ['int', 'dnn'],
    'rename': ['int', 'dnn'],
    'let_bool': ['dnb', 'int'],
    'let_ref': ['dnn', 'int'],
    'let_name': ['dnn', 'int'],
    'cube': ['dnb'],
    'copy': ['int', 'int'],
    'image': ['int', 'int', 'str', 'dnn', 'str', 'lint', 'bool'],
    'preimage': ['int', 'int', 'str', 'dnn', 'str', 'lint', 'bool'],
    'count': ['int', 'oint'],
    'pick_iter': ['int', 'olint'],
    'pick': ['int', 'olint'],
    'undeclare': ['lint'],
    'descendants': ['lint'],
    'succ': ['int'],
    'level_of_var': ['int'],
    'var_at_level': ['int'],
    'len': [],
    'contains': ['int'],
    'shutdown': [],
    'dump': ['int', 'roots', 'lint', 'lint'],
    'load': ['int', 'bool'],
    'dump_manager': ['int', 'lint'],
    'load_manager': ['int'],
    'add_expr': ['spell'],
    'add_expr_text': ['text'],
    'add_expr_lr': ['text'],
    'to_expr': ['int'],
    'to_nx': ['lint'],
    'to_dot': ['olint'],
    'support': ['int'],
    'is_essential': ['int', 'int'],
    'assert_consistent': [],
    'copy_manager': ['int', 'lint'],
    'reduction': ['int', 'lint', 'lint'],
}


def _parse_arg(s):
    pos = [0]
    n = len(s)

    def peek():
        return s[pos[0]] if pos[0] < n else None

    def item():
        a = simple()
        if peek() == ':':
            pos[0] += 1
            b = item()
            return ('P', a, b)
        return a

    def simple():
        if peek() == '[':
            pos[0] += 1
            items = []
            if peek() == ']':
                pos[0] += 1
                return items
            while True:
                items.append(item())
                c = peek()
                pos[0] += 1
                if c == ',':
                    continue
                if c == ']':
                    return items
                raise ValueError(s)
        st = pos[0]
        while peek() not in (',', ']', ':', None):
            pos[0] += 1
        return s[st:pos[0]]

    r = item()
    if pos[0] != n:
        raise ValueError(s)
    return r


def _conv(kind, a):
    if kind == 'str':
        return a
    if kind == 'int':
        return int(a)
    if kind == 'bool':
        return a in ('1', 'T', 'true')
    if kind[0] == 'o':
        return None if a == 'none' else _conv(kind[1:], a)
    if kind == 'lint':
        return [int(x) for x in a]
    if kind == 'text':
        return _impl.Text(bytes.fromhex(a[1:]).decode())
    if kind == 'spell':
        return _impl.Spellings(bytes.fromhex(x).decode() for x in a)
    if kind == 'roots':
        if a == 'none':
            return None
        if a and isinstance(a[0], tuple):
            return {int(k): int(v) for _, k, v in a}
        return [int(x) for x in a]
    if kind == 'hroots':
        if a and isinstance(a[0], tuple):
            return {int(k): int(v) for _, k, v in a}
        return [int(x) for x in a]
    if kind == 'jnodes':
        def ref(x):
            return x if x in ('T', 'F') else int(x)
        return _impl.JNodes((int(k), int(l), ref(lo), ref(hi))
                            for _, k, (_, l, (_, lo, hi)) in a)
    if kind == 'dnn':
        return {int(k): int(v) for _, k, v in a}
    if kind == 'dnb':
        return {int(k): v in ('1', 'T', 'true') for _, k, v in a}
    raise ValueError(kind)


ASIGS = {
    'new': ['dnn'], 'declare': ['lint'], 'add_var': ['int', 'oint'], 'var': ['int'], 'true': [], 'false': [],
    'apply': ['str', 'int', 'oint', 'oint'], 'ite': ['int', 'int', 'int'],
    'let_bool': ['dnb', 'int'], 'let_ref': ['dnn', 'int'], 'let_name': ['dnn', 'int'],
    'quantify': ['int', 'lint', 'bool'], 'cube': ['dnb'],
    'find_or_add': ['int', 'int', 'int'], 'support': ['int'], 'count': ['int', 'oint'],
    'image': ['int', 'int', 'dnn', 'lint', 'bool'],
    'preimage': ['int', 'int', 'dnn', 'lint', 'bool'],
    'fapply': ['str', 'int', 'oint'],
    'eq': ['int', 'int'], 'ne': ['int', 'int'], 'le': ['int', 'int'], 'lt': ['int', 'int'],
    'low': ['int'], 'high': ['int'], 'succ': ['int'], 'level': ['int'], 'varof': ['int'],
    'ref': ['int'], 'negated': ['int'], 'len': ['int'], 'int': ['int'], 'drop': ['int'],
    'gc': [], 'reorder': ['odnn'], 'configure': ['obool'], 'set_last_len': ['oint'],
    'set_trig': ['oint'], 'set_max_nodes': ['oint'], 'copy': ['int', 'int'], 'shutdown': [],
    'add_expr': ['spell'], 'add_expr_text': ['text'], 'add_expr_lr': ['text'], 'to_expr': ['int'],
    'assert_consistent': [],
    'copy_bdds_from': ['int', 'lint'],
    'json_dump': ['hroots', 'lint'], 'json_load': ['dnn', 'roots', 'jnodes', 'bool'],
}


def parse_line(line):
    """'<m> <name> args...' -> (m, name, [python args])"""
    toks = line.split()
    if toks[0].startswith('a'):
        m, name, args = toks[0], toks[1], toks[2:]
        if name == 'tape':
            return m, name, [[[int(x) for x in l] for l in _parse_arg(args[0])]]
        sig = ASIGS[name]
        if len(sig) != len(args):
            raise ValueError(line)
        return m, name, [_conv(k, _parse_arg(a)) for k, a in zip(sig, args)]
    m, name, args = int(toks[0]), toks[1], toks[2:]
    if name == 'tape':
        return m, name, [[[int(x) for x in l] for l in _parse_arg(args[0])]]
    sig = SIGS[name]
    if len(sig) != len(args):
        raise ValueError(line)
    return m, name, [_conv(k, _parse_arg(a)) for k, a in zip(sig, args)]


def fmt_line(m, name, args):
    return ' '.join([str(m), name] + [_impl.fmt_arg(a) for a in args])


class Session:
    """One history.  `op()` runs the operation on the implementation at
    once (so generators can use real results) and records the case line and
    the implementation's output."""

    def __init__(self, full=True):
        self.impl = _impl.Impl()
        self.lines = []      # case lines (model input)
        self.expect = []     # implementation output per line (None: ignore)
        self.full = full
        self.nops = 0

    def op(self, m, name, *args):
        tape, res, raw = self.impl.run(m, name, *args)
        if isinstance(raw, _impl.Extra):
            args = tuple(args) + tuple(raw.extra)
            raw = raw.value
        elif name in ('dump', 'dump_manager') and not res.startswith('ok:'):
            # rejected before anything was written: the oracles are unused
            args = tuple(args) + (([], []) if name == 'dump' else ([],))
        elif name == 'json_dump' and not res.startswith('ok:'):
            args = tuple(args) + ([],)
        if tape:
            self.lines.append(f'{m} tape {_impl.fmt_arg(tape)}')
            self.expect.append(None)
        self.lines.append(fmt_line(m, name, args))
        if self.full and name == 'bdd_to_mdd' and args[0] in self.impl.mmgr:
            self.expect.append(res + '\t' + self.impl.digest(args[0]) + ' | ' + self.impl.digest(m))
        elif self.full and name == 'bdd_to_mdd':
            self.expect.append(None)      # failed conversions: only later states are compared
        elif self.full and name == 'reduction' and m in self.impl.mgr and res.startswith('ok:'):
            self.expect.append(res + '\t' + self.impl.digest(m) + ' | ' + self.impl.digest(args[0]))
        elif self.full and name == 'reduction':
            self.expect.append(None)
        elif self.full and (m in self.impl.mgr or m in self.impl.amgr or m in self.impl.mmgr):
            self.expect.append(res + '\t' + self.impl.digest(m))
        else:
            self.expect.append(res)
        self.nops += 1
        return raw if res.startswith('ok:') else None

    def copy_vars(self, src, dst):
        """`dd._copy.copy_vars(source, target)` on the implementation; for the model the
        loop it stands for: `target.add_var(var, level)` for the variables of the source in
        the iteration order of its `vars` dict, up to the first one that is refused.
        Returns True when the call returned normally.  The whole state of the target is
        compared afterwards."""
        import dd._copy as _copy
        mg = self.impl.amgr if isinstance(src, str) else self.impl.mgr
        tg = self.impl.amgr if isinstance(dst, str) else self.impl.mgr
        sb, tb = mg[src], tg[dst]
        pairs = [(int(v[1:]), l) for v, l in sb.vars.items()]
        before = dict(tb.vars)
        try:
            if isinstance(src, str) and isinstance(dst, str):
                import dd.autoref as _a
                _a.copy_vars(sb, tb)        # the module-level function of dd.autoref
            else:
                _copy.copy_vars(sb, tb)
            ok = True
        except Exception as e:  # noqa: B902
            ok = False
            self.impl.last_exc = repr(e)
        # the model replays the loop: accepted declarations, then (if the call raised) the
        # refused one
        n_ok = 0
        for v, l in pairs:
            name = f'v{v}'
            if name in before and before[name] == l:
                n_ok += 1            # idempotent
            elif name not in before and tb.vars.get(name) == l:
                n_ok += 1
            else:
                break
        upto = n_ok if ok else n_ok + 1
        for v, l in pairs[:upto]:
            self.lines.append(fmt_line(dst, 'add_var', (v, l)))
            self.expect.append(None)
            self.nops += 1
        self.digest(dst)
        return ok

    def parse(self, spellings):
        """compare the syntax trees only (no manager involved)"""
        sp = _impl.Spellings(spellings)
        try:
            e = 'ok:' + _impl.ply_tree(sp)
        except Exception:  # noqa: B902
            e = 'err:rejected'
        self.lines.append('parse ' + _impl.fmt_arg(sp))
        self.expect.append(e)
        return e

    def outcome_only(self):
        """compare only the outcome of the last line, not the state (used
        where the model is known not to follow the implementation's state,
        e.g. after a syntax error met in the middle of a translation)"""
        self.expect[-1] = self.expect[-1].split('\t')[0]

    def lex_text(self, text):
        """compare the token streams of a raw text"""
        tx = _impl.Text(text)
        try:
            e = 'ok:' + _impl.ply_tokens(tx)
        except Exception:  # noqa: B902
            e = 'err:rejected'
        self.lines.append('lex_text ' + _impl.fmt_arg(tx))
        self.expect.append(e)
        return e

    def parse_text(self, text):
        """compare the syntax trees of a raw text"""
        tx = _impl.Text(text)
        try:
            e = 'ok:' + _impl.ply_tree(tx)
        except Exception:  # noqa: B902
            e = 'err:rejected'
        self.lines.append('parse_text ' + _impl.fmt_arg(tx))
        self.expect.append(e)
        return e

    def ok(self):
        return self.expect[-1].startswith('ok:')

    def last_result(self):
        return self.expect[-1].split('\t')[0]

    def digest(self, m):
        """explicit digest comparison point (result-only mode)"""
        self.lines.append(f'!digest {m}')
        self.expect.append('digest\t' + self.impl.digest(m))

    def close(self):
        self.impl.close()


def run_model(lines, full=True, timeout=600):
    """Run case lines through the extracted model; one output line per
    non-directive input line."""
    inp = ['!mode full' if full else '!mode result'] + list(lines)
    # extracted code and List functions are not tail recursive: lift the stack limit
    p = subprocess.run(['bash', '-c', f'ulimit -s unlimited 2>/dev/null; exec "{DRIVER}"'],
                       input='\n'.join(inp) + '\n', text=True,
                       capture_output=True, timeout=timeout)
    if p.returncode != 0:
        raise RuntimeError(f'driver failed: {p.stderr[-2000:]}')
    return p.stdout.split('\n')[:-1]


def replay_impl(lines, full=True):
    """Run case lines on the implementation from text (tape lines are
    ignored: the implementation finds its own orders)."""
    im = _impl.Impl()
    out = []
    trig = any(' set_trig ' in l for l in lines)
    if trig:
        _impl.install_trigger(True)
    try:
        for line in lines:
            if line.startswith('lex_text ') or line.startswith('parse_text '):
                tx = _impl.Text(bytes.fromhex(line.split()[1][1:]).decode())
                try:
                    out.append('ok:' + (_impl.ply_tokens(tx) if line.startswith('lex_text') else _impl.ply_tree(tx)))
                except Exception:  # noqa: B902
                    out.append('err:rejected')
                continue
            if line.startswith('parse '):
                sp = _conv('spell', _parse_arg(line.split()[1]))
                try:
                    out.append('ok:' + _impl.ply_tree(sp))
                except Exception:  # noqa: B902
                    out.append('err:rejected')
                continue
            if line.startswith('!digest'):
                m = line.split()[1]
                m = m if m.startswith('a') else int(m)
                out.append('digest\t' + im.digest(m))
                continue
            m, name, args = parse_line(line)
            if name == 'tape':
                out.append(None)
                continue
            try:
                _, res, _ = im.run(m, name, *args)
            except KeyError:
                res = 'err:rejected'
            if full and (m in im.mgr or m in im.amgr):
                out.append(res + '\t' + im.digest(m))
            else:
                out.append(res)
    finally:
        im.close()
        if trig:
            _impl.install_trigger(False)
    return out


def compare(lines, expect, got):
    """index of the first differing line, or None"""
    if len(got) != len(expect):
        return min(len(got), len(expect))
    for i, (e, g) in enumerate(zip(expect, got)):
        if e is None:
            continue
        if '\t' not in e and '\t' in g:
            g = g.split('\t')[0]      # only the outcome is compared on this line
        if e != g:
            return i
    return None


def explain(e, g):
    """which fields differ between two output lines"""
    if e is None or g is None:
        return 'length'
    ef, gf = e.split('\t'), g.split('\t')
    d = []
    if ef[0] != gf[0]:
        d.append(f'result impl={ef[0]} model={gf[0]}')
    if len(ef) > 1 and len(gf) > 1:
        for a, b in zip(ef[1].split(' '), gf[1].split(' ')):
            if a != b:
                d.append(f'impl {a} model {b}')
    return '; '.join(d)
