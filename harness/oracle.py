"""Semantic oracles on the implementation (search for a failing input).

Independent of the code under test: denotations are obtained by walking
`succ()`; the table checker re-states "reduced, ordered, shared, counted"
from scratch and never calls `assert_consistent`.  These support model
validation and the search for a replay; they are never an obligation.
"""
import itertools


def evaluate(b, u, assignment):
    """Value of reference `u` under `assignment` (name -> bool), walking
    the stored table only."""
    neg = False
    while True:
        if u < 0:
            neg = not neg
            u = -u
        i, v, w = b._succ[u]
        if v is None:
            return not neg
        name = b._level_to_var[i]
        u = w if assignment[name] else v


def truth_table(b, u, names):
    """Bit mask over all assignments of `names` (first name = most
    significant choice); bit k is the value under the k-th assignment."""
    tt = 0
    for k, bits in enumerate(itertools.product((False, True), repeat=len(names))):
        if evaluate(b, u, dict(zip(names, bits))):
            tt |= 1 << k
    return tt


def tt_fast(b, u, names, memo=None):
    """Same as truth_table, by recursion over the diagram (shared nodes are
    evaluated once)."""
    n = len(names)
    full = (1 << (1 << n)) - 1
    # column masks: value of each variable across the 2^n assignments
    col = {}
    for j, name in enumerate(names):
        m = 0
        for k in range(1 << n):
            if (k >> (n - 1 - j)) & 1:
                m |= 1 << k
        col[name] = m
    memo = {} if memo is None else memo

    def go(r):
        a = abs(r)
        if a in memo:
            t = memo[a]
        else:
            i, v, w = b._succ[a]
            if v is None:
                t = full
            else:
                c = col[b._level_to_var[i]]
                t = (c & go(w)) | (~c & full & go(v))
            memo[a] = t
        return t if r > 0 else (~t & full)
    return go(u)


def check_table(b, external=None):
    """Independent invariant check of a `dd.bdd.BDD`.  Returns a list of
    problems (empty = fine).  `external`: dict node -> number of external
    references the harness believes it holds (None: only `>=` is checked)."""
    bad = []
    succ, pred, ref = b._succ, b._pred, b._ref
    n = len(b.vars)
    # order bijection
    if sorted(b.vars.values()) != list(range(n)):
        bad.append(f'vars not a bijection onto 0..{n - 1}: {b.vars}')
    if {v: k for k, v in b.vars.items()} != b._level_to_var:
        bad.append('level_to_var is not the inverse of vars')
    if 1 not in succ:
        bad.append('terminal missing')
        return bad
    if succ[1] != (n, None, None):
        bad.append(f'terminal is {succ[1]}, expected level {n}')
    indeg = {u: 0 for u in succ}
    seen = {}
    for u, (i, v, w) in succ.items():
        if u == 1:
            continue
        if u < 1:
            bad.append(f'node id {u}')
        if v is None or w is None:
            bad.append(f'node {u} has a None child')
            continue
        if not (0 <= i < n):
            bad.append(f'node {u} level {i} out of range')
        if w < 0:
            bad.append(f'node {u} complemented high edge')
        if v == w:
            bad.append(f'node {u} redundant')
        for c in (v, w):
            if abs(c) not in succ:
                bad.append(f'node {u} dangling child {c}')
            else:
                if not succ[abs(c)][0] > i:
                    bad.append(f'node {u} level {i} child {c} level {succ[abs(c)][0]}')
                indeg[abs(c)] += 1
        if (i, v, w) in seen:
            bad.append(f'nodes {seen[(i, v, w)]} and {u} are duplicates')
        seen[(i, v, w)] = u
    # unique table is the inverse
    if {t: u for u, t in succ.items()} != pred:
        bad.append('pred is not the inverse of succ')
    if set(ref) != set(succ):
        bad.append('ref keys differ from succ keys')
    for u in succ:
        r = ref.get(u, 0)
        if external is None:
            if r < indeg[u]:
                bad.append(f'node {u}: ref {r} < in-degree {indeg[u]}')
        else:
            e = external.get(u, 0)
            if r != indeg[u] + e:
                bad.append(f'node {u}: ref {r} != in-degree {indeg[u]} + external {e}')
    mf = b._min_free
    if mf in succ or any(k not in succ for k in range(1, mf)):
        bad.append(f'min_free {mf} is not the least free id')
    return bad


def reachable(b, roots):
    seen = set()
    stack = [abs(r) for r in roots]
    while stack:
        u = stack.pop()
        if u in seen:
            continue
        seen.add(u)
        i, v, w = b._succ[u]
        if v is not None:
            stack.append(abs(v))
            stack.append(abs(w))
    return seen


def build_from_tt(b, tt, names):
    """Reference for the function with truth table `tt` over `names`,
    built with ite on variables (Shannon expansion in the list order)."""
    n = len(names)

    def go(j, lo, hi):
        # assignments lo..hi-1 share the first j choices
        if j == n:
            return 1 if (tt >> lo) & 1 else -1
        mid = (lo + hi) // 2
        f0 = go(j + 1, lo, mid)
        f1 = go(j + 1, mid, hi)
        if f0 == f1:
            return f0
        x = b.var(names[j])
        return b.ite(x, f1, f0)
    return go(0, 0, 1 << n)
