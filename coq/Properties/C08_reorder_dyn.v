(** * Property C08, explicit reordering through [dd.autoref] while dynamic
      reordering may be enabled.

    [C08b_call_dynamic] ([Properties/C08b.v]) is total over [a_allowedD],
    which leaves [AReorder] out ("reorder with requests enabled").  The public
    [reorder] of [dd.bdd] disables the requests while it moves nodes and
    restores the threshold ([C07b_reorder_pub_safe], any threshold); this
    lifts to the dynamic invariant [AInvDT] of the wrapper:

    - any argument ([C08_reorder_dynamic]): the invariant holds, every live
      [Function] keeps node and function, same handles, same ledger, same
      threshold, same declared variables; neither the reordering signal nor
      the oracle error reaches the caller (a wrong [order] is a [ValueError]
      or [KeyError] and nothing is damaged);
    - sifting ([C08_sift_dynamic]): succeeds, leaves no unreferenced node,
      the table does not grow;
    - a total order on the declared variables ([C08_order_dynamic]):
      succeeds and installs exactly that order;
    - the total theorems and histories of [C08b] Part B2 hold over
      [a_allowedDR] = [a_allowedD] + [AReorder].

    Still outside: [u <= v], [u < v] (separately: [C01_le_dynamic],
    [C01_lt_dynamic]), [find_or_add], [image]/[preimage], [copy], [count],
    [len], the tape setter, [BDD(...)], the shutdown.

    Only statements closed by [exact]; proofs live in
    [Proofs/AutorefReorderD.v]. *)
From DD Require Import AutorefReorderD.
Local Open Scope string_scope.

Theorem C08_aorder_unfold order :
  aorder order = (fun l => list_to_map (reverse l)) <$> order.
Proof. exact eq_refl. Qed.
Print Assumptions C08_aorder_unfold.

Theorem C08_ReoFrame_unfold a a' :
  ReoFrame a a' ↔
  AInvDT a' ∧ AKeepAll a a' ∧ handles a' = handles a ∧ next_hid a' = next_hid a ∧
  Counts (mgr a') (hledger a) ∧ last_len (mgr a') = last_len (mgr a) ∧
  dom (vars (mgr a')) = dom (vars (mgr a)).
Proof. exact (conj (fun H => H) (fun H => H)). Qed.
Print Assumptions C08_ReoFrame_unfold.

(** [bdd.reorder(order)], any [order], any reordering mode *)
Theorem C08_reorder_dynamic w order a r a' :
  AInvDT a → run_aop w (AReorder order) a = (r, a') →
  ReoFrame a a' ∧ r ≠ Err ENeedsReordering ∧ r ≠ Err EOracle.
Proof. exact (run_aop_reorder_dyn w order a r a'). Qed.
Print Assumptions C08_reorder_dynamic.

(** [bdd.reorder()]: sifting *)
Theorem C08_sift_dynamic w a r a' :
  AInvDT a → max_nodes (mgr a) = None → run_aop w (AReorder None) a = (r, a') →
  r = Ok VU ∧ ReoFrame a a' ∧ nozero (mgr a') ∧ len (mgr a') ≤ len (mgr a).
Proof. exact (run_aop_sift_dyn w a r a'). Qed.
Print Assumptions C08_sift_dynamic.

(** [bdd.reorder(order)] with a bijection from the declared variables onto
    the levels; [roots] is the harness field of [collect_garbage(roots)]
    (empty in every autoref history) *)
Theorem C08_order_dynamic w l a r a' :
  AInvDT a → max_nodes (mgr a) = None →
  dom (list_to_map (reverse l) : gmap nat nat) = dom (vars (mgr a)) →
  (∀ v v' k, (list_to_map (reverse l) : gmap nat nat) !! v = Some k →
             (list_to_map (reverse l) : gmap nat nat) !! v' = Some k → v = v') →
  (∀ v k, (list_to_map (reverse l) : gmap nat nat) !! v = Some k → k < nvars (mgr a)) →
  (∀ u, u ∈ roots (mgr a) → held (hledger a) u) →
  run_aop w (AReorder (Some l)) a = (r, a') →
  r = Ok VU ∧ ReoFrame a a' ∧ vars (mgr a') = list_to_map (reverse l).
Proof. exact (run_aop_order_dyn w l a r a'). Qed.
Print Assumptions C08_order_dynamic.

(** ** Total over [a_allowedD] + [AReorder] *)
Theorem C08_allowedDR_unfold o :
  a_allowedDR o = (a_allowedD o || match o with AReorder _ => true | _ => false end).
Proof. exact eq_refl. Qed.
Print Assumptions C08_allowedDR_unfold.

Theorem C08_call_dynamic_reorder w o a r a' :
  a_allowedDR o = true → AInvDT a → run_aop w o a = (r, a') →
  AInvDT a' ∧ AKeep o a a' ∧ r ≠ Err ENeedsReordering ∧ r ≠ Err EOracle.
Proof. exact (run_aop_AInvDR w o a r a'). Qed.
Print Assumptions C08_call_dynamic_reorder.

Theorem C08_step_dynamic_reorder w m o :
  a_allowedDR o = true → AInvDT (aworld_get w m) →
  AInvDT (aworld_get (fst (astep w m o)) m) ∧
  AKeep o (aworld_get w m) (aworld_get (fst (astep w m o)) m) ∧
  snd (astep w m o) ≠ Err ENeedsReordering ∧ snd (astep w m o) ≠ Err EOracle.
Proof. exact (astep_AInvDR w m o). Qed.
Print Assumptions C08_step_dynamic_reorder.

Theorem C08_history_dynamic_reorder ops : ∀ w m,
  AInvDT (aworld_get w m) → Forall (fun o => a_allowedDR o = true) ops →
  AInvDT (aworld_get (arun w m ops) m).
Proof. exact (arun_AInvDR ops). Qed.
Print Assumptions C08_history_dynamic_reorder.

Theorem C08_live_function_dynamic_reorder ops : ∀ w m h u,
  AInvDT (aworld_get w m) → Forall (fun o => a_allowedDR o = true) ops →
  Forall (fun o => o ≠ ADrop h) ops →
  handles (aworld_get w m) !! h = Some u →
  handles (aworld_get (arun w m ops) m) !! h = Some u ∧
  valid (mgr (aworld_get (arun w m ops) m)) u ∧
  ∀ ρ, denv (mgr (aworld_get (arun w m ops) m)) u ρ = denv (mgr (aworld_get w m)) u ρ.
Proof. exact (arun_keepsDR ops). Qed.
Print Assumptions C08_live_function_dynamic_reorder.

(** ** Example (by evaluation): f = (v0 & v2) | (v1 & v3) (handle 6);
    dynamic reordering is switched on; sifting; the reversed order; a wrong
    order; [f & v1] with the trigger forced (sifts in the middle); sifting *)
Definition lvr : list (nat * nat) := [(0, 0); (1, 1); (2, 2); (3, 3)].
Definition prer : list aop :=
  [AVar 0; AVar 1; AVar 2; AVar 3;
   AApply "and" 0 (Some 2) None; AApply "and" 1 (Some 3) None; AFApply "or" 4 (Some 5);
   ADrop 4; ADrop 5; AGc].
Definition dynr : list aop :=
  [AConfigure (Some true); AReorder None;
   AReorder (Some [(0, 3); (1, 2); (2, 1); (3, 0)]);
   AReorder (Some [(0, 0); (1, 0)]);
   ASetTrig (Some 1); AApply "and" 6 (Some 1) None; AReorder None].
Definition wR : aworld := arun aworld_empty 0 (ANew lvr :: prer).

(** the hypotheses of [C08_history_dynamic_reorder] and
    [C08_live_function_dynamic_reorder] (handle 6) hold *)
Example C08_reorder_dyn_hypotheses :
  AInvDT (aworld_get wR 0) ∧ Forall (fun o => a_allowedDR o = true) dynr ∧
  Forall (fun o => o ≠ ADrop 6) dynr.
Proof.
  split; [|split].
  - apply AInvDT_of_AInvT; [|by vm_compute].
    apply (arun_from_new2 lvr prer 0); [by vm_compute|].
    cbn [ahist_ok2 prer]. repeat (split; [by vm_compute|]). done.
  - repeat (apply Forall_cons; split; [done|]). by apply Forall_nil.
  - repeat (apply Forall_cons; split; [congruence|]). by apply Forall_nil.
Qed.

Definition tblr (a : ast) (h : nat) : option (list bool) :=
  (fun u => (fun ρ => denv (mgr a) u ρ) <$> envs 4) <$> handles a !! h.

Example C08_reorder_dyn_example :
  let a := aworld_get wR 0 in
  let w1 := arun wR 0 (take 2 dynr) in let w2 := arun wR 0 (take 3 dynr) in
  let d := aworld_get (arun wR 0 dynr) 0 in
  (fix go (w : aworld) (ops : list aop) : list (res value) :=
     match ops with
     | [] => []
     | o :: ops => snd (astep w 0 o) :: go (fst (astep w 0 o)) ops
     end) wR dynr =
  [Ok (VB false); Ok VU; Ok VU; Err EValue; Ok VU; Ok (VN 7); Ok VU] ∧
  (* sifting shrinks the table and keeps the threshold *)
  (len (mgr a), len (mgr (aworld_get w1 0))) = (9, 8) ∧
  last_len (mgr (aworld_get (arun wR 0 (take 1 dynr)) 0)) = Some 100 ∧
  last_len (mgr (aworld_get w1 0)) = Some 100 ∧
  map_to_list (vars (mgr (aworld_get w1 0))) = [(0, 1); (1, 2); (3, 3); (2, 0)] ∧
  (* the requested order is installed *)
  map_to_list (vars (mgr (aworld_get w2 0))) = [(0, 3); (1, 2); (3, 0); (2, 1)] ∧
  (* handle 6 keeps node and truth table to the end *)
  handles a !! 6 = Some 10%Z ∧ handles d !! 6 = Some 10%Z ∧ tblr d 6 = tblr a 6 ∧
  is_Some (last_len (mgr d)) ∧
  (* the counters are exact *)
  forallb (fun '(n, c) =>
      bool_decide (c = indeg (succ (mgr d)) n + (if decide (n = 1%positive) then 1 else 0) +
                   length (filter (fun p => absn (p.2) = n) (map_to_list (handles d)))))
    (map_to_list (refc (mgr d))) = true.
Proof. vm_compute. repeat split; try reflexivity. by eexists. Qed.
