(** * Property C17 (continued) — [dd.bdd.BDD.add_expr] for ARBITRARY input.

    [add_expr(e)] is the decorator [_try_to_reorder] around "lex, parse,
    evaluate the tree" ([Model/Parser.v]: [add_expr lt rw P spellings]; the
    spellings are the lexemes of the formula, [lt]/[rw]/[P] the lexer and
    precedence tables).  The evaluator calls only [var], [apply] (hence
    [ite], [quantify]), [quantify] and [rename].

    (a) a syntax error leaves the manager unchanged (any manager);
    (b) any spellings, either outcome, dynamic reordering disabled: the
        invariant, every old reference with its function, the variable order,
        the harness fields and the exactness of the counters are kept; the
        reordering signal never reaches the caller, nor (empty oracle tape)
        the oracle error of the model;
    (c) the three outcomes in one statement, with the meaning of the result
        for an accepted tree ([C05_add_expr_sem]) when the node table is
        unbounded ([max_nodes s = None]);
    (d) dynamic reordering enabled or disabled, top-level call: the
        decorator theorem [C09c_decorator_total] applies.
    Node limit ([bdd.max_nodes]): (a), (b), (d) and the safety part of (c)
    hold for ANY limit; the outcome may then be [Err ERuntime] (the
    [RuntimeError] of a full table), which these statements allow: the manager
    stays well formed, old references keep their functions, counters stay
    exact; in (d) the reordering mode is kept also when the sifting pass
    started by the decorator meets the full table (dd 854af5f: the threshold
    is put back when [reorder(bdd)] raises; [C17d_decorator_total]).
    The MEANING of the result when dynamic reordering is ENABLED (then
    [extends] fails: a reordering renumbers nodes) is [C09_add_expr_dynamic]
    ([Properties/C09_add_expr.v]).
    Only statements closed by [exact]; proofs live in
    [Proofs/AddExprTotal.v]. *)
From stdpp Require Import strings.
From DD Require Import AddExprTotal Driver4.
Local Open Scope string_scope.

(** ** Vocabulary *)
Theorem C17e_add_expr_unfold lt rw P sp :
  add_expr lt rw P sp =
  try_to_reorder (ts <- of_opt EValue (lex_all lt rw sp) ;;
                  a <- of_opt EValue (parse P ts) ;;
                  eval_ast a).
Proof. exact eq_refl. Qed.
Print Assumptions C17e_add_expr_unfold.

(** lexing fails, or lexing succeeds and parsing fails *)
Theorem C17e_syntax_error_unfold lt rw P sp :
  syntax_error lt rw P sp ↔
  lex_all lt rw sp = None ∨ ∃ ts, lex_all lt rw sp = Some ts ∧ parse P ts = None.
Proof. exact (syntax_error_unfold lt rw P sp). Qed.
Print Assumptions C17e_syntax_error_unfold.

(** ** (a) a syntax error: [ValueError], the very same state — whatever the
    manager (no invariant assumed, reordering on or off, any tape) *)
Theorem C17e_add_expr_syntax_error lt rw P sp s :
  syntax_error lt rw P sp → add_expr lt rw P sp s = (Err EValue, s).
Proof. exact (add_expr_syntax_error lt rw P sp s). Qed.
Print Assumptions C17e_add_expr_syntax_error.

(** ** (b) any spellings, either outcome, dynamic reordering disabled *)
Theorem C17e_add_expr_total lt rw P sp s r s' :
  Inv s → last_len s = None → add_expr lt rw P sp s = (r, s') →
  Inv s' ∧ extends s s' ∧ frame s s' ∧ (∀ L, Counts s L → Counts s' L) ∧
  (∀ u, valid s u → valid s' u ∧ ∀ ρ, denv s' u ρ = denv s u ρ) ∧
  r ≠ Err ENeedsReordering ∧ (tape s = [] → r ≠ Err EOracle).
Proof. exact (add_expr_total lt rw P sp s r s'). Qed.
Print Assumptions C17e_add_expr_total.

(** ** (c) the outcomes: a syntax error (state unchanged), or a tree [t] that
    is evaluated — totality for every tree (undeclared names, unknown
    references [@n], unknown operators, bad quantifier variables ..., a full node
    table), success and meaning for an accepted tree and an unbounded table *)
Theorem C17e_add_expr_any lt rw P sp s r s' :
  Inv s → last_len s = None → add_expr lt rw P sp s = (r, s') →
  (syntax_error lt rw P sp ∧ r = Err EValue ∧ s' = s) ∨
  (∃ ts (t : Parser.ast), lex_all lt rw sp = Some ts ∧ parse P ts = Some t ∧
     Inv s' ∧ extends s s' ∧ frame s s' ∧ (∀ L, Counts s L → Counts s' L) ∧
     (∀ u, valid s u → valid s' u ∧ ∀ ρ, denv s' u ρ = denv s u ρ) ∧
     r ≠ Err ENeedsReordering ∧ (tape s = [] → r ≠ Err EOracle) ∧
     (ok_ast s t → max_nodes s = None →
      ∃ u, r = Ok u ∧ valid s' u ∧ ∀ ρ, denv s' u ρ = asem s t ρ)).
Proof. exact (add_expr_any lt rw P sp s r s'). Qed.
Print Assumptions C17e_add_expr_any.

(** ** (d) dynamic reordering enabled or disabled; a top-level call (not
    inside a reordering context) with an empty oracle tape (the state between
    two calls of the driver); [L] the ledger of the external references: the
    manager stays canonical with the same ledger, every HELD reference
    ([heldn L]: the terminal and the nodes with an external reference) keeps
    its number and its function by variable name, the reordering mode is
    kept, neither the signal nor the oracle error reaches the caller *)
Theorem C17e_add_expr_total_dynamic lt rw P sp s L r s' :
  Inv s → Counts s L → rctx s = false → tape s = [] →
  add_expr lt rw P sp s = (r, s') →
  Inv s' ∧ Counts s' L ∧ rctx s' = false ∧ tape s' = [] ∧
  (last_len s = None → last_len s' = None) ∧
  (is_Some (last_len s) → is_Some (last_len s')) ∧
  keeps (heldn L) s s' ∧
  r ≠ Err ENeedsReordering ∧ r ≠ Err EOracle.
Proof. exact (dsafe_add_expr lt rw P sp s L r s'). Qed.
Print Assumptions C17e_add_expr_total_dynamic.

(** ** Examples (by evaluation): a manager with three variables.
    A lexing error, two parsing errors: the state is the same
    ([C17e_add_expr_syntax_error]; here its digest is compared).  An undeclared
    name, an unknown reference [@99], an undeclared quantifier variable, an
    undeclared renaming target: an error after part of the formula has been
    evaluated (for the first one: the node of [v0] was added, the manager
    went from one node to two; [C17e_add_expr_total] applies).  The last
    line: an accepted formula. *)
Example C17e_examples :
  let w0 := fst (step2 world2_empty 0 (O1 (ONew [(0, 0); (1, 1); (2, 2)]))) in
  let s0 := world2_get w0 0 in
  last_len s0 = None ∧ tape s0 = [] ∧
  syntax_error lex_alias reserved_words code_prec ["v0"; "$"; "v1"] ∧
  syntax_error lex_alias reserved_words code_prec ["v0"; "/\"] ∧
  syntax_error lex_alias reserved_words code_prec ["("; "v0"; "\/"; "v1"] ∧
  fst (add_expr_ ["v0"; "$"; "v1"] s0) = Err EValue ∧
  digest (snd (add_expr_ ["v0"; "$"; "v1"] s0)) = digest s0 ∧
  fst (add_expr_ ["v0"; "/\"] s0) = Err EValue ∧
  digest (snd (add_expr_ ["v0"; "/\"] s0)) = digest s0 ∧
  fst (add_expr_ ["v0"; "/\"; "v7"] s0) = Err EValue ∧
  fst (add_expr_ ["v0"; "/\"; "@99"] s0) = Err EValue ∧
  fst (add_expr_ ["\E"; "v7"; ":"; "v0"; "/\"; "v1"] s0) = Err EValue ∧
  fst (add_expr_ ["\S"; "v7"; "/"; "v0"; ":"; "v0"; "/\"; "v1"] s0) = Err EKey ∧
  size (succ (snd (add_expr_ ["v0"; "/\"; "v7"] s0))) = 2 ∧ size (succ s0) = 1 ∧
  fst (add_expr_ ["\E"; "v2"; ":"; "v0"; "/\"; "v2"; "=>"; "v1"] s0) = Ok 1%Z.
Proof. by vm_compute. Qed.

(** the same manager with a node limit: the table (one node, next free
    number 2) is full with [max_nodes = 2]: the formula is accepted but the
    node of [v0] cannot be created: [RuntimeError], nothing but the limit
    differs from [s0]; constants need no node; with [max_nodes = 4] the node
    of [v0] is created (the number after it, 3, is still below the limit),
    the one of [v1] is not *)
Example C17e_full_table :
  let w0 := fst (step2 world2_empty 0 (O1 (ONew [(0, 0); (1, 1); (2, 2)]))) in
  let s0 := world2_get w0 0 in
  let s2 := s0 <| max_nodes := Some 2%positive |> in
  let s3 := s0 <| max_nodes := Some 4%positive |> in
  max_nodes s0 = None ∧
  fst (add_expr_ ["v0"; "/\"; "v1"] s2) = Err ERuntime ∧
  digest (snd (add_expr_ ["v0"; "/\"; "v1"] s2)) = digest s2 ∧
  fst (add_expr_ ["TRUE"; "/\"; "FALSE"] s2) = Ok (-1)%Z ∧
  fst (add_expr_ ["v0"; "/\"; "v1"] s3) = Err ERuntime ∧
  size (succ (snd (add_expr_ ["v0"; "/\"; "v1"] s3))) = 2 ∧
  fst (add_expr_ ["v0"] s3) = Ok 2%Z.
Proof. by vm_compute. Qed.
