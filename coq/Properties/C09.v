(** * Property C09 — with dynamic reordering enabled, every public operation
      returns a reference denoting the same function as with reordering
      disabled, at whichever node creation the reordering request fires;
      operands and all other live references are unaffected, reordering is
      still enabled afterwards, and the internal signal never reaches the
      caller.  Only statements closed by [exact]; proofs live in
      [Proofs/Dynamic.v].

      What is proved, and relative to what:

      - the decorator [_try_to_reorder] (dd/bdd.py 79-111, with
        [_ReorderingContext] 114-140) is correct for ANY wrapped operation
        that meets a specification stated by variable name ([op_spec]),
        RELATIVE to the premise [sifting_ok'] on [reorder None =
        _apply_sifting] (proved separately; it rests on the adjacent-level
        swap).  The premise is an ordinary hypothesis of every theorem; its
        definition is restated in [C09_sifting_ok'_def];
      - instances: [ite], [var], [quantify] (names), [cofactor] (names), and
        [apply] for every propositional symbol of the vocabulary;
      - the property is FALSE of the model (and of the implementation) for
        the entry point [find_or_add], which is not decorated and lets
        [_NeedsReordering] escape ([C09_find_or_add_refuted]); the
        recursion of [image]/[preimage] does the same when entered without
        protection, which is why the public [image], [preimage] and
        [copy_bdd] run with requests disabled since dd commit 127a6e6
        ([C09_image_guard_needed]; the totality of the guarded entry points:
        [Properties/C17c.v]).  It WAS false for [quantify] / [cofactor]
        when the variables are given as LEVELS, which the second attempt read
        against the new order; since dd commit 827d7f0 the public methods turn
        levels into names before they call the decorated workers
        ([C09_quantify_levels_fixed], [C09_cofactor_levels_fixed], and the
        general theorems in [Properties/C09d.v]);
      - open: [compose], [rename], [cube] (decorated; they fit [op_spec] but
        their by-name specifications and [Counts] lemmas are not done), and
        the quantifier rows of [apply].

      Vocabulary ([Proofs/Dynamic.v], [Proofs/GC.v], [Proofs/Counts.v]):
      - [Counts s L]: every reference count is in-degree + [L n] (the ledger
        [L] of references held by the user), [L] is 0 outside the manager;
      - [reach m R n]: node [n] is reachable in [m] from a node satisfying [R];
      - [heldn L n]: [n] is the terminal or a node the user holds
        ([0 < L n]); [ref_by L s n]: [n] is the terminal or reachable from a
        held node (only used to show that the premise cannot be widened to
        such nodes, [C09_sifting_ok_reach_false]);
      - [keeps K s s']: same declared variables, and every reference of [s]
        into the node set [K] is a reference of [s'] with the same function
        by variable name;
      - [denv s u ρ]: value of reference [u] under the assignment [ρ] of
        variable NAMES. *)
From DD Require Import Dynamic C01proof.
Local Open Scope string_scope.

(** ** The definitions the statements are read against *)
Theorem C09_heldn_def L n : heldn L n ↔ n = 1%positive ∨ 0 < L n.
Proof. exact (conj (fun H => H) (fun H => H)). Qed.

Theorem C09_ref_by_def L s n :
  ref_by L s n ↔ n = 1%positive ∨ reach (succ s) (fun k => 0 < L k) n.
Proof. exact (conj (fun H => H) (fun H => H)). Qed.

Theorem C09_keeps_def (K : positive → Prop) s s' :
  keeps K s s' ↔
  dom (vars s') = dom (vars s) ∧
  ∀ u, u ≠ 0%Z → K (absn u) → valid s u →
       valid s' u ∧ ∀ ρ, denv s' u ρ = denv s u ρ.
Proof. exact (conj (fun H => H) (fun H => H)). Qed.

(** The premise on sifting.  Started on a well-formed manager with exact
    counts and requests switched off, [reorder()] either hits the model's
    iteration-order oracle error (a recorded order that is not a permutation;
    no Python counterpart), or — only with a bounded table — is stopped
    between two swaps by the full-table pre-check of [swap] ([RuntimeError]),
    or succeeds; in the last two cases it keeps the invariant and the counts
    with the same ledger, leaves requests off and the context flag alone,
    keeps the declared variables, and keeps every node the user HOLDS (same
    number) with the same function by name.  Nothing is claimed for the
    other nodes, even those reachable from a held node: they may be freed,
    rebuilt under another number, and their numbers reused. *)
Theorem C09_sifting_ok'_def :
  sifting_ok' ↔
  ∀ s L r s',
    Inv s → Counts s L → last_len s = None →
    reorder None s = (r, s') →
    r = Err EOracle ∨
    ((r = Ok tt ∨ (r = Err ERuntime ∧ is_Some (max_nodes s))) ∧
     Inv s' ∧ Counts s' L ∧ last_len s' = None ∧ rctx s' = rctx s ∧
     max_nodes s' = max_nodes s ∧
     dom (vars s') = dom (vars s) ∧
     ∀ u, u ≠ 0%Z → (absn u = 1%positive ∨ 0 < L (absn u)) → valid s u →
          valid s' u ∧ ∀ ρ, denv s' u ρ = denv s u ρ).
Proof. exact (conj (fun H => H) (fun H => H)). Qed.

(** The premise cannot be widened to the nodes REACHABLE from a held node:
    that statement is false of the model.  (f = (v0 /\ v1) \/ v2 held as node
    7; sifting frees its inner node 6 and reuses number 4.) *)
Theorem C09_sifting_ok_reach_def :
  sifting_ok_reach ↔
  ∀ s L r s',
    Inv s → Counts s L → last_len s = None →
    reorder None s = (r, s') →
    r = Err EOracle ∨
    ((r = Ok tt ∨ (r = Err ERuntime ∧ is_Some (max_nodes s))) ∧
     Inv s' ∧ Counts s' L ∧ last_len s' = None ∧ rctx s' = rctx s ∧
     max_nodes s' = max_nodes s ∧
     dom (vars s') = dom (vars s) ∧
     ∀ u, u ≠ 0%Z →
          (absn u = 1%positive ∨ reach (succ s) (fun k => 0 < L k) (absn u)) →
          valid s u →
          valid s' u ∧ ∀ ρ, denv s' u ρ = denv s u ρ).
Proof. exact (conj (fun H => H) (fun H => H)). Qed.

Theorem C09_sifting_ok_reach_false : ¬ sifting_ok_reach.
Proof. exact sifting_ok_reach_false. Qed.

(** the same in a dynamic-reordering run: the forced trigger fires inside
    [apply "xor" f TRUE]; the held node 7 keeps number and truth table, the
    result is [~f], requests are on again, the order is unchanged -- but
    the reachable, unheld node 6 is gone, 7 has other children, and number
    4 denotes another function *)
Example C09_unheld_inner_node_replaced :
  let w0 := run_ops [ONew [(0, 0); (1, 1); (2, 2)]; OVar 0; OVar 1; OVar 2;
                     OApply "and" 2 (Some 3%Z) None; OApply "or" 5 (Some 4%Z) None;
                     OIncref 7; OConfigure (Some true)] in
  let w1 := fst (step w0 0 (OSetTrig (Some 1))) in
  let '(wB, rB) := step w1 0 (OApply "xor" 7 (Some 1%Z) None) in
  let s := world_get w0 0 in let sB := world_get wB 0 in
  succ s !! 7%positive = Some (Triple 0 4 6) ∧ succ s !! 6%positive = Some (Triple 1 4 1) ∧
  refc s !! 7%positive = Some 1 ∧
  rB = Ok (VZ (-7)) ∧ trig sB = None ∧ last_len sB = Some 8 ∧
  map_to_list (vars sB) = map_to_list (vars s) ∧
  table 3 sB (Ok (VZ 7)) = table 3 s (Ok (VZ 7)) ∧
  succ sB !! 6%positive = None ∧
  succ sB !! 7%positive = Some (Triple 0 3 4) ∧
  mem 4 sB = true ∧ table 3 sB (Ok (VZ 4)) ≠ table 3 s (Ok (VZ 4)).
Proof. exact unheld_inner_node_replaced. Qed.

(** Specification of a wrapped operation, by name. *)
Theorem C09_op_spec_def {A} (func : MS A) (K : positive → Prop) Pre Post :
  op_spec func K Pre Post ↔
  (∀ s r s', Inv s → Pre s → no_reorder s → func s = (r, s') →
    Inv s' ∧ extends s s' ∧ frame s s' ∧ (∀ L, Counts s L → Counts s' L) ∧
    match r with
    | Ok a => Post s a s'
    | Err e => (e = ENeedsReordering ∧ is_Some (last_len s)) ∨
             (e = ERuntime ∧ is_Some (max_nodes s))
    end) ∧
  (∀ s s', Inv s → Inv s' → keeps K s s' → Pre s → Pre s') ∧
  (∀ s0 s a s', Inv s0 → Inv s → keeps K s0 s → Pre s0 → Post s a s' → Post s0 a s') ∧
  (∀ s a s' s'', same_tables s' s'' → Post s a s' → Post s a s'').
Proof. exact (op_spec_unfold func K Pre Post). Qed.

(** its two readings: requests off (total), inside a context (signal allowed) *)
Theorem C09_op_spec_off {A} (func : MS A) K Pre Post :
  op_spec func K Pre Post →
  ∀ s r s', Inv s → Pre s → last_len s = None → max_nodes s = None → func s = (r, s') →
  ∃ a, r = Ok a ∧ Inv s' ∧ extends s s' ∧ frame s s' ∧
       (∀ L, Counts s L → Counts s' L) ∧ Post s a s'.
Proof. exact (spec_off func K Pre Post). Qed.

Theorem C09_op_spec_on {A} (func : MS A) K Pre Post :
  op_spec func K Pre Post →
  ∀ s r s', Inv s → Pre s → rctx s = true → func s = (r, s') →
  Inv s' ∧ extends s s' ∧ frame s s' ∧ (∀ L, Counts s L → Counts s' L) ∧
  match r with
  | Ok a => Post s a s'
  | Err e => (e = ENeedsReordering ∧ is_Some (last_len s)) ∨
             (e = ERuntime ∧ is_Some (max_nodes s))
  end.
Proof. exact (spec_on func K Pre Post). Qed.

(** ** The decorator, for any operation meeting [op_spec].
    Called at nesting depth 0 on a well-formed manager with exact counts:
    whether or not the request fires during the first attempt (and at
    whichever node creation), the call returns a value satisfying the
    operation's postcondition relative to the ORIGINAL state, the manager is
    well formed with the same ledger, the context flag is restored,
    reordering is still enabled if it was (and still disabled if it was),
    and every reference the user holds keeps its number and its function.
    (The first disjunct is the model's oracle error inside sifting.) *)
Theorem C09_decorator_correct {A} (func : MS A) Pre Post s L r s' :
  sifting_ok' →
  op_spec func (heldn L) Pre Post →
  Inv s → Counts s L → Pre s → rctx s = false → max_nodes s = None →
  try_to_reorder func s = (r, s') →
  r = Err EOracle ∨
  ∃ a, r = Ok a ∧ Inv s' ∧ Counts s' L ∧ rctx s' = false ∧
       (last_len s = None → last_len s' = None) ∧
       (is_Some (last_len s) → is_Some (last_len s')) ∧
       keeps (heldn L) s s' ∧ Post s a s'.
Proof. exact (try_to_reorder_correct func Pre Post s L r s'). Qed.

(** the internal signal never reaches the caller of a decorated operation,
    for EVERY value of [max_nodes] (with a bounded table the additional
    outcome is [Err ERuntime], never the signal) *)
Theorem C09_decorator_no_signal {A} (func : MS A) Pre Post s L r s' :
  sifting_ok' →
  op_spec func (heldn L) Pre Post →
  Inv s → Counts s L → Pre s → rctx s = false →
  try_to_reorder func s = (r, s') →
  r ≠ Err ENeedsReordering.
Proof. exact (try_to_reorder_no_signal func Pre Post s L r s'). Qed.

(** the operations below meet [op_spec] (for any node set [K] containing
    their operands) *)
Theorem C09_ite_meets_spec (K : positive → Prop) g u v :
  K (absn g) → K (absn u) → K (absn v) →
  op_spec (ite_ g u v) K
    (fun s => valid s g ∧ valid s u ∧ valid s v)
    (fun s w s' => valid s' w ∧
       ∀ ρ, denv s' w ρ = if denv s g ρ then denv s u ρ else denv s v ρ).
Proof. exact (ite_op_spec K g u v). Qed.

(** ** [ite] *)
Theorem C09_ite_dynamic s L g u v r s' :
  sifting_ok' →
  Inv s → Counts s L → rctx s = false → max_nodes s = None →
  valid s g → valid s u → valid s v →
  heldn L (absn g) → heldn L (absn u) → heldn L (absn v) →
  ite g u v s = (r, s') →
  r = Err EOracle ∨
  ∃ w, r = Ok w ∧ Inv s' ∧ Counts s' L ∧ rctx s' = false ∧
       (last_len s = None → last_len s' = None) ∧
       (is_Some (last_len s) → is_Some (last_len s')) ∧
       keeps (heldn L) s s' ∧
       valid s' w ∧
       ∀ ρ, denv s' w ρ = if denv s g ρ then denv s u ρ else denv s v ρ.
Proof. exact (ite_dynamic s L g u v r s'). Qed.

(** ** [var] *)
Theorem C09_var_dynamic s L name r s' :
  sifting_ok' →
  Inv s → Counts s L → rctx s = false → max_nodes s = None →
  is_Some (vars s !! name) →
  var name s = (r, s') →
  r = Err EOracle ∨
  ∃ w, r = Ok w ∧ Inv s' ∧ Counts s' L ∧ rctx s' = false ∧
       (last_len s = None → last_len s' = None) ∧
       (is_Some (last_len s) → is_Some (last_len s')) ∧
       keeps (heldn L) s s' ∧
       valid s' w ∧ ∀ ρ, denv s' w ρ = ρ name.
Proof. exact (var_dynamic s L name r s'). Qed.

(** ** [apply], every propositional symbol and alias of the vocabulary
    ([conn_sem]: the documented connective, as in C01) *)
Theorem C09_apply_dynamic s L op u v w r s' f :
  sifting_ok' →
  Inv s → Counts s L → rctx s = false → max_nodes s = None →
  op ∈ py_vocab → conn_sem op = Some f →
  valid s u → ovalid s v → ovalid s w → arity_ok op v w = true →
  heldn L (absn u) → oref L v → oref L w →
  apply op u v w s = (r, s') →
  r = Err EOracle ∨
  ∃ x, r = Ok x ∧ Inv s' ∧ Counts s' L ∧ rctx s' = false ∧
       (last_len s = None → last_len s' = None) ∧
       (is_Some (last_len s) → is_Some (last_len s')) ∧
       keeps (heldn L) s s' ∧
       valid s' x ∧
       ∀ ρ, denv s' x ρ = f (denv s u ρ) (odenv s v ρ) (odenv s w ρ).
Proof. exact (apply_dynamic s L op u v w r s' f). Qed.

Theorem C09_oref_def L o :
  oref L o ↔ match o with Some x => heldn L (absn x) | None => True end.
Proof. exact (conj (fun H => H) (fun H => H)). Qed.

(** ** [quantify], variables given by name.
    [qsemv s fa Q u ρ]: [∀ ρ', agree_offv Q ρ ρ' → denv s u ρ' = true] when
    [fa], [∃ ρ', agree_offv Q ρ ρ' ∧ denv s u ρ' = true] otherwise, where
    [agree_offv Q ρ ρ'] says that the two assignments agree on every name
    outside [Q]. *)
Theorem C09_qsemv_def s fa Q u ρ :
  (agree_offv Q ρ ρ ↔ ∀ x, x ∉ Q → ρ x = ρ x) ∧
  (qsemv s fa Q u ρ ↔
   if fa then ∀ ρ', (∀ x, x ∉ Q → ρ x = ρ' x) → denv s u ρ' = true
   else ∃ ρ', (∀ x, x ∉ Q → ρ x = ρ' x) ∧ denv s u ρ' = true).
Proof. exact (conj (conj (fun H => H) (fun H => H)) (conj (fun H => H) (fun H => H))). Qed.

Theorem C09_quantify_dynamic s L u qvars fa r s' :
  sifting_ok' →
  Inv s → Counts s L → rctx s = false → max_nodes s = None →
  valid s u → heldn L (absn u) →
  Forall (fun k => is_Some (vars s !! k)) qvars →
  quantify u true qvars fa s = (r, s') →
  r = Err EOracle ∨
  ∃ x, r = Ok x ∧ Inv s' ∧ Counts s' L ∧ rctx s' = false ∧
       (last_len s = None → last_len s' = None) ∧
       (is_Some (last_len s) → is_Some (last_len s')) ∧
       keeps (heldn L) s s' ∧
       valid s' x ∧
       ∀ ρ, denv s' x ρ = true ↔ qsemv s fa (list_to_set qvars) u ρ.
Proof. exact (quantify_dynamic s L u qvars fa r s'). Qed.

(** the recursion keeps the counts exact with the same ledger (needed for the
    aborted first attempt: its partial work is unreferenced) *)
Theorem C09_quantify_rec_counts fuel s L u ord q fa cache r s' :
  Inv s → Counts s L → valid s u → no_reorder s →
  Quantify.ord_ok s u ord q → Quantify.cache_ok s q fa cache →
  nvars s - lvl_of s u < fuel →
  quantify_rec fuel u ord q fa cache s = (r, s') → Counts s' L.
Proof. exact (quantify_rec_counts fuel s L u ord q fa cache r s'). Qed.

(** ** [cofactor], values given by name ([overridev nv ρ]: the assignment
    [ρ] with the names in [nv] forced; later pairs win, as in a dict) *)
Theorem C09_overridev_def nv ρ x :
  overridev nv ρ x = match nv !! x with Some b => b | None => ρ x end.
Proof. exact eq_refl. Qed.

Theorem C09_cofactor_dynamic s L u values r s' :
  sifting_ok' →
  Inv s → Counts s L → rctx s = false → max_nodes s = None →
  valid s u → heldn L (absn u) →
  Forall (fun p => is_Some (vars s !! p.1)) values →
  cofactor u true values s = (r, s') →
  r = Err EOracle ∨
  ∃ x, r = Ok x ∧ Inv s' ∧ Counts s' L ∧ rctx s' = false ∧
       (last_len s = None → last_len s' = None) ∧
       (is_Some (last_len s) → is_Some (last_len s')) ∧
       keeps (heldn L) s s' ∧
       valid s' x ∧
       ∀ ρ, denv s' x ρ = denv s u (overridev (list_to_map (reverse values)) ρ).
Proof. exact (cofactor_dynamic s L u values r s'). Qed.

Theorem C09_cofactor_rec_counts fuel s L u ord values cache r s' :
  Inv s → Counts s L → valid s u →
  Cofactor.ord_ok s u ord values → Cofactor.cache_ok s values cache →
  nvars s - lvl_of s u < fuel →
  cofactor_rec fuel u ord values cache s = (r, s') → Counts s' L.
Proof. exact (cofactor_rec_counts fuel s L u ord values cache r s'). Qed.

(** ** Refutations: the property fails for the undecorated entry points.
    Managers built by public calls only, every operand held by the user,
    dynamic reordering enabled with a low threshold ([OSetLastLen] stands for
    a manager that has grown past twice its size at the last reordering). *)
Example C09_find_or_add_refuted :
  let w := run_ops [ONew [(0, 0); (1, 1)]; OVar 1; OIncref 2;
                    OConfigure (Some true); OSetLastLen (Some 1)] in
  let s := world_get w 0 in
  rctx s = false ∧ last_len s = Some 1 ∧ mem 2 s = true ∧
  fst (find_or_add 0 (-1) 2 s) = Err ENeedsReordering ∧
  snd (step w 0 (OFindOrAdd 0 (-1) 2)) = Err ENeedsReordering.
Proof. exact find_or_add_signal_escapes. Qed.

Example C09_image_guard_needed :
  let w := run_ops [ONew [(0, 0); (1, 1)]; OVar 0; OIncref 2; OVar 1; OIncref 3;
                    OConfigure (Some true); OSetLastLen (Some 1)] in
  let s := world_get w 0 in
  rctx s = false ∧ last_len s = Some 1 ∧ mem 2 s = true ∧ mem 3 s = true ∧
  fst (image 2 3 true [] true [] false s) = Err ENeedsReordering ∧
  (* the public entry points run with requests disabled (repaired in dd): they
     succeed and restore the threshold *)
  match snd (step w 0 (OImage 2 3 true [] true [] false)) with Ok _ => true | Err _ => false end = true ∧
  match snd (step w 0 (OPreimage 2 3 true [] true [] false)) with Ok _ => true | Err _ => false end = true ∧
  last_len (world_get (fst (step w 0 (OImage 2 3 true [] true [] false))) 0) = Some 1.
Proof. exact image_signal_escapes. Qed.

(** ** Positive runs, also for keys given as levels.
    Four variables v0..v3, all held; f = (v0 /\ v2) \/ (v1 /\ v3) is
    reference 10, held; dynamic reordering enabled ([dyn_history]).
    [table 4 s r]: the truth table, by variable name, of a returned
    reference. *)
Theorem C09_dyn_history_def :
  dyn_history =
  [ONew [(0, 0); (1, 1); (2, 2); (3, 3)];
   OVar 0; OIncref 2; OVar 1; OIncref 3; OVar 2; OIncref 4; OVar 3; OIncref 5;
   OApply "and" 2 (Some 4%Z) None; OIncref 6;
   OApply "and" 3 (Some 5%Z) None; OIncref 7;
   OApply "or" 6 (Some 7%Z) None; OIncref 10;
   OConfigure (Some true)].
Proof. exact eq_refl. Qed.

(** the forced trigger fires at the first node creation inside
    [apply "and" f v1]: sifting moves v2 to the top, the second attempt
    returns another node number, the same function by name; every held
    reference keeps number and meaning; requests are on again *)
Example C09_apply_example :
  let w0 := run_ops dyn_history in
  let w1 := fst (step w0 0 (OSetTrig (Some 1))) in
  let o := OApply "and" 10 (Some 3%Z) None in
  let '(wA, rA) := step w0 0 o in
  let '(wB, rB) := step w1 0 o in
  let s := world_get w0 0 in let sA := world_get wA 0 in let sB := world_get wB 0 in
  rA = Ok (VZ 12) ∧ rB = Ok (VZ 11) ∧
  map_to_list (vars sA) = map_to_list (vars s) ∧
  vars sB !! 2 = Some 0 ∧ vars s !! 2 = Some 2 ∧
  last_len s = Some 100 ∧ last_len sA = Some 100 ∧ last_len sB = Some 18 ∧
  rctx sB = false ∧ trig sB = None ∧
  table 4 sB rB = table 4 sA rA ∧
  forallb (fun u => bool_decide (table 4 sB (Ok (VZ u)) = table 4 s (Ok (VZ u))))
          [2; 3; 4; 5; 6; 7; 10]%Z = true.
Proof. exact apply_dynamic_example. Qed.

(** [quantify] (like [cofactor]) accepts LEVELS instead of names
    ([_map_to_level]).  Before dd commit 827d7f0 the decorated method read the
    same integers a second time, against the new order: [\E level 0. f] was
    [\E v0. f] without the request and [\E v2. f] with it (this file used to
    contain that refutation).  The public methods now turn levels into names
    before they call the decorated workers; on the SAME scenario the result is
    [\E v0. f] whether the request fires or not, as it is by name, although
    the reordering really happens (v2 sits at level 0 afterwards) and
    [\E v2. f] is another function.  The general statements:
    [Properties/C09d.v]. *)
Example C09_quantify_levels_fixed :
  let w0 := run_ops dyn_history in
  let w1 := fst (step w0 0 (OSetTrig (Some 1))) in
  let '(wA, rA) := step w0 0 (OQuantify 10 false [0] false) in
  let '(wB, rB) := step w1 0 (OQuantify 10 false [0] false) in
  let '(wC, rC) := step w1 0 (OQuantify 10 true [0] false) in
  let '(wD, rD) := step w0 0 (OQuantify 10 true [2] false) in
  let s := world_get w0 0 in let sB := world_get wB 0 in
  vars s !! 0 = Some 0 ∧ vars s !! 2 = Some 2 ∧ vars sB !! 2 = Some 0 ∧
  bool_decide (is_Some (last_len sB)) = true ∧ rctx sB = false ∧ trig sB = None ∧
  table 4 (world_get wB 0) rB = table 4 (world_get wA 0) rA ∧
  table 4 (world_get wC 0) rC = table 4 (world_get wA 0) rA ∧
  table 4 (world_get wB 0) rB ≠ table 4 (world_get wD 0) rD.
Proof. exact quantify_levels_stable. Qed.

(** [cofactor]: [f | level 1 = TRUE] is [f | v1 = TRUE] whether the request
    fires or not, although v0 sits at level 1 afterwards *)
Example C09_cofactor_levels_fixed :
  let w0 := run_ops dyn_history in
  let w1 := fst (step w0 0 (OSetTrig (Some 1))) in
  let '(wA, rA) := step w0 0 (OCofactor 10 false [(1, true)]) in
  let '(wB, rB) := step w1 0 (OCofactor 10 false [(1, true)]) in
  let '(wC, rC) := step w1 0 (OCofactor 10 true [(1, true)]) in
  let '(wD, rD) := step w0 0 (OCofactor 10 true [(0, true)]) in
  let s := world_get w0 0 in let sB := world_get wB 0 in
  lvl2var s !! 1 = Some 1 ∧ lvl2var sB !! 1 = Some 0 ∧
  bool_decide (is_Some (last_len sB)) = true ∧ rctx sB = false ∧ trig sB = None ∧
  table 4 (world_get wB 0) rB = table 4 (world_get wA 0) rA ∧
  table 4 (world_get wC 0) rC = table 4 (world_get wA 0) rA ∧
  table 4 (world_get wB 0) rB ≠ table 4 (world_get wD 0) rD.
Proof. exact cofactor_levels_stable. Qed.

(** The hypothesis "operands are held" ([heldn L (absn u)]) is necessary:
    the same history with f = 10 not held.  The aborted first attempt is
    followed by sifting, whose initial collection frees node 10; the second
    attempt fails with [KeyError]; dynamic reordering stays enabled
    ([_last_len] is restored whatever the outcome of the second attempt). *)
Example C09_unheld_operand_refuted :
  let hist := [ONew [(0, 0); (1, 1); (2, 2); (3, 3)];
     OVar 0; OIncref 2; OVar 1; OIncref 3; OVar 2; OIncref 4; OVar 3; OIncref 5;
     OApply "and" 2 (Some 4%Z) None; OIncref 6;
     OApply "and" 3 (Some 5%Z) None; OIncref 7;
     OApply "or" 6 (Some 7%Z) None;
     OConfigure (Some true)] in
  let w0 := run_ops hist in
  let w1 := fst (step w0 0 (OSetTrig (Some 1))) in
  let o := OApply "and" 10 (Some 3%Z) None in
  mem 10 (world_get w0 0) = true ∧
  snd (step w0 0 o) = Ok (VZ 12) ∧
  snd (step w1 0 o) = Err EKey ∧
  last_len (world_get w1 0) = Some 100 ∧
  bool_decide (is_Some (last_len (world_get (fst (step w1 0 o)) 0))) = true.
Proof. exact unheld_operand_lost. Qed.
