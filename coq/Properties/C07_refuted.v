(** * C07 (refuted clause): "nothing reachable from an externally referenced
      node is lost by a swap" is FALSE of the model.

    The state is produced by public calls only (so [Inv], exact counts and
    disabled reordering follow from the history theorem of [Proofs/Total.v]);
    the level sets are the ones [_levels()] returns.  Node 6 is the high
    child of the referenced node 7; the swap of levels 0 and 1 replaces it by
    a fresh node and frees it. *)
From DD Require Import Total Swap SwapJ.

Definition cx_ops : list op :=
  [OVar 0; OVar 1; OVar 2;
   OApply "and"%string 2%Z (Some 3%Z) None; OApply "or"%string 5%Z (Some 4%Z) None;
   OIncref 7%Z; OGc None].
Definition cx_st : st :=
  world_get (Total.run world_empty 0 (ONew [(0, 0); (1, 1); (2, 2)] :: cx_ops)) 0.

Lemma cx_good : Good cx_st.
Proof.
  apply run_inv_from_new; [by vm_compute|].
  cbn [cx_ops hist_ok caller_ok]. repeat split; by vm_compute.
Qed.

Theorem C07_reach_clause_false :
  ¬ (∀ s x al L r s',
       Inv s → Counts s L → last_len s = None → x + 1 < nvars s → levels_ok s al →
       swap x (x + 1) (Some al) s = (r, s') →
       (∃ res, r = Ok res) →
       ∀ n, reach (succ s) (fun k => 0 < L k) n → n ∈ dom (succ s')).
Proof.
  intros H. destruct cx_good as (HI&Hll&L&HC).
  destruct (levels_spec cx_st HI) as (al&Hal&Hok).
  destruct (swap 0 (0 + 1) (Some al) cx_st) as [r s'] eqn:Hsw.
  assert (Hnv : 0 + 1 < nvars cx_st) by (vm_compute; lia).
  (* the computed level sets and the computed outcome *)
  assert (Ecomp : fst (levels_ cx_st) = Ok al) by (by rewrite Hal).
  assert (HL7 : 0 < L 7%positive).
  { destruct HC as [HC1 _].
    assert (succ cx_st !! 7%positive = Some (Triple 0 4 6)) as E7 by (by vm_compute).
    assert (7%positive ∈ dom (succ cx_st)) as Hd
      by (apply (proj2 (elem_of_dom (succ cx_st) 7%positive)); by rewrite E7).
    specialize (HC1 _ Hd).
    assert (refc cx_st !! 7%positive = Some 1) as E1 by (by vm_compute).
    assert (indeg (succ cx_st) 7%positive = 0) as E2 by (by vm_compute).
    rewrite E1, E2 in HC1. injection HC1. lia. }
  assert (Hreach : reach (succ cx_st) (fun k => 0 < L k) 6%positive).
  { change 6%positive with (absn (t_hi (Triple 0 4 6))).
    apply (reach_hi _ _ 7%positive); [|by vm_compute|done].
    apply reach_root; [done|].
    apply (proj2 (elem_of_dom (succ cx_st) 7%positive)). exists (Triple 0 4 6). by vm_compute. }
  assert (Hout : (∃ res, r = Ok res) ∧ succ s' !! 6%positive = None).
  { assert (r = fst (swap 0 (0 + 1) (Some al) cx_st)) as -> by (by rewrite Hsw).
    assert (s' = snd (swap 0 (0 + 1) (Some al) cx_st)) as -> by (by rewrite Hsw).
    clear Hsw H Hok Hal.
    assert (al = match fst (levels_ cx_st) with Ok a => a | Err _ => ∅ end) as ->
      by (by rewrite Ecomp).
    clear Ecomp. split; [eexists|]; by vm_compute. }
  destruct Hout as [Hres Hnone].
  pose proof (H cx_st 0 al L r s' HI HC Hll Hnv Hok Hsw Hres 6%positive Hreach) as Hd.
  apply elem_of_dom in Hd as [t Ht]. congruence.
Qed.
