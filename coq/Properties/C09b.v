(** * Property C09 (second part) — the remaining decorated operations under
      dynamic reordering: [compose] (one or several substitutions),
      [rename], [cube], the quantifier rows of [apply], and [let].  Only
      statements closed by [exact]; proofs live in [Proofs/Dynamic2.v].

      Same reading as [Properties/C09.v]: every theorem is relative to the
      premise [sifting_ok'] (definition restated in [C09_sifting_ok'_def]),
      for a manager satisfying [Inv] with exact counts for the ledger [L]
      of references held by the user, called at nesting depth 0
      ([rctx s = false]); reference operands are valid and held
      ([heldn L]), names are declared.  Conclusion, whichever node
      creation the request fires at (or if it does not fire): no signal
      reaches the caller (the only other outcome is the model's oracle error
      inside sifting), the result denotes the stated function BY NAME
      relative to the state before the call, the manager is well formed with
      the same ledger, the context flag is off, reordering is still enabled
      if it was, and every held reference keeps number and function
      ([keeps]).

      Everything is stated by variable name because levels change:
      - [vsubstv s nsub ρ y]: [denv s g ρ] if [nsub !! y = Some g], else [ρ y]
        (simultaneous substitution, replacements read under the ORIGINAL
        assignment);
      - [renv d ρ y = ρ (default y (d !! y))] (substitution of names);
      - [overridev nv ρ] (constants), [qsemv] (abstraction over names):
        see [Properties/C09.v];
      - dictionaries given as lists in iteration order: the last binding of
        a key wins ([list_to_map (reverse l)]). *)
From DD Require Import Dynamic2.
Local Open Scope string_scope.

(** ** Definitions the statements are read against *)
Theorem C09b_vsubstv_def s nsub ρ y :
  vsubstv s nsub ρ y = match nsub !! y with Some g => denv s g ρ | None => ρ y end.
Proof. exact eq_refl. Qed.
Theorem C09b_renv_def d ρ y : renv d ρ y = ρ (default y (d !! y)).
Proof. exact eq_refl. Qed.
Theorem C09b_let_sem_def s d ρ :
  let_sem s d ρ =
  match d with
  | LetBool d => overridev (list_to_map (reverse d)) ρ
  | LetRef d => vsubstv s (list_to_map (reverse d)) ρ
  | LetName d => renv (list_to_map (reverse d)) ρ
  end.
Proof. exact eq_refl. Qed.
Theorem C09b_let_ok_def L s d :
  let_ok L s d ↔
  match d with
  | LetBool d => Forall (fun p => is_Some (vars s !! p.1)) d
  | LetRef d =>
      Forall (fun p => is_Some (vars s !! p.1) ∧ valid s p.2 ∧ heldn L (absn p.2)) d
  | LetName d => ∀ x y, (x, y) ∈ d → is_Some (vars s !! y)
  end.
Proof. exact (conj (fun H => H) (fun H => H)). Qed.

(** ** [compose] (method [BDD.compose], [let] with references): one
    substitution runs [_compose], any other number [_vector_compose]; one
    statement covers both *)
Theorem C09b_compose_dynamic s L f var_sub r s' :
  sifting_ok' →
  Inv s → Counts s L → rctx s = false → max_nodes s = None →
  valid s f → heldn L (absn f) →
  Forall (fun p => is_Some (vars s !! p.1) ∧ valid s p.2 ∧ heldn L (absn p.2)) var_sub →
  compose f var_sub s = (r, s') →
  r = Err EOracle ∨
  ∃ x, r = Ok x ∧ Inv s' ∧ Counts s' L ∧ rctx s' = false ∧
       (last_len s = None → last_len s' = None) ∧
       (is_Some (last_len s) → is_Some (last_len s')) ∧
       keeps (heldn L) s s' ∧
       valid s' x ∧
       ∀ ρ, denv s' x ρ = denv s f (vsubstv s (list_to_map (reverse var_sub)) ρ).
Proof. exact (compose_dynamic s L f var_sub r s'). Qed.
Print Assumptions C09b_compose_dynamic.

(** one substitution [f[v := g]], spelled out *)
Theorem C09b_compose1_dynamic s L f v g r s' :
  sifting_ok' →
  Inv s → Counts s L → rctx s = false → max_nodes s = None →
  valid s f → heldn L (absn f) →
  is_Some (vars s !! v) → valid s g → heldn L (absn g) →
  compose f [(v, g)] s = (r, s') →
  r = Err EOracle ∨
  ∃ x, r = Ok x ∧ Inv s' ∧ Counts s' L ∧ rctx s' = false ∧
       (last_len s = None → last_len s' = None) ∧
       (is_Some (last_len s) → is_Some (last_len s')) ∧
       keeps (heldn L) s s' ∧
       valid s' x ∧
       ∀ ρ, denv s' x ρ =
            denv s f (fun y => if decide (y = v) then denv s g ρ else ρ y).
Proof. exact (compose1_dynamic s L f v g r s'). Qed.
Print Assumptions C09b_compose1_dynamic.

(** ** [rename] ([let] with names): every target name declared *)
Theorem C09b_rename_dynamic s L u dvars r s' :
  sifting_ok' →
  Inv s → Counts s L → rctx s = false → max_nodes s = None →
  valid s u → heldn L (absn u) →
  (∀ x y, (x, y) ∈ dvars → is_Some (vars s !! y)) →
  rename u dvars s = (r, s') →
  r = Err EOracle ∨
  ∃ x, r = Ok x ∧ Inv s' ∧ Counts s' L ∧ rctx s' = false ∧
       (last_len s = None → last_len s' = None) ∧
       (is_Some (last_len s) → is_Some (last_len s')) ∧
       keeps (heldn L) s s' ∧
       valid s' x ∧
       ∀ ρ, denv s' x ρ = denv s u (renv (list_to_map (reverse dvars)) ρ).
Proof. exact (rename_dynamic s L u dvars r s'). Qed.
Print Assumptions C09b_rename_dynamic.

(** ** [cube]: the conjunction of the literals.  The nested decorated calls
    ([var], [apply] -> [ite]) run inside the context of [cube]; a request
    raised in any of them is served by [cube] itself. *)
Theorem C09b_cube_dynamic s L dvars r s' :
  sifting_ok' →
  Inv s → Counts s L → rctx s = false → max_nodes s = None →
  Forall (fun p => is_Some (vars s !! p.1)) dvars →
  cube dvars s = (r, s') →
  r = Err EOracle ∨
  ∃ x, r = Ok x ∧ Inv s' ∧ Counts s' L ∧ rctx s' = false ∧
       (last_len s = None → last_len s' = None) ∧
       (is_Some (last_len s) → is_Some (last_len s')) ∧
       keeps (heldn L) s s' ∧
       valid s' x ∧
       ∀ ρ, denv s' x ρ = true ↔ ∀ v b, (v, b) ∈ dvars → ρ v = b.
Proof. exact (cube_dynamic s L dvars r s'). Qed.
Print Assumptions C09b_cube_dynamic.

(** ** The quantifier rows of [apply]: [apply op u v] abstracts [v] over the
    support of [u] ([Q]: the names [u] depends on, [depends] of
    [Proofs/Support.v]).  [u] is only read before the decorated [quantify]
    starts and need not be held. *)
Theorem C09b_apply_quant_dynamic s L op fa u v r s' :
  sifting_ok' →
  Inv s → Counts s L → rctx s = false → max_nodes s = None →
  (fa = true ∧ op ∈ ["\A"; "forall"]) ∨ (fa = false ∧ op ∈ ["\E"; "exists"]) →
  valid s u → valid s v → heldn L (absn v) →
  apply op u (Some v) None s = (r, s') →
  r = Err EOracle ∨
  ∃ x Q, r = Ok x ∧ Inv s' ∧ Counts s' L ∧ rctx s' = false ∧
       (last_len s = None → last_len s' = None) ∧
       (is_Some (last_len s) → is_Some (last_len s')) ∧
       keeps (heldn L) s s' ∧
       valid s' x ∧
       (∀ y, y ∈ Q ↔ ∃ l, vars s !! y = Some l ∧ depends s u l) ∧
       ∀ ρ, denv s' x ρ = true ↔ qsemv s fa Q v ρ.
Proof. exact (apply_quant_dynamic s L op fa u v r s'). Qed.
Print Assumptions C09b_apply_quant_dynamic.

(** ** [let]: constants, references, names *)
Theorem C09b_let_dynamic s L d u r s' :
  sifting_ok' →
  Inv s → Counts s L → rctx s = false → max_nodes s = None →
  valid s u → heldn L (absn u) → let_ok L s d →
  let_ d u s = (r, s') →
  r = Err EOracle ∨
  ∃ x, r = Ok x ∧ Inv s' ∧ Counts s' L ∧ rctx s' = false ∧
       (last_len s = None → last_len s' = None) ∧
       (is_Some (last_len s) → is_Some (last_len s')) ∧
       keeps (heldn L) s s' ∧
       valid s' x ∧
       ∀ ρ, denv s' x ρ = denv s u (let_sem s d ρ).
Proof. exact (let_dynamic s L d u r s'). Qed.
Print Assumptions C09b_let_dynamic.

(** ** The operations meet the by-name specification [op_spec] of the
    decorator theorem (for any node set [K] containing their reference
    operands); [Counts] is kept with every ledger also when the first
    attempt is aborted by the signal *)
Theorem C09b_compose_meets_spec (K : positive → Prop) f var_sub :
  K (absn f) → Forall (fun p => K (absn p.2)) var_sub →
  op_spec (compose_body f var_sub) K
    (fun s => valid s f ∧
              Forall (fun p => is_Some (vars s !! p.1) ∧ valid s p.2) var_sub)
    (fun s x s' => valid s' x ∧
       ∀ ρ, denv s' x ρ = denv s f (vsubstv s (list_to_map (reverse var_sub)) ρ)).
Proof. exact (compose_op_spec K f var_sub). Qed.
Print Assumptions C09b_compose_meets_spec.

Theorem C09b_rename_meets_spec (K : positive → Prop) u dvars :
  K (absn u) →
  op_spec (rename_ u dvars) K
    (fun s => valid s u ∧ ∀ x y, (x, y) ∈ dvars → is_Some (vars s !! y))
    (fun s x s' => valid s' x ∧
       ∀ ρ, denv s' x ρ = denv s u (renv (list_to_map (reverse dvars)) ρ)).
Proof. exact (rename_op_spec K u dvars). Qed.
Print Assumptions C09b_rename_meets_spec.

(** [_compose] keeps the counts exact inside a context too *)
Theorem C09b_compose_rec_counts fuel s L f_ j g cache r s' :
  Inv s → Counts s L → valid s f_ → valid s g → no_reorder s →
  cache_ok_c s j cache →
  nvars s - (lvl_of s f_ `min` lvl_of s g) < fuel →
  compose_rec fuel f_ j g cache s = (r, s') → Counts s' L.
Proof. exact (compose_rec_counts_nr fuel s L f_ j g cache r s'). Qed.
Print Assumptions C09b_compose_rec_counts.

(** [_vector_compose] and [_copy_bdd] are safe for arbitrary arguments inside
    a context or with requests off ([safe]: invariant, extension, frame,
    counts with every ledger) *)
Theorem C09b_vector_compose_rec_safe fuel f_ ls cache s r s' :
  Inv s → no_reorder s → vector_compose_rec fuel f_ ls cache s = (r, s') →
  Inv s' ∧ extends s s' ∧ frame s s' ∧ ∀ L, Counts s L → Counts s' L.
Proof. exact (csafe_vector_compose_rec fuel f_ ls cache s r s'). Qed.
Print Assumptions C09b_vector_compose_rec_safe.

Theorem C09b_copy_bdd_rec_safe fuel src u lm cache s r s' :
  Inv s → no_reorder s → copy_bdd_rec fuel src u lm cache s = (r, s') →
  Inv s' ∧ extends s s' ∧ frame s s' ∧ ∀ L, Counts s L → Counts s' L.
Proof. exact (csafe_copy_bdd_rec fuel src u lm cache s r s'). Qed.
Print Assumptions C09b_copy_bdd_rec_safe.

(** ** Running the model: the forced trigger fires INSIDE each operation.
    History [dyn_history] ([Properties/C09.v]): v0..v3 held, 6 = v0 /\ v2,
    7 = v1 /\ v3, f = 10 = 6 \/ 7, all held, requests enabled.  [dyn_cmp o]
    runs [o] from that state without and with [OSetTrig (Some 1)] and checks:
    both calls succeed; same truth table by name; with the trigger the
    request did fire ([trig] consumed), sifting moved v2 to level 0,
    [last_len = Some 18] (requests on again), context flag off, and the
    held references 2, 3, 4, 5, 6, 7, 10 keep their truth tables. *)
Theorem C09b_dyn_cmp_def o :
  dyn_cmp o =
  let w0 := run_ops dyn_history in
  let w1 := fst (step w0 0 (OSetTrig (Some 1))) in
  let '(wA, rA) := step w0 0 o in
  let '(wB, rB) := step w1 0 o in
  let sB := world_get wB 0 in
  bool_decide (is_Some (table 4 (world_get wA 0) rA)) &&
  bool_decide (table 4 (world_get wA 0) rA = table 4 sB rB) &&
  bool_decide (trig sB = None) && bool_decide (last_len sB = Some 18) &&
  bool_decide (vars sB !! 2 = Some 0) && negb (rctx sB) &&
  forallb (fun u => bool_decide (table 4 sB (Ok (VZ u)) = table 4 (world_get w0 0) (Ok (VZ u))))
          [2; 3; 4; 5; 6; 7; 10]%Z.
Proof. exact eq_refl. Qed.

Example C09b_examples :
  forallb dyn_cmp
    [OCompose 10 [(0, (-7)%Z)];
     OCompose 10 [(0, 7%Z); (2, (-3)%Z)];
     ORename 6 [(0, 1)];
     OCube [(0, true); (3, false)];
     OApply "\E" 2 (Some 10%Z) None;
     OApply "forall" 6 (Some 10%Z) None;
     OLet (LetRef [(1, 6%Z)]) 10;
     OLet (LetName [(0, 1)]) 6;
     OLet (LetBool [(1, true)]) 10] = true.
Proof. exact dynamic2_examples. Qed.
Print Assumptions C09b_examples.
