(** * Property C01, the comparisons of [dd.autoref.Function]:
      [u == v], [u != v], [u <= v], [u < v] — what they RETURN.

    Model: [f_eq], [f_le], [f_lt] of [Model/Autoref.v]; operations [AEq],
    [ANe], [ALe], [ALt] of the alphabet [aop] ([Model/Driver3.v]).  The safety
    of these calls (invariant, surviving handles) is [C08_call]; here: the
    value.  For two live [Function] objects [hu ↦ u], [hv ↦ v] of one manager:

    - [u == v] is true iff [u] and [v] denote the same function of the
      variable names (canonicity, [C02_canonical]); [u != v] is its negation,
      true iff some assignment tells them apart;
    - [u <= v] is true iff [u] implies [v] under every assignment;
    - [u < v] is true iff [u] implies [v] and some assignment tells them apart.

    [==]/[!=] change nothing.  [<=]/[<] compute [v | ~u] (an [ite]: nodes may
    be created) and hold three temporaries; the exact frame is [CmpFrame]
    (requests disabled) or [CmpFrameD] (dynamic reordering possibly enabled:
    the manager may sift in the middle, so "every handle keeps node and
    function" replaces [extends]).  A dead or unknown handle is a [KeyError]
    and nothing changes.

    Node limit ([bdd.max_nodes], model field [max_nodes]): [<=]/[<] may create
    nodes, so the theorems that conclude an [Ok] result ([C01_le], [C01_lt],
    [C01_le_dynamic], [C01_lt_dynamic]) assume [max_nodes (mgr a) = None] (no
    limit, the default).  With a limit the [or] may raise [RuntimeError]; what
    holds then is the safety statement of [C08_call] (no side condition: the
    temporary [~u] dies with the unwinding frame, in CPython as in [f_le]).
    [==]/[!=] create nothing and need no such hypothesis.

    [run_aop' w m o] of [Driver3.astep] is [run_aop w o] for these operations
    ([C01_compare_run_aop']).  Only statements closed by [exact]; proofs live
    in [Proofs/FnCompare.v]. *)
From DD Require Import FnCompare AutorefInv2.
Local Open Scope string_scope.

(** ** Hypotheses *)

(** what [==]/[!=] need: both [AInv] and [AInvD] give it *)
Theorem C01_AHandles_unfold a :
  AHandles a ↔ Inv (mgr a) ∧ ∀ h u, handles a !! h = Some u → valid (mgr a) u.
Proof. exact (conj (fun H => H) (fun H => H)). Qed.
Print Assumptions C01_AHandles_unfold.

Theorem C01_AHandles_static a : AInv a → AHandles a.
Proof. exact (AHandles_AInv a). Qed.
Print Assumptions C01_AHandles_static.

Theorem C01_AHandles_dynamic a : AInvD a → AHandles a.
Proof. exact (AHandles_AInvD a). Qed.
Print Assumptions C01_AHandles_dynamic.

Theorem C01_is_acompare_unfold o hu hv :
  is_acompare o hu hv ↔ o = AEq hu hv ∨ o = ANe hu hv ∨ o = ALe hu hv ∨ o = ALt hu hv.
Proof. exact (conj (fun H => H) (fun H => H)). Qed.
Print Assumptions C01_is_acompare_unfold.

Theorem C01_compare_run_aop' w m hu hv :
  run_aop' w m (AEq hu hv) = run_aop w (AEq hu hv) ∧
  run_aop' w m (ANe hu hv) = run_aop w (ANe hu hv) ∧
  run_aop' w m (ALe hu hv) = run_aop w (ALe hu hv) ∧
  run_aop' w m (ALt hu hv) = run_aop w (ALt hu hv).
Proof. exact (conj eq_refl (conj eq_refl (conj eq_refl eq_refl))). Qed.
Print Assumptions C01_compare_run_aop'.

(** ** [u == v], [u != v] *)

Theorem C01_eq w hu hv a r a' u v :
  AHandles a → handles a !! hu = Some u → handles a !! hv = Some v →
  run_aop w (AEq hu hv) a = (r, a') →
  a' = a ∧ ∃ b, r = Ok (VB b) ∧ (b = true ↔ ∀ ρ, denv (mgr a) u ρ = denv (mgr a) v ρ).
Proof. exact (eq_returns w hu hv a r a' u v). Qed.
Print Assumptions C01_eq.

Theorem C01_ne w hu hv a r a' u v :
  AHandles a → handles a !! hu = Some u → handles a !! hv = Some v →
  run_aop w (ANe hu hv) a = (r, a') →
  a' = a ∧ ∃ b, r = Ok (VB b) ∧
    (b = true ↔ ∃ ρ, denv (mgr a) u ρ ≠ denv (mgr a) v ρ) ∧
    (b = false ↔ ∀ ρ, denv (mgr a) u ρ = denv (mgr a) v ρ).
Proof. exact (ne_returns w hu hv a r a' u v). Qed.
Print Assumptions C01_ne.

(** a dead or unknown handle, any of the four comparisons, any state *)
Theorem C01_compare_dead w o hu hv a r a' :
  is_acompare o hu hv → handles a !! hu = None ∨ handles a !! hv = None →
  run_aop w o a = (r, a') → r = Err EKey ∧ a' = a.
Proof. exact (compare_dead w o hu hv a r a'). Qed.
Print Assumptions C01_compare_dead.

(** ** [u <= v], [u < v], reordering requests disabled *)

(** the frame: the wrapper invariant; the wrapped manager only gained nodes
    (so every old reference keeps its meaning, [C02_extends]); the same live
    handles and handle counter; the counts are exact for the SAME ledger of
    external references (the three temporaries net to zero) *)
Theorem C01_CmpFrame_unfold a a' :
  CmpFrame a a' ↔
  AInv a' ∧ extends (mgr a) (mgr a') ∧ handles a' = handles a ∧
  next_hid a' = next_hid a ∧ Counts (mgr a') (hledger a).
Proof. exact (conj (fun H => H) (fun H => H)). Qed.
Print Assumptions C01_CmpFrame_unfold.

Theorem C01_le w hu hv a r a' u v :
  AInv a → max_nodes (mgr a) = None →
  handles a !! hu = Some u → handles a !! hv = Some v →
  run_aop w (ALe hu hv) a = (r, a') →
  CmpFrame a a' ∧
  ∃ b, r = Ok (VB b) ∧
    (b = true ↔ ∀ ρ, denv (mgr a) u ρ = true → denv (mgr a) v ρ = true).
Proof. exact (le_returns w hu hv a r a' u v). Qed.
Print Assumptions C01_le.

Theorem C01_lt w hu hv a r a' u v :
  AInv a → max_nodes (mgr a) = None →
  handles a !! hu = Some u → handles a !! hv = Some v →
  run_aop w (ALt hu hv) a = (r, a') →
  CmpFrame a a' ∧
  ∃ b, r = Ok (VB b) ∧
    (b = true ↔ (∀ ρ, denv (mgr a) u ρ = true → denv (mgr a) v ρ = true) ∧
                ∃ ρ, denv (mgr a) u ρ ≠ denv (mgr a) v ρ).
Proof. exact (lt_returns w hu hv a r a' u v). Qed.
Print Assumptions C01_lt.

(** ** [u <= v], [u < v], dynamic reordering possibly enabled *)

(** [AInvDT] is [AInvD] with an empty oracle tape ([C08b_AInvDT_unfold]); the
    frame: the invariant, every live [Function] keeps node and function
    ([AKeepAll], [C08b_AKeepAll_unfold]), same handles, same ledger, same
    reordering mode.  Neither the reordering signal nor the oracle error
    reaches the caller: the result is [Ok]. *)
Theorem C01_CmpFrameD_unfold a a' :
  CmpFrameD a a' ↔
  AInvDT a' ∧ AKeepAll a a' ∧ handles a' = handles a ∧ next_hid a' = next_hid a ∧
  Counts (mgr a') (hledger a) ∧
  (last_len (mgr a) = None → last_len (mgr a') = None) ∧
  (is_Some (last_len (mgr a)) → is_Some (last_len (mgr a'))).
Proof. exact (conj (fun H => H) (fun H => H)). Qed.
Print Assumptions C01_CmpFrameD_unfold.

Theorem C01_le_dynamic w hu hv a r a' u v :
  AInvDT a → max_nodes (mgr a) = None →
  handles a !! hu = Some u → handles a !! hv = Some v →
  run_aop w (ALe hu hv) a = (r, a') →
  CmpFrameD a a' ∧
  ∃ b, r = Ok (VB b) ∧
    (b = true ↔ ∀ ρ, denv (mgr a) u ρ = true → denv (mgr a) v ρ = true).
Proof. exact (le_returns_dyn w hu hv a r a' u v). Qed.
Print Assumptions C01_le_dynamic.

Theorem C01_lt_dynamic w hu hv a r a' u v :
  AInvDT a → max_nodes (mgr a) = None →
  handles a !! hu = Some u → handles a !! hv = Some v →
  run_aop w (ALt hu hv) a = (r, a') →
  CmpFrameD a a' ∧
  ∃ b, r = Ok (VB b) ∧
    (b = true ↔ (∀ ρ, denv (mgr a) u ρ = true → denv (mgr a) v ρ = true) ∧
                ∃ ρ, denv (mgr a) u ρ ≠ denv (mgr a) v ρ).
Proof. exact (lt_returns_dyn w hu hv a r a' u v). Qed.
Print Assumptions C01_lt_dynamic.

(** ** Examples (by evaluation) *)

(** manager 0: four variables; handles 0..3 are v0..v3, handle 4 is
    [g = v0 & v2], handle 6 is [f = (v0 & v2) | (v1 & v3)]; handle 5 is dead *)
Definition lvc : list (nat * nat) := [(0, 0); (1, 1); (2, 2); (3, 3)].
Definition prec : list aop :=
  [AVar 0; AVar 1; AVar 2; AVar 3;
   AApply "and" 0 (Some 2) None; AApply "and" 1 (Some 3) None; AFApply "or" 4 (Some 5);
   ADrop 5; AGc].
Definition wC : aworld := arun aworld_empty 0 (ANew lvc :: prec).
Definition outs (w : aworld) (ops : list aop) : list (res value) :=
  (fix go (w : aworld) (ops : list aop) : list (res value) :=
     match ops with
     | [] => []
     | o :: ops => snd (astep w 0 o) :: go (fst (astep w 0 o)) ops
     end) w ops.

(** the hypotheses of the theorems hold of this manager *)
Theorem C01_compare_example_invariant :
  AInvT (aworld_get wC 0) ∧ AInv (aworld_get wC 0) ∧ AInvDT (aworld_get wC 0) ∧
  handles (aworld_get wC 0) !! 4 = Some 6%Z ∧ handles (aworld_get wC 0) !! 6 = Some 10%Z ∧
  handles (aworld_get wC 0) !! 5 = None ∧ max_nodes (mgr (aworld_get wC 0)) = None.
Proof.
  assert (H : AInvT (aworld_get wC 0)).
  { apply (arun_from_new2 lvc prec 0); [by vm_compute|].
    cbn [ahist_ok2 prec]. repeat (split; [by vm_compute|]). done. }
  split; [exact H|]. split; [exact (proj1 H)|].
  split; [apply AInvDT_of_AInvT; [exact H|by vm_compute]|]. by vm_compute.
Qed.
Print Assumptions C01_compare_example_invariant.

(** [g <= f] holds, [f <= g] does not: [<=] one way only; [g < f], not
    [f < g]; [f <= f] but not [f < f]; [g == f] false, [g != f] true,
    [f == f] true; v0 and f are incomparable; a dead handle is a [KeyError] *)
Example C01_compare_example :
  outs wC [ALe 4 6; ALe 6 4; ALt 4 6; ALt 6 4; ALe 6 6; ALt 6 6;
           AEq 4 6; ANe 4 6; AEq 6 6; ALe 0 6; ALe 6 0; ALe 5 0; AEq 0 99] =
  [Ok (VB true); Ok (VB false); Ok (VB true); Ok (VB false); Ok (VB true); Ok (VB false);
   Ok (VB false); Ok (VB true); Ok (VB true); Ok (VB false); Ok (VB false);
   Err EKey; Err EKey].
Proof. by vm_compute. Qed.

(** the values agree with the truth tables (by variable names) *)
Definition tblc (a : ast) (h : nat) : option (list bool) :=
  (fun u => (fun ρ => denv (mgr a) u ρ) <$> envs 4) <$> handles a !! h.
Example C01_compare_example_tables :
  let a := aworld_get wC 0 in
  tblc a 4 = Some [false; false; false; false; false; true; false; true; false;
                   false; false; false; false; true; false; true] ∧
  tblc a 6 = Some [false; false; false; false; false; true; false; true; false;
                   false; true; true; false; true; true; true].
Proof. by vm_compute. Qed.

(** [v0 <= f] creates a node and leaves it in the table: the state is not
    unchanged, but it extends the old one; handles and handle counter are the
    same; the counters are exact for the same handles *)
Example C01_compare_example_frame :
  let a := aworld_get wC 0 in
  let a' := aworld_get (fst (astep wC 0 (ALe 0 6))) 0 in
  size (succ (mgr a)) = 10 ∧ size (succ (mgr a')) = 11 ∧
  handles a' = handles a ∧ next_hid a' = next_hid a ∧
  forallb (fun '(n, t) => bool_decide (succ (mgr a') !! n = Some t))
    (map_to_list (succ (mgr a))) = true ∧
  vars (mgr a') = vars (mgr a) ∧
  forallb (fun '(n, c) =>
      bool_decide (c = indeg (succ (mgr a')) n + (if decide (n = 1%positive) then 1 else 0) +
                   length (filter (fun p => absn (p.2) = n) (map_to_list (handles a)))))
    (map_to_list (refc (mgr a'))) = true.
Proof. by vm_compute. Qed.

(** dynamic reordering enabled, the trigger forced: [v0 <= f] sifts in the
    middle of [f | ~v0] (the variable order changes); the values are the
    same as above, every handle keeps its node and its truth table *)
Definition dync : list aop := [AConfigure (Some true); ASetTrig (Some 1)].
Definition wD : aworld := arun wC 0 dync.

Theorem C01_compare_example_dynamic_invariant :
  AInvDT (aworld_get wD 0) ∧ is_Some (last_len (mgr (aworld_get wD 0))) ∧
  max_nodes (mgr (aworld_get wD 0)) = None.
Proof.
  split; [|split; [vm_compute; by eexists|by vm_compute]].
  apply (arun_AInvD dync wC 0);
    [exact (proj1 (proj2 (proj2 C01_compare_example_invariant)))|].
  repeat (apply Forall_cons; split; [done|]). by apply Forall_nil.
Qed.
Print Assumptions C01_compare_example_dynamic_invariant.

Example C01_compare_example_dynamic :
  let a := aworld_get wD 0 in
  let a' := aworld_get (arun wD 0 [ALe 0 6]) 0 in
  outs wD [ALe 0 6; ALe 4 6; ALe 6 4; ALt 4 6; ALt 6 4; ALt 6 6] =
  [Ok (VB false); Ok (VB true); Ok (VB false); Ok (VB true); Ok (VB false); Ok (VB false)] ∧
  map_to_list (vars (mgr a)) = [(0, 0); (1, 1); (3, 3); (2, 2)] ∧
  map_to_list (vars (mgr a')) = [(0, 2); (1, 0); (3, 1); (2, 3)] ∧
  handles a' = handles a ∧
  tblc a' 0 = tblc a 0 ∧ tblc a' 4 = tblc a 4 ∧ tblc a' 6 = tblc a 6.
Proof. by vm_compute. Qed.
