(** * Property C08 — [dd.autoref]: reference counting through [Function]
      objects.

    "With dd.autoref, every live Function keeps denoting the same function
    through any sequence of operations, explicit collections and reorderings,
    no matter when other Function objects are dropped, and each node's count
    equals its stored in-edges plus the number of live Function objects that
    point to it.  Once all Functions of a manager are gone nothing is
    referenced any more: the manager's shutdown check passes and a collection
    leaves only the terminal."

    Model: [Model/Autoref.v] (a live [Function] is a handle [h ↦ u] of the
    wrapper state [ast]; creation and death are explicit: [wrap], [drop]) and
    the operation alphabet [aop] / [run_aop] / [astep] of [Model/Driver3.v].
    Only statements closed by [exact]; proofs live in [Proofs/AutorefInv.v].

    Scope.  The theorems are TOTAL over the allowed alphabet: any arguments
    (dead or unknown handles, undeclared names, unknown operators), either
    outcome ([Ok] or [Err], the state of an [Err] being the state at the raise
    point; a [RuntimeError] of a full table, [max_nodes], included: in the
    comparisons [u <= v], [u < v] the temporary [~ self] dies with the frame
    that the exception unwinds; the limit is set through the wrapper by
    [ASetMaxNodes n], [bdd._bdd.max_nodes = n], an allowed operation with any
    value: [Properties/C08_full.v]).  Dynamic reordering is disabled
    ([last_len = None]).  Outside the
    alphabet: [AReorder] (covered conditionally by
    [C08_with_reorder_partial]), [AConfigure (Some true)] and
    [ASetLastLen (Some _)] (they enable dynamic reordering), [AShutdown]
    (it ends the life of the manager, see [C08_shutdown]).  The explicit
    reorderings and the dynamic reordering are covered by the correspondence
    check of the executable model. *)
From DD Require Import AutorefInv.
Local Open Scope string_scope.

(** ** The invariant *)

(** [hledger a k]: the number of live [Function] objects on node [k], plus
    one for the terminal (the reference that the manager itself holds) *)
Theorem C08_hledger_unfold a k :
  hledger a k = (if decide (k = 1%positive) then 1 else 0) +
                length (filter (fun p => absn (p.2) = k) (map_to_list (handles a))).
Proof. exact (hledger_unfold a k). Qed.
Print Assumptions C08_hledger_unfold.

(** the wrapped manager is canonical, reordering is disabled, the counters
    are exact for the ledger of the live handles, every live handle points to
    a node of the manager, handle identifiers are never reused *)
Theorem C08_AInv_unfold a :
  AInv a ↔
  Inv (mgr a) ∧ last_len (mgr a) = None ∧ Counts (mgr a) (hledger a) ∧
  (∀ h u, handles a !! h = Some u → valid (mgr a) u) ∧
  (∀ h u, handles a !! h = Some u → h < next_hid a).
Proof. exact (conj (fun H => H) (fun H => H)). Qed.
Print Assumptions C08_AInv_unfold.

(** "each node's count equals its stored in-edges plus the number of live
    Function objects that point to it" *)
Theorem C08_counts_exact a : AInv a →
  ∀ n, n ∈ dom (succ (mgr a)) →
    refc (mgr a) !! n =
    Some (indeg (succ (mgr a)) n + (if decide (n = 1%positive) then 1 else 0) +
          length (filter (fun p => absn (p.2) = n) (map_to_list (handles a)))).
Proof. exact (AInv_counts a). Qed.
Print Assumptions C08_counts_exact.

(** ** One call *)

(** the allowed operations *)
Theorem C08_allowed_unfold o :
  a_allowed o =
  match o with
  | ANew levels => bool_decide (NoDup (levels.*1) ∧ NoDup (levels.*2))
  | AReorder _ | AShutdown => false
  | AConfigure b => bool_decide (b ≠ Some true)
  | ASetLastLen l => bool_decide (l = None)
  | _ => true
  end.
Proof. exact eq_refl. Qed.
Print Assumptions C08_allowed_unfold.

(** the one obligation of the caller that the code does not check:
    [find_or_add(var, low, high)] with a variable above both children (the
    unguarded call breaks the manager, see [C17_find_or_add_unguarded_refuted]) *)
Theorem C08_caller_ok_unfold a o :
  a_caller_ok a o =
  match o with
  | AFindOrAdd v hlo hhi =>
      ∀ l lo hi, vars (mgr a) !! v = Some l → handles a !! hlo = Some lo →
        handles a !! hhi = Some hi → lo ≠ hi →
        l < lvl_of (mgr a) lo ∧ l < lvl_of (mgr a) hi
  | _ => True
  end.
Proof. exact eq_refl. Qed.
Print Assumptions C08_caller_ok_unfold.

(** [AKeep o a a']: every [Function] that was alive is still alive, on the
    same node, which is still a node of the manager and denotes the same
    function (by variable names) — except the one that [o] drops *)
Theorem C08_AKeep_unfold o a a' :
  AKeep o a a' ↔
  ∀ h u, handles a !! h = Some u →
    (handles a' !! h = Some u ∧ valid (mgr a') u ∧
     ∀ ρ, denv (mgr a') u ρ = denv (mgr a) u ρ) ∨
    (o = ADrop h ∧ handles a' !! h = None).
Proof. exact (conj (fun H => H) (fun H => H)). Qed.
Print Assumptions C08_AKeep_unfold.

(** MAIN THEOREM: every allowed call, successful or failing, keeps the
    invariant and the function of every surviving [Function].  The
    temporaries of [u <= v], [u < v], [u.low], [u.high], [bdd.succ(u)] net to
    zero or to the returned handles. *)
Theorem C08_call w o a r a' :
  a_allowed o = true → is_anew o = false → AInv a → a_caller_ok a o →
  run_aop w o a = (r, a') → AInv a' ∧ AKeep o a a'.
Proof. exact (run_aop_AInv w o a r a'). Qed.
Print Assumptions C08_call.

(** the constructor [BDD(levels)] (a Python dict has distinct keys): a fresh
    manager without [Function] objects, whatever the previous state *)
Theorem C08_new w levels a r a' : NoDup (levels.*1) → NoDup (levels.*2) →
  run_aop w (ANew levels) a = (r, a') →
  AInv a' ∧ handles a' = ∅ ∧ next_hid a' = 0.
Proof. exact (new_spec w levels a r a'). Qed.
Print Assumptions C08_new.

(** creation and death of a [Function] *)
Theorem C08_wrap u a r a' : AInv a → wrap u a = (r, a') →
  (valid (mgr a) u ∧ r = Ok (next_hid a) ∧
   a' = a <| mgr := bump u (mgr a) |> <| handles ::= <[next_hid a := u]> |>
          <| next_hid := S (next_hid a) |> ∧ AStep a a') ∨
  (¬ valid (mgr a) u ∧ r = Err EValue ∧ a' = a).
Proof. exact (wrap_spec u a r a'). Qed.
Print Assumptions C08_wrap.

Theorem C08_drop h a r a' : AInv a → drop h a = (r, a') →
  (∃ u, handles a !! h = Some u ∧ r = Ok tt ∧ AInv a' ∧ extends (mgr a) (mgr a') ∧
        handles a' = delete h (handles a) ∧ next_hid a' = next_hid a) ∨
  (handles a !! h = None ∧ r = Err EKey ∧ a' = a).
Proof. exact (drop_spec h a r a'). Qed.
Print Assumptions C08_drop.

(** ** Histories *)

(** one call on manager [m] of a world *)
Theorem C08_step w m o :
  a_allowed o = true →
  (is_anew o = false → AInv (aworld_get w m) ∧ a_caller_ok (aworld_get w m) o) →
  AInv (aworld_get (fst (astep w m o)) m) ∧
  (is_anew o = false → AKeep o (aworld_get w m) (aworld_get (fst (astep w m o)) m)).
Proof. exact (astep_AInv w m o). Qed.
Print Assumptions C08_step.

Theorem C08_ahist_ok_unfold w m ops :
  ahist_ok w m ops =
  match ops with
  | [] => True
  | o :: ops =>
      a_allowed o = true ∧ a_caller_ok (aworld_get w m) o ∧
      ahist_ok (fst (astep w m o)) m ops
  end.
Proof. exact (match ops with [] => eq_refl | _ :: _ => eq_refl end). Qed.
Print Assumptions C08_ahist_ok_unfold.

Theorem C08_history ops : ∀ w m,
  AInv (aworld_get w m) → ahist_ok w m ops → AInv (aworld_get (arun w m ops) m).
Proof. exact (arun_AInv ops). Qed.
Print Assumptions C08_history.

Theorem C08_history_from_new levels ops m :
  a_allowed (ANew levels) = true →
  ahist_ok (fst (astep aworld_empty m (ANew levels))) m ops →
  AInv (aworld_get (arun aworld_empty m (ANew levels :: ops)) m).
Proof. exact (arun_from_new levels ops m). Qed.
Print Assumptions C08_history_from_new.

(** "every live Function keeps denoting the same function through any
    sequence of operations [and] explicit collections, no matter when other
    Function objects are dropped" *)
Theorem C08_live_function_keeps_its_function ops : ∀ w m h u,
  AInv (aworld_get w m) → ahist_ok w m ops →
  Forall (fun o => is_anew o = false ∧ o ≠ ADrop h) ops →
  handles (aworld_get w m) !! h = Some u →
  handles (aworld_get (arun w m ops) m) !! h = Some u ∧
  valid (mgr (aworld_get (arun w m ops) m)) u ∧
  ∀ ρ, denv (mgr (aworld_get (arun w m ops) m)) u ρ = denv (mgr (aworld_get w m)) u ρ.
Proof. exact (arun_keeps ops). Qed.
Print Assumptions C08_live_function_keeps_its_function.

(** ** End of life *)

(** [BDD.__del__]: the assertion "only the terminal's own count remains"
    holds exactly when no [Function] of the manager is alive *)
Theorem C08_shutdown a : AInv a →
  ∃ s', shutdown_ (mgr a) = (Ok (bool_decide (handles a = ∅)), s').
Proof. exact (shutdown_spec a). Qed.
Print Assumptions C08_shutdown.

Theorem C08_shutdown_op w a r a' : AInv a → run_aop w AShutdown a = (r, a') →
  r = Ok (VB (bool_decide (handles a = ∅))) ∧
  handles a' = handles a ∧ next_hid a' = next_hid a.
Proof. exact (run_aop_shutdown w a r a'). Qed.
Print Assumptions C08_shutdown_op.

(** "once all Functions of a manager are gone nothing is referenced any more:
    the manager's shutdown check passes and a collection leaves only the
    terminal" *)
Theorem C08_end_of_life a : AInv a → handles a = ∅ →
  (∃ s', shutdown_ (mgr a) = (Ok true, s')) ∧
  (∃ s', collect_garbage None (mgr a) = (Ok tt, s') ∧ Inv s' ∧
         dom (succ s') = {[1%positive]} ∧ refc s' = {[1%positive := 1]}).
Proof. exact (end_of_life a). Qed.
Print Assumptions C08_end_of_life.

(** ** Reorderings (conditional) *)

(** what a reordering (or a collection) of a manager [s] with external
    references [L] must preserve *)
Theorem C08_keeps_refs_unfold s L s' :
  keeps_refs s L s' ↔
  Inv s' ∧ last_len s' = None ∧ Counts s' L ∧
  ∀ u, u ≠ 0%Z → reach (succ s) (fun k => 0 < L k) (absn u) →
    valid s' u ∧ ∀ ρ, denv s' u ρ = denv s u ρ.
Proof. exact (conj (fun H => H) (fun H => H)). Qed.
Print Assumptions C08_keeps_refs_unfold.

(** [collect_garbage()] does *)
Theorem C08_gc_keeps_refs s L r s' :
  Inv s → last_len s = None → Counts s L → collect_garbage None s = (r, s') →
  keeps_refs s L s'.
Proof. exact (gc_reorder_like s L r s'). Qed.
Print Assumptions C08_gc_keeps_refs.

(** [reorder(order)]: the invariant and every live [Function] survive, GIVEN
    that this run of [reorder] keeps the references (premise, not proved
    here) *)
Theorem C08_with_reorder_partial w order a r a' :
  AInv a → run_aop w (AReorder order) a = (r, a') →
  keeps_refs (mgr a) (hledger a) (mgr a') →
  AInv a' ∧ AKeep (AReorder order) a a'.
Proof. exact (run_aop_reorder_partial w order a r a'). Qed.
Print Assumptions C08_with_reorder_partial.

(** ** Examples (by evaluation) *)

(** manager 0: [BDD({v0:0, v1:1, v2:2})]; x, y, z (handles 0, 1, 2);
    [x & y] (3); [(x & y) | z] (4); two comparisons (their temporaries die);
    x and [x & y] are dropped; [u.high], [bdd.succ(u)] (handles 5, 6, 7);
    a collection; a new variable; [\E y: u] (8); [u[x := z]] (9);
    [find_or_add(v0, y, z)] (10); four failing calls; four read-only calls *)
Definition lv0 : list (nat * nat) := [(0, 0); (1, 1); (2, 2)].
Definition hist0 : list aop :=
  [AVar 0; AVar 1; AVar 2;
   AApply "and" 0 (Some 1) None;
   AFApply "or" 3 (Some 2);
   ALe 3 4; ALt 4 3;
   ADrop 0; ADrop 3;
   AChild true 4; ASucc 4;
   AGc;
   ADeclare [3];
   AQuantify 4 [1] false;
   ALet (ALetRef [(0, 2)]) 4;
   AFindOrAdd 0 1 2;
   ADrop 77; AIte 4 99 1; AVar 9; AApply "nand" 4 (Some 1) None;
   ACount 4 None; ASupport 4; ALen 4; ARef 4].
Definition w0 : aworld := arun aworld_empty 0 (ANew lv0 :: hist0).

(** the hypotheses of [C08_history_from_new] hold *)
Example C08_history_hypotheses_hold :
  a_allowed (ANew lv0) = true ∧
  ahist_ok (fst (astep aworld_empty 0 (ANew lv0))) 0 hist0.
Proof.
  split; [by vm_compute|]. cbn [ahist_ok hist0].
  repeat (split; [by vm_compute|]).
  repeat (split; [first [by vm_compute
                        | vm_compute; intros l lo hi [= <-] [= <-] [= <-] _; lia]|]).
  done.
Qed.

Theorem C08_example_invariant : AInv (aworld_get w0 0).
Proof.
  exact (arun_from_new lv0 hist0 0 (proj1 C08_history_hypotheses_hold)
           (proj2 C08_history_hypotheses_hold)).
Qed.
Print Assumptions C08_example_invariant.

(** the outcomes: handle identifiers, [x&y <= x&y|z], not [x&y|z < x&y],
    the failing calls, count / support / dag size / reference count *)
Example C08_example_outcomes :
  (fix go (w : aworld) (ops : list aop) : list (res value) :=
     match ops with
     | [] => []
     | o :: ops => snd (astep w 0 o) :: go (fst (astep w 0 o)) ops
     end) aworld_empty (ANew lv0 :: hist0) =
  [Ok VU; Ok (VN 0); Ok (VN 1); Ok (VN 2); Ok (VN 3); Ok (VN 4);
   Ok (VB true); Ok (VB false); Ok VU; Ok VU; Ok (VN 5);
   Ok (VL [VN 0; VN 6; VN 7]); Ok VU; Ok VU; Ok (VN 8); Ok (VN 9); Ok (VN 10);
   Err EKey; Err EKey; Err EValue; Err EValue;
   Ok (VZ 5); Ok (VL [VN 0; VN 1; VN 2]); Ok (VN 4); Ok (VN 1)].
Proof. by vm_compute. Qed.

(** the final state: nine live handles on five nodes; the counters are the
    in-degrees plus the numbers of handles (plus one for the terminal) *)
Example C08_example_counts :
  let a := aworld_get w0 0 in
  map_to_list (handles a) =
    [(1, 3%Z); (7, 6%Z); (5, 6%Z); (9, 4%Z); (2, 4%Z); (4, 7%Z); (8, 2%Z); (6, 4%Z);
     (10, 5%Z)] ∧
  forallb (fun '(n, c) =>
      bool_decide (c = indeg (succ (mgr a)) n + (if decide (n = 1%positive) then 1 else 0) +
                   length (filter (fun p => absn (p.2) = n) (map_to_list (handles a)))))
    (map_to_list (refc (mgr a))) = true ∧
  map_to_list (refc (mgr a)) =
    [(1%positive, 7); (2%positive, 1); (4%positive, 7); (6%positive, 3);
     (3%positive, 2); (5%positive, 1); (7%positive, 1)].
Proof. by vm_compute. Qed.

(** handle 4, [(x & y) | z], lives through the whole history (the hypotheses
    of [C08_live_function_keeps_its_function] for the suffix after its
    creation) *)
Example C08_example_handle_4 :
  let pre := ANew lv0 :: take 5 hist0 in
  let post := skipn 5 hist0 in
  let w := arun aworld_empty 0 pre in
  handles (aworld_get w 0) !! 4 = Some 7%Z ∧
  Forall (fun o => is_anew o = false ∧ o ≠ ADrop 4) post ∧
  handles (aworld_get (arun w 0 post) 0) !! 4 = Some 7%Z.
Proof.
  cbv zeta. split; [by vm_compute|]. split; [|by vm_compute].
  unfold hist0. cbn [skipn].
  repeat (apply Forall_cons; split; [split; [done|congruence]|]). by apply Forall_nil.
Qed.

(** the end of life: the remaining nine handles are dropped *)
Definition drops0 : list aop :=
  [ADrop 1; ADrop 2; ADrop 4; ADrop 5; ADrop 6; ADrop 7; ADrop 8; ADrop 9; ADrop 10].
Definition w1 : aworld := arun aworld_empty 0 (ANew lv0 :: hist0 ++ drops0).

(** the hypotheses of [C08_end_of_life] hold *)
Example C08_end_of_life_hypotheses_hold :
  AInv (aworld_get w1 0) ∧ handles (aworld_get w1 0) = ∅.
Proof.
  split.
  - apply (arun_from_new lv0 (hist0 ++ drops0) 0); [by vm_compute|].
    cbn [ahist_ok hist0 drops0 app].
    repeat (split; [by vm_compute|]).
    repeat (split; [first [by vm_compute
                          | vm_compute; intros l lo hi [= <-] [= <-] [= <-] _; lia]|]).
    done.
  - apply map_to_list_empty_iff. by vm_compute.
Qed.

(** with a live [Function] the shutdown check fails; without, it passes and
    a collection leaves only the terminal, counted once *)
Example C08_example_end_of_life :
  snd (astep w0 0 AShutdown) = Ok (VB false) ∧
  snd (astep w1 0 AShutdown) = Ok (VB true) ∧
  snd (astep w1 0 AGc) = Ok VU ∧
  let s := mgr (aworld_get (fst (astep w1 0 AGc)) 0) in
  map_to_list (succ s) = [(1%positive, tterm 4)] ∧
  map_to_list (refc s) = [(1%positive, 1)].
Proof. by vm_compute. Qed.
