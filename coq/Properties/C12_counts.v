(** * Property C12, reference counts — "the receiving manager stays canonical
      with EXACT REFERENCE COUNTS": the pickle loader ([load_pickle]:
      [load], [_load_pickle], [_load] of dd/bdd.py) leaves the ledger of
      external references UNCHANGED.  Only statements closed by [exact];
      the proofs live in [Proofs/PickleCounts.v] (the concrete instance in
      [Proofs/PickleCountsEx.v]).

    [Counts r L] ([Proofs/Counts.v], [Properties/C06.v]): the counter of
    every stored node of [r] is its in-degree (number of stored low/high
    edges pointing to it) plus [L n], and [L] is 0 outside the manager; [L]
    is the ledger of the references held from outside (the caller's
    [incref]s and the manager's own reference to the terminal node).

    What the loader does to the counters ([Model/IO.v]):
    - the variable loop calls [add_var], which rewrites the level of the
      terminal node and touches no counter of an existing node;
    - the node loop rebuilds every node of the file with
      [find_or_add(level_map[level], -1, 1)] and the decorated
      [ite(g, high, low)]: new nodes get the counter 0 and the counters of
      their successors are incremented (edges); the loader performs NO
      [incref] and NO [decref];
    - the roots are looked up in [umap]: NO [incref].
    So the precise ledger after a load is the ledger before it:
    [∀ L, Counts r L → Counts r' L].  In particular the returned roots are
    NOT held by the caller: the counter of a returned root is its in-degree
    (0 when no other node points to it) until the caller calls [incref]
    — as for every reference returned by [ite], [apply], ... *)
From DD Require Import PickleCountsEx.
Local Open Scope string_scope.

(** ** Vocabulary *)
Theorem C12_Counts_unfold s L :
  Counts s L ↔
  (∀ n, n ∈ dom (succ s) → refc s !! n = Some (indeg (succ s) n + L n)) ∧
  (∀ n, n ∉ dom (succ s) → L n = 0).
Proof. exact (conj (fun H => H) (fun H => H)). Qed.

(** the ledger of a fresh manager [BDD()]: the manager's own reference to
    the terminal node *)
Theorem C12_Counts_init L :
  Counts init L ↔ ∀ n, L n = if decide (n = 1%positive) then 1 else 0.
Proof. exact (Counts_init_iff L). Qed.

(** the variable loop of [_load_pickle] *)
Theorem C12_pickle_vars_unfold n levels lm0 vl :
  pickle_vars n levels lm0 vl =
  foldM (fun (lm : gmap nat nat) '(v, i) =>
           assert (bool_decide (i < n)) ;;;
           j <- add_var v (if levels then Some i else None) ;;
           ret (<[i := j]> lm)) lm0 vl.
Proof. exact eq_refl. Qed.

(** ** ANY file, either outcome (also the [RuntimeError] of a full node
    table, [max_nodes]), any threshold: the ledger is unchanged as
    soon as the receiver is consistent after the variable loop (with
    [levels=True] a file whose levels contradict the receiver breaks [Inv]
    in that loop, [C17b_load_junk_refuted]); [r] itself only needs a
    terminal node *)
Theorem C12_load_counts pf levels r res r' :
  (∃ k, succ r !! 1%positive = Some (tterm k)) →
  (∀ lm r1, pickle_vars (length (pf_vars pf)) levels ∅ (pf_vars pf) r = (Ok lm, r1) → Inv r1) →
  load_pickle pf levels r = (res, r') →
  ∀ L, Counts r L → Counts r' L.
Proof. exact (load_pickle_counts_from pf levels r res r'). Qed.

(** ** [levels=False]: ANY file (also one that no dump has written), any
    consistent receiver, any threshold, any node limit, EITHER outcome (also
    a load that fails midway, e.g. with the [RuntimeError] of a full table,
    [C12_counts_max_nodes]): the receiver stays consistent, [last_len], the reordering
    context, the roots and the oracle tape are unchanged ([frame]), the
    ledger is unchanged (nothing is leaked), every old reference keeps its
    meaning *)
Theorem C12_load_names_total pf r res r' :
  Inv r → load_pickle pf false r = (res, r') →
  Inv r' ∧ frame r r' ∧ (∀ L, Counts r L → Counts r' L) ∧
  ∀ u, valid r u → valid r' u ∧ ∀ ρ, denv r' u ρ = denv r u ρ.
Proof. exact (load_pickle_false_total pf r res r'). Qed.

(** ** The six round-trip theorems of [Properties/C12.v], each with the
    ledger conclusion added (same hypotheses: the receiver, when it is not a
    fresh manager, has no node limit, [max_nodes r = None], since these
    theorems conclude that the load SUCCEEDS; no hypothesis on [last_len]) *)

Theorem C12_pickle_roundtrip_fresh_counts s roots order vorder pf sd :
  Inv s → Forall (valid s) (roots_values roots) →
  dump_pickle roots order vorder s = (Ok pf, sd) →
  sd = s ∧
  ∃ roots' s1, load_pickle pf true init = (Ok roots', s1) ∧
    Inv s1 ∧ vars s1 = vars s ∧ lvl2var s1 = lvl2var s ∧
    roots_rel (same_fun s s1) roots roots' ∧
    ∀ L, Counts init L → Counts s1 L.
Proof. exact (pickle_roundtrip_fresh_counts s roots order vorder pf sd). Qed.

Theorem C12_pickle_roundtrip_same_counts s roots order vorder pf sd :
  Inv s → max_nodes s = None → Forall (valid s) (roots_values roots) →
  dump_pickle roots order vorder s = (Ok pf, sd) →
  sd = s ∧
  ∃ s', load_pickle pf true s = (Ok roots, s') ∧
    Inv s' ∧ extends s s' ∧ frame s s' ∧ last_len s' = last_len s ∧
    ∀ L, Counts s L → Counts s' L.
Proof. exact (pickle_roundtrip_same_counts s roots order vorder pf sd). Qed.

Theorem C12_pickle_roundtrip_into_counts s roots order vorder pf sd r :
  Inv s → Forall (valid s) (roots_values roots) →
  dump_pickle roots order vorder s = (Ok pf, sd) →
  Inv r → max_nodes r = None → vars r = vars s → lvl2var r = lvl2var s →
  sd = s ∧
  ∃ roots' r', load_pickle pf true r = (Ok roots', r') ∧
    Inv r' ∧ extends r r' ∧ frame r r' ∧ last_len r' = last_len r ∧
    roots_rel (same_fun s r') roots roots' ∧
    ∀ L, Counts r L → Counts r' L.
Proof. exact (pickle_roundtrip_into_counts s roots order vorder pf sd r). Qed.

Theorem C12_pickle_roundtrip_other_order_counts s roots order vorder pf sd r :
  Inv s → Forall (valid s) (roots_values roots) →
  dump_pickle roots order vorder s = (Ok pf, sd) →
  Inv r → max_nodes r = None → dom (vars s) ⊆ dom (vars r) →
  sd = s ∧
  ∃ roots' r', load_pickle pf false r = (Ok roots', r') ∧
    Inv r' ∧ extends r r' ∧ frame r r' ∧
    vars r' = vars r ∧ lvl2var r' = lvl2var r ∧ last_len r' = last_len r ∧
    roots_rel (same_fun s r') roots roots' ∧
    ∀ L, Counts r L → Counts r' L.
Proof. exact (pickle_roundtrip_other_order_counts s roots order vorder pf sd r). Qed.

Theorem C12_pickle_roundtrip_any_counts s roots order vorder pf sd r :
  Inv s → Forall (valid s) (roots_values roots) →
  dump_pickle roots order vorder s = (Ok pf, sd) →
  Inv r → max_nodes r = None →
  sd = s ∧
  ∃ roots' r', load_pickle pf false r = (Ok roots', r') ∧
    Inv r' ∧ frame r r' ∧ last_len r' = last_len r ∧
    vars r ⊆ vars r' ∧ dom (vars r') = dom (vars r) ∪ dom (vars s) ∧
    (∀ u, valid r u → valid r' u ∧ ∀ ρ, denv r' u ρ = denv r u ρ) ∧
    roots_rel (same_fun s r') roots roots' ∧
    (dom (vars s) ⊆ dom (vars r) → extends r r') ∧
    (dom (vars s) ## dom (vars r) →
     ∀ k v, vorder !! k = Some v → vars r' !! v = Some (nvars r + k)) ∧
    ∀ L, Counts r L → Counts r' L.
Proof. exact (pickle_roundtrip_any_counts s roots order vorder pf sd r). Qed.

Theorem C12_pickle_roundtrip_fresh_names_counts s roots order vorder pf sd :
  Inv s → Forall (valid s) (roots_values roots) →
  dump_pickle roots order vorder s = (Ok pf, sd) →
  sd = s ∧
  ∃ roots' s1, load_pickle pf false init = (Ok roots', s1) ∧
    Inv s1 ∧ dom (vars s1) = dom (vars s) ∧
    (∀ k v, vorder !! k = Some v → vars s1 !! v = Some k) ∧
    roots_rel (same_fun s s1) roots roots' ∧
    ∀ L, Counts init L → Counts s1 L.
Proof. exact (pickle_roundtrip_fresh_names_counts s roots order vorder pf sd). Qed.

(** ** A concrete instance: every hypothesis holds.
    Manager 0 (the writer): v0:1, v1:0, v2:2; node 8 = (v0 <-> v1) \/ ~v2;
    the dump names the roots -8, 3 (= v1), -1 (FALSE).
    Manager 3 (the receiver): v0:3, v1:1, v2:0, v3:2; 2 = v3, 3 = v0,
    4 = v3 /\ v0, held once, once, twice by the caller ([ex_L]); dynamic
    reordering enabled, threshold 1.  Both are built by public calls only;
    [Inv] comes from the history theorem [C17c_history3_from_empty]. *)
Theorem C12_counts_example_def :
  ex_hist =
  [(0, O1 (ONew [(0, 1); (1, 0); (2, 2)])); (0, O1 (OVar 0)); (0, O1 (OVar 1)); (0, O1 (OVar 2));
   (0, O1 (OApply "xor" 2 (Some 3%Z) None)); (0, O1 (OApply "\/" 5 (Some (-4)%Z) None));
   (0, O1 (OIncref 8));
   (0, ODump 0 ex_roots ex_order ex_vorder);
   (3, O1 (ONew [(0, 3); (1, 1); (2, 0); (3, 2)])); (3, O1 (OVar 3)); (3, O1 (OIncref 2));
   (3, O1 (OVar 0)); (3, O1 (OIncref 3));
   (3, O1 (OApply "and" 2 (Some 3%Z) None)); (3, O1 (OIncref 4)); (3, O1 (OIncref 4));
   (3, O1 (OConfigure (Some true))); (3, O1 (OSetLastLen (Some 1)))] ∧
  ex_roots = RDict [(7, (-8)%Z); (3, 3%Z); (9, (-1)%Z)] ∧
  ex_order = [8; 3; 1; 6; 7; 4]%positive ∧ ex_vorder = [2; 0; 1] ∧
  ex_w = run2 world2_empty ex_hist ∧
  ex_s = world2_get ex_w 0 ∧ ex_r = world2_get ex_w 3 ∧
  ex_pf = PFile [(2, 2); (0, 1); (1, 0)]
            [(8%positive, Triple 0 (-6) 7); (3%positive, Triple 0 (-1) 1);
             (1%positive, Triple 3 0 0); (6%positive, Triple 1 (-1) 4);
             (7%positive, Triple 1 (-4) 1); (4%positive, Triple 2 (-1) 1)]
            ex_roots ∧
  (∀ n, ex_L n = match n with
                 | 1%positive | 2%positive | 3%positive => 1
                 | 4%positive => 2
                 | _ => 0
                 end).
Proof. by split_and!. Qed.

Example C12_counts_instance :
  let r' := snd (load_pickle ex_pf false ex_r) in
  Inv ex_s ∧ Forall (valid ex_s) (roots_values ex_roots) ∧
  dump_pickle ex_roots ex_order ex_vorder ex_s = (Ok ex_pf, ex_s) ∧
  Inv ex_r ∧ max_nodes ex_r = None ∧ last_len ex_r = Some 1 ∧ Counts ex_r ex_L ∧
  (∃ roots', fst (load_pickle ex_pf false ex_r) = Ok roots' ∧
             roots_rel (same_fun ex_s r') ex_roots roots') ∧
  Inv r' ∧ last_len r' = Some 1 ∧ Counts r' ex_L.
Proof. exact ex_instance. Qed.

(** The same by running the model.  [exactb L s]: every counter of [s] is
    in-degree + [L] ([ex_L] and the ledger of [init] are 0 outside the
    manager by definition).
    - the file is the one in the store of the world; the load returns
      -10, 8, -1; the receiver grows from 4 to 10 nodes; the counters of the
      returned roots 10 and 8 are 0 (nothing points to them, the caller does
      not hold them yet); the counters of the caller's nodes 2, 4 are
      unchanged, node 3 (= v0) gained 4 edges; the ledger [ex_L] is exact
      before and after;
    - a file that no dump has written (node 6 refers to the missing node 9):
      the load fails with [KeyError] after it has declared the new variable
      v7 and built its node 5; nothing is leaked: [ex_L] is still exact, the
      new node has the counter 0, the threshold is restored;
    - the same file loaded with [levels=True] into a fresh manager. *)
Example C12_counts_run :
  let exactb (L : positive → nat) (s : st) :=
    forallb (fun '(n, c) => bool_decide (c = indeg (succ s) n + L n))
            (map_to_list (refc s)) in
  let r' := snd (load_pickle ex_pf false ex_r) in
  let junk := PFile [(0, 0); (7, 1)]
                [(5%positive, Triple 1 (-1) 1); (6%positive, Triple 0 5 9)] (RList [6%Z]) in
  let rj := snd (load_pickle junk false ex_r) in
  let L0 := fun n : positive => if decide (n = 1%positive) then 1 else 0 in
  w_files ex_w !! 0 = Some ex_pf ∧
  fst (load_pickle ex_pf false ex_r) = Ok (RDict [(7, (-10)%Z); (3, 8%Z); (9, (-1)%Z)]) ∧
  map_to_list (refc ex_r) =
    [(1%positive, 6); (2%positive, 1); (4%positive, 2); (3%positive, 2)] ∧
  map_to_list (refc r') =
    [(1%positive, 13); (2%positive, 1); (4%positive, 2); (8%positive, 0); (6%positive, 0);
     (10%positive, 0); (3%positive, 6); (5%positive, 0); (9%positive, 1); (7%positive, 0)] ∧
  exactb ex_L ex_r = true ∧ exactb ex_L r' = true ∧
  last_len ex_r = Some 1 ∧ last_len r' = Some 1 ∧
  fst (load_pickle junk false ex_r) = Err EKey ∧
  map_to_list (refc rj) =
    [(1%positive, 8); (2%positive, 1); (4%positive, 2); (3%positive, 2); (5%positive, 0)] ∧
  exactb ex_L rj = true ∧ last_len rj = Some 1 ∧ vars rj !! 7 = Some 4 ∧
  fst (load_pickle ex_pf true init) = Ok (RDict [(7, (-7)%Z); (3, 6%Z); (9, (-1)%Z)]) ∧
  exactb L0 init = true ∧ exactb L0 (snd (load_pickle ex_pf true init)) = true.
Proof. by vm_compute. Qed.

(** the receiver of the instance with a node limit: [max_nodes = 9] lets the
    loader create three of the six nodes it needs (5, 6, 7: each time the
    next free number is still below 9), then [RuntimeError]: nothing is leaked
    ([ex_L] is exact, [C12_load_names_total]), the threshold is restored, the
    limit is kept; with [max_nodes = 12] the load succeeds as before *)
Example C12_counts_max_nodes :
  let exactb (L : positive → nat) (s : st) :=
    forallb (fun '(n, c) => bool_decide (c = indeg (succ s) n + L n))
            (map_to_list (refc s)) in
  let rb := ex_r <| max_nodes := Some 9%positive |> in
  let rb' := snd (load_pickle ex_pf false rb) in
  let rc := ex_r <| max_nodes := Some 12%positive |> in
  fst (load_pickle ex_pf false rb) = Err ERuntime ∧
  size (succ ex_r) = 4 ∧ size (succ rb') = 7 ∧
  exactb ex_L rb' = true ∧ last_len rb' = Some 1 ∧ max_nodes rb' = Some 9%positive ∧
  fst (load_pickle ex_pf false rc) = Ok (RDict [(7, (-10)%Z); (3, 8%Z); (9, (-1)%Z)]).
Proof. by vm_compute. Qed.

Print Assumptions C12_load_counts.
Print Assumptions C12_load_names_total.
Print Assumptions C12_pickle_roundtrip_fresh_counts.
Print Assumptions C12_pickle_roundtrip_same_counts.
Print Assumptions C12_pickle_roundtrip_into_counts.
Print Assumptions C12_pickle_roundtrip_other_order_counts.
Print Assumptions C12_pickle_roundtrip_any_counts.
Print Assumptions C12_pickle_roundtrip_fresh_names_counts.
Print Assumptions C12_Counts_init.
Print Assumptions C12_counts_instance.
Print Assumptions C12_counts_run.
