(** * Property C11 / C09 (Function interface, dynamic reordering) —
      [dd._copy.copy_bdd] / [copy_bdds_from] between two [dd.autoref]
      managers ([Model/CopyFn.v]) when dynamic reordering of the TARGET may be
      ENABLED.  Only statements closed by [exact]; the proofs live in
      [Proofs/CopyFnDyn.v].

    [Properties/C11_fn.v] assumes [last_len (mgr b) = None].  Here the target
    satisfies the dynamic invariant [AInvDT] of [Properties/C08b.v] (well
    formed, between two calls, empty oracle tape, counts exact for the ledger
    of the live [Function] objects; dynamic reordering enabled OR disabled,
    any threshold).  Every intermediate result of the loader is a live
    [Function] (the memo, the locals [low], [high], [g]), so the decorated
    calls [var] and [ite] may run a sifting pass at any moment: the variable
    ORDER of the target may change in the middle of the copy.  What is kept is
    stated by variable NAMES.

    Vocabulary: [same_fun src r u u'] ([u'] is a reference of [r] denoting, as
    a function of the variable names, what [u] denotes in [src]);
    [AKeepAll b b'] ([C08b_AKeepAll_unfold]: every handle of [b] is a handle
    of [b'] on the same node, valid, with the same function by name);
    [keeps K s s'] / [heldn L] ([Properties/C09c.v]); [ledger_add L us]. *)
From DD Require Import CopyFnDyn.
Local Open Scope string_scope.

(** ** 1. Success under the dynamic invariant.  The variables of the source
    are declared in the target, the table of the target is unbounded.

    The call does not fail and returns one handle per root; [us] lists the
    nodes of the NEW handles, numbered consecutively from [next_hid b]; each
    returned handle denotes the function of its root BY NAME; two occurrences
    of the same positive non-terminal root get the SAME handle.  Every OLD
    handle keeps node, validity and function ([AKeepAll]; not [extends] /
    [frame]: the order may change).  The invariant holds again: the counts
    are exact for the handle ledger of [b'] (= old ledger + one reference per
    new handle: the memo's references and every temporary are released), the
    tape is empty.  The set of declared names is the same; dynamic reordering
    is enabled afterwards iff it was before. *)
Theorem C11_copy_bdds_from_dynamic src roots b :
  Inv src → Forall (valid src) roots →
  AInvDT b → max_nodes (mgr b) = None →
  (∀ v, is_Some (vars src !! v) → is_Some (vars (mgr b) !! v)) →
  ∃ hs us b',
    copy_bdds_from src roots b = (Ok hs, b') ∧ length hs = length roots ∧
    (* the target *)
    AInvDT b' ∧ max_nodes (mgr b') = None ∧ AKeepAll b b' ∧
    dom (vars (mgr b')) = dom (vars (mgr b)) ∧
    (last_len (mgr b) = None → last_len (mgr b') = None) ∧
    (is_Some (last_len (mgr b)) → is_Some (last_len (mgr b'))) ∧
    (* the handles: [us] lists the nodes of the new ones *)
    next_hid b' = next_hid b + length us ∧
    (∀ h, h < next_hid b ∨ next_hid b' ≤ h → handles b' !! h = handles b !! h) ∧
    (∀ j u', us !! j = Some u' → handles b' !! (next_hid b + j) = Some u') ∧
    (∀ j, j < length us → next_hid b + j ∈ hs) ∧
    Forall2 (fun u h => ∃ u', next_hid b ≤ h < next_hid b' ∧
               handles b' !! h = Some u' ∧ same_fun src (mgr b') u u') roots hs ∧
    (∀ i j u, roots !! i = Some u → roots !! j = Some u → (1 < u)%Z → hs !! i = hs !! j) ∧
    (* the counts: one reference per new handle *)
    Counts (mgr b') (ledger_add (hledger b) us).
Proof. exact (copy_bdds_from_dynamic src roots b). Qed.
Print Assumptions C11_copy_bdds_from_dynamic.

(** ** 2. The same on explicit states, for ANY ledger [L] of external
    references of the target (not only live handles): every reference that
    [L] holds keeps validity and function by name ([keeps (heldn L)], which
    also says that the set of declared names is the same). *)
Theorem C11_copy_bdds_from_dynamic_ledger src roots r0 H n L :
  Inv src → Forall (valid src) roots →
  Inv r0 → rctx r0 = false → tape r0 = [] → max_nodes r0 = None → Counts r0 L →
  (∀ v, is_Some (vars src !! v) → is_Some (vars r0 !! v)) →
  ∃ hs us r',
    copy_bdds_from src roots (ASt r0 H n)
      = (Ok hs, ASt r' (hins H n us) (n + length us)) ∧
    Inv r' ∧ rctx r' = false ∧ tape r' = [] ∧ max_nodes r' = None ∧
    keeps (heldn L) r0 r' ∧
    (last_len r0 = None → last_len r' = None) ∧
    (is_Some (last_len r0) → is_Some (last_len r')) ∧
    Counts r' (ledger_add L us) ∧
    Forall2 (fun u h => ∃ j u', h = n + j ∧ us !! j = Some u' ∧ same_fun src r' u u')
      roots hs ∧
    (∀ i j u, roots !! i = Some u → roots !! j = Some u → (1 < u)%Z → hs !! i = hs !! j) ∧
    (∀ j, j < length us → n + j ∈ hs).
Proof. exact (copy_bdds_from_dyn_ledger src roots r0 H n L). Qed.
Print Assumptions C11_copy_bdds_from_dynamic_ledger.

(** ** 3. Non-vacuity.  Source manager 0 (as in [Properties/C11_fn.v]): levels
    v1:0, v0:1, v2:2; handle 3 is f = v0 xor v1 (a complemented reference),
    handle 4 is g = v1 /\ v2, handle 5 is ~g, handle 6 is TRUE.

    Target manager 1: four variables v0..v3 in the order 0,1,2,3, one live
    handle (6) on (v0 /\ v2) \/ (v1 /\ v3) -- a bad order for that function --
    the intermediate handles dropped; dynamic reordering ENABLED
    ([configure(reordering=True)]) and the 4th reordering request forced to
    fire ([ASetTrig (Some 4)]).  Rebuilding the first root g alone makes three
    requests (see the example: the trigger is then left at [Some 1]), so the
    4th request fires later, while the third root f is being rebuilt: the memo
    then holds the copies of the nodes of v2 and of g, and the list of
    results built so far holds g and ~g. *)
Definition ds_lv : list (nat * nat) := [(0, 1); (1, 0); (2, 2)].
Definition ds_ops : list aop :=
  [AVar 0; AVar 1; AVar 2;
   AApply "xor" 0 (Some 1) None; AApply "and" 1 (Some 2) None;
   AFApply "not" 4 None; ATrue].
Definition dw0 : aworld := arun aworld_empty 0 (ANew ds_lv :: ds_ops).

Definition dt_lv : list (nat * nat) := [(0, 0); (1, 1); (2, 2); (3, 3)].
Definition dt_ops : list aop :=
  [AVar 0; AVar 1; AVar 2; AVar 3;
   AApply "and" 0 (Some 2) None; AApply "and" 1 (Some 3) None; AFApply "or" 4 (Some 5);
   ADrop 0; ADrop 1; ADrop 2; ADrop 3; ADrop 4; ADrop 5].
Definition dwS : aworld := arun (fst (astep dw0 1 (ANew dt_lv))) 1 dt_ops.
Definition dw1 : aworld := arun dwS 1 [AConfigure (Some true); ASetTrig (Some 4)].

Definition droots : list Z := [6; -6; -5; 6; 1]%Z.

(** the hypotheses of [C11_copy_bdds_from_dynamic] hold for this call *)
Example C11_fn_dyn_hypotheses :
  let src := mgr (aworld_get dw0 0) in
  let b := aworld_get dw1 1 in
  Inv src ∧ Forall (valid src) droots ∧ AInvDT b ∧ max_nodes (mgr b) = None ∧
  (∀ v, is_Some (vars src !! v) → is_Some (vars (mgr b) !! v)).
Proof.
  cbv zeta. split; [|split; [|split; [|split]]].
  - assert (HA : AInvT (aworld_get dw0 0)).
    { apply (arun_from_new2 ds_lv ds_ops 0); [by vm_compute|].
      cbn [ahist_ok2 ds_ops]. repeat (split; [by vm_compute|]). exact I. }
    exact (proj1 (proj1 HA)).
  - unfold droots. repeat (apply Forall_cons; split; [apply mem_valid; by vm_compute|]).
    by apply Forall_nil.
  - unfold dw1. apply arun_AInvD.
    + apply AInvDT_of_AInvT; [|by vm_compute]. unfold dwS. apply arun_AInv2.
      * apply astep_AInv2; [by vm_compute|by vm_compute|]. by intros [=].
      * cbn [ahist_ok2 dt_ops]. repeat (split; [by vm_compute|]). exact I.
    + repeat (apply Forall_cons; split; [reflexivity|]). by apply Forall_nil.
  - by vm_compute.
  - apply decl_dec. by vm_compute.
Qed.

(** hence the conclusion holds for it *)
Example C11_fn_dyn_instance :
  let src := mgr (aworld_get dw0 0) in
  let b := aworld_get dw1 1 in
  ∃ hs b',
    copy_bdds_from src droots b = (Ok hs, b') ∧
    AInvDT b' ∧ AKeepAll b b' ∧ is_Some (last_len (mgr b')) ∧
    Forall2 (fun u h => ∃ u', handles b' !! h = Some u' ∧ same_fun src (mgr b') u u')
      droots hs.
Proof.
  cbv zeta. destruct C11_fn_dyn_hypotheses as (HIs&Hr&HA&Hmx&Hd).
  destruct (copy_bdds_from_dynamic _ droots _ HIs Hr HA Hmx Hd)
    as (hs&us&b'&E&_&HA'&_&Hk&_&_&Hl&_&_&_&_&HF&_).
  exists hs, b'. split; [done|]. split; [done|]. split; [done|]. split.
  { apply Hl. exists 100. by vm_compute. }
  eapply Forall2_impl; [exact HF|]. intros u h (u'&_&Hh&Hs). exists u'. exact (conj Hh Hs).
Qed.
Print Assumptions C11_fn_dyn_instance.

(** by evaluation: the handles of the source are on the nodes [droots]; the
    copy succeeds and returns handles 7..10 (the two occurrences of g share
    handle 7); the forced request fired (the trigger is consumed, the
    threshold was recomputed) and sifting moved v2 from level 2 to level 0:
    the ORDER of the target changed in the middle of the copy; the old handle
    6 keeps its node and its truth table; the copies have the truth tables of
    their roots BY NAME; the counters are exact: in-degree + the manager's
    reference to the terminal + live handles (nothing of the memo or of the
    temporaries is left). *)
Definition tbl4 (s : st) (u : Z) : list bool := (fun ρ => denv s u ρ) <$> envs 4.
Definition dhn (a : ast) (h : nat) : Z := default 0%Z (handles a !! h).

Example C11_fn_dyn_example :
  let a0 := aworld_get dw0 0 in
  let s := mgr a0 in
  let b := aworld_get dw1 1 in
  let w' := fst (astep_copy_fn dw1 1 0 [4; 5; 3; 4; 6]) in
  let b' := aworld_get w' 1 in
  (dhn a0 <$> [4; 5; 3; 4; 6]) = droots ∧
  snd (astep_copy_fn dw1 1 0 [4; 5; 3; 4; 6]) = Ok (VL [VN 7; VN 8; VN 9; VN 7; VN 10]) ∧
  (* the request fired in the middle; the order changed; requests are on *)
  trig (mgr b) = Some 4 ∧ trig (mgr b') = None ∧
  trig (mgr (aworld_get (fst (astep_copy_fn dw1 1 0 [4])) 1)) = Some 1 ∧
  last_len (mgr b) = Some 100 ∧ bool_decide (is_Some (last_len (mgr b'))) = true ∧
  map_to_list (vars (mgr b)) = [(0, 0); (1, 1); (3, 3); (2, 2)] ∧
  vars (mgr b) !! 2 = Some 2 ∧ vars (mgr b') !! 2 = Some 0 ∧
  (* the old handle *)
  map_to_list (handles b) = [(6, 10%Z)] ∧ handles b' !! 6 = Some 10%Z ∧
  tbl4 (mgr b') 10 = tbl4 (mgr b) 10 ∧
  (* the copies, by name *)
  tbl4 (mgr b') (dhn b' 7) = tbl4 s 6 ∧
  tbl4 (mgr b') (dhn b' 8) = tbl4 s (-6) ∧
  tbl4 (mgr b') (dhn b' 9) = tbl4 s (-5) ∧
  dhn b' 10 = 1%Z ∧
  tbl4 s 6 = [false; false; false; false; false; false; true; true;
              false; false; false; false; false; false; true; true] ∧
  tbl4 s (-5) = [false; true; true; false; false; true; true; false;
                 false; true; true; false; false; true; true; false] ∧
  (* the counters are exact for the handle ledger *)
  forallb (fun '(n, c) =>
      bool_decide (c = indeg (succ (mgr b')) n + (if decide (n = 1%positive) then 1 else 0) +
                   length (filter (fun p => absn (p.2) = n) (map_to_list (handles b')))))
    (map_to_list (refc (mgr b'))) = true.
Proof. by vm_compute. Qed.
