(** * Property C04 (second part) — simultaneous substitution
      ([_vector_compose]) and renaming ([rename], by [_copy_bdd] inside one
      manager) compute exactly the substituted function.  Only statements
      closed by [exact]; proofs live in [Proofs/Subst.v]. *)
From DD Require Import Subst.
Local Open Scope string_scope.

(** [_vector_compose], for every manager satisfying the invariant, every
    reference, every substitution of valid references for levels and every
    warm cache that is sound ([vcache_ok]).  Level [l] of the result reads the
    replacement's value under the ORIGINAL assignment ([vsubst]): the
    substitution is simultaneous.  The only exception that can propagate is the
    reordering request (nested call, reordering enabled); no assertion fires. *)
Theorem C04_vector_compose_rec fuel s f_ level_sub cache r s' :
  Inv s → valid s f_ → no_reorder s →
  (∀ l g, level_sub !! l = Some g → valid s g) →
  vcache_ok s level_sub cache →
  nvars s - lvl_of s f_ < fuel →
  vector_compose_rec fuel f_ level_sub cache s = (r, s') →
  Inv s' ∧ extends s s' ∧ frame s s' ∧
  match r with
  | Ok (x, cache') => valid s' x ∧ vcache_ok s' level_sub cache' ∧
        ∀ a, D s' x a = D s f_ (vsubst s level_sub a)
  | Err e => (e = ENeedsReordering ∧ is_Some (last_len s)) ∨
               (e = ERuntime ∧ is_Some (max_nodes s))
  end.
Proof. exact (vector_compose_rec_spec fuel s f_ level_sub cache r s'). Qed.

(** The level map that [rename] builds from [dvars] (pairs in dict order, the
    last binding of a name wins): the level of [v] goes to the level of
    [dvars.get(v, v)]. *)
Theorem C04_rename_level_map s dvars l l' :
  Inv s →
  rename_level_map s dvars !! l = Some l' ↔
  ∃ v, vars s !! v = Some l ∧
       vars s !! default v ((list_to_map (reverse dvars) : gmap nat nat) !! v) = Some l'.
Proof. exact (rename_level_map_spec s dvars l l'). Qed.

(** [BDD.rename(u, dvars)], dynamic reordering disabled, every target name
    declared (otherwise Python raises [KeyError]): never fails (none of the
    three sign assertions of [_copy_bdd] fires), and the result read under [a]
    is [u] read under the assignment pulled back through the level map.  The
    renaming need not be injective. *)
Theorem C04_rename_correct s u dvars r s' :
  Inv s → valid s u → last_len s = None → max_nodes s = None →
  rename u dvars s = (r, s') →
  (∀ x y, (x, y) ∈ dvars → is_Some (vars s !! y)) →
  ∃ x, r = Ok x ∧ Inv s' ∧ extends s s' ∧ valid s' x ∧
    ∀ a, D s' x a = D s u (lmap (rename_level_map s dvars) a).
Proof. exact (rename_spec s u dvars r s'). Qed.

(** Non-vacuity, by running the model: with 7 = (v0 /\ v1) \/ v2,
    substituting simultaneously v0 := v2, v2 := v0 gives the reference of
    (v2 /\ v1) \/ v0 built directly afterwards; a sequential substitution
    would give (v0 /\ v1) \/ v0 instead.  Renaming the cycle
    v0 -> v1 -> v2 -> v0 gives (v1 /\ v2) \/ v0, the same function, hence
    (canonicity) the same reference. *)
Example C04b_nonvacuous :
  let run := fold_left (fun w o => fst (step w 0 o)) in
  let w := run [ONew [(0, 0); (1, 1); (2, 2)]; OVar 0; OVar 1; OVar 2;
                OApply "and" 2 (Some 3%Z) None; OApply "\/" 5 (Some 4%Z) None]
               world_empty in
  let s := world_get w 0 in
  mem 7 s = true ∧ last_len s = None ∧ max_nodes s = None ∧
  snd (step w 0 (OCompose 7 [(0, 4%Z); (2, 2%Z)])) = Ok (VZ 10) ∧
  snd (step w 0 (ORename 7 [(0, 1); (1, 2); (2, 0)])) = Ok (VZ 10) ∧
  (let w' := fst (step w 0 (OCompose 7 [(0, 4%Z); (2, 2%Z)])) in
   let w' := run [OApply "and" 4 (Some 3%Z) None] w' in
   snd (step w' 0 (OApply "or" 9 (Some 2%Z) None)) = Ok (VZ 10)) ∧
  (* an undeclared target name is Python's KeyError; an undeclared key is ignored *)
  snd (step w 0 (ORename 7 [(0, 1); (1, 5)])) = Err EKey ∧
  snd (step w 0 (ORename 7 [(0, 1); (5, 1)])) = Ok (VZ 6).
Proof. by vm_compute. Qed.
