(** * Property C19 — the C back ends (source level).

    "In the CUDD, CUDD-ZDD, Sylvan and BuDDy wrappers every operator symbol
    accepted by `apply` denotes the same connective, with the same operand
    roles, as in the pure-Python manager; every node handed to Python is
    wrapped in a `Function` that takes one library reference on creation and
    gives back exactly one on disposal, and every temporary reference a
    wrapper method takes is released on each path."

    Nothing can be built or run: the statements are about tables generated
    from the wrapper sources ([Generated/CApply.v], [Generated/CRef.v]) and
    from dd/bdd.py, dd/_abc.py ([Generated/PyApply.v]); they are finite and
    re-checked by computation whenever a source changes.  The meaning of the
    library calls is the table of [Model/CSem.v] (trusted); the shape of a
    disciplined path is [Model/CRefSem.v].  Only statements closed by
    [exact]; the computations live in [Proofs/CApply.v].

    The Sylvan quantifier symbols are stated in [C19_sylvan_quant.v]. *)
From DD Require Import Proofs.CApply.
Local Open Scope string_scope.

(** ** `apply`: for every symbol of the vocabulary of dd/_abc.py (all
    aliases) that the wrapper's chain accepts, other than the quantifier
    spellings, and all 8 valuations of (u, v, w): the value of the C term
    under [lib_sem] is [template_sem] of the row of dd.bdd.BDD.apply for the
    same symbol; and the C term reads only operands of the symbol's arity. *)
Theorem C19_apply_cudd :
  forallb (fun op => bool_decide (op ∈ quantifier_ops) || c_prop_agrees c_apply_cudd op)
          py_vocab = true.
Proof. exact c_apply_agrees_cudd. Qed.

Theorem C19_apply_cudd_zdd :
  forallb (fun op => bool_decide (op ∈ quantifier_ops) || c_prop_agrees c_apply_cudd_zdd op)
          py_vocab = true.
Proof. exact c_apply_agrees_cudd_zdd. Qed.

Theorem C19_apply_sylvan :
  forallb (fun op => bool_decide (op ∈ quantifier_ops) || c_prop_agrees c_apply_sylvan op)
          py_vocab = true.
Proof. exact c_apply_agrees_sylvan. Qed.

Theorem C19_apply_buddy :
  forallb (fun op => bool_decide (op ∈ quantifier_ops) || c_prop_agrees c_apply_buddy op)
          py_vocab = true.
Proof. exact c_apply_agrees_buddy. Qed.

(** ** Quantifier symbols: the C term is a quantifier call with the same
    [forall] flag and the same operand roles as the Python row
    [TQuant fa OU OV] (variables from the FIRST operand, the SECOND operand
    is quantified), under the argument conventions [quant_conv]. *)
Theorem C19_quantifier_roles_cudd :
  forallb (c_quant_agrees c_apply_cudd) quantifier_ops = true.
Proof. exact c_quantifiers_agree_cudd. Qed.

Theorem C19_quantifier_roles_cudd_zdd :
  forallb (c_quant_agrees c_apply_cudd_zdd) quantifier_ops = true.
Proof. exact c_quantifiers_agree_cudd_zdd. Qed.

(** BuDDy's `apply` accepts no quantifier symbol (vacuous today; it starts
    to bite when one is added). *)
Theorem C19_quantifier_roles_buddy :
  forallb (c_quant_agrees c_apply_buddy) quantifier_ops = true.
Proof. exact c_quantifiers_agree_buddy. Qed.

(** [quant_conv] puts the function / the variables where the wrappers'
    own extern declarations name the parameters so. *)
Theorem C19_quantifier_conventions :
  forallb quant_decl_ok c_quant_decls = true.
Proof. exact quant_conventions_ok. Qed.

(** ** No wrapper accepts a symbol outside the vocabulary, so the three
    statements above cover every accepted symbol. *)
Theorem C19_accepted_symbols_in_vocabulary :
  c_within_vocab c_apply_cudd && c_within_vocab c_apply_cudd_zdd &&
  c_within_vocab c_apply_sylvan && c_within_vocab c_apply_buddy = true.
Proof. exact c_within_vocab_all. Qed.

(** informative: what each wrapper does not accept *)
Definition C19_not_accepted_cudd := c_not_accepted c_apply_cudd.
Definition C19_not_accepted_cudd_zdd := c_not_accepted c_apply_cudd_zdd.
Definition C19_not_accepted_sylvan := c_not_accepted c_apply_sylvan.
Definition C19_not_accepted_buddy := c_not_accepted c_apply_buddy.

(** ** Operand shapes are rejected as by dd.bdd (same call, or equivalent
    per-branch guards), and BuDDy's symbol set has a branch per symbol. *)
Theorem C19_operand_checks :
  c_arity_agrees c_apply_cudd c_arity_cudd && c_arity_agrees c_apply_cudd_zdd c_arity_cudd_zdd &&
  c_arity_agrees c_apply_sylvan c_arity_sylvan && c_arity_agrees c_apply_buddy c_arity_buddy = true.
Proof. exact c_arity_agrees_all. Qed.

Theorem C19_buddy_symbols :
  forallb (fun op => match c_find c_apply_buddy op with Some _ => true | None => false end)
          c_symbols_buddy
  && forallb (fun op => bool_decide (op ∈ c_symbols_buddy)) (c_aliases c_apply_buddy) = true.
Proof. exact c_symbols_buddy_ok. Qed.

(** ** References.  Creating a `Function` takes exactly one library
    reference (on the node that becomes [self.node]); disposing of it gives
    back exactly one when the handle is live, none otherwise. *)
Theorem C19_function_handle :
  handle_ok handle_cudd && handle_ok handle_cudd_zdd &&
  handle_ok handle_sylvan && handle_ok handle_buddy = true.
Proof. exact handles_ok. Qed.

(** Every path of every function that touches reference counts and does not
    end in `raise` releases each temporary reference it took (containers
    filled by a loop are drained by a loop), wraps a node at most once, and
    hands a bare node only to C-level callers; the manager's
    incref/decref forwarders change the count of their parameter once. *)
Theorem ref_discipline_cudd :
  forallb (fun m => forallb (balanced m) (paths m)) methods_cudd = true.
Proof. exact ref_discipline_cudd_ok. Qed.

Theorem ref_discipline_cudd_zdd :
  forallb (fun m => forallb (balanced m) (paths m)) methods_cudd_zdd = true.
Proof. exact ref_discipline_cudd_zdd_ok. Qed.

Theorem ref_discipline_sylvan :
  forallb (fun m => forallb (balanced m) (paths m)) methods_sylvan = true.
Proof. exact ref_discipline_sylvan_ok. Qed.

Theorem ref_discipline_buddy :
  forallb (fun m => forallb (balanced m) (paths m)) methods_buddy = true.
Proof. exact ref_discipline_buddy_ok. Qed.

(** Raising paths included.  The strict discipline asks of a path that ends
    in an explicit `raise` what it asks of a returning one: nothing the
    function took is still held.  It holds for every function of the four
    wrappers except the raising paths counted below, which are internal
    assertion failures or NULL results of the library after temporaries were
    taken (cudd.pyx: `_load_dddmp` raises on a NULL result, the self-tests
    `_test_incref` / `_test_decref` raise with the reference they test;
    cudd_zdd.pyx: the assertions inside `_c_compose` / `_compose_root` /
    `_compose`).  A new `raise` placed after a reference was taken, in any
    other function or as one more path of these, makes the statement false. *)
Theorem C19_raising_paths_cudd :
  raise_paths_ok [("BDD._load_dddmp", 1); ("_test_incref", 1); ("_test_decref", 1)] methods_cudd = true.
Proof. exact raise_paths_cudd_ok. Qed.
Theorem C19_raising_paths_cudd_zdd :
  raise_paths_ok [("_c_compose", 3); ("_compose_root", 2); ("_compose", 5)] methods_cudd_zdd = true.
Proof. exact raise_paths_cudd_zdd_ok. Qed.
Theorem C19_raising_paths_sylvan : raise_paths_ok [] methods_sylvan = true.
Proof. exact raise_paths_sylvan_ok. Qed.
Theorem C19_raising_paths_buddy : raise_paths_ok [] methods_buddy = true.
Proof. exact raise_paths_buddy_ok. Qed.
Theorem C19_raising_paths_exceptions_needed :
  raise_paths_ok [("_test_incref", 1); ("_test_decref", 1)] methods_cudd = false ∧
  raise_paths_ok [("BDD._load_dddmp", 1); ("_test_incref", 0); ("_test_decref", 1)] methods_cudd = false ∧
  raise_paths_ok [("_c_compose", 2); ("_compose_root", 2); ("_compose", 5)] methods_cudd_zdd = false ∧
  raise_paths_ok [("_c_compose", 3); ("_compose_root", 2); ("_compose", 4)] methods_cudd_zdd = false.
Proof. exact raise_paths_exceptions_needed. Qed.
Example C19_strict_discriminates :
  let m := Method "demo" KCpdef None ["self"; "u"] [] in
  balanced m [ERef "p"; ERaise] = true ∧
  balanced_strict m [ERef "p"; ERaise] = false ∧
  balanced_strict m [ERef "p"; EDeref "p"; ERaise] = true ∧
  balanced_strict m [ELoop [[ERef "g"; EStore "vec" "g"]]; ERaise] = false.
Proof. by vm_compute. Qed.

(** No `def` / `cpdef` function returns a bare library node: every node
    result goes through `wrap(..)` / `Function(..)`. *)
Theorem C19_nodes_are_wrapped :
  forallb returns_ok returns_cudd && forallb returns_ok returns_cudd_zdd &&
  forallb returns_ok returns_sylvan && forallb returns_ok returns_buddy = true.
Proof. exact returns_all_ok. Qed.

(** Non-vacuity: the checkers reject a leaked temporary, a double release, a
    bare node handed to Python and an undrained container, and tell the two
    argument orders of a quantifier call apart. *)
Example C19_checkers_discriminate :
  let m := Method "demo" KCpdef None ["self"; "u"] [] in
  balanced m [ERef "p"; EReturnOther] = false ∧
  balanced m [ERef "p"; EDeref "p"; EDeref "p"; EReturnOther] = false ∧
  balanced m [EReturnNode "r"] = false ∧
  balanced m [ELoop [[ERef "g"; EStore "vec" "g"]]; EReturnOther] = false ∧
  balanced m [ELoop [[ERef "g"; EStore "vec" "g"]]; ELoop [[EDerefElem "vec"]]; EReturnOther] = true ∧
  cterm_quant (CCall "sylvan_forall" [COp RU; COp RV]) = Some (true, RU, RV) ∧
  cterm_quant (CCall "Cudd_bddUnivAbstract" [COp RV; COp RU]) = Some (true, RV, RU).
Proof. exact checker_rejects. Qed.
