(** * Property C07, sifting of one variable: "moved to a position of minimal
      size".

    [C07b_reorder_var] ([Properties/C07b.v]) says of [_reorder_var]
    ([Model/Reorder.v], [reorder_var]) that the variable ends at some level
    [k], every other variable keeps its relative order ([vperm (mv lv k)]),
    and the table did not grow.  The missing part of the claim is here
    ([C07_reorder_var_min]): the final table is NO LARGER THAN THE TABLE WITH
    THE VARIABLE AT ANY LEVEL [p < n], and every level was really visited by
    the sweep.

    Sizes are [len s = size (succ s)], the number of stored nodes.  A swap of
    the model collects the garbage it creates ([C07b_swap_nozero]: no
    unreferenced node is left, [nozero]), so [len] counts live nodes only and
    "the size with the variable at level [p]" does not depend on how the
    variable got there ([C07_visited_size], from [C07b_size_determined]).
    The error outcomes are [Err EOracle] (iteration-order oracle of the
    model; excluded by an empty tape, [C07b_no_oracle]) and, with a bounded
    table only, [Err ERuntime] (a swap of the sweep refused by the full-table
    pre-check; excluded by [max_nodes = None], [C07b_unbounded]; the manager is
    then the one between two swaps, [Sift8.reorder_var_safe]).

    Only statements closed by [exact]; proofs live in [Proofs/SiftMin.v]. *)
From DD Require Import SiftMin Total SiftFull.
Local Open Scope string_scope.

(** ** Vocabulary (defined in [Proofs/Sift0.v], [Proofs/Sift1.v]) *)
Theorem C07_held_unfold L u :
  held L u ↔ u ≠ 0%Z ∧ (absn u = 1%positive ∨ 0 < L (absn u)).
Proof. exact (conj (fun H => H) (fun H => H)). Qed.
Print Assumptions C07_held_unfold.

Theorem C07_keepsH_unfold L s s' :
  keepsH L s s' ↔
  ∀ u, held L u → valid s u ∧ valid s' u ∧ ∀ ρ, denv s' u ρ = denv s u ρ.
Proof. exact (conj (fun H => H) (fun H => H)). Qed.
Print Assumptions C07_keepsH_unfold.

Theorem C07_nozero_unfold s :
  nozero s ↔ ∀ n, n ∈ dom (succ s) → n ≠ 1%positive → refc s !! n ≠ Some 0.
Proof. exact (conj (fun H => H) (fun H => H)). Qed.
Print Assumptions C07_nozero_unfold.

Theorem C07_Gd_unfold L s : Gd L s ↔ Inv s ∧ Counts s L ∧ last_len s = None.
Proof. exact (conj (fun H => H) (fun H => H)). Qed.
Print Assumptions C07_Gd_unfold.

Theorem C07_Stp_unfold L s s' :
  Stp L s s' ↔ Gd L s' ∧ nvars s' = nvars s ∧ keepsH L s s' ∧ (nozero s → nozero s').
Proof. exact (conj (fun H => H) (fun H => H)). Qed.
Print Assumptions C07_Stp_unfold.

Theorem C07_vperm_unfold π s s' :
  vperm π s s' ↔ ∀ v l, vars s !! v = Some l → vars s' !! v = Some (π l).
Proof. exact (conj (fun H => H) (fun H => H)). Qed.
Print Assumptions C07_vperm_unfold.

(** move level [a] to [b]; the levels in between shift by one *)
Theorem C07_mv_unfold a b l :
  mv a b l = if decide (l = a) then b
             else if decide (a < l ∧ l ≤ b) then l - 1
             else if decide (b ≤ l ∧ l < a) then l + 1 else l.
Proof. exact eq_refl. Qed.
Print Assumptions C07_mv_unfold.

(** [v] is the size of a state reached from [s0] (same held functions, same
    ledger) in which the variable of level [a] sits at level [p] and the
    others kept their relative order *)
Theorem C07_Visited_unfold L s0 a p v :
  Visited L s0 a p v ↔ ∃ sp, Stp L s0 sp ∧ vperm (mv a p) s0 sp ∧ v = len sp.
Proof. exact (conj (fun H => H) (fun H => H)). Qed.
Print Assumptions C07_Visited_unfold.

(** ** The size at a position is well defined *)
Theorem C07_visited_size L s lv p v sp :
  Gd L s → nozero s → Visited L s lv p v → Stp L s sp → vperm (mv lv p) s sp →
  v = len sp.
Proof. exact (visited_size L s lv p v sp). Qed.
Print Assumptions C07_visited_size.

(** ** [_reorder_var]: the final position is of minimal size *)
Theorem C07_reorder_var_min L s var al r s' :
  Gd L s → nozero s → levels_ok s al → is_Some (vars s !! var) →
  reorder_var var al s = (r, s') →
  r = Err EOracle ∨
  (r = Err ERuntime ∧ is_Some (max_nodes s) ∧ Stp L s s' ∧
   dom (vars s') = dom (vars s)) ∨
  ∃ k al' lv, r = Ok (k, al') ∧ vars s !! var = Some lv ∧
    Stp L s s' ∧ levels_ok s' al' ∧ vperm (mv lv k) s s' ∧ k < nvars s ∧
    (∀ p, p < nvars s → ∃ v, Visited L s lv p v ∧ len s' ≤ v) ∧
    (∀ p sp, p < nvars s → Stp L s sp → vperm (mv lv p) s sp → len s' ≤ len sp).
Proof. exact (reorder_var_min_full L s var al r s'). Qed.
Print Assumptions C07_reorder_var_min.

(** the final state is itself the visited state of level [k] *)
Theorem C07_final_visited L s s' lv k :
  Stp L s s' → vperm (mv lv k) s s' → Visited L s lv k (len s').
Proof. exact (final_visited L s s' lv k). Qed.
Print Assumptions C07_final_visited.

(** ** Example (by evaluation): f = (v0 ∧ v2) ∨ (v1 ∧ v3), order v0 v1 v2 v3,
    one external reference on f (node 10), after a collection: 7 nodes.
    With v2 at levels 0, 1, 2, 3 the table has 5, 5, 7, 7 nodes;
    [_reorder_var(v2)] ends at level 1 with 5 nodes. *)
Definition ops_min : list op :=
  [OVar 0; OVar 1; OVar 2; OVar 3;
   OApply "and" 2%Z (Some 4%Z) None; OApply "and" 3%Z (Some 5%Z) None;
   OApply "or" 6%Z (Some 7%Z) None; OIncref 10%Z].
Definition lv_min : list (nat * nat) := [(0, 0); (1, 1); (2, 2); (3, 3)].
Definition s_min0 : st := world_get (run world_empty 0 (ONew lv_min :: ops_min)) 0.
Definition s_min : st := snd (collect_garbage None s_min0).
Definition al_min : levels_t :=
  match fst (levels_ s_min) with Ok a => a | Err _ => ∅ end.

(** the hypotheses of [C07_reorder_var_min] hold *)
Example C07_min_hypotheses :
  ∃ L, Gd L s_min ∧ nozero s_min ∧ levels_ok s_min al_min ∧ is_Some (vars s_min !! 2).
Proof.
  assert (HG : Good s_min0).
  { apply (run_inv_from_new lv_min ops_min 0); [by vm_compute|].
    cbn [hist_ok ops_min]. repeat (split; [by vm_compute|]).
    repeat (split; [first [by vm_compute | vm_compute; lia]|]). done. }
  destruct HG as (HI&Hl&L&HC). exists L. unfold al_min, s_min.
  destruct (collect_garbage None s_min0) as [rg s1] eqn:Egc. cbn [snd].
  pose proof (gc_nozero s_min0 L rg s1 HI HC Egc) as Hz1.
  destruct (gc_exact s_min0 L rg s1 HI HC Egc) as (_&HI1&HC1&_&_&_&Hll1&_).
  destruct (levels_spec s1 HI1) as (al&Hlev&Hal). rewrite Hlev. cbn [fst].
  split; [split_and!; [done|done|congruence]|]. split; [done|]. split; [done|].
  replace s1 with (snd (collect_garbage None s_min0)) by (by rewrite Egc).
  vm_compute. by eexists.
Qed.

Example C07_min_example :
  len s_min = 7 ∧
  (fun p => len (snd (shift 2 p al_min s_min))) <$> [0; 1; 2; 3] = [5; 5; 7; 7] ∧
  match fst (reorder_var 2 al_min s_min) with Ok (k, _) => Some k | Err _ => None end = Some 1 ∧
  len (snd (reorder_var 2 al_min s_min)) = 5 ∧
  map_to_list (vars (snd (reorder_var 2 al_min s_min))) = [(0, 0); (1, 2); (3, 3); (2, 1)].
Proof. by vm_compute. Qed.
