(** * Property C17 — a failing call leaves the manager intact.

    "Whenever a call fails with an exception (undeclared variable, foreign or
    unknown node, unknown operator or wrong arity, conflicting level, variable
    still in use ...), every live reference still denotes the same function,
    the manager is still canonical with exact reference counts, the variable
    order is still a valid bijection, and subsequent operations behave
    normally."

    In the model an exception is an [Err e] outcome whose state is the state
    reached at the raise point.  The theorems below are TOTAL: they hold for
    arbitrary arguments (junk integers, undeclared names, unknown operators)
    and for both outcomes.  Dynamic reordering is disabled
    ([last_len s = None]).  Only statements closed by [exact]; proofs live in
    [Proofs/Total.v]. *)
From DD Require Import Total.
Local Open Scope string_scope.

(** [safe s s'] = [Inv s'] (canonical, valid bijection), [extends s s']
    (every node of [s] is a node of [s'] with the same triple, same variable
    order), the harness fields are untouched, and the reference counts stay
    exact w.r.t. every ledger of external references. *)
Theorem C17_safe_unfold s s' :
  safe s s' ↔ Inv s' ∧ extends s s' ∧ frame s s' ∧ ∀ L, Counts s L → Counts s' L.
Proof. exact (conj (fun H => H) (fun H => H)). Qed.

(** every reference that was valid keeps its denotation, by levels and by
    variable names *)
Theorem C17_safe_keeps_denotations s s' :
  Inv s → safe s s' →
  ∀ u, valid s u → valid s' u ∧ (∀ a, D s' u a = D s u a) ∧ ∀ ρ, denv s' u ρ = denv s u ρ.
Proof. exact (safe_den s s'). Qed.

(** ** Each public operation, arbitrary arguments, either outcome *)

Theorem C17_ite_total s g u v r s' :
  Inv s → last_len s = None → ite g u v s = (r, s') →
  safe s s' ∧ r ≠ Err ENeedsReordering ∧
  (valid s u → valid s v → ∀ w, r = Ok w → valid s' w).
Proof. exact (ite_total s g u v r s'). Qed.

Theorem C17_var_total s name r s' :
  Inv s → last_len s = None → var name s = (r, s') →
  safe s s' ∧ r ≠ Err ENeedsReordering ∧
  (vars s !! name = None → r = Err EValue ∧ s' = s) ∧
  ∀ u, r = Ok u → valid s' u.
Proof. exact (var_total s name r s'). Qed.

Theorem C17_apply_total s op u v w r s' :
  Inv s → last_len s = None → apply op u v w s = (r, s') →
  Inv s' ∧ extends s s' ∧ frame s s' ∧ (∀ L, Counts s L → Counts s' L) ∧
  r ≠ Err ENeedsReordering.
Proof. exact (apply_total s op u v w r s'). Qed.

(** unknown operator, wrong arity, foreign or unknown node: [ValueError]
    before anything is touched *)
Theorem C17_apply_rejected s op u v w :
  arity_ok op v w = false ∨ mem u s = false ∨
  (∃ v', v = Some v' ∧ mem v' s = false) ∨ (∃ w', w = Some w' ∧ mem w' s = false) ∨
  find_template apply_table op = None →
  apply op u v w s = (Err EValue, s).
Proof. exact (apply_rejected s op u v w). Qed.

Theorem C17_quantify_total s u bn qvars fa r s' :
  Inv s → last_len s = None → quantify u bn qvars fa s = (r, s') →
  Inv s' ∧ extends s s' ∧ frame s s' ∧ (∀ L, Counts s L → Counts s' L) ∧
  r ≠ Err ENeedsReordering.
Proof. exact (quantify_total s u bn qvars fa r s'). Qed.

Theorem C17_cofactor_total s u bn values r s' :
  Inv s → last_len s = None → cofactor u bn values s = (r, s') →
  Inv s' ∧ extends s s' ∧ frame s s' ∧ (∀ L, Counts s L → Counts s' L) ∧
  r ≠ Err ENeedsReordering.
Proof. exact (cofactor_total s u bn values r s'). Qed.

Theorem C17_compose_total s f_ var_sub r s' :
  Inv s → last_len s = None → compose f_ var_sub s = (r, s') →
  Inv s' ∧ extends s s' ∧ frame s s' ∧ (∀ L, Counts s L → Counts s' L) ∧
  r ≠ Err ENeedsReordering.
Proof. exact (compose_total s f_ var_sub r s'). Qed.

Theorem C17_rename_total s u dvars r s' :
  Inv s → last_len s = None → rename u dvars s = (r, s') →
  Inv s' ∧ extends s s' ∧ frame s s' ∧ (∀ L, Counts s L → Counts s' L) ∧
  r ≠ Err ENeedsReordering.
Proof. exact (rename_total s u dvars r s'). Qed.

Theorem C17_cube_total s dvars r s' :
  Inv s → last_len s = None → cube dvars s = (r, s') →
  Inv s' ∧ extends s s' ∧ frame s s' ∧ (∀ L, Counts s L → Counts s' L) ∧
  r ≠ Err ENeedsReordering.
Proof. exact (cube_total s dvars r s'). Qed.

Theorem C17_let_total s d u r s' :
  Inv s → last_len s = None → let_ d u s = (r, s') →
  Inv s' ∧ extends s s' ∧ frame s s' ∧ (∀ L, Counts s L → Counts s' L) ∧
  r ≠ Err ENeedsReordering.
Proof. exact (let_total s d u r s'). Qed.

Theorem C17_support_total s u r s' : support u s = (r, s') → s' = s.
Proof. exact (support_total s u r s'). Qed.
Theorem C17_is_essential_total s u v r s' : is_essential u v s = (r, s') → s' = s.
Proof. exact (is_essential_total s u v r s'). Qed.

(** reference counters: an unknown node is a [KeyError], nothing changes *)
Theorem C17_incref_total s u r s' :
  Inv s → incref u s = (r, s') →
  Inv s' ∧ extends s s' ∧ frame s s' ∧
  (valid s u → r = Ok tt ∧ ∀ L, Counts s L → Counts s' (ledger_inc L (absn u))) ∧
  (¬ valid s u → r = Err EKey ∧ s' = s).
Proof. exact (incref_total s u r s'). Qed.

Theorem C17_decref_total s u r s' :
  Inv s → decref u s = (r, s') →
  Inv s' ∧ extends s s' ∧ frame s s' ∧
  (valid s u → r = Ok tt ∧
     ∀ L, Counts s L → 0 < L (absn u) → Counts s' (ledger_dec L (absn u))) ∧
  (¬ valid s u → r = Err EKey ∧ s' = s).
Proof. exact (decref_total s u r s'). Qed.

Theorem C17_ref_total s u r s' :
  Inv s → ref u s = (r, s') → s' = s ∧ (¬ valid s u → r = Err EKey).
Proof. exact (ref_total s u r s'). Qed.

Theorem C17_configure_total s b r s' :
  Inv s → configure b s = (r, s') →
  Inv s' ∧ extends s s' ∧ (∀ L, Counts s L → Counts s' L) ∧
  r = Ok (bool_decide (is_Some (last_len s))) ∧
  last_len s' = match b with
                | None => last_len s
                | Some true => Some (Nat.max REORDER_STARTS (len s))
                | Some false => None
                end.
Proof. exact (configure_total s b r s'). Qed.

(** [collect_garbage]: with [roots=None] or roots that are nodes it succeeds
    (nodes only disappear: the surviving references keep their triples);
    a root that is no node is a [KeyError] raised by the initial scan, before
    any deletion *)
Theorem C17_collect_garbage_total roots s L r s' :
  Inv s → Counts s L → collect_garbage roots s = (r, s') →
  Inv s' ∧ Counts s' L ∧ vars s' = vars s ∧ lvl2var s' = lvl2var s ∧ frame s s' ∧
  succ s' ⊆ succ s ∧
  (r = Ok tt ∧ ite_tab s' = ∅ ∧
     (∀ n, n = 1%positive ∨ reach (succ s) (fun k => 0 < L k) n → n ∈ dom (succ s'))
   ∨ r = Err EKey ∧ s' = s ∧ ¬ roots_ok s roots).
Proof. exact (collect_garbage_total roots s L r s'). Qed.

(** [add_var] with any name and level (the hypothesis excludes the accepted
    call that breaks the invariant, see C14): a conflicting name or a taken
    level is a [ValueError], nothing changes *)
Theorem C17_add_var_total s var level r s' :
  Inv s → add_var var level s = (r, s') →
  (∀ l, level = Some l → vars s !! var = None → l ≤ nvars s) →
  Inv s' ∧ frame s s' ∧ (∀ L, Counts s L → Counts s' L) ∧
  (∀ u, valid s u → valid s' u ∧ (∀ a, D s' u a = D s u a) ∧
                    ∀ ρ, denv s' u ρ = denv s u ρ) ∧
  match r with
  | Ok l => (vars s !! var = Some l ∧ s' = s) ∨
            (vars s !! var = None ∧ l = nvars s ∧ nvars s' = S (nvars s) ∧
             vars s' = <[var := l]> (vars s) ∧ lvl2var s' = <[l := var]> (lvl2var s) ∧
             succ s' = <[1%positive := tterm (S (nvars s))]> (succ s))
  | Err e => e = EValue ∧ s' = s
  end.
Proof. exact (add_var_total s var level r s'). Qed.

(** ** [find_or_add]: NOT total.
    The method checks that the level is declared and that both children are
    nodes, but not that the level is above the levels of the children.  With
    that guard it is safe ... *)
Theorem C17_find_or_add_guarded s i v w r s' :
  Inv s →
  (i < nvars s → valid s v → valid s w → v ≠ w → i < lvl_of s v ∧ i < lvl_of s w) →
  find_or_add i v w s = (r, s') →
  safe s s'.
Proof. exact (find_or_add_total s i v w r s'). Qed.

(** ... and without it the call succeeds and breaks the invariant: in the
    manager [cx_s] (variables v0 < v1, node 2 = v0) the call
    [find_or_add(1, 2, 1)] returns the new node 3 at level 1 whose low child
    is at level 0. *)
Theorem C17_find_or_add_unguarded_refuted :
  fst (find_or_add 1 2 1 cx_s) = Ok 3%Z ∧ ¬ Inv cx_s'.
Proof. exact find_or_add_junk_refuted. Qed.
Theorem C17_find_or_add_unguarded_refuted_hyp : Inv cx_s ∧ last_len cx_s = None.
Proof. exact cx_s_Inv. Qed.

(** ** A failing call over the alphabet of the correspondence check *)

(** [Good]: canonical, reordering disabled, counts exact for some ledger *)
Theorem C17_Good_unfold s :
  Good s ↔ Inv s ∧ last_len s = None ∧ ∃ L, Counts s L.
Proof. exact (conj (fun H => H) (fun H => H)). Qed.

(** the allowed operations: all of [Driver.op] except [find_or_add], the
    reordering entry points, the harness setters, [copy_bdd],
    [image]/[preimage]; [configure(reordering=True)] is excluded; the
    assignment [bdd.max_nodes = n] ([OSetMaxNodes]) is included, so the
    histories below meet calls that fail on a full table *)
Theorem C17_allowed_unfold o :
  allowed o =
  match o with
  | ONew levels => bool_decide (NoDup (levels.*1) ∧ NoDup (levels.*2))
  | OAddVar _ _ | ODeclare _ | OVar _ | OIte _ _ _ | OApply _ _ _ _
  | OIncref _ | ODecref _ | ORef _ | OGc _
  | OCofactor _ _ _ | OQuantify _ _ _ _ | OCompose _ _ | ORename _ _
  | OLet _ _ | OCube _ | OSupport _ | OIsEssential _ _ => true
  | OConfigure b => bool_decide (b ≠ Some true)
  | OSetMaxNodes _ => true
  | _ => false
  end.
Proof. exact eq_refl. Qed.

(** the two obligations of the caller that the code does not check *)
Theorem C17_caller_ok_unfold s o :
  caller_ok s o =
  match o with
  | OAddVar v (Some l) => vars s !! v = None → l ≤ nvars s
  | ODecref u => valid s u → indeg (succ s) (absn u) < default 0 (refc s !! absn u)
  | _ => True
  end.
Proof. exact eq_refl. Qed.

(** the failing call: whatever the exception, the state at the raise point
    extends the state of the call, hence (by [C17_safe_keeps_denotations])
    every reference keeps its function; the exception is never the internal
    reordering signal *)
Theorem C17_failed_call_safe w o s e s' :
  allowed o = true → is_new o = false → Good s → caller_ok s o →
  run_op w o s = (Err e, s') →
  safe s s' ∧ e ≠ ENeedsReordering.
Proof. exact (run_op_err w o s e s'). Qed.

(** ... and subsequent operations behave normally: every allowed call, failing
    or not, re-establishes [Good], the hypothesis of every specification
    theorem (C01–C06, C11) *)
Theorem C17_call_keeps_good w o s r s' :
  allowed o = true → (is_new o = false → Good s ∧ caller_ok s o) →
  run_op w o s = (r, s') → Good s'.
Proof. exact (run_op_good w o s r s'). Qed.

Theorem C17_history_partial ops : ∀ w m,
  Good (world_get w m) → hist_ok w m ops → Good (world_get (run w m ops) m).
Proof. exact (run_inv_partial ops). Qed.

Theorem C17_history_from_new levels ops m :
  allowed (ONew levels) = true →
  hist_ok (fst (step world_empty m (ONew levels))) m ops →
  Good (world_get (run world_empty m (ONew levels :: ops)) m).
Proof. exact (run_inv_from_new levels ops m). Qed.

(** the constructor [BDD(levels)]: a bad ordering fails the assertion (and
    the model keeps the empty manager), a good one declares every variable *)
Theorem C17_init_levels_total (levels : list (nat * nat)) r s' :
  NoDup (levels.*1) → NoDup (levels.*2) →
  init_levels levels init = (r, s') →
  (valid_ordering levels = false ∧ r = Err EAssert ∧ s' = init) ∨
  (valid_ordering levels = true ∧ r = Ok tt ∧ Inv s' ∧ last_len s' = None ∧
   rctx s' = false ∧ vars s' = list_to_map levels ∧
   Counts s' (fun n => if decide (n = 1%positive) then 1 else 0)).
Proof. exact (init_levels_total levels r s'). Qed.

Theorem C17_init : Inv init.
Proof. exact Inv_init. Qed.

(** ** Examples (by evaluation) *)

(** manager 0 after [BDD({v0:0, v1:1})], [x = var v0] (2), [y = var v1] (3),
    [x & y] (4), [incref(4)] *)
Definition hist0 : list op :=
  [ONew [(0, 0); (1, 1)]; OVar 0; OVar 1; OApply "and" 2 (Some 3%Z) None; OIncref 4].
Definition w0 : world := run world_empty 0 hist0.

(** calls that are rejected before anything is touched *)
Definition rejected : list op :=
  [OApply "nand" 2 (Some 3%Z) None;      (* unknown operator *)
   OApply "and" 2 None None;             (* wrong arity *)
   OApply "and" 2 (Some 77%Z) None;      (* unknown node *)
   OVar 9;                               (* undeclared variable *)
   OIncref 99; ODecref 0; ORef (-42);    (* unknown nodes *)
   OIte 55 2 3; OIte 2 3 66;
   OQuantify 2 true [7] false; OQuantify 77 true [0] false;
   OCofactor 88 true [(0, true)]; OCofactor 4 true [(5, true)];
   OCompose 4 [(0, 99%Z)]; OCompose 4 [(6, 2%Z)];
   ORename 4 [(0, 8)]; ORename 31 [(0, 1)];
   OGc (Some [123%Z]);                   (* foreign root *)
   OAddVar 0 (Some 1);                   (* conflicting level *)
   OAddVar 5 (Some 0)].                  (* level taken *)

Example C17_history_hypotheses_hold :
  hist_ok world_empty 0 hist0 ∧ Forall (fun o => allowed o = true) rejected.
Proof.
  split.
  - cbn [hist_ok hist0]. repeat (split; [by vm_compute|]).
    repeat (split; [vm_compute; try done; by intros|]). done.
  - repeat constructor.
Qed.

Example C17_rejected_outcomes :
  (fun o => snd (step w0 0 o)) <$> rejected =
  [Err EValue; Err EValue; Err EValue; Err EValue; Err EKey; Err EKey; Err EKey;
   Err EKey; Err EKey; Err EValue; Err EKey; Err EValue; Err EValue; Err EKey;
   Err EValue; Err EKey; Err EValue; Err EKey; Err EValue; Err EValue].
Proof. by vm_compute. Qed.

(** the digest (every table of the manager) is unchanged by each of them *)
Example C17_rejected_leave_digest :
  (fun o => digest (world_get (fst (step w0 0 o)) 0)) <$> rejected =
  replicate (length rejected) (digest (world_get w0 0)).
Proof. by vm_compute. Qed.

(** after all of them in sequence, [x | y] is computed as usual *)
Example C17_then_success :
  digest (world_get (run w0 0 rejected) 0) = digest (world_get w0 0) ∧
  snd (step (run w0 0 rejected) 0 (OApply "or" 2 (Some 3%Z) None)) = Ok (VZ 5).
Proof. by vm_compute. Qed.

(** calls that fail midway: the state at the raise point has grown (here by
    one entry of the computed table), every node keeps its triple *)
Example C17_partial_progress :
  let o := OCube [(0, true); (4, false)] in
  let s := world_get w0 0 in
  let s' := world_get (fst (step w0 0 o)) 0 in
  snd (step w0 0 o) = Err EValue ∧
  d_succ (digest s') = d_succ (digest s) ∧ d_ref (digest s') = d_ref (digest s) ∧
  d_ite (digest s') = [((2, 1, -1), 2); ((2, 3, -1), 4)]%Z.
Proof. by vm_compute. Qed.
