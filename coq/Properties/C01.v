(** * Property C01 — Boolean connectives and ITE compute exactly the stated
      truth function.  Only statements closed by [exact]; proofs live in
      [Proofs/]. *)
From DD Require Import C01proof.
Local Open Scope string_scope.

(** The table of [dd.bdd.BDD.apply] regenerated from the source is the table
    the model interprets, and the vocabulary of dd/_abc.py is the model's. *)
Theorem C01_generated_table_is_model :
  py_apply_table = apply_table ∧ py_unary = unary_ops ∧
  py_binary = binary_ops ∧ py_ternary = ternary_ops.
Proof. exact py_table_is_model_table. Qed.

(** Every propositional symbol of the vocabulary (all aliases) has a row in
    the generated table whose Boolean reading, on all 8 valuations, is the
    documented connective [conn_sem]; the remaining symbols are the four
    quantifier spellings (property C03). *)
Theorem C01_alias_table :
  forallb (fun op => bool_decide (op ∈ quantifier_ops) ||
                     class_uses_ok py_apply_table py_unary py_binary py_ternary op)
          py_vocab = true.
Proof. exact alias_table_ok. Qed.

(** [assert_operator_arity] as translated from dd/_utils.py accepts exactly
    the operand shapes the model accepts. *)
Theorem C01_arity_rules :
  forallb (fun op => forallb (fun '(v, w) =>
             bool_decide (py_arity_ok op v w = arity_ok op v w))
           [(None, None); (Some 1%Z, None); (None, Some 1%Z); (Some 1%Z, Some 1%Z)])
          ("unknown" :: py_vocab) = true.
Proof. exact py_arity_is_model_arity. Qed.

(** ITE, for every manager state satisfying the invariant (whatever history
    produced it: warm cache, reused node numbers, any order), every triple of
    references, unbounded sizes.  Dynamic reordering disabled here (C09 lifts
    it) and no bound on the number of nodes ([max_nodes s = None], Python's
    default [sys.maxsize]).  Operands and every other reference keep their meaning. *)
Theorem C01_ite_correct s g u v r s' :
  Inv s → valid s g → valid s u → valid s v → last_len s = None →
  max_nodes s = None →
  ite g u v s = (r, s') →
  ∃ w, r = Ok w ∧ Inv s' ∧ extends s s' ∧ valid s' w ∧
    (∀ x ρ, valid s x → denv s' x ρ = denv s x ρ) ∧
    ∀ ρ, denv s' w ρ = if denv s g ρ then denv s u ρ else denv s v ρ.
Proof. exact (ite_correct_lemma s g u v r s'). Qed.

(** The same with the reordering signal allowed (nested call or reordering
    enabled) and a bound on the number of nodes allowed: the only exceptions
    are the reordering request and the full table ([RuntimeError], only when a
    bound is set), and the manager is intact when they propagate. *)
Theorem C01_ite_correct_signal s g u v r s' :
  Inv s → valid s g → valid s u → valid s v → no_reorder s →
  ite g u v s = (r, s') →
  Inv s' ∧ extends s s' ∧ frame s s' ∧
  match r with
  | Ok w => valid s' w ∧ minlvl3 s g u v ≤ lvl_of s' w ∧
            ∀ a, D s' w a = if D s g a then D s u a else D s v a
  | Err e => (e = ENeedsReordering ∧ is_Some (last_len s)) ∨
             (e = ERuntime ∧ is_Some (max_nodes s))
  end.
Proof. exact (ite_spec s g u v r s'). Qed.

(** [apply] for every propositional symbol and alias of the vocabulary. *)
Theorem C01_apply_correct s op u v w r s' f :
  Inv s → last_len s = None → max_nodes s = None →
  op ∈ py_vocab → conn_sem op = Some f →
  valid s u → ovalid s v → ovalid s w → arity_ok op v w = true →
  apply op u v w s = (r, s') →
  ∃ x, r = Ok x ∧ Inv s' ∧ extends s s' ∧ valid s' x ∧
    (∀ y ρ, valid s y → denv s' y ρ = denv s y ρ) ∧
    ∀ ρ, denv s' x ρ = f (denv s u ρ) (odenv s v ρ) (odenv s w ρ).
Proof. exact (apply_correct_lemma s op u v w r s' f). Qed.

(** Non-vacuity: a manager with three variables, after building
    (v0 /\ v1) \/ v2, satisfies the hypotheses, and the theorem's
    conclusion can be observed by computation. *)
Example C01_nonvacuous :
  let w := fold_left (fun w o => fst (step w 0 o))
             [ONew [(0, 0); (1, 1); (2, 2)]; OVar 0; OVar 1; OVar 2;
              OApply "and" 2 (Some 3%Z) None; OApply "\/" 5 (Some 4%Z) None]
             world_empty in
  let s := world_get w 0 in
  mem 7 s = true ∧ last_len s = None ∧ max_nodes s = None ∧
  snd (step w 0 (OApply "=>" 7 (Some (-5)%Z) None)) = Ok (VZ (-5)).
Proof. by vm_compute. Qed.
