From DD Require Import Driver.
Theorem placeholder : True. Proof. exact I. Qed.
