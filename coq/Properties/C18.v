(** * Property C18 — the structural views of a diagram are faithful:
      [Function.low/high/var/negated] (dd/autoref.py), [descendants],
      [to_nx], [_to_dot] (dd/bdd.py).  Only statements closed by [exact];
      the proofs live in [Proofs/Views.v].

    Vocabulary (all defined in [Proofs/]):
    - [reach m R n]   (GC.v): [n] is reachable in the table [m] from a node
                      satisfying [R], following stored low/high edges;
    - [rootsR roots k]: [k] is the node of one of the references [roots];
    - [lo_edge n t = (n, |t_lo t|, false, t_lo t < 0)],
      [hi_edge n t = (n, |t_hi t|, true, false)]: the two edges of a node
      [(u, v, value, complement)];
    - [geval g n a]:  evaluation of the EXPORTED graph [g] from node [n] under
                      the assignment [a] of levels: test the level written on
                      the node, follow the edge whose [value] is the test's
                      result, negate when the edge carries the complement
                      mark, a node without outgoing edge is TRUE;
    - [gevaln g n ρ]: the same reading the variable labels (DOT), under an
                      assignment of variable names. *)
From DD Require Import Views.
Local Open Scope string_scope.

(** ** Shannon expansion on the components of a reference.
    [t] is what [succ(u)] stores, [v] the variable at its level: expanding on
    [u.var] with [u.high]/[u.low] (the STORED edges, not flipped by the sign of
    [u]) and applying [u.negated] reproduces [u]. *)
Theorem C18_shannon_handle s u t v :
  Inv s → valid s u → absn u ≠ 1%positive →
  succ s !! absn u = Some t → lvl2var s !! t_lvl t = Some v →
  ∀ ρ, denv s u ρ =
       xorb (bool_decide (u < 0)%Z)
            (if ρ v then denv s (t_hi t) ρ else denv s (t_lo t) ρ).
Proof. exact (shannon_handle s u t v). Qed.

(** [Function.low] / [Function.high]: a fresh handle ([next_hid]) on the stored
    edge, whose counter is incremented ([abump]); [None] for the terminal. *)
Theorem C18_function_child (hi : bool) a hu u t :
  Inv (mgr a) → handles a !! hu = Some u → valid (mgr a) u →
  succ (mgr a) !! absn u = Some t → absn u ≠ 1%positive →
  let c := if hi then t_hi t else t_lo t in
  f_child hi hu a = (Ok (Some (next_hid a)), abump c a) ∧
  handles (abump c a) !! next_hid a = Some c ∧ valid (mgr a) c.
Proof. exact (f_child_node hi a hu u t). Qed.

Theorem C18_function_child_terminal hi a hu u :
  Inv (mgr a) → handles a !! hu = Some u → valid (mgr a) u →
  absn u = 1%positive → f_child hi hu a = (Ok None, a).
Proof. exact (f_child_term hi a hu u). Qed.

(** [Function.var] *)
Theorem C18_function_var a hu u t v :
  handles a !! hu = Some u → u ≠ 0%Z →
  succ (mgr a) !! absn u = Some t → t_lo t ≠ 0%Z →
  lvl2var (mgr a) !! t_lvl t = Some v →
  f_var hu a = (Ok (Some v), a).
Proof. exact (f_var_node a hu u t v). Qed.

Theorem C18_function_var_terminal a hu u :
  Inv (mgr a) → handles a !! hu = Some u → valid (mgr a) u →
  absn u = 1%positive → f_var hu a = (Ok None, a).
Proof. exact (f_var_term a hu u). Qed.

(** [Function.negated] *)
Theorem C18_function_negated a hu u : handles a !! hu = Some u →
  f_negated hu a = (Ok (bool_decide (u < 0)%Z), a).
Proof. exact (f_negated_ok a hu u). Qed.

(** The expansion read through the interface only.  [awf a]: live handle
    identifiers are below the allocation counter (holds in every state reached
    from an empty store). *)
Theorem C18_shannon_autoref a hu u :
  Inv (mgr a) → awf a → handles a !! hu = Some u → valid (mgr a) u →
  absn u ≠ 1%positive →
  ∃ t v hh a1 hl a2,
    succ (mgr a) !! absn u = Some t ∧ lvl2var (mgr a) !! t_lvl t = Some v ∧
    f_var hu a = (Ok (Some v), a) ∧
    f_child true hu a = (Ok (Some hh), a1) ∧
    f_child false hu a1 = (Ok (Some hl), a2) ∧
    f_negated hu a2 = (Ok (bool_decide (u < 0)%Z), a2) ∧
    handles a2 !! hu = Some u ∧ handles a2 !! hh = Some (t_hi t) ∧
    handles a2 !! hl = Some (t_lo t) ∧ Inv (mgr a2) ∧ awf a2 ∧
    succ (mgr a2) = succ (mgr a) ∧
    (∀ x ρ, denv (mgr a2) x ρ = denv (mgr a) x ρ) ∧
    ∀ ρ, denv (mgr a2) u ρ =
         xorb (bool_decide (u < 0)%Z)
              (if ρ v then denv (mgr a2) (t_hi t) ρ else denv (mgr a2) (t_lo t) ρ).
Proof. exact (shannon_autoref a hu u). Qed.

(** ** [descendants(roots)] is exactly the set of nodes reachable from the
    roots; the manager is unchanged.  (Node 1 is reachable from every node,
    so it is in the result as soon as there is a root; with no root the
    result is empty.) *)
Theorem C18_descendants_exact s roots r s' :
  Inv s → (∀ u, u ∈ roots → valid s u) → descendants roots s = (r, s') →
  s' = s ∧ ∃ X, r = Ok X ∧ ∀ n, n ∈ X ↔ reach (succ s) (rootsR roots) n.
Proof. exact (descendants_exact' s roots r s'). Qed.

Theorem C18_terminal_reachable s roots :
  Inv s → Forall (valid s) roots → roots ≠ [] →
  reach (succ s) (rootsR roots) 1%positive.
Proof. exact (fun HI => reach_roots_term s HI roots). Qed.

(** [len(u)] of a [Function] *)
Theorem C18_function_len a hu u :
  Inv (mgr a) → handles a !! hu = Some u → valid (mgr a) u →
  ∃ X : gset positive, f_len hu a = (Ok (size X), a) ∧
    ∀ n, n ∈ X ↔ reach (succ (mgr a)) (eq (absn u)) n.
Proof. exact (f_len_exact a hu u). Qed.

(** ** [to_nx(bdd, roots)] *)
Theorem C18_to_nx_faithful s (roots : list Z) :
  Inv s → Forall (valid s) roots →
  ∃ g, to_nx roots s = (Ok g, s) ∧ x_refs g = [] ∧ x_labels g = [] ∧
    (* exactly the reachable nodes, with their levels *)
    (∀ n l, (n, l) ∈ x_nodes g ↔
       reach (succ s) (rootsR roots) n ∧ (t_lvl <$> succ s !! n) = Some l) ∧
    (* exactly the two edges of every reachable non-terminal node *)
    (∀ e, e ∈ x_edges g ↔
       ∃ n t, reach (succ s) (rootsR roots) n ∧ succ s !! n = Some t ∧
              n ≠ 1%positive ∧ (e = lo_edge n t ∨ e = hi_edge n t)) ∧
    (* evaluating the exported graph gives the function of each node *)
    (∀ n a, reach (succ s) (rootsR roots) n → geval g n a = D s (Z.pos n) a) ∧
    (* … hence of each root, up to the root's own sign *)
    ∀ u a, u ∈ roots →
      D s u a = xorb (bool_decide (u < 0)%Z) (geval g (absn u) a).
Proof.
  intros HI Hr. destruct (to_nx_faithful s HI roots Hr) as (g&E&?&?&(?&?&?)&?).
  exists g. by split_and!.
Qed.

(** ** [_to_dot(roots, bdd)].  With [roots = None] all the nodes of the
    manager are drawn; [x_refs] records the external references with their
    signs; the labels give the variable of each node ([None]: terminal). *)
Theorem C18_to_dot_faithful s (roots : option (list Z)) :
  Inv s → Forall (valid s) (default [] roots) → roots ≠ Some [] →
  let P := match roots with
           | None => fun n => n ∈ dom (succ s)
           | Some rs => reach (succ s) (rootsR rs)
           end in
  ∃ g, to_dot roots s = (Ok g, s) ∧ x_refs g = default [] roots ∧
    (∀ n l, (n, l) ∈ x_nodes g ↔ P n ∧ (t_lvl <$> succ s !! n) = Some l) ∧
    (∀ e, e ∈ x_edges g ↔
       ∃ n t, P n ∧ succ s !! n = Some t ∧ n ≠ 1%positive ∧
              (e = lo_edge n t ∨ e = hi_edge n t)) ∧
    (∀ n a, P n → geval g n a = D s (Z.pos n) a) ∧
    (∀ n o, (n, o) ∈ x_labels g ↔ P n ∧ o = label_of s n) ∧
    (∀ n ρ, P n → gevaln g n ρ = denv s (Z.pos n) ρ) ∧
    ∀ u, u ∈ x_refs g → P (absn u) ∧
      (∀ a, D s u a = xorb (bool_decide (u < 0)%Z) (geval g (absn u) a)) ∧
      (∀ ρ, denv s u ρ = xorb (bool_decide (u < 0)%Z) (gevaln g (absn u) ρ)).
Proof.
  intros HI Hr Hne P.
  destruct (to_dot_faithful s HI roots Hr Hne) as (g&E&?&(?&?&?)&?&?&?).
  exists g. by split_and!.
Qed.

(** an empty collection of roots is refused, as by the implementation
    ("level of node 1 is missing") *)
Theorem C18_to_dot_empty_roots s : Inv s → to_dot (Some []) s = (Err EAssert, s).
Proof. exact (to_dot_empty s). Qed.

(** ** Non-vacuity.  Three variables; node 8 is (v0 <-> v1) \/ ~v2 with a
    complemented low edge (8 = (0, -6, 7)); the root is the complemented
    reference -8. *)
Definition ex_world : world2 :=
  fold_left (fun w o => fst (step2 w 0 o))
    [O1 (ONew [(0, 0); (1, 1); (2, 2)]); O1 (OVar 0); O1 (OVar 1); O1 (OVar 2);
     O1 (OApply "xor" 2 (Some 3%Z) None); O1 (OApply "\/" 5 (Some (-4)%Z) None)]
    world2_empty.

Definition assignments3 : list (nat → bool) :=
  (fun '(x, y, z) => fun l : nat =>
     match l with 0 => x | 1 => y | 2 => z | _ => false end) <$>
  [(false, false, false); (false, false, true); (false, true, false);
   (false, true, true); (true, false, false); (true, false, true);
   (true, true, false); (true, true, true)].

Example C18_nonvacuous_views :
  let s := world2_get ex_world 0 in
  succ s !! 8%positive = Some (Triple 0 (-6) 7) ∧ mem (-8) s = true ∧
  (* descendants: 2, 3, 5 (v0, v1, v0 <-> v1) are not below 8 *)
  snd (step2 ex_world 0 (ODescendants [(-8)%Z]))
    = Ok (VL [VZ 1; VZ 4; VZ 8; VZ 6; VZ 7]) ∧
  snd (step2 ex_world 0 (ODescendants [])) = Ok (VL []) ∧
  (* the exported graphs, evaluated on the 8 assignments, agree with the
     denotation of the root; the truth table is that of
     (v0 xor v1) /\ v2 *)
  match to_nx [(-8)%Z] s, to_dot (Some [(-8)%Z; 3%Z]) s, to_dot None s with
  | (Ok g, _), (Ok h, _), (Ok k, _) =>
      length (x_nodes g) = 5 ∧ length (x_edges g) = 8 ∧
      (8%positive, 6%positive, false, true) ∈ x_edges g ∧
      (8%positive, 7%positive, true, false) ∈ x_edges g ∧
      x_refs h = [(-8)%Z; 3%Z] ∧ length (x_nodes k) = 8 ∧
      ((fun a => negb (geval g 8 a)) <$> assignments3)
        = (D s (-8) <$> assignments3) ∧
      ((fun a => negb (geval h 8 a)) <$> assignments3)
        = [false; false; false; true; false; true; false; false] ∧
      ((fun a => negb (gevaln k 8 a)) <$> assignments3)
        = [false; false; false; true; false; true; false; false]
  | _, _, _ => False
  end ∧
  snd (step2 ex_world 0 (OToDot (Some []))) = Err EAssert ∧
  (* through a handle on -8: var, high, low, negated, len *)
  let a := ASt s {[0 := (-8)%Z]} 1 in
  fst (f_var 0 a) = Ok (Some 0) ∧ fst (f_negated 0 a) = Ok true ∧
  fst (f_len 0 a) = Ok 5 ∧
  match f_child true 0 a with
  | (Ok (Some hh), a1) =>
      match f_child false 0 a1 with
      | (Ok (Some hl), a2) =>
          handles a2 !! hh = Some 7%Z ∧ handles a2 !! hl = Some (-6)%Z
      | _ => False
      end
  | _ => False
  end.
Proof. vm_compute. repeat split; by repeat constructor. Qed.
