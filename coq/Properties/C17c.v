(** * Property C17 (end) — ONE history theorem for dd.bdd over the whole
      alphabet, dynamic reordering enabled or disabled.

    Invariant [GoodD] ([Properties/C09c.v]): the manager is well formed
    ([Inv]: canonical, valid order), outside a reordering context, with an
    empty oracle tape and exact reference counts; NO condition on [last_len].
    Alphabet ([allowed3]):
    - [Dynamic3.allowedD]: the decorated operations ([var], [ite], [apply],
      [let], [cofactor], [quantify], [compose], [rename], [cube]), the
      counters, [collect_garbage], [configure] (any argument), [add_var],
      [declare], the threshold/trigger setters, [support], [is_essential];
    - the explicit reorderings [swap], [reorder], [reorder_to_pairs] with
      ANY arguments, and [OSetRoots];
    - [copy_bdd], [image], [preimage] with any arguments and any [last_len]
      (since the repair of dd they run with reordering requests disabled and
      restore the threshold: [guarded]);
    - [find_or_add] only while dynamic reordering is disabled (it is neither
      decorated nor guarded: the signal would escape, C09) — the side
      condition is part of [caller_ok3];
    - [Driver2.op2]: the read-only queries, the pickle dumps,
      [undeclare_vars], [__del__].
    OUTSIDE: [OTape] (it leaves a non-empty oracle tape, i.e. breaks the
    invariant until the next call consumes it) and the pickle loads
    ([C17b_load_junk_refuted]).
    Only statements closed by [exact]; proofs live in [Proofs/Total3.v]. *)
From DD Require Import Total3.
Local Open Scope string_scope.

(** ** Vocabulary *)
Theorem C17c_GoodD_unfold s :
  GoodD s ↔ Inv s ∧ rctx s = false ∧ tape s = [] ∧ ∃ L, Counts s L.
Proof. exact (conj (fun H => H) (fun H => H)). Qed.

(** held references (terminal, or positive entry in the ledger) keep validity
    and function by variable NAME *)
Theorem C17c_keepsR_unfold L s s' :
  keepsR L s s' ↔
  ∀ u, u ≠ 0%Z → (absn u = 1%positive ∨ 0 < L (absn u)) → valid s u →
       valid s' u ∧ ∀ ρ, denv s' u ρ = denv s u ρ.
Proof. exact (conj (fun H => H) (fun H => H)). Qed.

Theorem C17c_allowed3_unfold o :
  allowed3 o =
  match o with
  | O1 o =>
      allowedD o ||
      match o with
      | OSwap _ _ | OReorder _ | OReorderPairs _ | OSetRoots _
      | OFindOrAdd _ _ _ | OCopy _ _ | OImage _ _ _ _ _ _ _
      | OPreimage _ _ _ _ _ _ _ => true
      | _ => false
      end
  | OLoad _ _ | OLoadManager _ => false
  | _ => true
  end.
Proof. exact eq_refl. Qed.

Theorem C17c_caller_ok3_unfold s o :
  caller_ok3 s o =
  match o with
  | O1 o =>
      caller_ok1 s o ∧
      ((match o with OFindOrAdd _ _ _ => true | _ => false end) = true →
       last_len s = None)
  | OShutdown => caller_ok s (ODecref 1)
  | _ => True
  end.
Proof. exact eq_refl. Qed.

(** ** The explicit reorderings with ARBITRARY arguments, any [last_len]:
    the manager stays well formed with the same ledger, the context flag, the
    roots and the threshold are untouched, every held reference keeps its
    function, and the outcome is neither the signal nor (with an empty tape)
    the oracle error.  A rejected call has performed a whole number of swaps
    (and, for [swap], the garbage collection that precedes the tests). *)
Theorem C17c_rout_unfold {A} L s (r : res A) s' :
  rout L s r s' ↔
  Inv s' ∧ Counts s' L ∧ rr s' = rr s ∧ tape s' = [] ∧ last_len s' = last_len s ∧
  keepsH L s s' ∧ r ≠ Err ENeedsReordering ∧ r ≠ Err EOracle.
Proof. exact (conj (fun H => H) (fun H => H)). Qed.

Theorem C17c_reorder_total o s L r s' :
  Inv s → Counts s L → tape s = [] → reorder_pub o s = (r, s') → rout L s r s'.
Proof. exact (reorder_pub_total o s L r s'). Qed.

Theorem C17c_swap_total x y s L r s' :
  Inv s → Counts s L → tape s = [] → swap_pub x y s = (r, s') → rout L s r s'.
Proof. exact (swap_pub_total x y s L r s'). Qed.

Theorem C17c_reorder_to_pairs_total pairs s L r s' :
  Inv s → Counts s L → tape s = [] → reorder_to_pairs_pub pairs s = (r, s') → rout L s r s'.
Proof. exact (reorder_to_pairs_pub_total pairs s L r s'). Qed.

(** levels that are not two adjacent declared levels: [ValueError] after the
    garbage collection *)
Theorem C17c_swap_rejected x y s L r s' :
  Inv s → Counts s L →
  ¬ ((y = x + 1 ∨ x = y + 1) ∧ x < nvars s ∧ y < nvars s) →
  swap x y None s = (r, s') →
  r = Err EValue ∧ Inv s' ∧ Counts s' L ∧ vars s' = vars s ∧ lvl2var s' = lvl2var s ∧
  frame s s' ∧ keepsH L s s'.
Proof. exact (swap_junk_run x y s L r s'). Qed.

(** ** The guarded module functions ([copy_bdd], [image], [preimage]): a
    computation that is safe while requests are disabled, run through the
    guard from ANY [GoodD] state, keeps the manager well formed and growing
    only, restores the threshold exactly, and returns neither the signal nor
    the oracle error *)
Theorem C17c_guarded_total {A} (m : MS A) s r s' :
  GoodD s → nrf m → nt m → tsafe m → guarded m s = (r, s') →
  Inv s' ∧ extends s s' ∧ rctx s' = rctx s ∧ tape s' = tape s ∧ last_len s' = last_len s ∧
  (∀ L, Counts s L → Counts s' L) ∧ r ≠ Err ENeedsReordering ∧ r ≠ Err EOracle.
Proof. exact (guarded_total m s r s'). Qed.

Theorem C17c_image_pub_total t u bn rn qbn q fa s r s' :
  GoodD s → image_pub t u bn rn qbn q fa s = (r, s') →
  Inv s' ∧ extends s s' ∧ rctx s' = rctx s ∧ tape s' = tape s ∧ last_len s' = last_len s ∧
  (∀ L, Counts s L → Counts s' L) ∧ r ≠ Err ENeedsReordering ∧ r ≠ Err EOracle.
Proof.
  exact (fun HG => guarded_total _ s r s' HG (nrf_image t u bn rn qbn q fa)
                     (nt_image t u bn rn qbn q fa) (tsafe_image t u bn rn qbn q fa)).
Qed.
Theorem C17c_preimage_pub_total t u bn rn qbn q fa s r s' :
  GoodD s → preimage_pub t u bn rn qbn q fa s = (r, s') →
  Inv s' ∧ extends s s' ∧ rctx s' = rctx s ∧ tape s' = tape s ∧ last_len s' = last_len s ∧
  (∀ L, Counts s L → Counts s' L) ∧ r ≠ Err ENeedsReordering ∧ r ≠ Err EOracle.
Proof.
  exact (fun HG => guarded_total _ s r s' HG (nrf_preimage t u bn rn qbn q fa)
                     (nt_preimage t u bn rn qbn q fa) (tsafe_preimage t u bn rn qbn q fa)).
Qed.
Theorem C17c_copy_bdd_pub_total src u s r s' :
  GoodD s → copy_bdd_pub src u s = (r, s') →
  Inv s' ∧ extends s s' ∧ rctx s' = rctx s ∧ tape s' = tape s ∧ last_len s' = last_len s ∧
  (∀ L, Counts s L → Counts s' L) ∧ r ≠ Err ENeedsReordering ∧ r ≠ Err EOracle.
Proof.
  exact (fun HG => guarded_total _ s r s' HG (nrf_copy_bdd src u) (nt_copy_bdd src u)
                     (tsafe_copy_bdd src u)).
Qed.

(** ** One call of the unified alphabet, any arguments, either outcome *)
Theorem C17c_dout_unfold s r s' :
  dout s r s' ↔
  GoodD s' ∧ r ≠ Err ENeedsReordering ∧ r ≠ Err EOracle ∧ ∀ L, Counts s L → keepsR L s s'.
Proof. exact (conj (fun H => H) (fun H => H)). Qed.

Theorem C17c_run_op3_good w o s r s' :
  GoodD s → allowed3 o = true → is_new2 o = false → caller_ok3 s o →
  run_op2 w o s = (r, s') → dout s r s'.
Proof. exact (run_op3_good w o s r s'). Qed.

(** [__del__] with any [last_len] *)
Theorem C17c_shutdown_total s L r s' :
  Inv s → Counts s L → caller_ok s (ODecref 1) → shutdown s = (r, s') →
  Inv s' ∧ (∃ L', Counts s' L') ∧ frame s s' ∧ (∃ b, r = Ok b) ∧ keepsR L s s'.
Proof. exact (shutdown_total s L r s'). Qed.

(** ** Worlds and histories *)
Theorem C17c_WGoodD_unfold w :
  WGoodD w ↔ ∀ m s, w_mgrs w !! m = Some s → GoodD s.
Proof. exact (conj (fun H => H) (fun H => H)). Qed.

Theorem C17c_step_post_unfold w m o :
  step_post w m o ↔
  (∃ s'', w_mgrs (fst (step2 w m o)) = <[m := s'']> (w_mgrs w) ∧ GoodD s'' ∧
     (is_new2 o = false →
      ∀ L, Counts (world2_get w m) L → keepsR L (world2_get w m) s'')) ∧
  snd (step2 w m o) ≠ Err ENeedsReordering ∧
  (is_dump o = false → snd (step2 w m o) ≠ Err EOracle).
Proof. exact (conj (fun H => H) (fun H => H)). Qed.

Theorem C17c_step3_good w m o :
  WGoodD w → allowed3 o = true →
  (is_new2 o = false → is_Some (w_mgrs w !! m)) →
  caller_ok3 (world2_get w m) o →
  WGoodD (fst (step2 w m o)) ∧ step_post w m o.
Proof. exact (step3_good w m o). Qed.

Theorem C17c_hist_ok3_unfold w m o ops :
  hist_ok3 w ((m, o) :: ops) ↔
  allowed3 o = true ∧ (is_new2 o = false → is_Some (w_mgrs w !! m)) ∧
  caller_ok3 (world2_get w m) o ∧ hist_ok3 (fst (step2 w m o)) ops.
Proof. exact (conj (fun H => H) (fun H => H)). Qed.

Theorem C17c_out_ok_unfold p :
  out_ok p ↔ p.2 ≠ Err ENeedsReordering ∧ (is_dump p.1 = false → p.2 ≠ Err EOracle).
Proof. exact (conj (fun H => H) (fun H => H)). Qed.

(** THE history theorem: every manager of the world stays [GoodD], and no
    call returns the reordering signal, nor the oracle error (except a dump
    that is given a wrong iteration order) *)
Theorem C17c_history3_good ops : ∀ w,
  WGoodD w → hist_ok3 w ops → WGoodD (run2 w ops) ∧ Forall out_ok (outs2 w ops).
Proof. exact (history3_good ops). Qed.

Theorem C17c_history3_from_empty ops :
  hist_ok3 world2_empty ops →
  WGoodD (run2 world2_empty ops) ∧ Forall out_ok (outs2 world2_empty ops).
Proof. exact (history3_from_empty ops). Qed.

(** a reference held throughout (counter above the in-degree whenever its
    manager is called, manager not re-created) keeps validity and function *)
Theorem C17c_held_now_unfold s u :
  held_now s u ↔
  absn u = 1%positive ∨ indeg (succ s) (absn u) < default 0 (refc s !! absn u).
Proof. exact (conj (fun H => H) (fun H => H)). Qed.

Theorem C17c_history3_keeps ops : ∀ w m u,
  WGoodD w → hist_ok3 w ops → held_along w ops m u → u ≠ 0%Z →
  valid (world2_get w m) u →
  valid (world2_get (run2 w ops) m) u ∧
  ∀ ρ, denv (world2_get (run2 w ops) m) u ρ = denv (world2_get w m) u ρ.
Proof. exact (history3_keeps ops). Qed.

(** ** Example (by evaluation) *)

(** manager 0: v0<v1<v2<v3; x_i = var v_i (2..5), held; 6 = x0&x2, 7 = x1&x3,
    10 = 6|7, all held *)
Definition hA : list (nat * op2) :=
  [(0, O1 (ONew [(0, 0); (1, 1); (2, 2); (3, 3)]));
   (0, O1 (OVar 0)); (0, O1 (OIncref 2)); (0, O1 (OVar 1)); (0, O1 (OIncref 3));
   (0, O1 (OVar 2)); (0, O1 (OIncref 4)); (0, O1 (OVar 3)); (0, O1 (OIncref 5));
   (0, O1 (OApply "and" 2 (Some 4%Z) None)); (0, O1 (OIncref 6));
   (0, O1 (OApply "and" 3 (Some 5%Z) None)); (0, O1 (OIncref 7));
   (0, O1 (OApply "or" 6 (Some 7%Z) None)); (0, O1 (OIncref 10))].

Definition hB : list (nat * op2) :=
  [(0, O1 (OConfigure (Some true)));            (* dynamic reordering ON *)
   (0, O1 (OSetTrig (Some 1)));
   (0, O1 (OApply "and" 10 (Some 3%Z) None));    (* the trigger fires inside: sifting + retry *)
   (0, O1 (OIncref 11));
   (0, O1 (OReorder None));                      (* explicit sifting *)
   (0, O1 (OSwap 0 1));
   (0, O1 (OReorder (Some [(0, 0); (1, 0)])));   (* bad order: rejected *)
   (0, O1 (OReorder (Some [(0, 3); (1, 2); (2, 1); (3, 0)])));
   (0, O1 (OSwap 0 2)); (0, O1 (OSwap 7 8));     (* not adjacent / undeclared: rejected *)
   (0, O1 (OReorderPairs [(0, 9)]));             (* undeclared name: rejected *)
   (0, O1 (OReorderPairs [(1, 1)]));             (* rejected *)
   (0, O1 (OReorderPairs [(0, 3)]));
   (0, OCount 10 None); (0, OPick 11 None); (0, OLevelOfVar 2); (0, OSucc 11);
   (0, OCount 99 None); (0, O1 (OApply "nand" 2 (Some 3%Z) None));
   (0, O1 (OVar 9)); (0, OUndeclare [0]);        (* rejected calls *)
   (0, O1 (ODeclare [4])); (0, OUndeclare [4]);
   (0, O1 (OConfigure (Some false)));            (* OFF again *)
   (0, O1 (OFindOrAdd 3 (-1) 1));                (* undecorated: allowed now *)
   (1, O1 (ONew [(0, 0); (1, 1); (2, 2); (3, 3)]));
   (1, O1 (OCopy 0 10)); (1, O1 (OIncref 11))].

(** the guarded module functions while dynamic reordering is ENABLED and the
    forced trigger armed *)
Definition hC : list (nat * op2) :=
  [(0, O1 (OConfigure (Some true))); (0, O1 (OSetTrig (Some 1)));
   (0, O1 (OImage 10 3 true [] true [1] false));
   (0, O1 (OPreimage 10 3 true [] true [1] true));
   (1, O1 (OConfigure (Some true))); (1, O1 (OSetTrig (Some 1)));
   (1, O1 (OCopy 0 7))].

Definition wA : world2 := run2 world2_empty hA.
Definition wB : world2 := run2 world2_empty (hA ++ hB).

Lemma is_Some_bool {A} (o : option A) :
  (match o with Some _ => true | None => false end) = true → is_Some o.
Proof. destruct o; [by eexists|done]. Qed.

Ltac foa_obligation :=
  let Hi := fresh in let Hv := fresh in let Hw := fresh in
  intros Hi Hv Hw _;
  first [ vm_compute in Hi; lia
        | destruct Hv as [_ [? Hv]]; vm_compute in Hv; discriminate
        | destruct Hw as [_ [? Hw]]; vm_compute in Hw; discriminate
        | split; vm_compute; lia ].

Ltac caller3 :=
  lazymatch goal with
  | |- True => exact I
  | |- caller_ok3 _ (O1 _) =>
      split;
      [split; [exact I|first [exact I | foa_obligation]]
      |cbn [needs_off];
       lazymatch goal with
       | |- false = true → _ => intros [=]
       | |- _ => intros _; vm_compute; reflexivity
       end]
  | |- _ => exact I
  end.

Ltac hist3_step :=
  split; [reflexivity|];
  split; [cbn [is_new2 is_new];
          lazymatch goal with
          | |- true = false → _ => intros [=]
          | |- _ => intros _; apply is_Some_bool; vm_compute; reflexivity
          end|];
  split; [caller3|].

Example C17c_history_hypotheses_hold : hist_ok3 world2_empty (hA ++ hB ++ hC).
Proof. cbn [hA hB hC app hist_ok3]. repeat hist3_step. exact I. Qed.

Example C17c_history_good :
  WGoodD (run2 world2_empty (hA ++ hB ++ hC)) ∧
  Forall out_ok (outs2 world2_empty (hA ++ hB ++ hC)).
Proof. exact (history3_from_empty _ C17c_history_hypotheses_hold). Qed.

(** the outcomes of the second part *)
Example C17c_outcomes :
  snd <$> outs2 wA hB =
  [Ok (VB false); Ok VU; Ok (VZ 11); Ok VU; Ok VU; Ok (VL [VN 11; VN 11]);
   Err EValue; Ok VU; Err EValue; Err EValue; Err EValue; Err EAssert; Ok VU;
   Ok (VZ 7);
   Ok (VL [VL [VN 0; VB false]; VL [VN 1; VB true]; VL [VN 2; VB false]; VL [VN 3; VB true]]);
   Ok (VN 0); Ok (VL [VN 0; VZ 7; VZ 9]);
   Err EValue; Err EValue; Err EValue; Err EValue;
   Ok VU; Ok (VL [VN 4]); Ok (VB true); Ok (VZ 2); Ok VU; Ok (VZ 11); Ok VU].
Proof. by vm_compute. Qed.

(** [image], [preimage], [copy_bdd] called with requests enabled and the
    forced trigger armed: they return normally, the threshold is the same
    before and after, and the trigger has not been consumed (no request was
    served inside) *)
Example C17c_guarded_calls :
  snd <$> outs2 wB hC =
    [Ok (VB false); Ok VU; Ok (VZ 13); Ok (VZ (-1)); Ok (VB false); Ok VU; Ok (VZ 4)] ∧
  (fun k => (last_len (world2_get (run2 wB (take k hC)) 0),
             trig (world2_get (run2 wB (take k hC)) 0))) <$> [2; 3; 4] =
    [(Some 100, Some 1); (Some 100, Some 1); (Some 100, Some 1)] ∧
  (fun k => (last_len (world2_get (run2 wB (take k hC)) 1),
             trig (world2_get (run2 wB (take k hC)) 1))) <$> [6; 7] =
    [(Some 100, Some 1); (Some 100, Some 1)].
Proof. by vm_compute. Qed.

(** the variable order along the way (names ↦ levels): after the forced
    sifting inside [apply], after [swap(0,1)], unchanged by the rejected
    [reorder], after the explicit order, unchanged by the rejected swaps and
    pairs, after [reorder_to_pairs] *)
Example C17c_orders :
  (fun k => d_vars (digest (world2_get (run2 wA (take k hB)) 0))) <$> [0; 3; 6; 7; 8; 12; 13] =
  [[(0, 0); (1, 1); (3, 3); (2, 2)];
   [(0, 1); (1, 2); (3, 3); (2, 0)];
   [(0, 0); (1, 2); (3, 3); (2, 1)];
   [(0, 0); (1, 2); (3, 3); (2, 1)];
   [(0, 3); (1, 2); (3, 0); (2, 1)];
   [(0, 3); (1, 2); (3, 0); (2, 1)];
   [(0, 3); (1, 1); (3, 2); (2, 0)]].
Proof. by vm_compute. Qed.

(** truth tables over v0..v3 (16 rows) *)
Definition ttab (s : st) (u : Z) : list bool :=
  (fun bits => denv s u (fun v => nth v bits false)) <$> bitvectors 4.

(** the held node 10 = (v0&v2)|(v1&v3) has the same number and the same truth
    table after everything; its copy in manager 1 has the same table; node 11
    is 10&v1 *)
Example C17c_truth_tables :
  ttab (world2_get wA 0) 10 =
    [false; false; false; false; false; true; false; true;
     false; false; true; true; false; true; true; true] ∧
  ttab (world2_get (run2 wA hB) 0) 10 = ttab (world2_get wA 0) 10 ∧
  ttab (world2_get (run2 wA hB) 1) 11 = ttab (world2_get wA 0) 10 ∧
  ttab (world2_get (run2 wA hB) 0) 11 =
    zip_with andb (ttab (world2_get wA 0) 10) (ttab (world2_get wA 0) 3).
Proof. by vm_compute. Qed.

(** the same for node 10 as an instance of the theorem *)
Example C17c_held_along : held_along wA hB 0 10.
Proof.
  cbn [hB held_along].
  repeat (split; [first [by intros [=] | intros _; split; [reflexivity|right; vm_compute; lia]]|]).
  exact I.
Qed.

Print Assumptions C17c_run_op3_good.
Print Assumptions C17c_step3_good.
Print Assumptions C17c_history3_good.
Print Assumptions C17c_history3_from_empty.
Print Assumptions C17c_history3_keeps.
Print Assumptions C17c_reorder_total.
Print Assumptions C17c_swap_total.
Print Assumptions C17c_reorder_to_pairs_total.
Print Assumptions C17c_guarded_total.
Print Assumptions C17c_image_pub_total.
Print Assumptions C17c_history_good.
Print Assumptions C17c_guarded_calls.
Print Assumptions C17c_truth_tables.
