(** * Property C09 (fourth part) — [cofactor] and [quantify] with keys given
      as LEVELS under dynamic reordering, after dd commit 827d7f0.

      Before that commit the two public methods were themselves wrapped by
      the retry decorator: the second attempt (after sifting) read the same
      level numbers against the NEW variable order and silently
      substituted / quantified other variables (the refutation that used to
      be [C09_quantify_levels_refuted]).  Now the public methods turn their
      keys into variable NAMES in the state of the call and call the
      decorated workers [_cofactor_vars] / [_quantify_vars]
      ([Properties/C09_tables.v]).

      What is stated here, for [byname = false]:
      - a call with keys given as levels IS the call by name on the variables
        that sit at those levels AT THE TIME OF THE CALL
        ([C09d_quantify_levels_as_names], [C09d_cofactor_levels_as_names]); a
        key that is not a level is rejected by the prelude, nothing changed;
      - hence the analogues of [C09c_quantify_dynamic] / [C09c_cofactor_dynamic]
        and of [C09c_quantify_notape] / [C09c_cofactor_notape]: with dynamic
        reordering enabled, at whichever node creation the request fires
        (any threshold [last_len], any forced trigger [trig], any tape), the
        result denotes the quantification / cofactor of the ORIGINAL function
        with respect to those variables; invariant, counts, context flag,
        enabledness of requests and held references as in the by-name
        theorems;
      - the meaning of that postcondition in terms of the levels of the state
        of the call ([C09d_quantify_levels_meaning],
        [C09d_cofactor_levels_meaning]).
      The run of the old counterexample: [C09_quantify_levels_fixed],
      [C09_cofactor_levels_fixed] in [Properties/C09.v].

      Only statements closed by [exact]; proofs live in
      [Proofs/DynamicLevels.v] (over [Proofs/LevelKeys.v]).  Vocabulary as in
      [Properties/C09.v] / [C09c.v]. *)
From DD Require Import DynamicLevels.

(** ** 1. Keys given as levels: the call by name on the variables at these
    levels now.  ([list_to_map (reverse values)]: the dict of the call, later
    pairs win.) *)
Theorem C09d_quantify_levels_as_names s u qvars fa :
  Inv s → Forall (fun l => is_Some (lvl2var s !! l)) qvars →
  ∃ names,
    NoDup names ∧
    (∀ v, v ∈ names ↔ ∃ l, l ∈ qvars ∧ lvl2var s !! l = Some v) ∧
    Forall (fun k => is_Some (vars s !! k)) names ∧
    quantify u false qvars fa s = quantify u true names fa s.
Proof. exact (quantify_levels_as_names s u qvars fa). Qed.
Print Assumptions C09d_quantify_levels_as_names.

Theorem C09d_cofactor_levels_as_names s u values :
  Inv s → Forall (fun p => is_Some (lvl2var s !! p.1)) values →
  ∃ nv,
    NoDup nv.*1 ∧
    (∀ v b, (v, b) ∈ nv ↔
       ∃ l, lvl2var s !! l = Some v ∧
            (list_to_map (reverse values) : gmap nat bool) !! l = Some b) ∧
    Forall (fun p => is_Some (vars s !! p.1)) nv ∧
    cofactor u false values s = cofactor u true nv s.
Proof. exact (cofactor_levels_as_names s u values). Qed.
Print Assumptions C09d_cofactor_levels_as_names.

Theorem C09d_quantify_levels_rejected s u qvars fa :
  ¬ Forall (fun l => is_Some (lvl2var s !! l)) qvars →
  quantify u false qvars fa s = (Err EValue, s).
Proof. exact (quantify_levels_rejected s u qvars fa). Qed.
Print Assumptions C09d_quantify_levels_rejected.

Theorem C09d_cofactor_levels_rejected s u values :
  ¬ Forall (fun p => is_Some (lvl2var s !! p.1)) values →
  cofactor u false values s = (Err EValue, s).
Proof. exact (cofactor_levels_rejected s u values). Qed.
Print Assumptions C09d_cofactor_levels_rejected.

(** ** 2. Dynamic reordering enabled.  The first disjunct is the model's
    iteration-order oracle error; it disappears with an empty tape (part 3). *)
Theorem C09d_quantify_levels_dyn s L u qvars fa r s' :
  Inv s → Counts s L → rctx s = false → max_nodes s = None →
  valid s u → heldn L (absn u) →
  Forall (fun l => is_Some (lvl2var s !! l)) qvars →
  quantify u false qvars fa s = (r, s') →
  r = Err EOracle ∨
  ∃ x names,
       NoDup names ∧
       (∀ v, v ∈ names ↔ ∃ l, l ∈ qvars ∧ lvl2var s !! l = Some v) ∧
       r = Ok x ∧ Inv s' ∧ Counts s' L ∧ rctx s' = false ∧
       (last_len s = None → last_len s' = None) ∧
       (is_Some (last_len s) → is_Some (last_len s')) ∧
       keeps (heldn L) s s' ∧
       valid s' x ∧
       ∀ ρ, denv s' x ρ = true ↔ qsemv s fa (list_to_set names) u ρ.
Proof. exact (quantify_levels_dynamic s L u qvars fa r s'). Qed.
Print Assumptions C09d_quantify_levels_dyn.

Theorem C09d_cofactor_levels_dyn s L u values r s' :
  Inv s → Counts s L → rctx s = false → max_nodes s = None →
  valid s u → heldn L (absn u) →
  Forall (fun p => is_Some (lvl2var s !! p.1)) values →
  cofactor u false values s = (r, s') →
  r = Err EOracle ∨
  ∃ x nv,
       NoDup nv.*1 ∧
       (∀ v b, (v, b) ∈ nv ↔
          ∃ l, lvl2var s !! l = Some v ∧
               (list_to_map (reverse values) : gmap nat bool) !! l = Some b) ∧
       r = Ok x ∧ Inv s' ∧ Counts s' L ∧ rctx s' = false ∧
       (last_len s = None → last_len s' = None) ∧
       (is_Some (last_len s) → is_Some (last_len s')) ∧
       keeps (heldn L) s s' ∧
       valid s' x ∧
       ∀ ρ, denv s' x ρ = denv s u (overridev (list_to_map (reverse nv)) ρ).
Proof. exact (cofactor_levels_dynamic s L u values r s'). Qed.
Print Assumptions C09d_cofactor_levels_dyn.

(** ** 3. With an empty oracle tape (the literal code) the call RETURNS *)
Theorem C09d_quantify_levels_notape s L u qvars fa r s' :
  Inv s → Counts s L → rctx s = false → tape s = [] → max_nodes s = None →
  valid s u → heldn L (absn u) →
  Forall (fun l => is_Some (lvl2var s !! l)) qvars →
  quantify u false qvars fa s = (r, s') →
  (∃ x names,
        NoDup names ∧
        (∀ v, v ∈ names ↔ ∃ l, l ∈ qvars ∧ lvl2var s !! l = Some v) ∧
        r = Ok x ∧ Inv s' ∧ Counts s' L ∧ rctx s' = false ∧
        (last_len s = None → last_len s' = None) ∧
        (is_Some (last_len s) → is_Some (last_len s')) ∧
        keeps (heldn L) s s' ∧ valid s' x ∧
        ∀ ρ, denv s' x ρ = true ↔ qsemv s fa (list_to_set names) u ρ) ∧
  tape s' = [].
Proof. exact (quantify_levels_notape s L u qvars fa r s'). Qed.
Print Assumptions C09d_quantify_levels_notape.

Theorem C09d_cofactor_levels_notape s L u values r s' :
  Inv s → Counts s L → rctx s = false → tape s = [] → max_nodes s = None →
  valid s u → heldn L (absn u) →
  Forall (fun p => is_Some (lvl2var s !! p.1)) values →
  cofactor u false values s = (r, s') →
  (∃ x nv,
        NoDup nv.*1 ∧
        (∀ v b, (v, b) ∈ nv ↔
           ∃ l, lvl2var s !! l = Some v ∧
                (list_to_map (reverse values) : gmap nat bool) !! l = Some b) ∧
        r = Ok x ∧ Inv s' ∧ Counts s' L ∧ rctx s' = false ∧
        (last_len s = None → last_len s' = None) ∧
        (is_Some (last_len s) → is_Some (last_len s')) ∧
        keeps (heldn L) s s' ∧ valid s' x ∧
        ∀ ρ, denv s' x ρ = denv s u (overridev (list_to_map (reverse nv)) ρ)) ∧
  tape s' = [].
Proof. exact (cofactor_levels_notape s L u values r s'). Qed.
Print Assumptions C09d_cofactor_levels_notape.

(** ** 4. What the postconditions say in terms of LEVELS of the state of the
    call.  [aof s ρ]: the level assignment that [ρ] induces in [s];
    [qsem] / [override]: the level semantics of [Properties/C03.v] /
    [C04a.v] (the specifications with reordering disabled). *)
Theorem C09d_aof_def s ρ l :
  aof s ρ l = match lvl2var s !! l with Some v => ρ v | None => false end.
Proof. exact eq_refl. Qed.

Theorem C09d_quantify_levels_meaning s (qvars names : list nat) fa u ρ :
  Inv s → valid s u →
  Forall (fun l => is_Some (lvl2var s !! l)) qvars →
  (∀ v, v ∈ names ↔ ∃ l, l ∈ qvars ∧ lvl2var s !! l = Some v) →
  qsemv s fa (list_to_set names) u ρ ↔ qsem s fa (list_to_set qvars) u (aof s ρ).
Proof. exact (qsemv_names_levels s qvars names fa u ρ). Qed.
Print Assumptions C09d_quantify_levels_meaning.

Theorem C09d_cofactor_levels_meaning s (values : list (nat * bool)) nv u ρ :
  Inv s → valid s u →
  NoDup nv.*1 →
  (∀ v b, (v, b) ∈ nv ↔
     ∃ l, lvl2var s !! l = Some v ∧
          (list_to_map (reverse values) : gmap nat bool) !! l = Some b) →
  denv s u (overridev (list_to_map (reverse nv)) ρ)
  = D s u (override (list_to_map (reverse values)) (aof s ρ)).
Proof. exact (overridev_names_levels s values nv u ρ). Qed.
Print Assumptions C09d_cofactor_levels_meaning.
