(** * Property C05 — the LR driver model with the LALR(1) tables that PLY builds
      from dd/_parser.py's grammar (regenerated on every run by running PLY on
      the source).  The driver follows [ply.yacc.LRParser.parse] with the
      syntax-directed actions of [_Translator]: the lexer is one token ahead,
      nodes are created by the reductions, a syntax error or an illegal
      character stops the translation where it is.  This model is what the
      correspondence check replays for texts that are rejected late; the
      statements here are table facts, re-checked against the source each run. *)
From DD Require Import LrTables.
Local Open Scope string_scope.

Theorem C05_lr_productions_known :
  (fun p : string * nat * string => p.2) <$> lalr_prods = known_prods.
Proof. exact lalr_prods_known. Qed.
Print Assumptions C05_lr_productions_known.

Theorem C05_lr_production_lengths :
  forallb (fun p : string * nat * string => bool_decide (p.1.2 = rhs_len p.2)) lalr_prods = true.
Proof. exact lalr_prods_lengths. Qed.
Print Assumptions C05_lr_production_lengths.

Theorem C05_lr_no_defaulted_states : lalr_defaulted = [].
Proof. exact lalr_no_defaulted. Qed.
Print Assumptions C05_lr_no_defaulted_states.

Theorem C05_lr_tables_closed :
  forallb (fun row : nat * list (string * Z) =>
    forallb (fun kv : string * Z =>
      if decide (0 < kv.2)%Z then bool_decide (Z.to_nat kv.2 < nstates)
      else bool_decide (Z.to_nat (- kv.2) < length lalr_prods)) row.2) lalr_action
  && forallb (fun row : nat * list (string * nat) =>
       forallb (fun kv : string * nat => bool_decide (kv.2 < nstates)) row.2) lalr_goto = true.
Proof. exact lalr_tables_closed. Qed.
Print Assumptions C05_lr_tables_closed.

Example C05_lr_late_rejection :
  snd (step_expr_lr w_two 0 "v0 & v1 ) )") = Err ERuntime ∧
  len (world2_get (fst (step_expr_lr w_two 0 "v0 & v1 ) )")) 0) = 4 ∧
  snd (step_expr_text w_two 0 "v0 & v1 ) )") = Err EValue ∧
  len (world2_get (fst (step_expr_text w_two 0 "v0 & v1 ) )")) 0) = 1 ∧
  snd (step_expr_lr w_two 0 "v0 & ~v1 | (* c *) v1") = snd (step_expr_text w_two 0 "v0 & ~v1 | (* c *) v1") ∧
  digest (world2_get (fst (step_expr_lr w_two 0 "v0 & ~v1 | (* c *) v1")) 0)
  = digest (world2_get (fst (step_expr_text w_two 0 "v0 & ~v1 | (* c *) v1")) 0).
Proof. exact late_rejection. Qed.
Print Assumptions C05_lr_late_rejection.
