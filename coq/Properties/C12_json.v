(** * Property C12 (JSON) — [dd._copy.dump_json] / [load_json] through
      [dd.autoref].  Only statements closed by [exact]; the proofs live in
      [Proofs/JsonLoad.v].

    The file is the record [jfile]: the "level_of_var" line ([jf_levels], in
    the iteration order [vorder] of [bdd.vars]), the "roots" line
    ([jf_roots], signed node ids) and the node lines ([jf_nodes]:
    [(k, (level, low, high))] in file order, [low]/[high] being ["T"], ["F"]
    or a signed node id).

    - [jenc c]: the encoding of a reference ([1 ↦ JT], [-1 ↦ JF], else [JN c]);
    - [child_ok acc c]: [c] is a terminal or its node is defined in [acc];
    - [jwf s l]: the node list [l] is closed and children-first (inductive,
      one constructor per appended line; [jwf_lookup] reads it by positions);
    - [needed s roots l k]: [k] is the node of a root or a child of a line;
    - [same_fun s r u u']: [u'] is a reference of [r] and
      [∀ ρ, denv r u' ρ = denv s u ρ] (same function of the variable NAMES);
    - [grows r r' := extends r r' ∧ frame r r'];
    - [ledger_add L us n := L n + #{u ∈ us | absn u = n}] (one external
      reference per listed reference). *)
From DD Require Import JsonLoad Driver6.
Local Open Scope string_scope.

(** ** J0.  [dump_json] is read-only; the file names the roots, enumerates
    the declared variables with their levels, and its node list is closed,
    children-first, duplicate-free and contains only needed nodes. *)
Theorem C12_json_dump s roots vorder jf sd :
  Inv s → Forall (valid s) (roots_values roots) →
  dump_json roots vorder s = (Ok jf, sd) →
  sd = s ∧
  jf_roots jf = roots ∧ (jf_levels jf).*1 = vorder ∧ vars_file s (jf_levels jf) ∧
  jwf s (jf_nodes jf) ∧
  (∀ u, u ∈ roots_values roots → child_ok (jf_nodes jf) u) ∧
  (∀ k, k ∈ (jf_nodes jf).*1 → needed s (roots_values roots) (jf_nodes jf) k).
Proof. exact (fun HI => dump_json_spec s HI roots vorder jf sd). Qed.
Print Assumptions C12_json_dump.

(** [jwf] by positions: line [i] is [(k, (level, enc low, enc high))] for the
    stored node [k = (level, low, high)] of [s]; [k] does not occur before
    position [i], and [low], [high] are terminals or defined before [i]. *)
Theorem C12_json_children_first s l i k lv lo hi :
  jwf s l → l !! i = Some (k, (lv, lo, hi)) →
  ∃ t, succ s !! k = Some t ∧ k ≠ 1%positive ∧
    lv = t_lvl t ∧ lo = jenc (t_lo t) ∧ hi = jenc (t_hi t) ∧
    k ∉ (take i l).*1 ∧ child_ok (take i l) (t_lo t) ∧ child_ok (take i l) (t_hi t).
Proof. exact (fun H => jwf_lookup s l H i k lv lo hi). Qed.
Print Assumptions C12_json_children_first.

(** the dump does not fail (non-empty container of valid roots, [vorder] an
    enumeration of the declared variables) *)
Theorem C12_json_dump_total s roots vorder :
  Inv s → Forall (valid s) (roots_values roots) → roots_values roots ≠ [] →
  NoDup vorder → (list_to_set vorder : gset nat) = dom (vars s) →
  ∃ jf, dump_json roots vorder s = (Ok jf, s).
Proof. exact (fun HI => dump_json_total s HI roots vorder). Qed.
Print Assumptions C12_json_dump_total.

(** ** J1.  [load_json(..., load_order=False)] into ANY consistent receiver
    [b] (any variable order, any extra or missing variables) with dynamic
    reordering disabled, no bound on the number of nodes
    ([max_nodes (mgr b) = None], the default) and exact reference counts
    ([Counts (mgr b) L]).

    The load does not fail.  [r1] is the receiver right after the
    "level_of_var" line: [declare] adds the missing names at the bottom and
    keeps every old reference and its meaning; from [r1] on the receiver only
    grows.  One new handle per root, numbered from [next_hid b], same
    container shape and keys ([hroots_of]); each denotes, as a function of the
    variable names, what its root denotes in the source.  No other handle
    changes.  The reference counts end exactly as: old ledger + one per
    returned handle (the memo's references are all released).

    ([extends (mgr b) (mgr b')] cannot hold when names are missing: [declare]
    moves the terminal one level down; it holds when the file's names are
    already declared.) *)
Theorem C12_json_roundtrip s roots vorder jf sd b L :
  Inv s → Forall (valid s) (roots_values roots) →
  dump_json roots vorder s = (Ok jf, sd) →
  Inv (mgr b) → last_len (mgr b) = None → max_nodes (mgr b) = None → Counts (mgr b) L →
  sd = s ∧
  ∃ b' r1 us,
    declare (jf_levels jf).*1 (mgr b) = (Ok tt, r1) ∧
    a_load_json jf false b = (Ok (hroots_of roots (next_hid b)), b') ∧
    (* the receiver *)
    Inv (mgr b') ∧ Inv r1 ∧ grows r1 (mgr b') ∧ frame (mgr b) (mgr b') ∧
    vars (mgr b) ⊆ vars (mgr b') ∧
    (∀ v, is_Some (vars s !! v) → is_Some (vars (mgr b') !! v)) ∧
    ((∀ v, is_Some (vars s !! v) → is_Some (vars (mgr b) !! v)) →
       extends (mgr b) (mgr b')) ∧
    (∀ u, valid (mgr b) u →
       valid (mgr b') u ∧ ∀ ρ, denv (mgr b') u ρ = denv (mgr b) u ρ) ∧
    (* the handles *)
    next_hid b' = next_hid b + length (roots_values roots) ∧
    (∀ h, h < next_hid b ∨ next_hid b' ≤ h → handles b' !! h = handles b !! h) ∧
    (∀ i u', us !! i = Some u' → handles b' !! (next_hid b + i) = Some u') ∧
    Forall2 (same_fun s (mgr b')) (roots_values roots) us ∧
    (* the reference counts *)
    Counts (mgr b') (ledger_add L us).
Proof. exact (json_roundtrip_false s roots vorder jf sd b L). Qed.
Print Assumptions C12_json_roundtrip.

(** the same for any file with the properties of J0 (not only the output of
    [dump_json]): this is what the loader relies on *)
Theorem C12_json_load s roots vorder jf r0 H n L :
  Inv s → json_file s roots vorder jf → roots ≠ RNone →
  Forall (valid s) (roots_values roots) →
  Inv r0 → last_len r0 = None → max_nodes r0 = None → Counts r0 L →
  ∃ r1 r' us,
    declare (jf_levels jf).*1 r0 = (Ok tt, r1) ∧
    a_load_json jf false (ASt r0 H n)
      = (Ok (hroots_of roots n), ASt r' (hins H n us) (n + length us)) ∧
    Inv r1 ∧ frame r0 r1 ∧ vars r0 ⊆ vars r1 ∧
    (∀ v, is_Some (vars s !! v) → is_Some (vars r1 !! v)) ∧
    ((∀ v, is_Some (vars s !! v) → is_Some (vars r0 !! v)) → r1 = r0) ∧
    (∀ u, valid r0 u → valid r1 u ∧ ∀ ρ, denv r1 u ρ = denv r0 u ρ) ∧
    (∀ L', Counts r0 L' → Counts r1 L') ∧
    Inv r' ∧ grows r1 r' ∧
    Forall2 (same_fun s r') (roots_values roots) us ∧
    Counts r' (ledger_add L us).
Proof. exact (json_load_false s roots vorder jf r0 H n L). Qed.
Print Assumptions C12_json_load.

(** ** J2.  [load_json(..., load_order=True)].  The loader switches dynamic
    reordering off, declares the names, calls [reorder(order)] and then
    rebuilds every line with [find_or_add] at the receiver's level of the
    variable; at the end every memo entry must have [ref >= 3] (memo +
    temporary + successor-or-root: this uses that the file only contains
    NEEDED nodes, J0) and [configure(reordering=old_reordering)] is called
    with a dict, which is truthy: dynamic reordering ends up ENABLED
    whatever the initial setting.

    Conditional form: [r1] is the receiver after [configure] and [declare];
    the PREMISE is that the [reorder] call succeeds in a consistent state
    [r2] whose variables and order are exactly those of the file, with exact
    reference counts and no bound on the number of nodes.  (From [r2] on the receiver only grows; old references
    valid in [r2] keep their nodes.) *)
Theorem C12_json_roundtrip_order s roots vorder jf sd b r1 r2 L2 :
  Inv s → Forall (valid s) (roots_values roots) →
  dump_json roots vorder s = (Ok jf, sd) →
  declare (jf_levels jf).*1 (mgr b <| last_len := None |>) = (Ok tt, r1) →
  (* PREMISE on the [reorder] call *)
  reorder (Some (list_to_map (reverse (jf_levels jf)))) r1 = (Ok tt, r2) →
  Inv r2 → vars r2 = vars s → last_len r2 = None → max_nodes r2 = None → Counts r2 L2 →
  sd = s ∧
  ∃ b' us,
    a_load_json jf true b = (Ok (hroots_of roots (next_hid b)), b') ∧
    Inv (mgr b') ∧ extends r2 (mgr b') ∧ is_Some (last_len (mgr b')) ∧
    next_hid b' = next_hid b + length (roots_values roots) ∧
    (∀ h, h < next_hid b ∨ next_hid b' ≤ h → handles b' !! h = handles b !! h) ∧
    (∀ i u', us !! i = Some u' → handles b' !! (next_hid b + i) = Some u') ∧
    Forall2 (same_fun s (mgr b')) (roots_values roots) us ∧
    Counts (mgr b') (ledger_add L2 us).
Proof. exact (json_roundtrip_true s roots vorder jf sd b r1 r2 L2). Qed.
Print Assumptions C12_json_roundtrip_order.

(** with the exact final value of [_last_len], for any file as in J0 *)
Theorem C12_json_load_order s roots vorder jf r0 H n r1 r2 L2 :
  Inv s → json_file s roots vorder jf → roots ≠ RNone →
  Forall (valid s) (roots_values roots) →
  declare (jf_levels jf).*1 (r0 <| last_len := None |>) = (Ok tt, r1) →
  reorder (Some (list_to_map (reverse (jf_levels jf)))) r1 = (Ok tt, r2) →
  Inv r2 → vars r2 = vars s → last_len r2 = None → max_nodes r2 = None → Counts r2 L2 →
  ∃ r3 us,
    let r' := r3 <| last_len := Some (Nat.max REORDER_STARTS (len r3)) |> in
    a_load_json jf true (ASt r0 H n)
      = (Ok (hroots_of roots n), ASt r' (hins H n us) (n + length us)) ∧
    Inv r' ∧ grows r2 r3 ∧ extends r2 r' ∧
    Forall2 (same_fun s r') (roots_values roots) us ∧
    Counts r' (ledger_add L2 us).
Proof. exact (json_load_true s roots vorder jf r0 H n r1 r2 L2). Qed.
Print Assumptions C12_json_load_order.

(** Unconditional special case: the receiver already has exactly the
    variables and the order of the file, and its [roots] attribute only names
    nodes ([_sort_to_order] checks it).  Then [declare] and [reorder(order)]
    change nothing (no swap is attempted), whatever the receiver's setting of
    dynamic reordering. *)
Theorem C12_json_reorder_noop s vl r :
  Inv s → vars_file s vl → Inv r → vars r = vars s → Forall (valid r) (Base.roots r) →
  reorder (Some (list_to_map (reverse vl))) r = (Ok tt, r).
Proof. exact (reorder_same_order s vl r). Qed.
Print Assumptions C12_json_reorder_noop.

Theorem C12_json_roundtrip_same_order s roots vorder jf sd b L :
  Inv s → Forall (valid s) (roots_values roots) →
  dump_json roots vorder s = (Ok jf, sd) →
  Inv (mgr b) → max_nodes (mgr b) = None → vars (mgr b) = vars s →
  Forall (valid (mgr b)) (Base.roots (mgr b)) →
  Counts (mgr b) L →
  sd = s ∧
  ∃ b' us,
    a_load_json jf true b = (Ok (hroots_of roots (next_hid b)), b') ∧
    Inv (mgr b') ∧ extends (mgr b) (mgr b') ∧ is_Some (last_len (mgr b')) ∧
    next_hid b' = next_hid b + length (roots_values roots) ∧
    (∀ h, h < next_hid b ∨ next_hid b' ≤ h → handles b' !! h = handles b !! h) ∧
    (∀ i u', us !! i = Some u' → handles b' !! (next_hid b + i) = Some u') ∧
    Forall2 (same_fun s (mgr b')) (roots_values roots) us ∧
    Counts (mgr b') (ledger_add L us).
Proof. exact (json_roundtrip_true_same_order s roots vorder jf sd b L). Qed.
Print Assumptions C12_json_roundtrip_same_order.

(** ** Failure path (the repaired loader), [load_order = False], ANY file
    (well-formed or not) into a consistent receiver with reordering
    disabled: either handles are returned and the ledger gains exactly one
    reference per handle, or the call raises, creates no handle and leaks no
    reference (the memo's references and every temporary are released).  In
    both cases the receiver only grows after [declare] and every old
    reference keeps its meaning.  No hypothesis on [max_nodes r0]: a full
    table ([RuntimeError] raised by [find_or_add]) is one of the failures
    covered. *)
Theorem C12_json_load_any_file jf r0 H n L :
  Inv r0 → last_len r0 = None → Counts r0 L →
  ∃ res r1 r' H' n',
    declare (jf_levels jf).*1 r0 = (Ok tt, r1) ∧
    a_load_json jf false (ASt r0 H n) = (res, ASt r' H' n') ∧
    Inv r' ∧ grows r1 r' ∧ frame r0 r' ∧
    (∀ u, valid r0 u → valid r' u ∧ ∀ ρ, denv r' u ρ = denv r0 u ρ) ∧
    match res with
    | Err e => H' = H ∧ n' = n ∧ Counts r' L
    | Ok hroots => ∃ us, H' = hins H n us ∧ n' = n + length us ∧
                         Forall (valid r') us ∧ Counts r' (ledger_add L us)
    end.
Proof. exact (json_load_false_total jf r0 H n L). Qed.
Print Assumptions C12_json_load_any_file.

(** ** Non-vacuity and necessity (J3).  Source manager 0: levels v0:1, v1:0,
    v2:2; handle 5 is [(v0 xor v1) \/ ~v2] (the reference -8), handle 6 its
    negation (8), handle 1 the variable v1 (3).  The dump names three roots in a
    dict; [vorder] is neither sorted by name nor by level. *)
Definition jw0 : aworld :=
  fold_left (fun w o => fst (astep w 0 o))
    [ANew [(0, 1); (1, 0); (2, 2)]; AVar 0; AVar 1; AVar 2;
     AApply "xor" 0 (Some 1) None; AFApply "not" 2 None;
     AApply "or" 3 (Some 4) None; AFApply "not" 5 None]
    aworld_empty.

Definition jf0 : jfile :=
  {| jf_levels := [(2, 2); (0, 1); (1, 0)];
     jf_roots := RDict [(7, 8%Z); (3, 3%Z); (9, (-8)%Z)];
     jf_nodes := [(4%positive, (2, JF, JT)); (6%positive, (1, JN (-4), JT));
                  (7%positive, (1, JF, JN 4)); (8%positive, (0, JN (-6), JN 7));
                  (3%positive, (0, JF, JT))] |}.

(** receiver 1: another order, an extra variable (v5), a missing one (v1),
    and nodes of its own *)
Definition jw1 : aworld :=
  fold_left (fun w o => fst (astep w 1 o))
    [ANew [(2, 0); (0, 1); (5, 2)]; AVar 5; AVar 2; AApply "and" 0 (Some 1) None]
    jw0.
(** receiver 2: the variables of the file in another order *)
Definition jw2 : aworld :=
  fold_left (fun w o => fst (astep w 2 o))
    [ANew [(2, 0); (0, 1); (1, 2)]; AVar 1; AVar 2; AApply "and" 0 (Some 1) None]
    jw0.
(** receiver 4: the variables and the order of the file *)
Definition jw4 : aworld :=
  fold_left (fun w o => fst (astep w 4 o))
    [ANew [(1, 0); (0, 1); (2, 2)]; AVar 2; AConfigure (Some true)]
    jw0.

Definition names3 : list (nat → bool) :=
  (fun '(x, y, z) => fun v : nat =>
     match v with 0 => x | 1 => y | 2 => z | _ => false end) <$>
  [(false, false, false); (false, false, true); (false, true, false);
   (false, true, true); (true, false, false); (true, false, true);
   (true, true, false); (true, true, true)].

Definition hnode (a : ast) (h : nat) : Z := default 0%Z (handles a !! h).

Example C12_json_nonvacuous :
  let a0 := aworld_get jw0 0 in
  let s := mgr a0 in
  (* the dump: read-only, children-first *)
  a_dump_json (HDict [(7, 6); (3, 1); (9, 5)]) [2; 0; 1] a0 = (Ok jf0, a0) ∧
  (denv s (-8) <$> names3) = [true; false; true; true; true; true; true; false] ∧
  (* load_order=False into receiver 1: three new handles 3, 4, 5 *)
  (let b := aworld_get jw1 1 in
   let b' := aworld_get (fst (astep_json_load jw1 1 jf0 false)) 1 in
   snd (astep_json_load jw1 1 jf0 false)
     = Ok (VL [VL [VN 7; VN 3]; VL [VN 3; VN 4]; VL [VN 9; VN 5]]) ∧
   map_to_list (vars (mgr b)) = [(0, 1); (5, 2); (2, 0)] ∧
   map_to_list (vars (mgr b')) = [(0, 1); (1, 3); (5, 2); (2, 0)] ∧
   (denv (mgr b') (hnode b' 3) <$> names3) = (denv s 8 <$> names3) ∧
   (denv (mgr b') (hnode b' 4) <$> names3) = (denv s 3 <$> names3) ∧
   (denv (mgr b') (hnode b' 5) <$> names3) = (denv s (-8) <$> names3) ∧
   (* old handles and their meaning *)
   (hnode b' <$> [0; 1; 2]) = (hnode b <$> [0; 1; 2]) ∧
   (denv (mgr b') (hnode b' 2) <$> names3) = (denv (mgr b) (hnode b 2) <$> names3) ∧
   next_hid b' = next_hid b + 3 ∧ last_len (mgr b') = None ∧
   (* counts: the roots' nodes hold exactly one reference each beyond edges *)
   (hnode b' <$> [3; 4; 5]) = [10; 8; -10]%Z ∧
   refc (mgr b') !! 10%positive = Some 2 ∧ refc (mgr b') !! 8%positive = Some 3) ∧
  (* load_order=True: receiver 1 has an extra variable, [reorder] refuses *)
  snd (astep_json_load jw1 1 jf0 true) = Err EValue ∧
  (* load_order=True into receiver 2: the order of the file is installed *)
  (let b' := aworld_get (fst (astep_json_load jw2 2 jf0 true)) 2 in
   snd (astep_json_load jw2 2 jf0 true)
     = Ok (VL [VL [VN 7; VN 3]; VL [VN 3; VN 4]; VL [VN 9; VN 5]]) ∧
   bool_decide (vars (mgr b') = vars s) = true ∧
   (denv (mgr b') (hnode b' 3) <$> names3) = (denv s 8 <$> names3) ∧
   (denv (mgr b') (hnode b' 4) <$> names3) = (denv s 3 <$> names3) ∧
   (denv (mgr b') (hnode b' 5) <$> names3) = (denv s (-8) <$> names3) ∧
   last_len (mgr b') = Some 100) ∧
  (* load_order=True into receiver 4 (same order, reordering enabled) *)
  (let b := aworld_get jw4 4 in
   let b' := aworld_get (fst (astep_json_load jw4 4 jf0 true)) 4 in
   snd (astep_json_load jw4 4 jf0 true)
     = Ok (VL [VL [VN 7; VN 1]; VL [VN 3; VN 2]; VL [VN 9; VN 3]]) ∧
   bool_decide (vars (mgr b) = vars s) = true ∧
   (denv (mgr b') (hnode b' 1) <$> names3) = (denv s 8 <$> names3) ∧
   (denv (mgr b') (hnode b' 3) <$> names3) = (denv s (-8) <$> names3) ∧
   hnode b' 0 = hnode b 0 ∧ last_len (mgr b') = Some 100).
Proof. by vm_compute. Qed.

(** J3, necessity of children-first: the same lines in reverse order make the
    loader fail with [KeyError] (a child is looked up in the memo before its
    line was read). *)
Example C12_json_not_children_first :
  let jf_bad := JFile (jf_levels jf0) (jf_roots jf0) (reverse (jf_nodes jf0)) in
  snd (astep_json_load jw1 1 jf_bad false) = Err EKey ∧
  snd (astep_json_load jw2 2 jf_bad true) = Err EKey ∧
  (* the failed load leaks nothing: the first line (the variable v1) was
     built as node 5 and memoized, then released: node 5 ends with count 0
     (its two edges point to the terminal); no handle was created *)
  (let b := aworld_get jw1 1 in
   let b' := aworld_get (fst (astep_json_load jw1 1 jf_bad false)) 1 in
   map_to_list (handles b') = map_to_list (handles b) ∧ next_hid b' = next_hid b ∧
   map_to_list (refc (mgr b))
     = [(1%positive, 6); (2%positive, 2); (4%positive, 1); (3%positive, 1)] ∧
   map_to_list (refc (mgr b'))
     = [(1%positive, 8); (2%positive, 2); (4%positive, 1); (3%positive, 1);
        (5%positive, 0)]).
Proof. by vm_compute. Qed.

(** The hypothesis [last_len (mgr b) = None] of J1 is needed for the claims
    about the order: with dynamic reordering enabled the load still succeeds
    here, but a sifting pass runs in the middle and previously declared
    variables change level (v5 moves from level 2 to level 3). *)
Example C12_json_reordering_enabled :
  let w := fst (astep jw1 1 (ASetLastLen (Some 1))) in
  let b' := aworld_get (fst (astep_json_load w 1 jf0 false)) 1 in
  snd (astep_json_load w 1 jf0 false)
    = Ok (VL [VL [VN 7; VN 3]; VL [VN 3; VN 4]; VL [VN 9; VN 5]]) ∧
  vars (mgr (aworld_get w 1)) !! 5 = Some 2 ∧ vars (mgr b') !! 5 = Some 3.
Proof. by vm_compute. Qed.

(** The hypothesis [max_nodes (mgr b) = None] of J1 is needed for success:
    receiver 1 bounded at its current size (4 nodes, next free id 5) refuses
    the first new node with [RuntimeError]; as stated by
    [C12_json_load_any_file] no handle is created and the reference counts
    are those of before. *)
Example C12_json_max_nodes :
  let b := aworld_get jw1 1 in
  let w := <[1 := b <| mgr := mgr b <| max_nodes := Some 5%positive |> |>]> jw1 in
  let b' := aworld_get (fst (astep_json_load w 1 jf0 false)) 1 in
  snd (astep_json_load w 1 jf0 false) = Err ERuntime ∧
  map_to_list (handles b') = map_to_list (handles b) ∧ next_hid b' = next_hid b ∧
  map_to_list (refc (mgr b')) = map_to_list (refc (mgr b)).
Proof. by vm_compute. Qed.
