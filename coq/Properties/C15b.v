(** * Property C15 (continued) — [bdd_to_mdd(bdd, dvars)], complete.
      Only statements closed by [exact]; proofs live in [Proofs/MddOps2.v]
      (on top of [MddOps.v], the reordering proofs [Sift3]/[Sift7]/[Sift9] and
      [GC.v]).

    Vocabulary.  [held L u]: the reference [u] is the terminal or its node
    has an external reference in the ledger [L] of [Counts s L]; these are
    the roots of the conversion ([bdd_to_mdd] converts the nodes that survive
    [collect_garbage], i.e. the nodes reachable from held ones).
    [keepsH L s s']: every held reference is valid before and after and has
    the same function BY VARIABLE NAME ([denv]).
    [dvars_wf dvars s]: the integer variables are named once and sit at the
    levels [0..m-1] (their levels are a permutation of [0..m-1]); every bit is
    listed once, within and across variables; the bits are exactly the
    variables declared in the BDD manager [s].
    [bitval dvars I b]: the value of the bit NAMED [b] under the integer
    assignment [I] (of the integer levels): the value [_enumerate_integer]
    gives it in dict number [I j] of its integer variable (level [j]) — binary
    digit [p] of [I j] for the bit listed at position [p]
    ([C15b_bitval_testbit]: first listed bit least significant).  The
    statement does not mention the bit order imposed by the conversion.
    [b2m_order_ok order s2]: the test that the model applies to its oracle
    [order] (the order in which [bdd.levels(skip_terminals=True)] yields the
    nodes of the reordered manager [s2]): without repetition, exactly the
    non-terminal nodes, deepest level first. *)
From DD Require Import MddOps2 Driver5.
Local Open Scope string_scope.

(** (a) The link.  From a manager with the invariant, exact counters,
    reordering off, no bound on the number of nodes ([max_nodes = None]: with
    a bound the swaps of [reorder] may raise [RuntimeError]), an empty oracle
    tape and held [roots], the prefix
    [collect_garbage() ; reorder(bdd, order)] of [bdd_to_mdd] succeeds and
    reaches a state that satisfies the hypotheses of the conversion proper
    ([Inv], [last_len = None], [b2m_wf dvars], no unreferenced node), where
    the variables are in the target order and every held node keeps its
    function by name. *)
Theorem C15b_prefix_link dvars s L :
  Inv s → Counts s L → last_len s = None → max_nodes s = None → tape s = [] →
  (∀ u, u ∈ roots s → held L u) → dvars_wf dvars s →
  ∃ s1 s2, collect_garbage None s = (Ok tt, s1) ∧
    reorder (Some (list_to_map (b2m_b2s dvars))) s1 = (Ok tt, s2) ∧
    Inv s2 ∧ Counts s2 L ∧ last_len s2 = None ∧ tape s2 = [] ∧ nozero s2 ∧
    keepsH L s s2 ∧ vars s2 = list_to_map (b2m_b2s dvars) ∧
    dvars_wf dvars s2 ∧ b2m_wf dvars s2.
Proof. exact (b2m_prefix_link dvars s L). Qed.

(** (b) Totality of the conversion proper: in such a state (no unreferenced
    node, the terminal held, the oracle order accepted) it does not raise,
    does not change the BDD manager, and [umap] has an entry for every node
    with an external reference.  (Invariant of the loop: the manager is
    unchanged because every cofactor by all the bits of a zone only walks
    down to the node below the zone — [cofactor_zone]; that node has a parent
    in a zone above its own, hence was selected by the [pred] analysis —
    [keep_total]; and it is deeper, hence already converted — [fold_total].) *)
Theorem C15b_tail_total dvars s L order :
  Inv s → Counts s L → last_len s = None → nozero s → 0 < L 1%positive →
  dvars_wf dvars s → vars s = list_to_map (b2m_b2s dvars) → b2m_wf dvars s →
  b2m_order_ok order s →
  ∃ mdd umap, bdd_to_mdd_tail dvars (b2m_b2s dvars) order s = (Ok (mdd, umap), s) ∧
    B2M dvars s s mdd umap ∧ ∀ u, 0 < L u → u ∈ umap.*1.
Proof. exact (bdd_to_mdd_tail_total dvars s L order). Qed.

(** The full theorem.  [bdd_to_mdd(bdd, dvars)] on a manager with the
    invariant, exact counters [L], reordering off, no bound on the number of
    nodes, an empty oracle tape, held
    roots, the terminal held ([0 < L 1], true of every manager since
    [BDD()] references the terminal once), and a well-formed [dvars]:
    - the collection and the reordering succeed; the BDD manager keeps the
      invariant and the counters, and every held reference keeps its function
      by name;
    - if the oracle [order] is not the level order of the reordered manager
      the model answers [Err EOracle] (no Python counterpart);
    - otherwise the result is [(mdd, umap)] with [MInv mdd], the variables of
      [dvars], and for every node [u] with an external reference an entry
      [u ↦ x] of [umap] such that, on every in-range integer assignment [I],
      [MD mdd x I = denv s u (bitval dvars I)]: the value of the ORIGINAL BDD
      node on the bit assignment given by the binary digits, by bit name.
      (A reference [-u] maps to [-x]: [MD_neg], [D_neg].) *)
Theorem C15b_bdd_to_mdd_correct dvars order s L r s' :
  Inv s → Counts s L → last_len s = None → max_nodes s = None → tape s = [] →
  (∀ u, u ∈ roots s → held L u) → 0 < L 1%positive → dvars_wf dvars s →
  bdd_to_mdd dvars order s = (r, s') →
  ∃ s1 s2, collect_garbage None s = (Ok tt, s1) ∧
    reorder (Some (list_to_map (b2m_b2s dvars))) s1 = (Ok tt, s2) ∧ s' = s2 ∧
    Inv s' ∧ Counts s' L ∧ last_len s' = None ∧ tape s' = [] ∧ keepsH L s s' ∧
    ((¬ b2m_order_ok order s2 ∧ r = Err EOracle) ∨
     (b2m_order_ok order s2 ∧
      ∃ mdd umap, r = Ok (mdd, umap) ∧ MInv mdd ∧ mextends (b2m_mdd0 dvars) mdd ∧
        ∀ u, 0 < L u → ∃ x, (u, x) ∈ umap ∧ mvalid mdd x ∧
          ∀ I, minrange mdd I → MD mdd x I = denv s (Z.pos u) (bitval dvars I))).
Proof. exact (bdd_to_mdd_correct dvars order s L r s'). Qed.

(** binary digits, first listed bit least significant *)
Theorem C15b_bitval_testbit dvars s I b var j bits p :
  dvars_wf dvars s → (var, (j, bits)) ∈ dvars → bits !! p = Some b →
  I j < 2 ^ length bits → bitval dvars I b = Nat.testbit (I j) p.
Proof. exact (bitval_testbit dvars s I b var j bits p). Qed.

(** [dvars_wf] can be checked by computation *)
Theorem C15b_dvars_wf_check dvars s : dvars_wf_b dvars s = true → dvars_wf dvars s.
Proof. exact (dvars_wf_b_sound dvars s). Qed.

(** Non-vacuity, on the manager of [C15_conversion] (bits v0, v1, v2; the
    node 6 = v1 ∨ v2 referenced; x10 = [v0; v1], x11 = [v2]): the checkable
    hypotheses hold, the oracle is accepted, and the entry of node 6 has, on
    every integer assignment, the value of the ORIGINAL node 6 by bit name. *)
Definition C15b_bdd : world2 :=
  fold_left (fun w o => fst (step2 w 0 (O1 o)))
    [ONew [(0, 0); (1, 1); (2, 2)]; OVar 0; OVar 1; OVar 2;
     OApply "and" 2 (Some 3%Z) None; OApply "\/" 5 (Some 4%Z) None; OIncref 6] world2_empty.
Definition C15b_dvars : list (nat * (nat * list nat)) := [(10, (0, [0; 1])); (11, (1, [2]))].

Example C15b_conversion :
  let s := world2_get C15b_bdd 0 in
  last_len s = None ∧ max_nodes s = None ∧ tape s = [] ∧ roots s = [] ∧
  dvars_wf_b C15b_dvars s = true ∧
  match bdd_to_mdd C15b_dvars [4%positive; 6%positive] s with
  | (Ok (mdd, umap), s') =>
      bool_decide (b2m_order_ok [4%positive; 6%positive] s') = true ∧
      umap = [(1%positive, 1%Z); (4%positive, (-2)%Z); (6%positive, (-3)%Z)] ∧
      forallb (fun '(i0, i1) =>
        let I := fun l => match l with 0 => i0 | _ => i1 end in
        bool_decide (MD mdd (-3) I = denv s 6 (bitval C15b_dvars I)) &&
        bool_decide (denv s 6 (bitval C15b_dvars I) = (Nat.testbit i0 1 || Nat.testbit i1 0)))
        [(0, 0); (0, 1); (1, 0); (1, 1); (2, 0); (2, 1); (3, 0); (3, 1)] = true
  | _ => False
  end.
Proof. by vm_compute. Qed.
