(** * Property C08 — a full table ([max_nodes], [RuntimeError]) met THROUGH
      [dd.autoref].

    The node limit of the wrapped manager is set through the wrapper by
    [bdd._bdd.max_nodes = n] on a [dd.autoref.BDD] ([None]: the default,
    [sys.maxsize]): the operation [ASetMaxNodes n] of the alphabet [aop]
    ([Model/Driver3.v]; [lift] of the modification that [OSetMaxNodes] performs
    in [Model/Driver.v]).  It is an operation of [a_allowed] ([C08_call],
    [C08_step], [C08_history], [C08_copy_call]), of [a_allowed2] ([C08b_call],
    ...), of [a_allowedD] ([C08b_call_dynamic], ...) and of [a_allowedDR]
    ([C08_call_dynamic_reorder], ...), with ANY value: those theorems are total,
    so they cover every call made with a bounded table, whatever its outcome.

    Here, for emphasis:
    - [C08f_set_max_nodes]: the setter changes that field and nothing else
      (the invariants, the ledger of the live handles and every denotation are
      as before);
    - [C08f_call_full] (and its variants for the explicit reorderings, for the
      dispatch of the driver, and with dynamic reordering enabled): a call that
      fails with [ERuntime] — in this alphabet the [RuntimeError] of a full
      table: [find_or_add] finds no free number below [max_nodes], or [swap]
      refuses to start — keeps the invariant, every live [Function] keeps its
      node and its function, and NO [Function] was created (same handle table,
      same next identifier);
    - an example by evaluation: [f <= g] raises on a bounded table, the
      temporary [~ f] is released (handle table and counters as before), and
      the comparison succeeds once the limit is lifted;
    - an example by evaluation with dynamic reordering ENABLED
      ([C08f_or_full_table_dynamic]): [y | x] raises [RuntimeError] on a full
      table, both when no reordering request fires and when one fires (the
      sifting is then stopped by the full table); no [Function] is created,
      handle table and counters are as before, reordering stays enabled.

    Only statements closed by [exact]; proofs live in [Proofs/AutorefFull.v]. *)
From DD Require Import AutorefFull.
Local Open Scope string_scope.

(** ** The setter *)

(** [bdd._bdd.max_nodes = n]: returns [None]; of the whole wrapper state only
    the field [max_nodes] of the wrapped manager changes.  Consequently the
    invariants (static, dynamic), the ledger of the live handles and the
    denotation of every node are as before. *)
Theorem C08f_set_max_nodes w n a r a' :
  run_aop w (ASetMaxNodes n) a = (r, a') →
  r = Ok VU ∧ a' = a <| mgr := (mgr a) <| max_nodes := n |> |> ∧
  (AInv a → AInv a') ∧ (AInvD a → AInvD a') ∧ (AInvDT a → AInvDT a') ∧
  (∀ k, hledger a' k = hledger a k) ∧
  (∀ u ρ, denv (mgr a') u ρ = denv (mgr a) u ρ).
Proof. exact (set_max_nodes_spec w n a r a'). Qed.
Print Assumptions C08f_set_max_nodes.

(** one step of the driver on manager [m] of a world ([astep] also empties the
    oracle tape of the model, as after every call) *)
Theorem C08f_set_max_nodes_step w m n :
  snd (astep w m (ASetMaxNodes n)) = Ok VU ∧
  aworld_get (fst (astep w m (ASetMaxNodes n))) m =
    (aworld_get w m) <| mgr := (mgr (aworld_get w m)) <| max_nodes := n |> <| tape := [] |> |>.
Proof. exact (astep_set_max_nodes w m n). Qed.
Print Assumptions C08f_set_max_nodes_step.

(** the setter is an operation of every alphabet of C08, with any value *)
Theorem C08f_set_max_nodes_allowed n :
  a_allowed (ASetMaxNodes n) = true ∧ a_allowed2 (ASetMaxNodes n) = true ∧
  a_tape_ok (ASetMaxNodes n) = true ∧
  a_allowedD (ASetMaxNodes n) = true ∧ a_allowedDR (ASetMaxNodes n) = true ∧
  is_anew (ASetMaxNodes n) = false ∧ ∀ a, a_caller_ok a (ASetMaxNodes n).
Proof.
  exact (conj eq_refl (conj eq_refl (conj eq_refl (conj eq_refl (conj eq_refl
           (conj eq_refl (fun _ => I))))))).
Qed.
Print Assumptions C08f_set_max_nodes_allowed.

(** ** A call that meets the full table *)

(** every live [Function] survives, on its node, with its function *)
Theorem C08f_AKeepAll_unfold a a' :
  AKeepAll a a' ↔
  ∀ h u, handles a !! h = Some u →
    handles a' !! h = Some u ∧ valid (mgr a') u ∧
    ∀ ρ, denv (mgr a') u ρ = denv (mgr a) u ρ.
Proof. exact (conj (fun H => H) (fun H => H)). Qed.
Print Assumptions C08f_AKeepAll_unfold.

(** dynamic reordering disabled: the instance of [C08_call] at [Err ERuntime],
    plus "no handle was created" *)
Theorem C08f_call_full w o a a' :
  a_allowed o = true → is_anew o = false → AInv a → a_caller_ok a o →
  run_aop w o a = (Err ERuntime, a') →
  AInv a' ∧ AKeep o a a' ∧ AKeepAll a a' ∧
  handles a' = handles a ∧ next_hid a' = next_hid a.
Proof. exact (run_aop_full w o a a'). Qed.
Print Assumptions C08f_call_full.

(** ... with the explicit reorderings (the instance of [C08b_call]): a
    reordering that a full table stops keeps every live [Function] *)
Theorem C08f_call_full_reorder w o a a' :
  a_allowed2 o = true → is_anew o = false → AInv a → a_caller_ok a o →
  (is_areorder o = true → tape (mgr a) = []) →
  run_aop w o a = (Err ERuntime, a') →
  AInv a' ∧ AKeep o a a' ∧ AKeepAll a a' ∧
  handles a' = handles a ∧ next_hid a' = next_hid a.
Proof. exact (run_aop_full2 w o a a'). Qed.
Print Assumptions C08f_call_full_reorder.

(** ... as the driver dispatches the call (the instance of [C08_copy_call]) *)
Theorem C08f_copy_call_full w m o a a' :
  a_allowed o = true → is_anew o = false → AInv a → a_caller_ok a o →
  run_aop' w m o a = (Err ERuntime, a') →
  AInv a' ∧ AKeep o a a' ∧ AKeepAll a a' ∧
  handles a' = handles a ∧ next_hid a' = next_hid a.
Proof. exact (run_aop'_full w m o a a'). Qed.
Print Assumptions C08f_copy_call_full.

(** dynamic reordering possibly enabled: the instance of [C08b_call_dynamic] *)
Theorem C08f_call_full_dynamic w o a a' :
  a_allowedD o = true → AInvDT a → run_aop w o a = (Err ERuntime, a') →
  AInvDT a' ∧ AKeep o a a' ∧ AKeepAll a a' ∧
  handles a' = handles a ∧ next_hid a' = next_hid a.
Proof. exact (run_aop_fullD w o a a'). Qed.
Print Assumptions C08f_call_full_dynamic.

(** ... and of [C08_call_dynamic_reorder] ([a_allowedD] + [AReorder]) *)
Theorem C08f_call_full_dynamic_reorder w o a a' :
  a_allowedDR o = true → AInvDT a → run_aop w o a = (Err ERuntime, a') →
  AInvDT a' ∧ AKeep o a a' ∧ AKeepAll a a' ∧
  handles a' = handles a ∧ next_hid a' = next_hid a.
Proof. exact (run_aop_fullDR w o a a'). Qed.
Print Assumptions C08f_call_full_dynamic_reorder.

(** ** Example (by evaluation)

    manager 0: [BDD({v0: 0, v1: 1})]; [x = bdd.var('v0')] (handle 0, node 2),
    [y = bdd.var('v1')] (handle 1, node 3); [bdd._bdd.max_nodes = 4]: the
    numbers 1, 2, 3 are taken, no node can be created. *)
Definition fhist : list aop := [AVar 0; AVar 1; ASetMaxNodes (Some 4%positive)].
Definition fw0 : aworld := arun aworld_empty 0 (ANew [(0, 0); (1, 1)] :: fhist).
(** [x <= y] is [(y | ~ x) == bdd.true]: the disjunction needs a new node *)
Definition fw1 : aworld := fst (astep fw0 0 (ALe 0 1)).
Definition fw2 : aworld := fst (astep fw1 0 (ASetMaxNodes None)).
Definition fw3 : aworld := fst (astep fw2 0 (ALe 0 1)).

(** the hypotheses of [C08f_call_full] hold of that state and call *)
Example C08f_example_hypotheses_hold :
  AInv (aworld_get fw0 0) ∧ a_allowed (ALe 0 1) = true ∧ is_anew (ALe 0 1) = false ∧
  a_caller_ok (aworld_get fw0 0) (ALe 0 1) ∧
  ∃ a', run_aop aworld_empty (ALe 0 1) (aworld_get fw0 0) = (Err ERuntime, a').
Proof.
  split; [|split; [done|split; [done|split; [done|eexists; by vm_compute]]]].
  apply (arun_from_new [(0, 0); (1, 1)] fhist 0); [by vm_compute|].
  cbn [ahist_ok fhist]. repeat (split; [by vm_compute|]). done.
Qed.

Example C08f_le_full_table :
  let a0 := aworld_get fw0 0 in let a1 := aworld_get fw1 0 in
  let a2 := aworld_get fw2 0 in let a3 := aworld_get fw3 0 in
  max_nodes (mgr a0) = Some 4%positive ∧
  map_to_list (handles a0) = [(0, 2%Z); (1, 3%Z)] ∧
  map_to_list (refc (mgr a0)) = [(1%positive, 5); (2%positive, 1); (3%positive, 1)] ∧
  (* [x <= y]: RuntimeError; the temporary [~ x] (a reference to node 2) is
     released: handle table, counters and nodes as before; the limit is kept *)
  snd (astep fw0 0 (ALe 0 1)) = Err ERuntime ∧
  map_to_list (handles a1) = map_to_list (handles a0) ∧ next_hid a1 = next_hid a0 ∧
  map_to_list (refc (mgr a1)) = map_to_list (refc (mgr a0)) ∧
  map_to_list (succ (mgr a1)) = map_to_list (succ (mgr a0)) ∧
  max_nodes (mgr a1) = Some 4%positive ∧
  (* other calls on the full table: [x < y] and [y | x] raise, [x <= x]
     ([x | ~ x] is the terminal: no node needed) succeeds *)
  snd (astep fw1 0 (ALt 0 1)) = Err ERuntime ∧
  snd (astep fw1 0 (AApply "or" 1 (Some 0) None)) = Err ERuntime ∧
  snd (astep fw1 0 (ALe 0 0)) = Ok (VB true) ∧
  (* [bdd._bdd.max_nodes = sys.maxsize]: only that field changes *)
  snd (astep fw1 0 (ASetMaxNodes None)) = Ok VU ∧
  max_nodes (mgr a2) = None ∧
  adigest (a2 <| mgr := (mgr a2) <| max_nodes := Some 4%positive |> |>) = adigest a1 ∧
  (* the comparison succeeds: [v0 <= v1] is false; its temporaries are
     released (node 4 = [y | ~ x] stays, unreferenced, until a collection; its
     edges are counted at nodes 1 and 3) *)
  snd (astep fw2 0 (ALe 0 1)) = Ok (VB false) ∧
  map_to_list (handles a3) = map_to_list (handles a0) ∧ next_hid a3 = next_hid a0 ∧
  map_to_list (refc (mgr a3)) =
    [(1%positive, 6); (2%positive, 1); (4%positive, 0); (3%positive, 2)] ∧
  forallb (fun '(n, c) =>
      bool_decide (c = indeg (succ (mgr a3)) n + (if decide (n = 1%positive) then 1 else 0) +
                   length (filter (fun p => absn (p.2) = n) (map_to_list (handles a3)))))
    (map_to_list (refc (mgr a3))) = true.
Proof. by vm_compute. Qed.

(** ** Example (by evaluation) with dynamic reordering ENABLED, for
    [C08f_call_full_dynamic]

    manager 0 as above ([x]: handle 0, node 2; [y]: handle 1, node 3), then
    [bdd.configure(reordering=True)] and [bdd._bdd.max_nodes = 4] ([ffwD0]);
    [ffwD]: the same with the forced trigger of the harness, so that the first
    reordering request of the next call fires. *)
Theorem C08f_dynamic_worlds :
  ffwS = arun aworld_empty 0 [ANew [(0, 0); (1, 1)]; AVar 0; AVar 1] ∧
  ffwD0 = arun ffwS 0 [AConfigure (Some true); ASetMaxNodes (Some 4%positive)] ∧
  ffwD = arun ffwS 0 [AConfigure (Some true); ASetMaxNodes (Some 4%positive);
                      ASetTrig (Some 1)].
Proof. exact (conj eq_refl (conj eq_refl eq_refl)). Qed.
Print Assumptions C08f_dynamic_worlds.

(** the hypotheses of [C08f_call_full_dynamic] hold of both states and the
    call [y | x] *)
Example C08f_dynamic_example_hypotheses_hold :
  (AInvDT (aworld_get ffwD0 0) ∧ AInvDT (aworld_get ffwD 0)) ∧
  a_allowedD (AApply "or" 1 (Some 0) None) = true ∧
  (∃ a', run_aop aworld_empty (AApply "or" 1 (Some 0) None) (aworld_get ffwD0 0)
         = (Err ERuntime, a')) ∧
  (∃ a', run_aop aworld_empty (AApply "or" 1 (Some 0) None) (aworld_get ffwD 0)
         = (Err ERuntime, a')).
Proof. exact full_dynamic_hypotheses. Qed.
Print Assumptions C08f_dynamic_example_hypotheses_hold.

Example C08f_or_full_table_dynamic :
  let o := AApply "or" 1 (Some 0) None in
  let a0 := aworld_get ffwD0 0 in let a1 := aworld_get (fst (astep ffwD0 0 o)) 0 in
  let b0 := aworld_get ffwD 0 in let b1 := aworld_get (fst (astep ffwD 0 o)) 0 in
  (* reordering is enabled, the table is full *)
  last_len (mgr a0) = Some 100 ∧ max_nodes (mgr a0) = Some 4%positive ∧
  map_to_list (handles a0) = [(0, 2%Z); (1, 3%Z)] ∧ next_hid a0 = 2 ∧
  map_to_list (refc (mgr a0)) = [(1%positive, 5); (2%positive, 1); (3%positive, 1)] ∧
  (* [y | x] without a request: RuntimeError; no [Function] was created, the
     handle table, the counters, the nodes and the order are as before,
     reordering is still enabled, the context flag is off *)
  snd (astep ffwD0 0 o) = Err ERuntime ∧
  map_to_list (handles a1) = map_to_list (handles a0) ∧ next_hid a1 = next_hid a0 ∧
  map_to_list (refc (mgr a1)) = map_to_list (refc (mgr a0)) ∧
  map_to_list (succ (mgr a1)) = map_to_list (succ (mgr a0)) ∧
  map_to_list (vars (mgr a1)) = map_to_list (vars (mgr a0)) ∧
  last_len (mgr a1) = Some 100 ∧ rctx (mgr a1) = false ∧
  max_nodes (mgr a1) = Some 4%positive ∧
  (* the same call when the reordering request FIRES (the trigger is consumed):
     the sifting that serves it is stopped by the full-table pre-check of
     [swap]; the caller sees RuntimeError (not the internal signal), the
     threshold is put back, and again nothing else changed *)
  trig (mgr b0) = Some 1 ∧ adigest (b0 <| mgr := (mgr b0) <| trig := None |> |>) = adigest a0 ∧
  snd (astep ffwD 0 o) = Err ERuntime ∧ trig (mgr b1) = None ∧
  map_to_list (handles b1) = map_to_list (handles a0) ∧ next_hid b1 = next_hid a0 ∧
  map_to_list (refc (mgr b1)) = map_to_list (refc (mgr a0)) ∧
  map_to_list (succ (mgr b1)) = map_to_list (succ (mgr a0)) ∧
  map_to_list (vars (mgr b1)) = map_to_list (vars (mgr a0)) ∧
  last_len (mgr b1) = Some 100 ∧ rctx (mgr b1) = false ∧
  max_nodes (mgr b1) = Some 4%positive ∧
  (* the counters are exact for the ledger of the live handles *)
  forallb (fun '(n, c) =>
      bool_decide (c = indeg (succ (mgr b1)) n + (if decide (n = 1%positive) then 1 else 0) +
                   length (filter (fun p => absn (p.2) = n) (map_to_list (handles b1)))))
    (map_to_list (refc (mgr b1))) = true.
Proof. by vm_compute. Qed.
Print Assumptions C08f_or_full_table_dynamic.
