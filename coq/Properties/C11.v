(** * Property C11 — copying between managers ([copy_bdd], [_copy_bdd])
      preserves the function of the same-named variables, whatever the two
      variable orders.  Only statements closed by [exact]; proofs live in
      [Proofs/Subst.v]. *)
From DD Require Import Subst.
Local Open Scope string_scope.

(** [_copy_bdd].  [s0] is the manager the nodes are read from: the other
    manager when [src = Some s0], the initial state of the target itself when
    [src = None] ([rename]).  The level map needs to be defined only on the
    levels that label a node under [u] ([occurs]).  The assertions
    [p * v > 0], [q > 0], [r > 0] never fire; the only exception that can
    propagate is the reordering request. *)
Theorem C11_copy_bdd_rec_support fuel s0 src s u level_map cache r s' :
  Inv s0 → Inv s → valid s0 u → no_reorder s →
  (src = Some s0 ∨ (src = None ∧ extends s0 s)) →
  (∀ l, occurs s0 u l → ∃ l', level_map !! l = Some l' ∧ l' < nvars s) →
  ccache_ok s0 s level_map cache →
  nvars s0 - lvl_of s0 u < fuel →
  copy_bdd_rec fuel src u level_map cache s = (r, s') →
  Inv s' ∧ extends s s' ∧ frame s s' ∧
  match r with
  | Ok (x, cache') => valid s' x ∧ ccache_ok s0 s' level_map cache' ∧
        ((0 < x)%Z ↔ (0 < u)%Z) ∧
        ∀ a, D s' x a = D s0 u (lmap level_map a)
  | Err e => (e = ENeedsReordering ∧ is_Some (last_len s)) ∨
               (e = ERuntime ∧ is_Some (max_nodes s))
  end.
Proof. exact (copy_bdd_rec_spec_occ fuel s0 src s u level_map cache r s'). Qed.

(** the special case of a level map total on the declared source levels *)
Theorem C11_copy_bdd_rec fuel s0 src s u level_map cache r s' :
  Inv s0 → Inv s → valid s0 u → no_reorder s →
  (src = Some s0 ∨ (src = None ∧ extends s0 s)) →
  (∀ l, l < nvars s0 → ∃ l', level_map !! l = Some l' ∧ l' < nvars s) →
  ccache_ok s0 s level_map cache →
  nvars s0 - lvl_of s0 u < fuel →
  copy_bdd_rec fuel src u level_map cache s = (r, s') →
  Inv s' ∧ extends s s' ∧ frame s s' ∧
  match r with
  | Ok (x, cache') => valid s' x ∧ ccache_ok s0 s' level_map cache' ∧
        ((0 < x)%Z ↔ (0 < u)%Z) ∧
        ∀ a, D s' x a = D s0 u (lmap level_map a)
  | Err e => (e = ENeedsReordering ∧ is_Some (last_len s)) ∨
               (e = ERuntime ∧ is_Some (max_nodes s))
  end.
Proof. exact (copy_bdd_rec_spec fuel s0 src s u level_map cache r s'). Qed.

(** every level that occurs under a reference is a declared level *)
Theorem C11_occurs_declared s u l : Inv s → occurs s u l → l < nvars s.
Proof. exact (occurs_lt s u l). Qed.

(** [copy_bdd(u, from_bdd, to_bdd)] for two managers with arbitrary orders,
    dynamic reordering disabled in the target, every source variable in the
    support of [u] declared in the target (otherwise Python raises
    [KeyError]): same function of the same-named variables; the source is only
    read; the target only grows. *)
Theorem C11_copy_correct_support src s u r s' :
  Inv src → Inv s → valid src u → last_len s = None → max_nodes s = None →
  (∀ v l, vars src !! v = Some l → occurs src u l → is_Some (vars s !! v)) →
  copy_bdd src u s = (r, s') →
  ∃ x, r = Ok x ∧ Inv s' ∧ extends s s' ∧ valid s' x ∧
    ∀ ρ, denv s' x ρ = denv src u ρ.
Proof. exact (copy_bdd_spec_occ src s u r s'). Qed.

Theorem C11_copy_correct src s u r s' :
  Inv src → Inv s → valid src u → last_len s = None → max_nodes s = None →
  (∀ v l, vars src !! v = Some l → is_Some (vars s !! v)) →
  copy_bdd src u s = (r, s') →
  ∃ x, r = Ok x ∧ Inv s' ∧ extends s s' ∧ valid s' x ∧
    ∀ ρ, denv s' x ρ = denv src u ρ.
Proof. exact (copy_bdd_spec src s u r s'). Qed.

(** Non-vacuity, by running the model.  Manager 0 has the order v0 < v1 < v2
    and 7 = (v0 /\ v1) \/ v2, 8 = (v0 <-> v2).  Manager 1 has the order
    v1 < v2 < v0 and is empty: the copy of ~7 creates nodes, and building
    (v0 /\ v1) \/ v2 afterwards in manager 1 returns the copied node
    (canonicity).  Manager 2 only declares v2 < v0: copying 7 (support
    v0, v1, v2) is Python's KeyError, copying 8 (support v0, v2) succeeds. *)
Example C11_nonvacuous :
  let run m := fold_left (fun w o => fst (step w m o)) in
  let w := run 0 [ONew [(0, 0); (1, 1); (2, 2)]; OVar 0; OVar 1; OVar 2;
                  OApply "and" 2 (Some 3%Z) None; OApply "\/" 5 (Some 4%Z) None;
                  OApply "xor" 2 (Some 4%Z) None] world_empty in
  let w := run 1 [ONew [(0, 2); (1, 0); (2, 1)]] w in
  let w := run 2 [ONew [(2, 0); (0, 1)]] w in
  mem 7 (world_get w 0) = true ∧ last_len (world_get w 1) = None ∧
  len (world_get w 1) = 1 ∧
  snd (step w 1 (OCopy 0 (-7))) = Ok (VZ (-7)) ∧
  (let w' := fst (step w 1 (OCopy 0 (-7))) in
   len (world_get w' 1) = 7 ∧
   let w' := run 1 [OVar 0; OVar 1; OVar 2; OApply "and" 5 (Some 3%Z) None] w' in
   snd (step w' 1 (OApply "or" 8 (Some 2%Z) None)) = Ok (VZ 7)) ∧
  snd (step w 2 (OCopy 0 7)) = Err EKey ∧
  snd (step w 2 (OCopy 0 8)) = Ok (VZ 4).
Proof. by vm_compute. Qed.
