(** * Property C05 — [add_expr] reads a formula of the documented grammar
      with the documented operator meanings, precedence, associativity,
      quantifiers, renaming, [ite(...)], constants and [@n] references;
      all spellings of an operator mean the same; [add_expr(to_expr(u))]
      is [u] again.  Only statements closed by [exact]; proofs live in
      [Proofs/ParserTablesOk.v], [Proofs/ParsePrint.v], [Proofs/ExprSem.v].

      Vocabulary:
      - [lex_alias], [reserved_words], [code_prec], [productions],
        [doc_prec], [doc_meanings]: regenerated from dd/_parser.py and
        doc.md on every run ([Generated/ParserTables.v]);
      - [parse P ts]: the model parser (precedence climbing, generic in the
        table [P]); [lex l]: [lex_all lex_alias reserved_words l];
      - [conn_sem op]: the documented connective of an operator symbol
        ([Proofs/Apply.v], property C01);
      - [asem s a ρ]: the reading of the syntax tree [a] under the
        valuation [ρ] of the variables, [@n] meaning reference [n] of [s];
      - [ok_ast s a]: variables declared in [s], references existing in
        [s], operator symbols of the vocabulary. *)
From stdpp Require Import strings.
From DD Require Import Driver4 ExprSem.
Local Open Scope string_scope.

(** ** Part 1: the generated tables against the documentation (finite) *)

(** The precedence declared in the code is the documented order (lowest
    first), the binary levels are left associative, and every spelling the
    documentation lists at level [k] lexes to the token type of level [k]. *)
Theorem C05_code_prec_is_documented :
  (fun p => [p.2]) <$> code_prec =
    [["COLON"]; ["EQUIV"]; ["IMPLIES"]; ["MINUS"]; ["XOR"]; ["OR"]; ["AND"];
     ["EQUALS"]; ["NOT"]; ["UMINUS"]] ∧
  forallb (fun p => if bool_decide (p.2 ∈ left_types) then bool_decide (p.1 = "left") else true)
          code_prec = true ∧
  length doc_prec = length code_prec ∧
  forallb (fun kl => doc_level_ok kl.1 kl.2) (imap (fun k l => (k, l)) doc_prec) = true.
Proof. exact code_prec_is_documented. Qed.

(** Every spelling of an operator lexes to a canonical value whose
    connective [conn_sem] is the documented one of its token type (all 8
    valuations); the four documented equivalences hold between the parsed
    trees of their two sides. *)
Theorem C05_aliases_canonical :
  forallb alias_ok lex_alias = true ∧
  forallb type_has_spelling op_types = true ∧
  length doc_meanings = 4 ∧
  forallb meaning_ok doc_meanings = true.
Proof. exact aliases_canonical. Qed.

(** the documented connective of each operator token type *)
Theorem C05_type_sem_table :
  type_sem "AND" = Some (fun a b _ => a && b) ∧
  type_sem "OR" = Some (fun a b _ => a || b) ∧
  type_sem "XOR" = Some (fun a b _ => xorb a b) ∧
  type_sem "IMPLIES" = Some (fun a b _ => implb a b) ∧
  type_sem "EQUIV" = Some (fun a b _ => eqb a b) ∧
  type_sem "NOT" = Some (fun a _ _ => negb a) ∧
  type_sem "MINUS" = Some (fun a b _ => a && negb b).
Proof. by split_and!. Qed.

Theorem C05_reserved_constants :
  lex ["TRUE"; "FALSE"; "true"; "false"; "ite"] =
  Some [Tok "TRUE" "TRUE"; Tok "FALSE" "FALSE"; Tok "TRUE" "true"; Tok "FALSE" "false";
        Tok "ITE" "ite"] ∧
  forallb (fun kv => bool_decide (kv.2 ∈ ["TRUE"; "FALSE"; "ITE"])) reserved_words = true ∧
  parse code_prec [Tok "TRUE" "true"] = Some (ABool true) ∧
  parse code_prec [Tok "FALSE" "false"] = Some (ABool false).
Proof. exact reserved_constants. Qed.

Theorem C05_productions_expected : productions = expected_productions.
Proof. exact productions_expected. Qed.

Theorem C05_binary_productions :
  forallb (fun t => bool_decide ("expr : expr " +:+ t +:+ " expr" ∈ productions))
          binary_types = true ∧
  length (filter (fun p => String.prefix "expr : expr " p = true) productions)
    = length binary_types.
Proof. exact binary_productions_are_model_binary. Qed.

(** Every pair of binary-operator spellings: [a o1 b o2 c] is
    [(a o1 b) o2 c] when the documented level of [o1] is at least that of
    [o2] (left associativity at equal levels), [a o1 (b o2 c)] otherwise;
    negation binds tighter than every binary operator; the body of a
    quantifier or renaming extends as far as possible. *)
Theorem C05_all_precedence_pairs :
  (fun x => x.1.1) <$> binop_spellings =
    ["&&"; "&"; "/\"; "||"; "|"; "\/"; "=>"; "->"; "<=>"; "<->"; "#"; "^"; "="; "-"] ∧
  (fun x => x.1.1) <$> not_spellings = ["~"; "!"] ∧
  (fun x => x.1.1) <$> quant_spellings = ["\A"; "\E"] ∧
  forallb (fun o1 => forallb (pair_ok o1) binop_spellings) binop_spellings = true ∧
  forallb (fun n => forallb (not_ok n) binop_spellings) not_spellings = true ∧
  forallb (fun q => forallb (fun o1 => forallb (quant_ok q o1) binop_spellings)
                      binop_spellings) quant_spellings = true ∧
  forallb (fun o1 => forallb (rename_ok o1) binop_spellings) binop_spellings = true.
Proof. exact all_precedence_pairs. Qed.

(** ** Part 2: printing and parsing (unbounded) *)

(** For every precedence table in which the binder colon is below and the
    negation above every binary operator, every well-formed syntax tree is
    parsed back from its minimally parenthesised print, and from its fully
    parenthesised print; the parser's own fuel suffices. *)
Theorem C05_parse_print P tyof a :
  wf_prec P → wf_ast tyof a → parse P (print_ast P tyof a) = Some a.
Proof. exact (parse_print P tyof a). Qed.

Theorem C05_parse_print_full P tyof a :
  wf_prec P → wf_ast tyof a → parse P (print_full P tyof a) = Some a.
Proof. exact (parse_print_full P tyof a). Qed.

(** for any policy that omits parentheses only where the levels allow *)
Theorem C05_parse_print_gen P tyof par a :
  wf_prec P → par_ok P tyof par → wf_ast tyof a →
  parse P (print_gen P tyof par a) = Some a.
Proof. exact (parse_print_gen P tyof par a). Qed.

(** at the tables of the code *)
Theorem C05_code_prec_wf : wf_prec code_prec.
Proof. exact code_prec_wf. Qed.

Theorem C05_parse_print_code a :
  wf_ast code_tyof a → parse code_prec (print_ast code_prec code_tyof a) = Some a.
Proof. exact (parse_print_code a). Qed.

Theorem C05_parse_print_full_code a :
  wf_ast code_tyof a → parse code_prec (print_full code_prec code_tyof a) = Some a.
Proof. exact (parse_print_full_code a). Qed.

(** ** Part 3: the meaning of the evaluated tree *)

(** [eval_ast] (propositional operators, [ite], constants, [@n],
    quantifiers, renaming), for every manager satisfying the invariant,
    dynamic reordering disabled: the result denotes the reading of the tree;
    old references keep their meaning ([extends]). *)
Theorem C05_eval_ast_sem s a r s' :
  Inv s → last_len s = None → max_nodes s = None → ok_ast s a →
  eval_ast a s = (r, s') →
  ∃ u, r = Ok u ∧ Inv s' ∧ extends s s' ∧ last_len s' = None ∧
       max_nodes s' = None ∧ valid s' u ∧
       ∀ ρ, denv s' u ρ = asem s a ρ.
Proof. exact (eval_ast_sem s a r s'). Qed.

(** the reading, clause by clause *)
Theorem C05_asem_clauses s0 :
  (∀ b ρ, asem s0 (ABool b) ρ = b) ∧
  (∀ n ρ, asem s0 (AVar n) ρ = ρ (name_or_undeclared n)) ∧
  (∀ z ρ, asem s0 (ANum z) ρ = denv s0 z ρ) ∧
  (∀ op g a ρ, conn_sem op = Some g →
     asem s0 (AOp1 op a) ρ = g (asem s0 a ρ) false false) ∧
  (∀ op g a b ρ, conn_sem op = Some g →
     asem s0 (AOp2 op a b) ρ = g (asem s0 a ρ) (asem s0 b ρ) false) ∧
  (∀ a b c ρ, asem s0 (AIte a b c) ρ = if asem s0 a ρ then asem s0 b ρ else asem s0 c ρ) ∧
  (∀ op ns a ρ, asem s0 (AQuant op ns a) ρ =
     qbool (bool_decide (op = "\A")) (name_or_undeclared <$> ns) (asem s0 a) ρ) ∧
  (∀ subs a ρ, asem s0 (ASubst subs a) ρ =
     asem s0 a (fun x => ρ (ren (sub_ids subs) x))) ∧
  (∀ fa f ρ, qbool fa [] f ρ = f ρ) ∧
  (∀ x xs f ρ, qbool true (x :: xs) f ρ =
     qbool true xs f (upd ρ x true) && qbool true xs f (upd ρ x false)) ∧
  (∀ x xs f ρ, qbool false (x :: xs) f ρ =
     qbool false xs f (upd ρ x true) || qbool false xs f (upd ρ x false)).
Proof.
  split_and!; try done.
  - intros op g a ρ H. cbn [asem]. by rewrite H.
  - intros op g a b ρ H. cbn [asem]. by rewrite H.
Qed.

(** [add_expr] on the lexemes of a formula *)
Theorem C05_add_expr_sem lt rw P spellings ts a s r s' :
  Inv s → last_len s = None → max_nodes s = None →
  lex_all lt rw spellings = Some ts → parse P ts = Some a → ok_ast s a →
  add_expr lt rw P spellings s = (r, s') →
  ∃ u, r = Ok u ∧ Inv s' ∧ extends s s' ∧ last_len s' = None ∧
       max_nodes s' = None ∧ valid s' u ∧
       ∀ ρ, denv s' u ρ = asem s a ρ.
Proof. exact (add_expr_sem lt rw P spellings ts a s r s'). Qed.

(** [ok_ast] can be decided *)
Theorem C05_ok_astb_ok s0 a : ok_astb s0 a = true → ok_ast s0 a.
Proof. exact (ok_astb_ok s0 a). Qed.

(** ** [to_expr] *)

(** [to_expr u] succeeds without changing the manager (it creates no node:
    for every value of [max_nodes]); its text is the text of a syntax tree
    [a] whose evaluation — with an unbounded table — returns the very
    reference [u] (AST level) *)
Theorem C05_to_expr_roundtrip_ast s u :
  Inv s → valid s u → last_len s = None →
  ∃ a, to_expr_ast (S (S (nvars s))) u s = (Ok a, s) ∧
       to_expr u s = (Ok (expr_text a), s) ∧
       ∀ r s', max_nodes s = None → eval_ast a s = (r, s') →
         r = Ok u ∧ Inv s' ∧ extends s s' ∧ last_len s' = None ∧ max_nodes s' = None.
Proof. exact (to_expr_roundtrip_ast s u). Qed.

(** ... and the lexemes of that text, lexed with the code's tables, parsed
    with the code's precedence and evaluated by [add_expr], return [u].
    (Splitting the text into lexemes — PLY's regular expressions — is not
    part of the model: [te_spellings a] lists the lexemes of
    [expr_text a].) *)
Theorem C05_to_expr_roundtrip s u :
  Inv s → valid s u → last_len s = None →
  ∃ a, to_expr u s = (Ok (expr_text a), s) ∧
       lex (te_spellings a) = Some (te_tokens a) ∧
       parse code_prec (te_tokens a) = Some a ∧
       ∀ r s', max_nodes s = None → add_expr lex_alias reserved_words code_prec (te_spellings a) s = (r, s') →
         r = Ok u ∧ Inv s' ∧ extends s s' ∧ last_len s' = None ∧ max_nodes s' = None.
Proof. exact (to_expr_roundtrip s u). Qed.

(** ... and on the text itself, split into lexemes by the hand-written
    splitter [split_formula] (blanks separate; parentheses and commas stand
    alone): [add_expr_ (split (to_expr u))] returns [u]. *)
Theorem C05_to_expr_roundtrip_text s u :
  Inv s → valid s u → last_len s = None →
  ∃ txt, to_expr u s = (Ok txt, s) ∧
    ∀ r s', max_nodes s = None → add_expr_ (split_formula txt) s = (r, s') →
      r = Ok u ∧ Inv s' ∧ extends s s' ∧ last_len s' = None ∧ max_nodes s' = None.
Proof. exact (to_expr_roundtrip_text s u). Qed.

(** ** Non-vacuity: a manager with three variables; one formula in two
    different spellings gives the same reference; its tree satisfies
    [ok_ast]; [to_expr] of the result, split into lexemes and added again,
    gives the reference back. *)
Example C05_nonvacuous :
  let w0 := fst (step2 world2_empty 0 (O1 (ONew [(0, 0); (1, 1); (2, 2)]))) in
  let e1 := ["v0"; "/\"; "~"; "v1"; "\/"; "("; "\E"; "v2"; ":"; "v2"; "#"; "v1"; ")";
             "&&"; "!"; "v0"; "=>"; "ite"; "("; "v2"; ","; "FALSE"; ","; "v1"; ")"] in
  let e2 := ["v0"; "&"; "!"; "v1"; "|"; "("; "\E"; "v2"; ":"; "v2"; "^"; "v1"; ")";
             "&"; "~"; "v0"; "->"; "ite"; "("; "v2"; ","; "false"; ","; "v1"; ")"] in
  let w1 := fst (step_expr w0 0 e1) in
  let s0 := world2_get w0 0 in
  last_len s0 = None ∧ max_nodes s0 = None ∧
  parse_show e1 = Ok (VS
    "(=> (| (& v0 (! v1)) (& (\E [v2] (# v2 v1)) (! v0))) (ite v2 F v1))") ∧
  match lex e1 ≫= parse code_prec with
  | Some a => ok_astb s0 a = true
  | None => False
  end ∧
  snd (step_expr w0 0 e1) = Ok (VZ 9) ∧
  snd (step_expr w1 0 e2) = Ok (VZ 9) ∧
  match snd (step_to_expr w1 0 9) with
  | Ok (VS txt) => snd (step_expr w1 0 (split_formula txt)) = Ok (VZ 9)
  | _ => False
  end.
Proof. by vm_compute. Qed.
