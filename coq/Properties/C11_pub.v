(** * Property C11 for the PUBLIC entry point — [copy_bdd_pub] (the module
      function [dd.bdd.copy_bdd] as a user calls it: [_copy_bdd] runs with
      reordering requests disabled in the target and the threshold is
      restored afterwards, [guarded]) preserves the function of the
      same-named variables for ANY reordering threshold [last_len] of the
      target, i.e. with dynamic reordering enabled or disabled.  These are
      [C11_copy_correct_support] and [C11_copy_correct] of
      [Properties/C11.v] WITHOUT the hypothesis [last_len s = None], for the
      function the driver actually calls ([Model/Driver.v]: [OCopy]); the
      conclusion additionally says that the threshold is the same before and
      after.  As in [Properties/C11.v] the TARGET manager [s] has no node
      limit ([max_nodes s = None], the default; with a limit the call may
      also raise [RuntimeError] at a full table).  Only statements closed by
      [exact]; proofs live in [Proofs/PubCorrect.v]. *)
From DD Require Import PubCorrect.
Local Open Scope string_scope.

Theorem C11_pub_definition src u : copy_bdd_pub src u = guarded (copy_bdd src u).
Proof. exact eq_refl. Qed.

Theorem C11_copy_pub_correct_support src s u r s' :
  Inv src → Inv s → max_nodes s = None → valid src u →
  (∀ v l, vars src !! v = Some l → occurs src u l → is_Some (vars s !! v)) →
  copy_bdd_pub src u s = (r, s') →
  ∃ x, r = Ok x ∧ Inv s' ∧ extends s s' ∧ last_len s' = last_len s ∧ valid s' x ∧
    ∀ ρ, denv s' x ρ = denv src u ρ.
Proof. exact (copy_bdd_pub_spec_occ s src u r s'). Qed.

Theorem C11_copy_pub_correct src s u r s' :
  Inv src → Inv s → max_nodes s = None → valid src u →
  (∀ v l, vars src !! v = Some l → is_Some (vars s !! v)) →
  copy_bdd_pub src u s = (r, s') →
  ∃ x, r = Ok x ∧ Inv s' ∧ extends s s' ∧ last_len s' = last_len s ∧ valid s' x ∧
    ∀ ρ, denv s' x ρ = denv src u ρ.
Proof. exact (copy_bdd_pub_spec s src u r s'). Qed.

(** Non-vacuity, by running the model: the managers of [C11_nonvacuous]
    (manager 0: v0 < v1 < v2, 7 = (v0 /\ v1) \/ v2; manager 1: v1 < v2 < v0,
    empty) with dynamic reordering ENABLED in manager 1 and the threshold 1
    ([OSetLastLen] stands for a manager that has grown past twice its size
    at the last reordering): the second node creation requests a reordering.
    - the INNER [copy_bdd] does not return the copy: the decorated [ite]
      inside the recursion serves the request, the variable order of the
      target changes in the middle of the copy (v0 moves from level 2 to
      level 1), the half-built copy is collected, and the call ends with
      [KeyError];
    - the public one returns the copy (6 new nodes), the threshold is restored;
    - the truth tables by variable name (8 rows) agree;
    - the driver operation [OCopy] is the public one. *)
Example C11_pub_nonvacuous :
  let run m := fold_left (fun w o => fst (step w m o)) in
  let w := run 0 [ONew [(0, 0); (1, 1); (2, 2)]; OVar 0; OVar 1; OVar 2;
                  OApply "and" 2 (Some 3%Z) None; OApply "\/" 5 (Some 4%Z) None] world_empty in
  let w := run 1 [ONew [(0, 2); (1, 0); (2, 1)]; OConfigure (Some true);
                  OSetLastLen (Some 1)] w in
  let src := world_get w 0 in
  let s := world_get w 1 in
  let c := copy_bdd_pub src (-7) s in
  mem 7 src = true ∧ last_len s = Some 1 ∧ max_nodes s = None ∧ len s = 1 ∧ rctx s = false ∧
  fst (copy_bdd src (-7) s) = Err EKey ∧
  vars s !! 0 = Some 2 ∧ vars (snd (copy_bdd src (-7) s)) !! 0 = Some 1 ∧
  len (snd (copy_bdd src (-7) s)) = 1 ∧
  fst c = Ok (-7)%Z ∧ last_len (snd c) = Some 1 ∧ len (snd c) = 7 ∧
  vars (snd c) = vars s ∧
  (fun bits => denv (snd c) (-7) (fun v => nth v bits false)) <$> bitvectors 3 =
  (fun bits => denv src (-7) (fun v => nth v bits false)) <$> bitvectors 3 ∧
  snd (step w 1 (OCopy 0 (-7))) = Ok (VZ (-7)).
Proof. by vm_compute. Qed.

Print Assumptions C11_copy_pub_correct_support.
Print Assumptions C11_copy_pub_correct.
Print Assumptions C11_pub_nonvacuous.
