(** * Property C02 (copies) — [copy.copy(bdd)] ([BDD.__copy__]) and
      [BDD.reduction()] of dd/bdd.py build a NEW manager [BDD(self.vars)] that
      is again canonical and denotes, reference by reference, the functions of
      the old one.  Only statements closed by [exact]; the proofs live in
      [Proofs/CopyingOk.v] (model: [Model/Copying.v]).

    [vorder] is the iteration order of the [vars] dict and [order] that of
    the [_succ] dict.  The model checks that they are duplicate-free
    enumerations of what they stand for ([Err EOracle] otherwise), so the
    theorems hold for EVERY iteration order. *)
From DD Require Import Total CopyingOk.
Local Open Scope string_scope.

(** ** [__copy__] *)

(** the copy: node tables, reference counts, free index, variable order and
    roots of [s]; empty computed table; dynamic reordering off; the bound
    [max_nodes] of [s] *)
Theorem C02_copy_of_unfold s :
  copy_of s = St (succ s) (pred s) (refc s) (min_free s) ∅ (vars s) (lvl2var s)
                 None false (roots s) [] None (max_nodes s).
Proof. exact eq_refl. Qed.

(** totality: for every duplicate-free enumeration of the declared names the
    copy succeeds, and the result does not depend on the enumeration *)
Theorem C02_copy_total vorder s :
  Inv s → NoDup vorder → (list_to_set vorder : gset nat) = dom (vars s) →
  copy_manager vorder s = Ok (copy_of s).
Proof. exact (copy_manager_total vorder s). Qed.

(** an enumeration that is not a permutation is refused by the model *)
Theorem C02_copy_oracle vorder s :
  ¬ (NoDup vorder ∧ (list_to_set vorder : gset nat) = dom (vars s)) →
  copy_manager vorder s = Err EOracle.
Proof. exact (copy_manager_oracle vorder s). Qed.

(** whenever the copy succeeds: same tables, consistent, exact reference
    counts for every ledger of external references, same references valid,
    same denotations (by levels and by variable names) *)
Theorem C02_copy_spec vorder s b :
  Inv s → copy_manager vorder s = Ok b →
  NoDup vorder ∧ (list_to_set vorder : gset nat) = dom (vars s) ∧
  b = copy_of s ∧
  succ b = succ s ∧ pred b = pred s ∧ refc b = refc s ∧ min_free b = min_free s ∧
  vars b = vars s ∧ lvl2var b = lvl2var s ∧ roots b = roots s ∧
  ite_tab b = ∅ ∧ last_len b = None ∧ rctx b = false ∧
  max_nodes b = max_nodes s ∧
  Inv b ∧ (∀ L, Counts s L → Counts b L) ∧
  ∀ u, (valid b u ↔ valid s u) ∧ (∀ a, D b u a = D s u a) ∧ ∀ ρ, denv b u ρ = denv s u ρ.
Proof. exact (copy_manager_spec vorder s b). Qed.

(** ** [reduction]
    [Reduced s b umap]: [b] is the new manager and [umap] the map from the
    nodes of the old manager [s] (ALL of them, also unreferenced ones) to
    references of [b]. *)
Theorem C02_Reduced_unfold s b umap :
  Reduced s b umap ↔
  Inv b ∧ vars b = vars s ∧ lvl2var b = lvl2var s ∧ last_len b = None ∧ rctx b = false ∧
  max_nodes b = None ∧
  dom umap = dom (succ s) ∧
  (∀ n x, umap !! n = Some x →
     valid b x ∧ (0 < x)%Z ∧ (∀ a, D b x a = D s (Z.pos n) a) ∧
     ∀ ρ, denv b x ρ = denv s (Z.pos n) ρ) ∧
  ∃ rs, roots b = remove_dups (merge_sort Z.le rs) ∧
     Forall2 (fun v x => valid b x ∧ (∃ p, umap !! absn v = Some p ∧ x = flip p v) ∧
                         (∀ a, D b x a = D s v a) ∧ ∀ ρ, denv b x ρ = denv s v ρ)
             (roots s) rs.
Proof. exact (Reduced_unfold s b umap). Qed.

(** [reduction] does not fail (every child is translated before its parent,
    [find_or_add] can neither request a reordering nor find the table full in
    the new manager, which has no bound [max_nodes] whatever the bound of the
    old one, the result of every node is a positive reference) and the old manager is EXACTLY
    what it was: the decorator [_try_to_reorder] restores the context flag
    and the body only reads.  No hypothesis on reference counts, on
    [last_len s] or on [max_nodes s]. *)
Theorem C02_reduction_total vorder order s :
  Inv s → Forall (valid s) (roots s) →
  NoDup vorder → (list_to_set vorder : gset nat) = dom (vars s) →
  NoDup order → (list_to_set order : gset positive) = dom (succ s) →
  ∃ b umap, reduction vorder order s = (Ok b, s) ∧ Reduced s b umap.
Proof. exact (reduction_total vorder order s). Qed.

Theorem C02_reduction_spec vorder order s r s' :
  Inv s → Forall (valid s) (roots s) →
  NoDup vorder → (list_to_set vorder : gset nat) = dom (vars s) →
  NoDup order → (list_to_set order : gset positive) = dom (succ s) →
  reduction vorder order s = (r, s') →
  s' = s ∧ ∃ b umap, r = Ok b ∧ Reduced s b umap.
Proof. exact (reduction_spec vorder order s r s'). Qed.

(** an enumeration that is not a permutation is refused by the model *)
Theorem C02_reduction_oracle vorder order s :
  ¬ (NoDup order ∧ (list_to_set order : gset positive) = dom (succ s)) ∨
  ¬ (NoDup vorder ∧ (list_to_set vorder : gset nat) = dom (vars s)) →
  reduction vorder order s = (Err EOracle, s).
Proof. exact (reduction_oracle vorder order s). Qed.

(** the hypothesis on the roots is needed: a root that is no node of the old
    manager is a [KeyError] *)
Theorem C02_reduction_bad_root vorder order s :
  Inv s →
  NoDup vorder → (list_to_set vorder : gset nat) = dom (vars s) →
  NoDup order → (list_to_set order : gset positive) = dom (succ s) →
  (∃ v, v ∈ roots s ∧ succ s !! absn v = None) →
  reduction vorder order s = (Err EKey, s).
Proof. exact (reduction_bad_root vorder order s). Qed.

(** every node of the old manager is translated to a positive reference of
    the new one with the same function of the variable names *)
Theorem C02_reduced_node s b umap :
  Reduced s b umap → ∀ n, is_Some (succ s !! n) →
  ∃ x, umap !! n = Some x ∧ valid b x ∧ (0 < x)%Z ∧
       ∀ ρ, denv b x ρ = denv s (Z.pos n) ρ.
Proof. exact (reduced_node s b umap). Qed.

(** two old nodes with the same function have the same translation
    (canonicity of the new manager; no hypothesis on [s]) ... *)
Theorem C02_reduced_canonical s b umap :
  Reduced s b umap → ∀ n1 n2 x1 x2,
  umap !! n1 = Some x1 → umap !! n2 = Some x2 →
  (∀ ρ, denv s (Z.pos n1) ρ = denv s (Z.pos n2) ρ) → x1 = x2.
Proof. exact (reduced_canonical s b umap). Qed.

(** ... and in a consistent old manager distinct nodes are distinct
    functions, so the translation is injective *)
Theorem C02_reduced_injective s b umap :
  Reduced s b umap → ∀ n1 n2 x, Inv s →
  umap !! n1 = Some x → umap !! n2 = Some x → n1 = n2.
Proof. exact (reduced_injective s b umap). Qed.

(** the roots of the new manager: sorted, duplicate-free, exactly the
    translations of the old roots *)
Theorem C02_reduced_roots s b umap :
  Reduced s b umap →
  StronglySorted Z.le (roots b) ∧ NoDup (roots b) ∧
  (∀ x, x ∈ roots b → valid b x ∧ ∃ v, v ∈ roots s ∧ ∀ ρ, denv b x ρ = denv s v ρ) ∧
  (∀ v, v ∈ roots s → ∃ x, x ∈ roots b ∧ ∀ ρ, denv b x ρ = denv s v ρ).
Proof. exact (reduced_roots s b umap). Qed.

Print Assumptions C02_copy_total.
Print Assumptions C02_copy_oracle.
Print Assumptions C02_copy_spec.
Print Assumptions C02_Reduced_unfold.
Print Assumptions C02_reduction_total.
Print Assumptions C02_reduction_spec.
Print Assumptions C02_reduction_oracle.
Print Assumptions C02_reduction_bad_root.
Print Assumptions C02_reduced_node.
Print Assumptions C02_reduced_canonical.
Print Assumptions C02_reduced_injective.
Print Assumptions C02_reduced_roots.

(** ** Examples (by evaluation).  Three variables declared with levels
    v0:1, v1:0, v2:2.  Node 5 is [v0 <-> v1], node 8 is [(v0 <-> v1) \/ ~v2]
    (so [-8] is [(v0 xor v1) /\ v2]); nodes 6 and 7 are intermediate results,
    node 3 (the variable v1) is unreferenced.  The caller holds [-8] and [5]
    and names them as roots: one root is a complemented reference. *)
Definition ex_hist : list op :=
  [ONew [(0, 1); (1, 0); (2, 2)]; OVar 0; OVar 1; OVar 2;
   OApply "xor" 2 (Some 3%Z) None; OApply "\/" 5 (Some (-4)%Z) None;
   OIncref (-8); OIncref 5].
Definition ex_s : st :=
  world_get (run world_empty 0 ex_hist) 0 <| roots := [(-8)%Z; 5%Z] |>.

(** the hypotheses of the theorems hold for it *)
Example C02_copy_example_hypotheses :
  (Inv ex_s ∧ ∃ L, Counts ex_s L) ∧ Forall (valid ex_s) (roots ex_s) ∧
  len ex_s = 8 ∧ bool_decide (ite_tab ex_s = ∅) = false.
Proof.
  assert (HG : Good (world_get (run world_empty 0 ex_hist) 0)).
  { apply run_inv_from_new; [done|]. cbn [hist_ok ex_hist].
    repeat (split; [by vm_compute|]).
    repeat (split; [vm_compute; try done; by intros|]). done. }
  destruct HG as (HI&_&HC). split; [|split; [|by vm_compute]].
  - unfold ex_s. revert HI HC. generalize (world_get (run world_empty 0 ex_hist) 0).
    intros s0 HI HC. split; [|exact HC]. eapply Inv_same; [|exact HI]. by repeat split.
  - change (roots ex_s) with [(-8)%Z; 5%Z].
    constructor; [apply mem_valid; by vm_compute|].
    constructor; [apply mem_valid; by vm_compute|]. constructor.
Qed.

Definition names3 : list (nat → bool) :=
  (fun '(x, y, z) => fun v : nat =>
     match v with 0 => x | 1 => y | 2 => z | _ => false end) <$>
  [(false, false, false); (false, false, true); (false, true, false);
   (false, true, true); (true, false, false); (true, false, true);
   (true, true, false); (true, true, true)].

(** [__copy__] under two iteration orders of the [vars] dict: the same
    manager, with the tables of the source; a bad oracle is refused *)
Example C02_copy_example :
  match copy_manager [2; 0; 1] ex_s, copy_manager [0; 1; 2] ex_s with
  | Ok b1, Ok b2 => digest b1 = digest b2 ∧ roots b1 = roots b2
  | _, _ => False
  end ∧
  match copy_manager [2; 0; 1] ex_s with
  | Ok b =>
      bool_decide (succ b = succ ex_s ∧ pred b = pred ex_s ∧ refc b = refc ex_s ∧
                   min_free b = min_free ex_s ∧ vars b = vars ex_s ∧
                   lvl2var b = lvl2var ex_s ∧ roots b = [(-8)%Z; 5%Z] ∧
                   ite_tab b = ∅ ∧ last_len b = None ∧ rctx b = false) = true ∧
      (denv b (-8) <$> names3) = (denv ex_s (-8) <$> names3) ∧
      (denv b (-8) <$> names3) = [false; false; false; true; false; true; false; false]
  | Err _ => False
  end ∧
  copy_manager [2; 0] ex_s = Err EOracle ∧
  copy_manager [2; 0; 0; 1] ex_s = Err EOracle ∧
  copy_manager [0; 1; 2; 3] ex_s = Err EOracle.
Proof. by vm_compute. Qed.

(** [reduction] under two pairs of iteration orders.  The nodes of the new
    manager are numbered in the order in which they are met, so the two
    results differ as tables; in both the old manager is untouched, all 8
    nodes are rebuilt, and the (sorted) roots denote the functions of the old
    roots [-8] and [5]. *)
Example C02_reduction_example :
  let r1 := reduction [2; 0; 1] [8; 3; 1; 6; 7; 4; 2; 5]%positive ex_s in
  let r2 := reduction [0; 1; 2] [1; 2; 3; 4; 5; 6; 7; 8]%positive ex_s in
  digest (snd r1) = digest ex_s ∧ roots (snd r1) = roots ex_s ∧
  digest (snd r2) = digest ex_s ∧ roots (snd r2) = roots ex_s ∧
  match fst r1, fst r2 with
  | Ok b1, Ok b2 =>
      roots b1 = [(-6)%Z; 8%Z] ∧ roots b2 = [(-8)%Z; 7%Z] ∧
      len b1 = 8 ∧ len b2 = 8 ∧
      bool_decide (vars b1 = vars ex_s ∧ lvl2var b1 = lvl2var ex_s ∧
                   vars b2 = vars ex_s ∧ lvl2var b2 = lvl2var ex_s ∧
                   ite_tab b1 = ∅ ∧ last_len b1 = None ∧ rctx b1 = false) = true ∧
      (denv b1 (-6) <$> names3) = (denv ex_s (-8) <$> names3) ∧
      (denv b1 8 <$> names3) = (denv ex_s 5 <$> names3) ∧
      (denv b2 (-8) <$> names3) = (denv ex_s (-8) <$> names3) ∧
      (denv b2 7 <$> names3) = (denv ex_s 5 <$> names3) ∧
      (denv ex_s 5 <$> names3) = [true; true; false; false; false; false; true; true] ∧
      bool_decide (succ b1 = succ b2) = false
  | _, _ => False
  end.
Proof. by vm_compute. Qed.

(** bad oracles, and a root that is no node *)
Example C02_reduction_refused :
  fst (reduction [2; 0; 1] [8; 3; 1]%positive ex_s) = Err EOracle ∧
  fst (reduction [2; 0; 1] [8; 3; 1; 6; 7; 4; 2; 5; 5]%positive ex_s) = Err EOracle ∧
  fst (reduction [2; 0] [8; 3; 1; 6; 7; 4; 2; 5]%positive ex_s) = Err EOracle ∧
  digest (snd (reduction [2; 0] [8; 3; 1]%positive ex_s)) = digest ex_s ∧
  fst (reduction [2; 0; 1] [8; 3; 1; 6; 7; 4; 2; 5]%positive (ex_s <| roots := [77%Z] |>))
    = Err EKey.
Proof. by vm_compute. Qed.

(** the world steps: manager 1 becomes the copy / the reduction of manager 0,
    which keeps its digest *)
Example C02_copy_world_steps :
  let w := World2 {[0 := ex_s]} ∅ ∅ in
  let wc := step_copy_manager w 1 0 [1; 2; 0] in
  let wr := step_reduction w 1 0 [1; 2; 0] [5; 2; 4; 7; 6; 1; 3; 8]%positive in
  snd wc = Ok VU ∧ snd wr = Ok VU ∧
  digest (world2_get (fst wc) 0) = digest ex_s ∧
  digest (world2_get (fst wr) 0) = digest ex_s ∧
  roots (world2_get (fst wc) 1) = [(-8)%Z; 5%Z] ∧
  d_succ (digest (world2_get (fst wc) 1)) = d_succ (digest ex_s) ∧
  len (world2_get (fst wr) 1) = 8 ∧
  snd (step_copy_manager w 1 0 [1; 2]) = Err EOracle ∧
  snd (step_reduction w 1 0 [1; 2; 0] [5; 2]%positive) = Err EOracle.
Proof. by vm_compute. Qed.

(** the bound [max_nodes]: copied by [__copy__], absent in the reduction
    (here the old manager is full: 8 nodes, bound 9) *)
Example C02_copy_max_nodes :
  let s9 := ex_s <| max_nodes := Some 9%positive |> in
  match copy_manager [2; 0; 1] s9 with
  | Ok b => max_nodes b = Some 9%positive
  | Err _ => False
  end ∧
  match fst (reduction [2; 0; 1] [8; 3; 1; 6; 7; 4; 2; 5]%positive s9) with
  | Ok b => max_nodes b = None ∧ len b = 8
  | Err _ => False
  end.
Proof. by vm_compute. Qed.
