(** * Property C05 (continued) — [add_expr] / [to_expr] of a [dd.autoref]
      manager ("for both dd.bdd and dd.autoref managers").

    The theorems of [Properties/C05.v] are about the [dd.bdd] manager.  The
    [dd.autoref] methods are wrappers ([Model/Driver4.v]):
    - [autoref.BDD.add_expr(e)] = [astep_expr w m spellings]: parse and
      evaluate on the wrapped manager, wrap the integer in a new [Function]
      (handle), and — as after every call of the driver — empty the oracle
      tape of the model;
    - [autoref.BDD.to_expr(u)] = [astep_to_expr w m h]: look up the handle,
      membership check, [dd.bdd.BDD.to_expr] of its node.
    They are not operations of the alphabet [aop] of [Properties/C08.v];
    here they get the guarantees of that alphabet ([AInv] kept, every live
    [Function] kept with its node and its function, counters exact) and the
    meaning theorems of C05.  Dynamic reordering is disabled ([AInv] contains
    [last_len = None]), as in [C05_add_expr_sem]; the last theorem is the
    total statement with reordering possibly enabled.
    Node limit ([bdd.max_nodes] of the wrapped manager): the theorems that
    conclude that [add_expr] SUCCEEDS ([C05a_add_expr], and the round trips
    in [C05a_to_expr], [C05a_to_expr_text]) assume an unbounded table,
    [max_nodes (mgr a) = None] (in the latter two the hypothesis guards the
    round trip only: [to_expr] itself is read-only and succeeds for any
    limit); the total statements ([C05a_add_expr_any],
    [C05a_add_expr_any_dynamic], the syntax error, the dead handle) hold for
    any limit: the error may then be [ERuntime] (the [RuntimeError] of a full
    table), and then no handle is created.
    Only statements closed by [exact]; proofs live in [Proofs/AutorefExpr.v]
    (and [Proofs/AddExprTotal.v], see [Properties/C17_add_expr.v]). *)
From stdpp Require Import strings.
From DD Require Import AutorefExpr.
Local Open Scope string_scope.

(** ** Vocabulary *)

(** the wrapper methods as the driver runs them *)
Theorem C05a_astep_expr_unfold w m sp :
  astep_expr w m sp =
  let a := default empty_ast (w !! m) in
  let '(r, a') := (u <- lift (add_expr_ sp) ;; h <- wrap u ;; ret (VN h)) a in
  (<[m := a' <| mgr := (mgr a') <| tape := [] |> |>]> w, r).
Proof. exact eq_refl. Qed.
Print Assumptions C05a_astep_expr_unfold.

Theorem C05a_astep_to_expr_unfold w m h :
  astep_to_expr w m h =
  let a := default empty_ast (w !! m) in
  let '(r, a') := (u <- node_of h ;; check_in u ;;; e <- lift (to_expr u) ;; ret (VS e)) a in
  (<[m := a']> w, r).
Proof. exact eq_refl. Qed.
Print Assumptions C05a_astep_to_expr_unfold.

(** every [Function] that was alive is still alive, on the same node, which
    is still a node of the manager and denotes the same function (by
    variable names); it implies [AKeep o] of C08 for every [o] *)
Theorem C05a_AKeepAll_unfold a a' :
  AKeepAll a a' ↔
  ∀ h u, handles a !! h = Some u →
    handles a' !! h = Some u ∧ valid (mgr a') u ∧
    ∀ ρ, denv (mgr a') u ρ = denv (mgr a) u ρ.
Proof. exact (conj (fun H => H) (fun H => H)). Qed.
Print Assumptions C05a_AKeepAll_unfold.

Theorem C05a_AKeepAll_AKeep o a a' : AKeepAll a a' → AKeep o a a'.
Proof. exact (AKeepAll_AKeep o a a'). Qed.
Print Assumptions C05a_AKeepAll_AKeep.

(** [hledger a k]: the number of live handles on node [k] (plus one for the
    terminal): [C08_hledger_unfold]; [AInv a] says that the counter of every
    node is its in-degree plus [hledger a]: [C08_AInv_unfold],
    [C08_counts_exact] *)

(** ** 1. [add_expr] on the spellings of an accepted formula.
    The result is the FRESH handle [next_hid a] (not in the table before); it
    is on a node [u] of the manager that denotes the reading [asem] of the
    tree (by variable names; [@n] read in the manager before the call); the
    table is the old one plus this handle; the invariant holds; every
    previously live handle keeps node, validity and function; exactly one
    new reference, on the node of the new handle; the other managers of the
    world are untouched. *)
Theorem C05a_add_expr w m sp ts (t : Parser.ast) :
  let a := aworld_get w m in
  let w' := fst (astep_expr w m sp) in
  let a' := aworld_get w' m in
  AInv a → max_nodes (mgr a) = None →
  lex sp = Some ts → parse code_prec ts = Some t → ok_ast (mgr a) t →
  ∃ u, snd (astep_expr w m sp) = Ok (VN (next_hid a)) ∧
    handles a !! next_hid a = None ∧
    handles a' = <[next_hid a := u]> (handles a) ∧
    next_hid a' = S (next_hid a) ∧
    valid (mgr a') u ∧ (∀ ρ, denv (mgr a') u ρ = asem (mgr a) t ρ) ∧
    AInv a' ∧ AKeepAll a a' ∧ extends (mgr a) (mgr a') ∧
    (∀ k, hledger a' k = hledger a k + (if decide (k = absn u) then 1 else 0)) ∧
    (∀ m', m' ≠ m → aworld_get w' m' = aworld_get w m').
Proof. exact (astep_expr_sem w m sp ts t). Qed.
Print Assumptions C05a_add_expr.

(** the counters afterwards, spelled out: in-degree + old handles + the new one *)
Theorem C05a_counts_after a a' u : AInv a' →
  (∀ k, hledger a' k = hledger a k + (if decide (k = absn u) then 1 else 0)) →
  ∀ n, n ∈ dom (succ (mgr a')) →
    refc (mgr a') !! n =
    Some (indeg (succ (mgr a')) n + hledger a n + (if decide (n = absn u) then 1 else 0)).
Proof. exact (counts_after_new a a' u). Qed.
Print Assumptions C05a_counts_after.

(** ** 2. [add_expr] on ANY spellings (lexing, parsing, evaluation may fail:
    syntax errors, undeclared names, unknown references, unknown operators),
    either outcome: the invariant and every live handle are kept; a success
    creates exactly the fresh handle [next_hid a]; on failure NO handle is
    created (table and next identifier unchanged) and the error is not the
    reordering signal (it may be [ERuntime], a full table). *)
Theorem C05a_add_expr_any w m sp :
  let a := aworld_get w m in
  let w' := fst (astep_expr w m sp) in
  let a' := aworld_get w' m in
  AInv a →
  AInv a' ∧ AKeepAll a a' ∧ extends (mgr a) (mgr a') ∧
  (∀ m', m' ≠ m → aworld_get w' m' = aworld_get w m') ∧
  match snd (astep_expr w m sp) with
  | Ok v =>
      ∃ u, v = VN (next_hid a) ∧ handles a !! next_hid a = None ∧
        handles a' = <[next_hid a := u]> (handles a) ∧
        next_hid a' = S (next_hid a) ∧ valid (mgr a') u ∧
        ∀ k, hledger a' k = hledger a k + (if decide (k = absn u) then 1 else 0)
  | Err e =>
      e ≠ ENeedsReordering ∧ handles a' = handles a ∧ next_hid a' = next_hid a
  end.
Proof. exact (astep_expr_any w m sp). Qed.
Print Assumptions C05a_add_expr_any.

(** a syntax error (see [C17e_syntax_error_unfold]): [ValueError]; of the
    whole wrapper state only the oracle tape of the model is emptied (no
    invariant assumed) *)
Theorem C05a_add_expr_syntax_error w m sp :
  let a := aworld_get w m in
  let w' := fst (astep_expr w m sp) in
  syntax_error lex_alias reserved_words code_prec sp →
  snd (astep_expr w m sp) = Err EValue ∧
  aworld_get w' m = a <| mgr := (mgr a) <| tape := [] |> |> ∧
  ∀ m', m' ≠ m → aworld_get w' m' = aworld_get w m'.
Proof. exact (astep_expr_syntax_error w m sp). Qed.
Print Assumptions C05a_add_expr_syntax_error.

(** ** 3. [to_expr] of a live handle: succeeds, READ-ONLY (the wrapper state
    of the manager is the same, the other managers too); its text is the text
    of a tree [t] that the evaluator accepts and that means the function of
    the handle; [te_spellings t] are the lexemes of the text (also what the
    splitter [split_formula] gives); and the round trip: in any world whose
    manager [m] is in this state (e.g. the world after the call), [add_expr]
    of these lexemes returns the NEW handle [next_hid a] on the SAME node [u]
    (the table is the old one plus [next_hid a ↦ u]), with the invariant,
    every live handle kept, one more reference on that node. *)
Theorem C05a_to_expr w m h u :
  let a := aworld_get w m in
  let w' := fst (astep_to_expr w m h) in
  AInv a → handles a !! h = Some u →
  ∃ t : Parser.ast,
    snd (astep_to_expr w m h) = Ok (VS (expr_text t)) ∧
    aworld_get w' m = a ∧
    (∀ m', m' ≠ m → aworld_get w' m' = aworld_get w m') ∧
    ok_ast (mgr a) t ∧ (∀ ρ, asem (mgr a) t ρ = denv (mgr a) u ρ) ∧
    lex (te_spellings t) = Some (te_tokens t) ∧
    parse code_prec (te_tokens t) = Some t ∧
    split_formula (expr_text t) = te_spellings t ∧
    ∀ w1, max_nodes (mgr a) = None → aworld_get w1 m = a →
      let a2 := aworld_get (fst (astep_expr w1 m (te_spellings t))) m in
      snd (astep_expr w1 m (te_spellings t)) = Ok (VN (next_hid a)) ∧
      handles a !! next_hid a = None ∧
      handles a2 = <[next_hid a := u]> (handles a) ∧
      next_hid a2 = S (next_hid a) ∧
      AInv a2 ∧ AKeepAll a a2 ∧ extends (mgr a) (mgr a2) ∧
      (∀ ρ, denv (mgr a2) u ρ = denv (mgr a) u ρ) ∧
      (∀ k, hledger a2 k = hledger a k + (if decide (k = absn u) then 1 else 0)).
Proof. exact (astep_to_expr_live w m h u). Qed.
Print Assumptions C05a_to_expr.

(** the same on the text itself, in the world after the call:
    [add_expr(to_expr(f))] is a new [Function] on the node of [f] *)
Theorem C05a_to_expr_text w m h u :
  let a := aworld_get w m in
  let w' := fst (astep_to_expr w m h) in
  AInv a → handles a !! h = Some u →
  ∃ txt, snd (astep_to_expr w m h) = Ok (VS txt) ∧ aworld_get w' m = a ∧
    (max_nodes (mgr a) = None →
    let a2 := aworld_get (fst (astep_expr w' m (split_formula txt))) m in
    snd (astep_expr w' m (split_formula txt)) = Ok (VN (next_hid a)) ∧
    handles a !! next_hid a = None ∧
    handles a2 = <[next_hid a := u]> (handles a) ∧
    next_hid a ≠ h ∧ handles a2 !! h = Some u ∧ handles a2 !! next_hid a = Some u ∧
    AInv a2 ∧ AKeepAll a a2).
Proof. exact (astep_to_expr_text w m h u). Qed.
Print Assumptions C05a_to_expr_text.

(** a dead or unknown handle is refused ([KeyError] of the harness's handle
    table); nothing changes (no invariant assumed) *)
Theorem C05a_to_expr_dead w m h :
  let a := aworld_get w m in
  let w' := fst (astep_to_expr w m h) in
  handles a !! h = None →
  snd (astep_to_expr w m h) = Err EKey ∧ aworld_get w' m = a ∧
  ∀ m', m' ≠ m → aworld_get w' m' = aworld_get w m'.
Proof. exact (astep_to_expr_dead w m h). Qed.
Print Assumptions C05a_to_expr_dead.

(** ** 4. Dynamic reordering possibly ENABLED ([AInvDT] of C08b: [AInvD] and
    an empty oracle tape): any spellings, either outcome: the invariant and
    every live handle (node and function) are kept, neither the signal nor
    the oracle error reaches the caller, the reordering mode "off" is kept, a
    failure creates no handle.  (The MEANING of the result with reordering
    enabled is [C05d_add_expr_dynamic], [Properties/C05_autoref_dyn.v].) *)
Theorem C05a_add_expr_any_dynamic w m sp :
  let a := aworld_get w m in
  let w' := fst (astep_expr w m sp) in
  let a' := aworld_get w' m in
  AInvDT a →
  AInvDT a' ∧ AKeepAll a a' ∧
  snd (astep_expr w m sp) ≠ Err ENeedsReordering ∧ snd (astep_expr w m sp) ≠ Err EOracle ∧
  (last_len (mgr a) = None → last_len (mgr a') = None) ∧
  (∀ m', m' ≠ m → aworld_get w' m' = aworld_get w m') ∧
  match snd (astep_expr w m sp) with
  | Ok v => ∃ u, v = VN (next_hid a) ∧ handles a' = <[next_hid a := u]> (handles a) ∧
                 next_hid a' = S (next_hid a)
  | Err e => handles a' = handles a ∧ next_hid a' = next_hid a
  end.
Proof. exact (astep_expr_anyD w m sp). Qed.
Print Assumptions C05a_add_expr_any_dynamic.

(** ** Examples (by evaluation): [BDD({v0:0, v1:1, v2:2})] of dd.autoref;
    [f = add_expr("\E v2: (v0 <=> v2) /\ (v2 => ~ v1)")] (handle 0);
    [to_expr(f)]; [g = add_expr] of that text (handle 1): the two handles are
    on the same node, which now has two references; then failing calls (an
    undeclared name, a syntax error) leave the handle table unchanged, and
    [to_expr] of an unknown handle is refused. *)
Definition c05a_w0 : aworld := fst (astep aworld_empty 0 (ANew [(0, 0); (1, 1); (2, 2)])).
Definition c05a_e1 : list string :=
  ["\E"; "v2"; ":"; "("; "v0"; "<=>"; "v2"; ")"; "/\"; "("; "v2"; "=>"; "~"; "v1"; ")"].

Example C05a_example :
  let s1 := astep_expr c05a_w0 0 c05a_e1 in
  let s2 := astep_to_expr (fst s1) 0 0 in
  parse_show c05a_e1 = Ok (VS "(\E [v2] (& (<-> v0 v2) (=> v2 (! v1))))") ∧
  match lex c05a_e1 ≫= parse code_prec with
  | Some t => ok_astb (mgr (aworld_get c05a_w0 0)) t = true
  | None => False
  end ∧
  snd s1 = Ok (VN 0) ∧
  snd s2 = Ok (VS "(~ ite(v0, v1, FALSE))") ∧
  match snd s2 with
  | Ok (VS txt) =>
      let s3 := astep_expr (fst s2) 0 (split_formula txt) in
      let a3 := aworld_get (fst s3) 0 in
      snd s3 = Ok (VN 1) ∧
      handles a3 !! 0 = Some (-9)%Z ∧ handles a3 !! 1 = Some (-9)%Z ∧
      refc (mgr a3) !! 9%positive = Some 2 ∧
      (* an undeclared name: error after part of the formula was evaluated *)
      (let s4 := astep_expr (fst s3) 0 ["v0"; "/\"; "v7"] in
       snd s4 = Err EValue ∧
       handles (aworld_get (fst s4) 0) = handles a3 ∧
       next_hid (aworld_get (fst s4) 0) = next_hid a3) ∧
      (* a syntax error *)
      (let s5 := astep_expr (fst s3) 0 ["v0"; "/\"] in
       snd s5 = Err EValue ∧ adigest (aworld_get (fst s5) 0) = adigest a3) ∧
      (* an unknown handle *)
      snd (astep_to_expr (fst s3) 0 5) = Err EKey
  | _ => False
  end.
Proof. by vm_compute. Qed.

(** the hypotheses of [C05a_add_expr] hold for the first call of the example:
    the fresh manager satisfies [AInv] ([C08_new]) and is unbounded *)
Example C05a_example_AInv :
  AInv (aworld_get c05a_w0 0) ∧ max_nodes (mgr (aworld_get c05a_w0 0)) = None.
Proof. exact (conj (proj1 (astep_AInv aworld_empty 0 (ANew [(0, 0); (1, 1); (2, 2)])
                       ltac:(by vm_compute) ltac:(by intros [=]))) eq_refl). Qed.
Print Assumptions C05a_example_AInv.

(** the same manager with a node limit that is already reached
    ([max_nodes = 2]: the only node is the terminal): [add_expr] of an
    accepted formula raises [RuntimeError]; no handle is created
    ([C05a_add_expr_any]); a formula that needs no new node is still added *)
Example C05a_example_full_table :
  let a0 := aworld_get c05a_w0 0 in
  let w1 : aworld := <[0 := a0 <| mgr := (mgr a0) <| max_nodes := Some 2%positive |> |>]> c05a_w0 in
  let a1 := aworld_get w1 0 in
  let s1 := astep_expr w1 0 c05a_e1 in
  snd s1 = Err ERuntime ∧
  adigest (aworld_get (fst s1) 0) = adigest a1 ∧
  snd (astep_expr w1 0 ["TRUE"]) = Ok (VN 0).
Proof. by vm_compute. Qed.
