(** * C07b: reordering by sequences of adjacent swaps.

    Vocabulary ([Proofs/Sift1.v]):
    - [held L u]: [u] is the terminal or an externally referenced node
      ([0 < L (absn u)] for the ledger [L] of [Counts]);
    - [keepsH L s s']: every held reference is valid before and after and
      denotes the same function BY VARIABLE NAME;
    - [Gd L s := Inv s ∧ Counts s L ∧ last_len s = None];
    - [Stp L s s' := Gd L s' ∧ nvars s' = nvars s ∧ keepsH L s s' ∧
                      (nozero s → nozero s')]
      ([nozero]: no node other than the terminal has reference count 0);
    - [vperm π s s']: the level of every variable is mapped by [π];
    - [mv a b]: the level permutation "move level [a] to [b], shift the levels
      in between by one";
    - [Visited L s a p v]: [v] is the number of nodes of a state reached from
      [s] in which the moved variable sits at level [p].
    The error outcomes are [Err EOracle] (iteration-order oracle of the
    model; no Python counterpart) and, with a bounded table, [Err ERuntime]:
    a swap refused by the full-table pre-check ([RuntimeError] of dd, raised
    BEFORE the swap writes anything).  The theorems that describe a completed
    reordering are three-way; their MIDDLE disjunct says what holds when the
    reordering stops that way: the table is bounded ([is_Some (max_nodes s)]),
    and the manager is the one between two swaps — [Stp L s s'] (well formed,
    exact counts for the same ledger, every held reference keeps identity and
    function), the same declared variables, and for the top-level functions
    the same [rr] (the public entry points: [Inv], [Counts], [last_len]
    restored, [keepsH], [rr]).  The SAFETY theorems [C07b_reorder_safe],
    [C07b_reorder_pub_safe], [C07b_reorder_to_pairs_pub_safe],
    [C07b_apply_sifting_safe] state the same for every outcome; with an
    unbounded table ([max_nodes = None]) the outcome is excluded
    ([C07b_unbounded], [C07b_unbounded_reorder], [C07b_unbounded_reorder_to_pairs(_pub)]).
    [rr s := (rctx s, roots s, max_nodes s)]. *)
From DD Require Import SiftFull.

(** one adjacent swap, arguments in either order *)
Theorem C07b_swap_adj L s al i j r s' :
  Gd L s → levels_ok s al → j = i + 1 ∨ i = j + 1 → i < nvars s → j < nvars s →
  swap i j (Some al) s = (r, s') →
  r = Err EOracle ∨
  (r = Err ERuntime ∧ s' = s ∧ is_Some (max_nodes s)) ∨
  ∃ al', r = Ok ((len s, len s'), al') ∧ Stp L s s' ∧ levels_ok s' al' ∧
         vperm (tp i j) s s'.
Proof. exact (swap_adj L s al i j r s'). Qed.

(** a swap never leaves an unreferenced node behind *)
Theorem C07b_swap_nozero s x al L r s' :
  Inv s → Counts s L → last_len s = None → x + 1 < nvars s → levels_ok s al →
  swap x (x + 1) (Some al) s = (r, s') → r ≠ Err EOracle →
  nozero s → nozero s'.
Proof. exact (swap_nozero s x al L r s'). Qed.

(** [_shift(bdd, start, end, levels)] *)
Theorem C07b_shift_loop L s0 a (down : bool) : Inv s0 → ∀ n i al sizes s r s',
  Stp L s0 s → levels_ok s al → vperm (mv a i) s0 s →
  (if down then a ≤ i ∧ i + n < nvars s0 else i ≤ a ∧ n ≤ i ∧ i < nvars s0) →
  (∀ p v, (p, v) ∈ sizes → Visited L s0 a p v) →
  shift_loop n i down al sizes s = (r, s') →
  r = Err EOracle ∨
  (r = Err ERuntime ∧ is_Some (max_nodes s) ∧ Stp L s0 s' ∧
   dom (vars s') = dom (vars s0)) ∨
  ∃ sizes' al', r = Ok (sizes', al') ∧ Stp L s0 s' ∧ levels_ok s' al' ∧
    vperm (mv a (if down then i + n else i - n)) s0 s' ∧
    (∀ p v, (p, v) ∈ sizes' → Visited L s0 a p v) ∧
    (∀ p, p ∈ sizes.*1 → p ∈ sizes'.*1) ∧
    (0 < n → ∀ p, Sift1.between i (if down then i + n else i - n) p → p ∈ sizes'.*1) ∧
    (n = 0 → sizes' = sizes).
Proof. exact (shift_loop_full L s0 a down). Qed.

Theorem C07b_shift L s a e al r s' :
  Gd L s → levels_ok s al → a < nvars s → e < nvars s →
  shift a e al s = (r, s') →
  r = Err EOracle ∨
  (r = Err ERuntime ∧ is_Some (max_nodes s) ∧ Stp L s s' ∧
   dom (vars s') = dom (vars s)) ∨
  ∃ sizes al', r = Ok (sizes, al') ∧ Stp L s s' ∧ levels_ok s' al' ∧
    vperm (mv a e) s s' ∧
    (∀ p v, (p, v) ∈ sizes → Visited L s a p v) ∧
    (a ≠ e → ∀ p, Sift1.between a e p → p ∈ sizes.*1) ∧
    (a = e → sizes = []).
Proof. exact (shift_full L s a e al r s'). Qed.

(** the resulting [vars], exactly *)
Theorem C07b_vperm_exact π s s' :
  vperm π s s' → nvars s' = nvars s → vars s' = π <$> vars s.
Proof. exact (vperm_fmap π s s'). Qed.

(** the reordering functions never touch [_reordering_context], [roots] nor [max_nodes] *)
Theorem C07b_frame o : pres (reorder o).
Proof. exact (pres_reorder o). Qed.

(** [_sort_to_order(bdd, order)]: bubble sort by adjacent swaps *)
Theorem C07b_sort_to_order order s L r s' :
  Gd L s →
  dom order = dom (vars s) →
  (∀ v v' l, order !! v = Some l → order !! v' = Some l → v = v') →
  (∀ v l, order !! v = Some l → l < nvars s) →
  (∀ u, u ∈ roots s → held L u) →
  sort_to_order order s = (r, s') →
  r = Err EOracle ∨
  (r = Err ERuntime ∧ is_Some (max_nodes s) ∧ Stp L s s' ∧
   dom (vars s') = dom (vars s) ∧ rr s' = rr s) ∨
  (r = Ok tt ∧ Stp L s s' ∧ vars s' = order ∧ rr s' = rr s).
Proof. exact (sort_to_order_full order s L r s'). Qed.

Theorem C07b_sort_to_order_reject order s :
  nvars s ≠ size order → sort_to_order order s = (Err EValue, s).
Proof. exact (sort_to_order_reject order s). Qed.

(** [reorder_to_pairs(bdd, pairs)] *)
Theorem C07b_reorder_to_pairs pairs s L r s' :
  Gd L s →
  NoDup (pairs.*1 ++ pairs.*2) →
  (∀ v, v ∈ pairs.*1 ++ pairs.*2 → is_Some (vars s !! v)) →
  reorder_to_pairs pairs s = (r, s') →
  r = Err EOracle ∨
  (r = Err ERuntime ∧ is_Some (max_nodes s) ∧ Stp L s s' ∧
   dom (vars s') = dom (vars s) ∧ rr s' = rr s) ∨
  (r = Ok tt ∧ Stp L s s' ∧ dom (vars s') = dom (vars s) ∧ rr s' = rr s ∧
   ∀ x y, (x, y) ∈ pairs → adj s' x y).
Proof. exact (reorder_to_pairs_full pairs s L r s'). Qed.

(** ** Sifting.  Size canonicity: the number of nodes of a manager without
    unreferenced nodes is determined by the order and the held functions *)
Theorem C07b_size_determined L s1 s2 :
  Inv s1 → Inv s2 → Counts s1 L → Counts s2 L → nozero s1 → nozero s2 →
  nvars s1 = nvars s2 → same_held L s1 s2 → len s1 = len s2.
Proof. exact (size_determined L s1 s2). Qed.

(** [_reorder_var]: the assertions [mk == len] and [len <= m] hold *)
Theorem C07b_reorder_var L s var al r s' :
  Gd L s → nozero s → levels_ok s al → is_Some (vars s !! var) →
  reorder_var var al s = (r, s') →
  r = Err EOracle ∨
  (r = Err ERuntime ∧ is_Some (max_nodes s) ∧ Stp L s s' ∧
   dom (vars s') = dom (vars s)) ∨
  ∃ k al' lv, r = Ok (k, al') ∧ vars s !! var = Some lv ∧
    Stp L s s' ∧ levels_ok s' al' ∧ vperm (mv lv k) s s' ∧ len s' ≤ len s.
Proof. exact (reorder_var_full L s var al r s'). Qed.

(** [_apply_sifting] *)
Theorem C07b_apply_sifting s L r s' :
  Inv s → Counts s L → last_len s = None →
  apply_sifting s = (r, s') →
  r = Err EOracle ∨
  (r = Err ERuntime ∧ is_Some (max_nodes s) ∧ Stp L s s' ∧
   dom (vars s') = dom (vars s) ∧ rr s' = rr s) ∨
  (r = Ok tt ∧ Gd L s' ∧ nozero s' ∧ rr s' = rr s ∧
   dom (vars s') = dom (vars s) ∧ keepsH L s s' ∧ len s' ≤ len s).
Proof. exact (apply_sifting_full s L r s'). Qed.

(** the premise of the decorator theorems of [Proofs/Dynamic.v] *)
Theorem C07b_sifting_ok' : sifting_ok'.
Proof. exact sifting_ok'_holds. Qed.

(** sifting stopped by a full table: the manager is the one between two swaps *)
Theorem C07b_apply_sifting_safe s L r s' :
  Gd L s → apply_sifting s = (r, s') →
  r = Err EOracle ∨ (Stp L s s' ∧ dom (vars s') = dom (vars s) ∧ rr s' = rr s).
Proof. exact (apply_sifting_safe s L r s'). Qed.

(** with an unbounded table no reordering function raises the full-table error *)
Theorem C07b_unbounded o s r s' :
  max_nodes s = None → reorder_pub o s = (r, s') → max_nodes s' = None ∧ r ≠ Err ERuntime.
Proof. exact (nft_reorder_pub o s r s'). Qed.

Theorem C07b_unbounded_reorder o s r s' :
  max_nodes s = None → reorder o s = (r, s') → max_nodes s' = None ∧ r ≠ Err ERuntime.
Proof. exact (nft_reorder o s r s'). Qed.

Theorem C07b_unbounded_reorder_to_pairs p s r s' :
  max_nodes s = None → reorder_to_pairs p s = (r, s') →
  max_nodes s' = None ∧ r ≠ Err ERuntime.
Proof. exact (nft_reorder_to_pairs p s r s'). Qed.

Theorem C07b_unbounded_reorder_to_pairs_pub p s r s' :
  max_nodes s = None → reorder_to_pairs_pub p s = (r, s') →
  max_nodes s' = None ∧ r ≠ Err ERuntime.
Proof. exact (nft_reorder_to_pairs_pub p s r s'). Qed.

(** [reorder] with ANY argument never damages the manager *)
Theorem C07b_reorder_safe o s L r s' :
  Gd L s → reorder o s = (r, s') →
  r = Err EOracle ∨
  (Gd L s' ∧ dom (vars s') = dom (vars s) ∧ keepsH L s s' ∧ rr s' = rr s).
Proof. exact (reorder_safe o s L r s'). Qed.

(** the public entry points, for any setting of dynamic reordering *)
Theorem C07b_reorder_pub_safe o s L r s' :
  Inv s → Counts s L → reorder_pub o s = (r, s') →
  r = Err EOracle ∨
  (Inv s' ∧ Counts s' L ∧ last_len s' = last_len s ∧
   dom (vars s') = dom (vars s) ∧ keepsH L s s' ∧ rr s' = rr s).
Proof. exact (reorder_pub_safe o s L r s'). Qed.

Theorem C07b_reorder_to_pairs_pub_safe pairs s L r s' :
  Inv s → Counts s L → reorder_to_pairs_pub pairs s = (r, s') →
  r = Err EOracle ∨
  (Inv s' ∧ Counts s' L ∧ last_len s' = last_len s ∧
   dom (vars s') = dom (vars s) ∧ keepsH L s s' ∧ rr s' = rr s).
Proof. exact (reorder_to_pairs_pub_safe pairs s L r s'). Qed.

Theorem C07b_reorder_pub_sift s L r s' :
  Inv s → Counts s L → reorder_pub None s = (r, s') →
  r = Err EOracle ∨
  (r = Err ERuntime ∧ is_Some (max_nodes s) ∧ Inv s' ∧ Counts s' L ∧
   last_len s' = last_len s ∧ dom (vars s') = dom (vars s) ∧ keepsH L s s' ∧
   rr s' = rr s) ∨
  (r = Ok tt ∧ Inv s' ∧ Counts s' L ∧ last_len s' = last_len s ∧ nozero s' ∧
   dom (vars s') = dom (vars s) ∧ keepsH L s s' ∧ rr s' = rr s ∧ len s' ≤ len s).
Proof. exact (reorder_pub_sift_full s L r s'). Qed.

Theorem C07b_reorder_pub_order order s L r s' :
  Inv s → Counts s L →
  dom order = dom (vars s) →
  (∀ v v' l, order !! v = Some l → order !! v' = Some l → v = v') →
  (∀ v l, order !! v = Some l → l < nvars s) →
  (∀ u, u ∈ roots s → held L u) →
  reorder_pub (Some order) s = (r, s') →
  r = Err EOracle ∨
  (r = Err ERuntime ∧ is_Some (max_nodes s) ∧ Inv s' ∧ Counts s' L ∧
   last_len s' = last_len s ∧ dom (vars s') = dom (vars s) ∧ keepsH L s s' ∧
   rr s' = rr s) ∨
  (r = Ok tt ∧ Inv s' ∧ Counts s' L ∧ last_len s' = last_len s ∧ vars s' = order ∧
   keepsH L s s' ∧ rr s' = rr s).
Proof. exact (reorder_pub_order_full order s L r s'). Qed.

Theorem C07b_reorder_to_pairs_pub pairs s L r s' :
  Inv s → Counts s L →
  NoDup (pairs.*1 ++ pairs.*2) →
  (∀ v, v ∈ pairs.*1 ++ pairs.*2 → is_Some (vars s !! v)) →
  reorder_to_pairs_pub pairs s = (r, s') →
  r = Err EOracle ∨
  (r = Err ERuntime ∧ is_Some (max_nodes s) ∧ Inv s' ∧ Counts s' L ∧
   last_len s' = last_len s ∧ dom (vars s') = dom (vars s) ∧ keepsH L s s' ∧
   rr s' = rr s) ∨
  (r = Ok tt ∧ Inv s' ∧ Counts s' L ∧ last_len s' = last_len s ∧
   dom (vars s') = dom (vars s) ∧ keepsH L s s' ∧ rr s' = rr s ∧
   ∀ x y, (x, y) ∈ pairs → adj s' x y).
Proof. exact (reorder_to_pairs_pub_full pairs s L r s'). Qed.

(** with an empty oracle tape (the state between two driver operations)
    there is no oracle error *)
Theorem C07b_no_oracle o : nt (reorder_pub o).
Proof. exact (nt_reorder_pub o). Qed.

(** the [keeps_refs] shape of Proofs/AutorefInv.v, restricted to HELD nodes *)
Theorem C07b_reorder_pub_keeps_held o s L r s' :
  Inv s → last_len s = None → Counts s L → reorder_pub o s = (r, s') →
  r = Err EOracle ∨ keeps_held s L s'.
Proof. exact (reorder_pub_keeps_held o s L r s'). Qed.

(** the premise of the JSON loader with [load_order=True] *)
Theorem C07b_reorder_order_ok order s L :
  Inv s → Counts s L → last_len s = None → tape s = [] → max_nodes s = None →
  dom order = dom (vars s) →
  (∀ v v' l, order !! v = Some l → order !! v' = Some l → v = v') →
  (∀ v l, order !! v = Some l → l < nvars s) →
  (∀ u, u ∈ roots s → held L u) →
  ∃ s', reorder (Some order) s = (Ok tt, s') ∧
    Inv s' ∧ vars s' = order ∧ last_len s' = None ∧ Counts s' L ∧ keepsH L s s' ∧
    rr s' = rr s ∧ tape s' = [].
Proof. exact (reorder_order_ok order s L). Qed.

Theorem C07b_sifting_notape s L :
  Inv s → Counts s L → last_len s = None → tape s = [] → max_nodes s = None →
  ∃ s', reorder None s = (Ok tt, s') ∧ Inv s' ∧ Counts s' L ∧ last_len s' = None ∧
    nozero s' ∧ rr s' = rr s ∧ dom (vars s') = dom (vars s) ∧ keepsH L s s' ∧
    len s' ≤ len s ∧ tape s' = [].
Proof. exact (sifting_ok_notape s L). Qed.
