(** * Property C04 (first part) — [cofactor] substitutes constants and the
      single-variable [compose] substitutes a function for a variable.
      Only statements closed by [exact]; proofs live in [Proofs/Cofactor.v].

    Vocabulary (defined in [Proofs/Cofactor.v], restated below by
    [C04_definitions]):
    - [override values a]: the assignment [a] with the levels in
      [dom values] forced to their constants;
    - [upd a j b] (Sem.v): the assignment [a] with level [j] set to [b];
    - [ord_ok s u ord values]: the remaining sorted level list [ord] still
      contains every assigned level at or below (numerically [>=]) the level
      of [u];
    - [cache_ok], [cache_ok_c]: every memo entry is a correct answer. *)
From DD Require Import Cofactor.
Local Open Scope string_scope.

Theorem C04_definitions :
  (∀ values a j, override values a j =
      match values !! j with Some b => b | None => a j end) ∧
  (∀ s u ord values, ord_ok s u ord values ↔
      ∀ k, is_Some (values !! k) → lvl_of s u ≤ k → k ∈ ord) ∧
  (∀ s values cache, cache_ok s values cache ↔
      ∀ k x, cache !! k = Some x →
        valid s k ∧ valid s x ∧ lvl_of s k ≤ lvl_of s x ∧
        ∀ a, D s x a = D s k (override values a)) ∧
  (∀ s j cache, cache_ok_c s j cache ↔
      ∀ f g x, cache !! (f, g) = Some x →
        valid s f ∧ valid s g ∧ valid s x ∧
        lvl_of s f `min` lvl_of s g ≤ lvl_of s x ∧
        ∀ a, D s x a = D s f (upd a j (D s g a))).
Proof. exact (conj (λ _ _ _, eq_refl) (conj (λ _ _ _ _, reflexivity _)
         (conj (λ _ _ _, reflexivity _) (λ _ _ _, reflexivity _)))). Qed.

(** the arguments of the top-level call satisfy the recursion's invariants *)
Theorem C04_initial_arguments s u (lv : gmap nat bool) :
  ord_ok s u (sorted_levels (dom lv)) lv ∧ Sorted le (sorted_levels (dom lv)) ∧
  cache_ok s lv ∅ ∧ ∀ j, cache_ok_c s j ∅.
Proof.
  exact (conj (λ k Hk _, proj2 (elem_of_sorted_levels (dom lv) k)
                           (proj2 (elem_of_dom lv k) Hk))
        (conj (sorted_levels_sorted (dom lv))
        (conj (cache_ok_empty s lv) (cache_ok_c_empty s)))).
Qed.

(** [_cofactor]: every manager satisfying the invariant, every reference,
    every warm memo table, unbounded sizes.  The only exception that can
    escape is the reordering request. *)
Theorem C04_cofactor_rec fuel s u ord values cache r s' :
  Inv s → valid s u → no_reorder s →
  ord_ok s u ord values →
  cache_ok s values cache →
  nvars s - lvl_of s u < fuel →
  cofactor_rec fuel u ord values cache s = (r, s') →
  Inv s' ∧ extends s s' ∧ frame s s' ∧
  match r with
  | Ok (x, cache') => valid s' x ∧ lvl_of s u ≤ lvl_of s' x ∧ cache_ok s' values cache' ∧
        ∀ a, D s' x a = D s u (override values a)
  | Err e => (e = ENeedsReordering ∧ is_Some (last_len s)) ∨
               (e = ERuntime ∧ is_Some (max_nodes s))
  end.
Proof. exact (cofactor_rec_spec fuel s u ord values cache r s'). Qed.

(** the key mapping [_map_to_level] never modifies the manager *)
Theorem C04_map_to_level_pure {A} byname (kv : list (nat * A)) s r s' :
  map_to_level_dict byname kv s = (r, s') → s' = s.
Proof. exact (map_to_level_dict_state byname kv s r s'). Qed.

(** the public [cofactor] (dynamic reordering disabled): keys by name or by
    level, in any order, with duplicates; [lv] is the level dictionary that
    [_map_to_level] computed. *)
Theorem C04_cofactor_correct s u byname values lv r s' :
  Inv s → valid s u → last_len s = None → max_nodes s = None →
  map_to_level_dict byname values (s <| rctx := true |>) = (Ok lv, s <| rctx := true |>) →
  cofactor u byname values s = (r, s') →
  ∃ x, r = Ok x ∧ Inv s' ∧ extends s s' ∧ valid s' x ∧
       ∀ a, D s' x a = D s u (override lv a).
Proof. exact (cofactor_spec s u byname values lv r s'). Qed.

(** [_compose(f, j, g)]: substitution of the function of [g] for level [j]
    in [f].  Each call strictly increases [min (level f) (level g)], so fuel
    [nvars s + 1] suffices (the model's [compose] passes [2 * nvars s + 2]). *)
Theorem C04_compose_rec fuel s f_ j g cache r s' :
  Inv s → valid s f_ → valid s g → no_reorder s → j < nvars s →
  cache_ok_c s j cache →
  nvars s - (lvl_of s f_ `min` lvl_of s g) < fuel →
  compose_rec fuel f_ j g cache s = (r, s') →
  Inv s' ∧ extends s s' ∧ frame s s' ∧
  match r with
  | Ok (x, cache') => valid s' x ∧
        lvl_of s f_ `min` lvl_of s g ≤ lvl_of s' x ∧ cache_ok_c s' j cache' ∧
        ∀ a, D s' x a = D s f_ (upd a j (D s g a))
  | Err e => (e = ENeedsReordering ∧ is_Some (last_len s)) ∨
               (e = ERuntime ∧ is_Some (max_nodes s))
  end.
Proof. exact (compose_rec_spec fuel s f_ j g cache r s'). Qed.

Theorem C04_compose_fuel s f_ g :
  nvars s - (lvl_of s f_ `min` lvl_of s g) < S (S (2 * nvars s)).
Proof. exact (compose_fuel_ok s f_ g). Qed.

(** the public [compose] with a single substitution [{var: g}] *)
Theorem C04_compose_single_correct s f_ var g j r s' :
  Inv s → valid s f_ → valid s g → last_len s = None → max_nodes s = None →
  vars s !! var = Some j →
  compose f_ [(var, g)] s = (r, s') →
  ∃ x, r = Ok x ∧ Inv s' ∧ extends s s' ∧ valid s' x ∧
       ∀ a, D s' x a = D s f_ (upd a j (D s g a)).
Proof. exact (compose_spec s f_ var g j r s'). Qed.

(** Non-vacuity: three variables, node 7 = (v0 /\ v1) \/ v2, node 5 =
    v0 /\ v1, node 4 = v2, node 3 = v1.  The hypotheses hold, the model
    returns non-trivial results (a fresh node 8 = v0 \/ v2 among them), and
    the conclusions are observed on all 8 assignments. *)
Example C04a_nonvacuous :
  let w := fold_left (fun w o => fst (step w 0 o))
             [ONew [(0, 0); (1, 1); (2, 2)]; OVar 0; OVar 1; OVar 2;
              OApply "and" 2 (Some 3%Z) None; OApply "\/" 5 (Some 4%Z) None]
             world_empty in
  let s := world_get w 0 in
  let asg (n : nat) : nat → bool := Nat.testbit n in
  let all (P : (nat → bool) → bool) := forallb (fun n => P (asg n)) (seq 0 8) in
  mem 7 s = true ∧ mem 5 s = true ∧ mem 4 s = true ∧ last_len s = None ∧
  max_nodes s = None ∧
  vars s !! 1 = Some 1 ∧
  match fst (map_to_level_dict true [(1, true)] (s <| rctx := true |>)) with
  | Ok lv => map_to_list lv = [(1, true)]
  | Err _ => False
  end ∧
  (* cofactor *)
  snd (step w 0 (OCofactor 7 true [(1, true)])) = Ok (VZ 8) ∧
  snd (step w 0 (OCofactor 7 true [(1, false)])) = Ok (VZ 4) ∧
  snd (step w 0 (OCofactor (-7) true [(0, true); (2, false)])) = Ok (VZ (-3)) ∧
  (let s' := world_get (fst (step w 0 (OCofactor 7 true [(1, true)]))) 0 in
   succ s' !! 8%positive = Some (Triple 0 4 1) ∧
   all (fun a => bool_decide (D s' 8 a = D s 7 (override {[1 := true]} a))) = true) ∧
  (* compose *)
  snd (step w 0 (OCompose 7 [(1, (-4)%Z)])) = Ok (VZ 8) ∧
  snd (step w 0 (OCompose 7 [(0, 4%Z)])) = Ok (VZ 4) ∧
  snd (step w 0 (OCompose (-7) [(2, 5%Z)])) = Ok (VZ (-5)) ∧
  (let s' := world_get (fst (step w 0 (OCompose 7 [(1, (-4)%Z)]))) 0 in
   all (fun a => bool_decide (D s' 8 a = D s 7 (upd a 1 (D s (-4) a)))) = true).
Proof. by vm_compute. Qed.
