(** * Property C05 on RAW TEXT — the character-level lexer [lexc] (rules and
      rule order of dd/_parser.py's PLY lexer, [Generated/LexerRules.v]) in
      front of the spelling-level theorems of [Properties/C05.v].  Only
      statements closed by [exact]; proofs live in [Proofs/LexText.v].

      Vocabulary ([Proofs/LexText.v]):
      - [LL lt rw rules s acc]: [lexc_loop] with the fuel [S (length s)];
        [lexc lt rw rules s = LL lt rw rules s []];
      - [sep_char c]: blank, tab or newline; [gap g]: a possibly empty text
        of separator characters, block comments [(* body *)] whose body does
        not contain the closer, and line comments [\* body newline];
      - [tail sps t]: the text [t] after a token contains the spellings [sps],
        each preceded by a separator character and a gap;
        [ftext sps txt]: [txt] is a gap, then the spellings [sps] so separated;
      - [text_of ts]: the token values separated by single blanks;
        [parse_text txt]: [lexc] then [parse code_prec];
      - [lexable a]: the names and operator values of the tree are spellings
        of their tokens ([tokok t]: [lex1 (tv t) = Some t]). *)
From Coq Require Import Ascii.
From stdpp Require Import strings.
From DD Require Import Driver7 LexText.
Local Open Scope string_scope.

(** ** 4. the lexer is total: it fails only on an illegal character *)

(** every rule that matches consumes at least one character (any tables) *)
Theorem C05t_first_rule_consumes lt rw rules s tok rest :
  first_rule lt rw rules s = Some (tok, rest) → String.length rest < String.length s.
Proof. exact (first_rule_consumes lt rw rules s tok rest). Qed.

(** hence the length test of [lexc_loop] never fails and the fuel is
    irrelevant: the lexer satisfies the fuel-free equation *)
Theorem C05t_lexc_unfold lt rw rules s acc :
  LL lt rw rules s acc =
  match (span is_ignored s).2 with
  | "" => Some (reverse acc)
  | s' =>
      match first_rule lt rw rules s' with
      | Some (tok, rest) =>
          LL lt rw rules rest (match tok with Some t => t :: acc | None => acc end)
      | None => None
      end
  end.
Proof. exact (LL_unfold lt rw rules s acc). Qed.

Theorem C05t_lexc_fuel_irrelevant lt rw rules f s acc :
  String.length s < f → lexc_loop f lt rw rules s acc = LL lt rw rules s acc.
Proof. exact (lexc_fuel_irrelevant lt rw rules f s acc). Qed.

(** ** 1. the bridge from spellings to text *)

(** one spelling (name, number, or spelling of the alias table) followed by
    a separator or the end of the text is matched WHOLE by the first rule
    that matches *)
Theorem C05t_first_rule_spelling sp t rest :
  lex1 lex_alias reserved_words sp = Some t → sepstart rest →
  first_rule lex_alias reserved_words lex_rules (sp +:+ rest) = Some (Some t, rest) ∧
  stops_at is_ignored (sp +:+ rest) ∧ sp +:+ rest ≠ "".
Proof. exact (first_rule_spelling sp t rest). Qed.

Theorem C05t_lexc_spaced sps ts :
  lex_all lex_alias reserved_words sps = Some ts →
  lexc lex_alias reserved_words lex_rules (String.concat " " sps) = Some ts.
Proof. exact (lexc_spaced sps ts). Qed.

(** ** 3. separators do not matter *)

(** any separated text of the spellings *)
Theorem C05t_lexc_text sps txt ts :
  ftext sps txt → lex_all lex_alias reserved_words sps = Some ts →
  lexc lex_alias reserved_words lex_rules txt = Some ts.
Proof. exact (lexc_text sps txt ts). Qed.

Theorem C05t_lexc_separators sps txt1 txt2 ts :
  ftext sps txt1 → ftext sps txt2 → lex_all lex_alias reserved_words sps = Some ts →
  lexc lex_alias reserved_words lex_rules txt1 = Some ts ∧
  lexc lex_alias reserved_words lex_rules txt2 = Some ts.
Proof. exact (lexc_separators sps txt1 txt2 ts). Qed.

(** one insertion point *)
Theorem C05t_lexc_one_separator sps1 sps2 c g ts :
  sps1 ≠ [] → sps2 ≠ [] → sep_char c = true → gap g →
  lex_all lex_alias reserved_words (sps1 ++ sps2) = Some ts →
  lexc lex_alias reserved_words lex_rules
    (String.concat " " sps1 +:+ String c g +:+ String.concat " " sps2) = Some ts ∧
  lexc lex_alias reserved_words lex_rules
    (String.concat " " sps1 +:+ " " +:+ String.concat " " sps2) = Some ts.
Proof. exact (lexc_one_separator sps1 sps2 c g ts). Qed.

(** the separators themselves, at the level of the loop (any following text) *)
Theorem C05t_gap_skip g : gap g → ∀ s acc,
  LL lex_alias reserved_words lex_rules (g +:+ s) acc
  = LL lex_alias reserved_words lex_rules s acc.
Proof. exact (gap_skip g). Qed.

Theorem C05t_gap_clauses :
  gap "" ∧
  (∀ c g, sep_char c = true → gap g → gap (String c g)) ∧
  (∀ body g, contains "*)" body = false → gap g → gap ("(*" +:+ body +:+ "*)" +:+ g)) ∧
  (∀ body g, no_newline body → gap g → gap ("\*" +:+ body +:+ String nl g)) ∧
  (∀ c, sep_char c = true ↔ c = " "%char ∨ c = tab ∨ c = nl).
Proof.
  split_and!; [exact gap_nil|exact gap_ws|exact gap_block|exact gap_line|].
  intros c. split; [exact (sep_char_cases c)|]. by intros [->|[->| ->]].
Qed.

(** a line comment may end the text *)
Theorem C05t_line_comment_end body acc : no_newline body →
  LL lex_alias reserved_words lex_rules ("\*" +:+ body) acc = Some (reverse acc).
Proof. exact (LL_line_end body acc). Qed.

(** ** 2. the spelling-level theorems on text *)

(** print, write as text, lex the characters, parse: the tree again *)
Theorem C05t_parse_print_text a : wf_ast code_tyof a → lexable a →
  parse_text (text_of (print_ast code_prec code_tyof a)) = Some a.
Proof. exact (parse_print_text a). Qed.

Theorem C05t_parse_print_full_text a : wf_ast code_tyof a → lexable a →
  parse_text (text_of (print_full code_prec code_tyof a)) = Some a.
Proof. exact (parse_print_full_text a). Qed.

Theorem C05t_parse_print_text_gen par a :
  par_ok code_prec code_tyof par → wf_ast code_tyof a → lexable a →
  parse_text (text_of (print_gen code_prec code_tyof par a)) = Some a.
Proof. exact (parse_print_text_gen par a). Qed.

Theorem C05t_parse_print_text_sep a txt : wf_ast code_tyof a → lexable a →
  ftext (tv <$> print_ast code_prec code_tyof a) txt → parse_text txt = Some a.
Proof. exact (parse_print_text_sep a txt). Qed.

(** the meaning of a raw text *)
Theorem C05t_add_expr_text_sem text ts a s r s' :
  Inv s → last_len s = None → max_nodes s = None →
  lexc lex_alias reserved_words lex_rules text = Some ts → parse code_prec ts = Some a →
  ok_ast s a →
  add_expr_text_ text s = (r, s') →
  ∃ u, r = Ok u ∧ Inv s' ∧ extends s s' ∧ last_len s' = None ∧
       max_nodes s' = None ∧ valid s' u ∧
       ∀ ρ, denv s' u ρ = asem s a ρ.
Proof. exact (add_expr_text_sem text ts a s r s'). Qed.

(** the text of [to_expr] ("ite(v, q, p)", "(~ e)": not blank-separated)
    under the character-level lexer *)
Theorem C05t_lexc_expr_text a : te_shape a →
  lexc lex_alias reserved_words lex_rules (expr_text a) = Some (te_tokens a).
Proof. exact (lexc_expr_text a). Qed.

(** [add_expr(to_expr(u))] is [u], on the raw text returned by [to_expr] *)
Theorem C05t_to_expr_roundtrip_raw s u :
  Inv s → valid s u → last_len s = None →
  ∃ txt, to_expr u s = (Ok txt, s) ∧
    ∀ r s', max_nodes s = None → add_expr_text_ txt s = (r, s') →
      r = Ok u ∧ Inv s' ∧ extends s s' ∧ last_len s' = None ∧ max_nodes s' = None.
Proof. exact (to_expr_roundtrip_raw s u). Qed.

(** ** Examples: where gluing changes the reading (rule order, first match),
    comments, maximal munch *)
Example C05t_gluing :
  lex_show_text "a-b" = Ok (VS "NAME:a MINUS:- NAME:b") ∧
  lex_show_text "a->b" = Ok (VS "NAME:a IMPLIES:=> NAME:b") ∧
  lex_show_text "a- >b" = Err EValue ∧
  lex_show_text "a/\b" = Ok (VS "NAME:a AND:& NAME:b") ∧
  lex_show_text "a/ \b" = Err EValue ∧
  lex_show_text "a\/b" = Ok (VS "NAME:a OR:| NAME:b") ∧
  lex_show_text "a<=>b" = Ok (VS "NAME:a EQUIV:<-> NAME:b") ∧
  lex_show_text "a<= >b" = Err EValue ∧
  lex_show_text "a=>b" = Ok (VS "NAME:a IMPLIES:=> NAME:b") ∧
  lex_show_text "a&&b" = Ok (VS "NAME:a AND:& NAME:b") ∧
  lex_show_text "a& &b" = Ok (VS "NAME:a AND:& AND:& NAME:b") ∧
  lex_show_text "(* c *) a" = Ok (VS "NAME:a") ∧
  lex_show_text "( * c *) a" = Err EValue ∧
  lex_show_text "(a)" = Ok (VS "LPAREN:( NAME:a RPAREN:)") ∧
  lex_show_text "a \* c" = Ok (VS "NAME:a") ∧
  lex_show_text "v1.x'2 12a" = Ok (VS "NAME:v1.x'2 NUMBER:12 NAME:a") ∧
  parse_show_text "a-b-c" = Ok (VS "(- (- a b) c)") ∧
  parse_show_text "a->b-c" = Ok (VS "(=> a (- b c))") ∧
  parse_show_text "(* x *) \E x,y: x/\ y \* tail" = Ok (VS "(\E [x y] (& x y))") ∧
  parse_show_text "@-3 & x1" = Ok (VS "(& @-3 x1)").
Proof. by vm_compute. Qed.

(** a formula on a 3-variable manager, from raw text with comments, tabs and
    glued operators; [to_expr] of the result added again gives it back *)
Example C05t_nonvacuous :
  let w0 := fst (step2 world2_empty 0 (O1 (ONew [(0, 0); (1, 1); (2, 2)]))) in
  let txt := "v0/\~v1 \/ (* exists *) (\E v2: v2#v1)&&!v0 => ite(v2,FALSE , v1) \* end" in
  let w1 := fst (step_expr_text w0 0 txt) in
  snd (step_expr_text w0 0 txt) = Ok (VZ 9) ∧
  match snd (step_to_expr w1 0 9) with
  | Ok (VS t) => snd (step_expr_text w1 0 t) = Ok (VZ 9)
  | _ => False
  end.
Proof. by vm_compute. Qed.

(** ** closedness *)
Print Assumptions C05t_first_rule_consumes.
Print Assumptions C05t_lexc_unfold.
Print Assumptions C05t_lexc_fuel_irrelevant.
Print Assumptions C05t_first_rule_spelling.
Print Assumptions C05t_lexc_spaced.
Print Assumptions C05t_lexc_text.
Print Assumptions C05t_lexc_separators.
Print Assumptions C05t_lexc_one_separator.
Print Assumptions C05t_gap_skip.
Print Assumptions C05t_gap_clauses.
Print Assumptions C05t_line_comment_end.
Print Assumptions C05t_parse_print_text.
Print Assumptions C05t_parse_print_full_text.
Print Assumptions C05t_parse_print_text_gen.
Print Assumptions C05t_parse_print_text_sep.
Print Assumptions C05t_add_expr_text_sem.
Print Assumptions C05t_lexc_expr_text.
Print Assumptions C05t_to_expr_roundtrip_raw.
Print Assumptions C05t_gluing.
Print Assumptions C05t_nonvacuous.
