(** * Property C12 (JSON), [load_order = True], UNCONDITIONAL.
      The premise of [C12_json_roundtrip_order] on the [reorder(order)] call
      is discharged with [reorder_order_ok] (Proofs/Sift9.v).  Only
      statements closed by [exact]; proofs in [Proofs/JsonLoad2.v].

    Vocabulary (Proofs/Sift1.v): [held L u]: [u] is a terminal or the ledger
    [L] of external references holds its node ([0 < L (absn u)]). *)
From DD Require Import JsonLoad2 Driver6 C12_json.
Local Open Scope string_scope.

(** ** ANY receiver [b] whose declared variables are among the file's: any
    initial variable order, any setting of dynamic reordering.  Hypotheses:
    consistent manager without a bound on the number of nodes
    ([max_nodes = None], the default: with a bound, [swap] and [find_or_add]
    can raise [RuntimeError]) with exact counts for a ledger [L] that holds the node
    of every live handle and every node listed in the manager's [roots]
    attribute (it is [[]] for managers created through autoref), empty oracle
    tape (the state between two operations of the driver).

    The load succeeds; the receiver ends with EXACTLY the variable order of
    the source; every held reference (in particular every old handle) stays
    valid and denotes the same function of the variable names; the new
    handles denote the dumped functions; counts are exact (one reference per
    returned handle); dynamic reordering ends up enabled. *)
Theorem C12_json_roundtrip_order_any s roots vorder jf sd b L :
  Inv s → Forall (valid s) (roots_values roots) →
  dump_json roots vorder s = (Ok jf, sd) →
  Inv (mgr b) → max_nodes (mgr b) = None → Counts (mgr b) L → tape (mgr b) = [] →
  (∀ h u, handles b !! h = Some u → held L u) →
  (∀ u, u ∈ Base.roots (mgr b) → held L u) →
  (∀ v, is_Some (vars (mgr b) !! v) → is_Some (vars s !! v)) →
  sd = s ∧
  ∃ b' us,
    a_load_json jf true b = (Ok (hroots_of roots (next_hid b)), b') ∧
    Inv (mgr b') ∧ vars (mgr b') = vars s ∧ is_Some (last_len (mgr b')) ∧
    rctx (mgr b') = rctx (mgr b) ∧ tape (mgr b') = [] ∧
    (* old handles: same node, same function of the names *)
    (∀ h u, handles b !! h = Some u →
       handles b' !! h = Some u ∨ next_hid b ≤ h) ∧
    (∀ u, held L u →
       valid (mgr b) u ∧ valid (mgr b') u ∧ ∀ ρ, denv (mgr b') u ρ = denv (mgr b) u ρ) ∧
    (* new handles *)
    next_hid b' = next_hid b + length (roots_values roots) ∧
    (∀ h, h < next_hid b ∨ next_hid b' ≤ h → handles b' !! h = handles b !! h) ∧
    (∀ i u', us !! i = Some u' → handles b' !! (next_hid b + i) = Some u') ∧
    Forall2 (same_fun s (mgr b')) (roots_values roots) us ∧
    Counts (mgr b') (ledger_add L us).
Proof. exact (json_roundtrip_true_any s roots vorder jf sd b L). Qed.
Print Assumptions C12_json_roundtrip_order_any.

(** for any file with the properties of J0, with the exact final state *)
Theorem C12_json_load_order_any s roots vorder jf r0 H n L :
  Inv s → json_file s roots vorder jf → roots ≠ RNone →
  Forall (valid s) (roots_values roots) →
  Inv r0 → max_nodes r0 = None → Counts r0 L → tape r0 = [] →
  (∀ u, u ∈ Base.roots r0 → held L u) →
  (∀ v, is_Some (vars r0 !! v) → is_Some (vars s !! v)) →
  ∃ r3 us,
    let r' := r3 <| last_len := Some (Nat.max REORDER_STARTS (len r3)) |> in
    a_load_json jf true (ASt r0 H n)
      = (Ok (hroots_of roots n), ASt r' (hins H n us) (n + length us)) ∧
    Inv r' ∧ vars r' = vars s ∧ rctx r' = rctx r0 ∧ tape r' = [] ∧
    Base.roots r' = Base.roots r0 ∧
    (∀ u, held L u → valid r0 u ∧ valid r' u ∧ ∀ ρ, denv r' u ρ = denv r0 u ρ) ∧
    Forall2 (same_fun s r') (roots_values roots) us ∧
    Counts r' (ledger_add L us).
Proof. exact (json_load_true_any s roots vorder jf r0 H n L). Qed.
Print Assumptions C12_json_load_order_any.

(** ** The receiver has a variable [x] that the file does not have:
    [_sort_to_order] rejects the order ([ValueError]).  The missing names
    have been declared (at the bottom) and dynamic reordering has been
    switched off and is NOT restored; nothing else changed: no handle, same
    ledger, every old reference keeps its meaning. *)
Theorem C12_json_load_order_extra_variable s roots vorder jf r0 H n L x :
  Inv s → json_file s roots vorder jf →
  Inv r0 → Counts r0 L →
  is_Some (vars r0 !! x) → vars s !! x = None →
  ∃ r1, declare (jf_levels jf).*1 (r0 <| last_len := None |>) = (Ok tt, r1) ∧
    a_load_json jf true (ASt r0 H n) = (Err EValue, ASt r1 H n) ∧
    Inv r1 ∧ Counts r1 L ∧ last_len r1 = None ∧ vars r0 ⊆ vars r1 ∧
    (∀ u, valid r0 u → valid r1 u ∧ ∀ ρ, denv r1 u ρ = denv r0 u ρ).
Proof. exact (json_load_true_extra_var s roots vorder jf r0 H n L x). Qed.
Print Assumptions C12_json_load_order_extra_variable.

(** ** Non-vacuity ([jw0], [jf0], [jw1], [jw2], [names3] of [C12_json]).
    Receiver 5: only v2 and v0 are declared (v2 on top), it holds the node
    v2 /\ v0 through handle 2 and has dynamic reordering ENABLED. *)
Definition jw5 : aworld :=
  fold_left (fun w o => fst (astep w 5 o))
    [ANew [(2, 0); (0, 1)]; AVar 2; AVar 0; AApply "and" 0 (Some 1) None;
     AConfigure (Some true)]
    jw0.

Example C12_json2_nonvacuous :
  let s := mgr (aworld_get jw0 0) in
  (* receiver 5: v1 is declared, a real reordering takes place *)
  (let b := aworld_get jw5 5 in
   let b' := aworld_get (fst (astep_json_load jw5 5 jf0 true)) 5 in
   snd (astep_json_load jw5 5 jf0 true)
     = Ok (VL [VL [VN 7; VN 3]; VL [VN 3; VN 4]; VL [VN 9; VN 5]]) ∧
   map_to_list (vars (mgr b)) = [(0, 1); (2, 0)] ∧ last_len (mgr b) = Some 100 ∧
   bool_decide (vars (mgr b') = vars s) = true ∧
   (denv (mgr b') (hnode b' 3) <$> names3) = (denv s 8 <$> names3) ∧
   (denv (mgr b') (hnode b' 4) <$> names3) = (denv s 3 <$> names3) ∧
   (denv (mgr b') (hnode b' 5) <$> names3) = (denv s (-8) <$> names3) ∧
   (* the old handle: same node, same function of the names *)
   hnode b' 2 = hnode b 2 ∧
   (denv (mgr b') (hnode b' 2) <$> names3) = (denv (mgr b) (hnode b 2) <$> names3) ∧
   (denv (mgr b) (hnode b 2) <$> names3)
     = [false; false; false; false; false; true; false; true] ∧
   last_len (mgr b') = Some 100) ∧
  (* receiver 2 (all three variables, another order): its handle 2 too *)
  (let b := aworld_get jw2 2 in
   let b' := aworld_get (fst (astep_json_load jw2 2 jf0 true)) 2 in
   bool_decide (vars (mgr b') = vars s) = true ∧
   bool_decide (vars (mgr b) = vars s) = false ∧
   (denv (mgr b') (hnode b' 2) <$> names3) = (denv (mgr b) (hnode b 2) <$> names3)) ∧
  (* receiver 1 has the extra variable v5: rejected, v1 declared at the
     bottom, reordering off, handles untouched *)
  (let b := aworld_get jw1 1 in
   let b' := aworld_get (fst (astep_json_load jw1 1 jf0 true)) 1 in
   snd (astep_json_load jw1 1 jf0 true) = Err EValue ∧
   map_to_list (vars (mgr b')) = [(0, 1); (1, 3); (5, 2); (2, 0)] ∧
   map_to_list (handles b') = map_to_list (handles b) ∧
   map_to_list (refc (mgr b')) = map_to_list (refc (mgr b)) ∧
   last_len (mgr b') = None).
Proof. by vm_compute. Qed.
