(** * Property C09 — tables regenerated from dd/bdd.py on every run: which
      methods the retry decorator wraps, and the reordering thresholds.
      A change of either in the source changes [Generated/PyConsts.v] and
      breaks these obligations.  ([_quantify_vars] is the decorated worker of
      the public [quantify], which first reads its iterable argument into a
      set: the retry must not see an exhausted iterator.) *)
From DD Require Import DecoratedTable.
Local Open Scope string_scope.

Theorem C09_decorated_methods :
  py_decorated =
  ["_quantify_vars"; "add_expr"; "cofactor"; "compose"; "cube"; "ite"; "reduction"; "rename"; "var"].
Proof. exact decorated_table. Qed.
Print Assumptions C09_decorated_methods.

Theorem C09_thresholds :
  (py_REORDER_STARTS, py_REORDER_FACTOR, py_GROWTH_FACTOR)
  = (REORDER_STARTS, REORDER_FACTOR, GROWTH_FACTOR).
Proof. exact thresholds. Qed.
Print Assumptions C09_thresholds.

Theorem C09_model_is_decorated :
  (∀ g u v, ∃ body, ite g u v = try_to_reorder body) ∧
  (∀ n, ∃ body, var n = try_to_reorder body) ∧
  (∀ u b vs, ∃ body, cofactor u b vs = try_to_reorder body) ∧
  (∀ u b q fa, ∃ body, quantify u b q fa = try_to_reorder body) ∧
  (∀ f sub, ∃ body, compose f sub = try_to_reorder body) ∧
  (∀ u d, ∃ body, rename u d = try_to_reorder body) ∧
  (∀ d, ∃ body, cube d = try_to_reorder body) ∧
  (∀ lt rw P sp, ∃ body, add_expr lt rw P sp = try_to_reorder body).
Proof. exact model_is_decorated. Qed.
Print Assumptions C09_model_is_decorated.
