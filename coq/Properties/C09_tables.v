(** * Property C09 — tables regenerated from dd/bdd.py on every run: which
      methods the retry decorator wraps, and the reordering thresholds.
      A change of either in the source changes [Generated/PyConsts.v] and
      breaks these obligations.  ([_quantify_vars] / [_cofactor_vars] are the
      decorated workers of the public [quantify] / [cofactor], which first read
      their argument into a set / dict of variable NAMES: the retry must not
      see an exhausted iterator, nor read keys given as levels against the
      new variable order.  In the model: [quantify_names], [cofactor_names].) *)
From DD Require Import DecoratedTable.
Local Open Scope string_scope.

Theorem C09_decorated_methods :
  py_decorated =
  ["_cofactor_vars"; "_cube_of_literals"; "_quantify_vars"; "add_expr"; "compose"; "ite"; "reduction"; "rename"; "var"].
Proof. exact decorated_table. Qed.
Print Assumptions C09_decorated_methods.

Theorem C09_thresholds :
  (py_REORDER_STARTS, py_REORDER_FACTOR, py_GROWTH_FACTOR)
  = (REORDER_STARTS, REORDER_FACTOR, GROWTH_FACTOR).
Proof. exact thresholds. Qed.
Print Assumptions C09_thresholds.

Theorem C09_model_is_decorated :
  (∀ g u v, ∃ body, ite g u v = try_to_reorder body) ∧
  (∀ n, ∃ body, var n = try_to_reorder body) ∧
  (∀ u vs, ∃ body, cofactor_names u vs = try_to_reorder body) ∧
  (∀ u q fa, ∃ body, quantify_names u q fa = try_to_reorder body) ∧
  (∀ u vs, cofactor u true vs = cofactor_names u vs) ∧
  (∀ u vs, cofactor u false vs =
     (lv <- map_to_level_dict false vs ;;
      nv <- mapM (fun '(l, a) => v <- var_at_level l ;; ret (v, a)) (map_to_list lv) ;;
      cofactor_names u nv)) ∧
  (∀ u q fa, quantify u true q fa = quantify_names u q fa) ∧
  (∀ u q fa, quantify u false q fa =
     (ls <- map_to_level_set false q ;;
      names <- mapM var_at_level (elements ls) ;;
      quantify_names u names fa)) ∧
  (∀ f sub, ∃ body, compose f sub = try_to_reorder body) ∧
  (∀ u d, ∃ body, rename u d = try_to_reorder body) ∧
  (∀ d, ∃ body, cube d = try_to_reorder body) ∧
  (∀ lt rw P sp, ∃ body, add_expr lt rw P sp = try_to_reorder body).
Proof. exact model_is_decorated. Qed.
Print Assumptions C09_model_is_decorated.
