(** * C17d: failed calls — the full table ([max_nodes]).

    [dd.bdd.BDD.max_nodes] bounds the node numbers: [_next_free_int] searches
    [range(start, max_nodes)] and raises [RuntimeError] when the range holds
    no free number.  Model: the field [max_nodes : option positive] of the
    manager ([None] = [sys.maxsize]), set by the operation
    [OSetMaxNodes n] ([bdd.max_nodes = n]); the exception is [ERuntime].

    (a) [find_or_add] at a full table raises before it writes anything;
    (b) [swap] checks beforehand that its new nodes fit, so a swap of a
        well-formed manager never fails midway: it is refused as a whole;
    (c) the history theorems of C17/C17b/C17c are theorems over alphabets that
        contain [OSetMaxNodes]: a call that fails because the table is full —
        anywhere in any history, inside any operation, also inside the
        sifting pass of a dynamic reordering — leaves the manager canonical
        with exact counts, dynamic reordering enabled iff it was, and every
        held reference keeps validity and function;
    (d) runs of the model (by evaluation). *)
From DD Require Import Full Consistent C17c.
Local Open Scope string_scope.

(** ** (a) [find_or_add]: the failed call leaves the state reached by
    [_request_reordering] (the only thing that function can change is the
    forced-trigger counter of the harness, outside the tables) *)
Theorem C17d_find_or_add_full_state i v w s s' :
  find_or_add i v w s = (Err ERuntime, s') →
  request_reordering s = (Ok tt, s') ∧ is_Some (max_nodes s).
Proof. exact (find_or_add_full i v w s s'). Qed.

Theorem C17d_find_or_add_full i v w s s' :
  find_or_add i v w s = (Err ERuntime, s') →
  succ s' = succ s ∧ pred s' = pred s ∧ refc s' = refc s ∧ min_free s' = min_free s ∧
  ite_tab s' = ite_tab s ∧ vars s' = vars s ∧ lvl2var s' = lvl2var s ∧
  last_len s' = last_len s ∧ rctx s' = rctx s ∧ roots s' = roots s ∧ tape s' = tape s ∧
  max_nodes s' = max_nodes s ∧ is_Some (max_nodes s).
Proof. exact (find_or_add_full_tables i v w s s'). Qed.

Theorem C17d_find_or_add_full_same i v w s s' :
  trig s = None ∨ last_len s = None →
  find_or_add i v w s = (Err ERuntime, s') → s' = s.
Proof. exact (find_or_add_full_same i v w s s'). Qed.

(** whenever two numbers below [max_nodes] are unused, the next free integer
    exists: the counting lemma behind (b) *)
Theorem C17d_find_or_add_room (m : gmap positive triple) (u : positive) t (n : positive) :
  m !! u = None → (∀ k, (k < u)%positive → is_Some (m !! k)) →
  size m + 2 < Pos.to_nat n →
  (next_free (S (size (<[u := t]> m))) (<[u := t]> m) u < n)%positive.
Proof. exact (find_or_add_room m u t n). Qed.

(** ** (b) [swap]: the full-table error is the refusal by the pre-check.
    Nothing has been written: with explicit level sets the state is the state
    of the call; with [all_levels=None] only the initial collection ran. *)
Theorem C17d_swap_full s x y all_levels L s' :
  Inv s → Counts s L → last_len s = None →
  y = x + 1 ∨ x = y + 1 → x < nvars s → y < nvars s →
  match all_levels with Some al => levels_ok s al | None => True end →
  swap x y all_levels s = (Err ERuntime, s') →
  is_Some (max_nodes s) ∧
  match all_levels with
  | Some _ => s' = s
  | None => collect_garbage None s = (Ok tt, s')
  end.
Proof. exact (swap_full s x y all_levels L s'). Qed.

(** the public entry point [BDD.swap], any setting of dynamic reordering *)
Theorem C17d_swap_pub_full s x y L s' :
  Inv s → Counts s L →
  y = x + 1 ∨ x = y + 1 → x < nvars s → y < nvars s →
  swap_pub x y s = (Err ERuntime, s') →
  is_Some (max_nodes s) ∧
  ∃ s1, collect_garbage None (s <| last_len := None |>) = (Ok tt, s1) ∧
        s' = s1 <| last_len := last_len s |>.
Proof. exact (swap_pub_full s x y L s'). Qed.

Theorem C17d_swap_pub_full_adjacent s x y L s' :
  Inv s → Counts s L → tape s = [] →
  swap_pub x y s = (Err ERuntime, s') →
  (y = x + 1 ∨ x = y + 1) ∧ x < nvars s ∧ y < nvars s.
Proof. exact (swap_pub_full_adjacent s x y L s'). Qed.

(** the pre-check, literally: [2 * (number of nodes of level x with a child at
    level y)] more nodes must stay below [max_nodes - 1] *)
Theorem C17d_swap_fits_unfold mx n k :
  swap_fits mx n k =
  match mx with None => true | Some m => bool_decide (n + 2 * k + 1 < Pos.to_nat m) end.
Proof. exact eq_refl. Qed.

(** any reordering (sifting, an explicit order, pairs) stopped by a full table
    stops BETWEEN two swaps: for every outcome the manager is well formed with
    exact counts, same variables, held references intact *)
Theorem C17d_reorder_pub_safe o s L r s' :
  Inv s → Counts s L → reorder_pub o s = (r, s') →
  r = Err EOracle ∨
  (Inv s' ∧ Counts s' L ∧ last_len s' = last_len s ∧
   dom (vars s') = dom (vars s) ∧ keepsH L s s' ∧ rr s' = rr s).
Proof. exact (reorder_pub_safe o s L r s'). Qed.

(** ... and with an unbounded table the error does not occur *)
Theorem C17d_unbounded_reorder o s r s' :
  max_nodes s = None → reorder_pub o s = (r, s') → max_nodes s' = None ∧ r ≠ Err ERuntime.
Proof. exact (nft_reorder_pub o s r s'). Qed.
Theorem C17d_unbounded_swap x y s r s' :
  max_nodes s = None → swap_pub x y s = (r, s') → max_nodes s' = None ∧ r ≠ Err ERuntime.
Proof. exact (nft_swap_pub x y s r s'). Qed.

(** ** (c) The alphabets of the history theorems contain [OSetMaxNodes], with
    no obligation for the caller *)
Theorem C17d_alphabets n :
  allowed (OSetMaxNodes n) = true ∧ allowed1 (OSetMaxNodes n) = true ∧
  allowed2 (O1 (OSetMaxNodes n)) = true ∧ allowedD (OSetMaxNodes n) = true ∧
  allowed3 (O1 (OSetMaxNodes n)) = true.
Proof. exact (conj eq_refl (conj eq_refl (conj eq_refl (conj eq_refl eq_refl)))). Qed.

Theorem C17d_no_obligation n s :
  caller_ok s (OSetMaxNodes n) ∧ caller_ok2 s (O1 (OSetMaxNodes n)) ∧
  caller_ok3 s (O1 (OSetMaxNodes n)).
Proof.
  exact (conj I (conj (conj I I) (conj (conj I I) (fun H : false = true =>
    match H in _ = b return (if b then last_len s = None else True) with eq_refl => I end)))).
Qed.

(** the setter itself *)
Theorem C17d_set_max_nodes w n s :
  run_op w (OSetMaxNodes n) s = (Ok VU, s <| max_nodes := n |>).
Proof. exact eq_refl. Qed.

(** the history theorems, over these alphabets (the statements of C17, C17b,
    C17c; the histories they quantify over now contain assignments to
    [max_nodes] and the calls that fail because of them).  A failed call,
    dynamic reordering disabled: *)
Theorem C17d_failed_call_safe w o s s' :
  allowed o = true → is_new o = false → Good s → caller_ok s o →
  run_op w o s = (Err ERuntime, s') →
  safe s s'.
Proof. exact (fun Ha Hn HG Hc H => proj1 (run_op_err w o s ERuntime s' Ha Hn HG Hc H)). Qed.

Theorem C17d_history_partial ops : ∀ w m,
  Good (world_get w m) → hist_ok w m ops → Good (world_get (Total.run w m ops) m).
Proof. exact (run_inv_partial ops). Qed.

(** several managers, queries, files *)
Theorem C17d_history2_good ops : ∀ w, WGood w → hist_ok2 w ops → WGood (run2 w ops).
Proof. exact (history2_good ops). Qed.

Theorem C17d_failed_call2 w m o e :
  WGood w → allowed2 o = true → is_new2 o = false → is_Some (w_mgrs w !! m) →
  caller_ok2 (world2_get w m) o →
  snd (step2 w m o) = Err e →
  Good (world2_get (fst (step2 w m o)) m) ∧
  Total2.keeps (world2_get w m) (world2_get (fst (step2 w m o)) m) ∧
  e ≠ ENeedsReordering.
Proof. exact (step2_err w m o e). Qed.

(** the unified alphabet, dynamic reordering enabled or disabled: exact
    counts and [Inv] after every call, whatever its outcome ... *)
Theorem C17d_history3_good ops : ∀ w,
  WGoodD w → hist_ok3 w ops → WGoodD (run2 w ops) ∧ Forall out_ok (outs2 w ops).
Proof. exact (history3_good ops). Qed.

(** ... and a reference held whenever its manager is called keeps validity
    and function through the whole history *)
Theorem C17d_history3_keeps ops : ∀ w m u,
  WGoodD w → hist_ok3 w ops → held_along w ops m u → u ≠ 0%Z →
  valid (world2_get w m) u →
  valid (world2_get (run2 w ops) m) u ∧
  ∀ ρ, denv (world2_get (run2 w ops) m) u ρ = denv (world2_get w m) u ρ.
Proof. exact (history3_keeps ops). Qed.

(** one decorated call at depth 0, any arguments, any outcome, any bound: the
    reordering mode is kept — also when the sifting pass started by the
    decorator meets the full table ([_try_to_reorder] puts the threshold back
    when [reorder(bdd)] raises, dd 854af5f) *)
Theorem C17d_decorator_total {A} (func : MS A) s L r s' :
  nrf func → nt func → csafe func →
  Inv s → Counts s L → rctx s = false → tape s = [] →
  try_to_reorder func s = (r, s') →
  Inv s' ∧ Counts s' L ∧ rctx s' = false ∧ tape s' = [] ∧
  (last_len s = None → last_len s' = None) ∧
  (is_Some (last_len s) → is_Some (last_len s')) ∧
  Dynamic.keeps (heldn L) s s' ∧
  r ≠ Err ENeedsReordering ∧ r ≠ Err EOracle.
Proof. exact (fun Hn Ht Hc => try_to_reorder_total func Hn Ht Hc s L r s'). Qed.

(** the error path itself, exactly: when the first attempt asks for a
    reordering and [reorder(bdd)] raises (a swap refused by the full table, or
    anything else: [except BaseException]), the decorated call raises the same
    exception and the state is the one sifting stopped in, with the threshold
    of before ([func] does not touch it: [frame]) put back *)
Theorem C17d_decorator_sift_error {A} (func : MS A) s s1 e0 s3 :
  rctx s = false →
  func (s <| rctx := true |>) = (Err ENeedsReordering, s1) →
  reorder None (s1 <| rctx := false |> <| last_len := None |>) = (Err e0, s3) →
  try_to_reorder func s = (Err e0, s3 <| last_len := last_len s1 |>).
Proof. exact (try_to_reorder_sift_error func s s1 e0 s3). Qed.

(** ** (d) Runs of the model *)

(** manager 0: v0<v1<v2<v3; 2..5 = the variables (held), 6 = v0&v2, 7 = v1&v3
    (held): 7 nodes, the next free number is 8.  [6 | 7] needs three new nodes
    (8, 9, 10). *)
Definition hF0 : list (nat * op2) :=
  [(0, O1 (ONew [(0, 0); (1, 1); (2, 2); (3, 3)]));
   (0, O1 (OVar 0)); (0, O1 (OIncref 2)); (0, O1 (OVar 1)); (0, O1 (OIncref 3));
   (0, O1 (OVar 2)); (0, O1 (OIncref 4)); (0, O1 (OVar 3)); (0, O1 (OIncref 5));
   (0, O1 (OApply "and" 2 (Some 4%Z) None)); (0, O1 (OIncref 6));
   (0, O1 (OApply "and" 3 (Some 5%Z) None)); (0, O1 (OIncref 7))].
(** with [max_nodes = 11] the numbers 8 and 9 can be given out (each time the
    NEXT free number is still below 11), the third node cannot: [ite] fails
    midway, two new nodes stay behind *)
Definition hF1 : list (nat * op2) :=
  [(0, O1 (OSetMaxNodes (Some 11%positive)));
   (0, O1 (OIte 6 1 7));                         (* RuntimeError, midway *)
   (0, OLen);
   (0, O1 (OApply "or" 6 (Some 7%Z) None));      (* again: RuntimeError *)
   (0, O1 (OApply "and" 2 (Some 4%Z) None));     (* an existing node: found *)
   (0, O1 (OReorder None));                      (* sifting: its initial collection makes room *)
   (0, OLen);
   (0, O1 (OSetMaxNodes (Some 8%positive)));
   (0, O1 (OSwap 0 1));                          (* refused by the pre-check *)
   (0, O1 (OReorder None));                      (* refused at its first swap *)
   (0, O1 (OSetMaxNodes None));
   (0, O1 (OIte 6 1 7)); (0, O1 (OIncref 10));
   (0, O1 (OSwap 0 1)); (0, OLen)].

Definition wF0 : world2 := run2 world2_empty hF0.
Definition sFull : st := world2_get (run2 wF0 (take 2 hF1)) 0.

Example C17d_history_hypotheses_hold : hist_ok3 world2_empty (hF0 ++ hF1).
Proof. cbn [hF0 hF1 app hist_ok3]. repeat hist3_step. exact I. Qed.

Example C17d_history_good :
  WGoodD (run2 world2_empty (hF0 ++ hF1)) ∧
  Forall out_ok (outs2 world2_empty (hF0 ++ hF1)).
Proof. exact (history3_from_empty _ C17d_history_hypotheses_hold). Qed.

Example C17d_outcomes :
  len (world2_get wF0 0) = 7 ∧ min_free (world2_get wF0 0) = 8%positive ∧
  snd <$> outs2 wF0 hF1 =
  [Ok VU; Err ERuntime; Ok (VN 9); Err ERuntime; Ok (VZ 6); Ok VU; Ok (VN 7);
   Ok VU; Err ERuntime; Err ERuntime; Ok VU; Ok (VZ 10); Ok VU;
   Ok (VL [VN 10; VN 10]); Ok (VN 10)].
Proof. by vm_compute. Qed.

(** after the call that failed midway dd's own consistency check passes (the
    executable check of [Model/Consistent.v]), and the two nodes created
    before the failure are in the table *)
Example C17d_failed_midway_consistent :
  fst (assert_consistent sFull) = Ok tt ∧
  max_nodes sFull = Some 11%positive ∧ min_free sFull = 10%positive ∧
  is_Some (succ sFull !! 8%positive) ∧ is_Some (succ sFull !! 9%positive) ∧
  succ sFull !! 10%positive = None.
Proof. vm_compute. repeat split; first [reflexivity | by eexists]. Qed.

(** a swap refused by the pre-check: [f = (v0 ∧ v1) ∨ v2] held as node 7,
    4 nodes after the collection; node 7 (level 0) has a child at level 1, so
    the swap of levels 0 and 1 may need 2 new nodes: [4 + 2 >= 7 - 1].  The
    refused call leaves the tables as they were; with room for the two nodes
    ([max_nodes = 8]) it succeeds. *)
Definition hS0 : list (nat * op2) :=
  [(0, O1 (ONew [(0, 0); (1, 1); (2, 2)])); (0, O1 (OVar 0)); (0, O1 (OVar 1)); (0, O1 (OVar 2));
   (0, O1 (OApply "and" 2 (Some 3%Z) None)); (0, O1 (OApply "or" 5 (Some 4%Z) None));
   (0, O1 (OIncref 7)); (0, O1 (OGc None))].
Definition wS0 : world2 := run2 world2_empty hS0.

Example C17d_swap_refused :
  len (world2_get wS0 0) = 4 ∧
  snd <$> outs2 wS0 [(0, O1 (OSetMaxNodes (Some 7%positive))); (0, O1 (OSwap 0 1));
                     (0, O1 (OSetMaxNodes (Some 8%positive))); (0, O1 (OSwap 0 1))] =
    [Ok VU; Err ERuntime; Ok VU; Ok (VL [VN 4; VN 4])] ∧
  digest (world2_get (run2 wS0 [(0, O1 (OSetMaxNodes (Some 7%positive))); (0, O1 (OSwap 0 1))]) 0) =
  digest (world2_get (run2 wS0 [(0, O1 (OSetMaxNodes (Some 7%positive)))]) 0).
Proof. by vm_compute. Qed.

(** dynamic reordering enabled (threshold 2, so the first node creation asks
    for a reordering), [max_nodes = 8] with 7 nodes: the sifting pass started
    by the decorator is refused at its first swap; the call raises
    [RuntimeError], dynamic reordering is still enabled with the same
    threshold, and the tables are unchanged *)
Example C17d_dynamic_sift_refused :
  let pre := [(0, O1 (OConfigure (Some true))); (0, O1 (OSetLastLen (Some 2)));
              (0, O1 (OSetMaxNodes (Some 8%positive)))] in
  let w1 := run2 wF0 pre in
  let w2 := run2 w1 [(0, O1 (OApply "or" 6 (Some 7%Z) None))] in
  snd <$> outs2 w1 [(0, O1 (OApply "or" 6 (Some 7%Z) None))] = [Err ERuntime] ∧
  last_len (world2_get w1 0) = Some 2 ∧ last_len (world2_get w2 0) = Some 2 ∧
  d_succ (digest (world2_get w2 0)) = d_succ (digest (world2_get w1 0)) ∧
  d_ref (digest (world2_get w2 0)) = d_ref (digest (world2_get w1 0)).
Proof. by vm_compute. Qed.

(** (a), on a run: the table is full for [find_or_add] itself *)
Example C17d_find_or_add_run :
  let s := world2_get (run2 wF0 [(0, O1 (OSetMaxNodes (Some 9%positive)))]) 0 in
  fst (find_or_add 0 4 5 s) = Err ERuntime ∧ snd (find_or_add 0 4 5 s) = s ∧
  (* an existing node is still found *)
  fst (find_or_add 0 (-1) 4 s) = Ok 6%Z.
Proof. by vm_compute. Qed.

Print Assumptions C17d_find_or_add_full.
Print Assumptions C17d_find_or_add_room.
Print Assumptions C17d_swap_full.
Print Assumptions C17d_swap_pub_full.
Print Assumptions C17d_reorder_pub_safe.
Print Assumptions C17d_history3_good.
Print Assumptions C17d_history3_keeps.
Print Assumptions C17d_decorator_total.
Print Assumptions C17d_decorator_sift_error.
Print Assumptions C17d_history_good.
Print Assumptions C17d_failed_midway_consistent.
Print Assumptions C17d_swap_refused.
