(** * Property C12 / C09 (JSON, dynamic reordering) —
      [dd._copy.load_json(..., load_order=False)] through [dd.autoref] into a
      receiver whose dynamic reordering may be ENABLED.  Only statements
      closed by [exact]; the proofs live in [Proofs/JsonLoadDyn.v] and
      [Proofs/JsonLoadDynAny.v] (the failure path, any node limit).

    [Properties/C12_json.v] (J1, [C12_json_roundtrip], [C12_json_load],
    [C12_json_load_any_file]) assumes [last_len (mgr b) = None]; its example
    [C12_json_reordering_enabled] shows that with reordering enabled the load
    succeeds while the variable ORDER of the receiver changes in the middle.
    Here the receiver satisfies the dynamic invariant [AInvDT] of
    [Properties/C08b.v] (well formed, between two calls, empty oracle tape,
    counts exact for the ledger of the live [Function] objects; dynamic
    reordering enabled OR disabled, any threshold).  Every intermediate result
    of the loader is a live [Function] (the memo, the locals [low], [high],
    [g], [u]), so every operand of a decorated call is held and a sifting pass
    in the middle loses nothing.  What is kept is stated by variable NAMES:

    - the set of declared names: the old ones plus those of the file;
    - [AKeepAll b b'] ([C08b_AKeepAll_unfold]): every old handle is still a
      handle on the same node, valid, with the same function by name;
    - [same_fun s r u u']: [u'] is a reference of [r] and
      [∀ ρ, denv r u' ρ = denv s u ρ];
    - [keeps K s s'] / [heldn L] as in [Properties/C09c.v];
    - dynamic reordering is enabled afterwards iff it was before.
    Not claimed (false, see the example): [frame], [extends], [vars ⊆]. *)
From DD Require Import JsonLoadDynAny Driver6 C12_json.
Local Open Scope string_scope.

(** ** J1 under the dynamic invariant.  Dump, then [load_order=False] into
    ANY receiver [b] with [AInvDT b] and an unbounded table.  The load does
    not fail; one new handle per root, numbered from [next_hid b], same
    container shape and keys ([hroots_of]); each denotes, as a function of the
    variable names, what its root denotes in the source; no other handle
    changes and every old handle keeps node, validity and function; the
    invariant holds again: counts exact for the handle ledger (= old ledger +
    one reference per returned handle: the memo's references and every
    temporary are released), empty tape. *)
Theorem C12_json_roundtrip_dynamic s roots vorder jf sd b :
  Inv s → Forall (valid s) (roots_values roots) →
  dump_json roots vorder s = (Ok jf, sd) →
  AInvDT b → max_nodes (mgr b) = None →
  sd = s ∧
  ∃ b' us,
    a_load_json jf false b = (Ok (hroots_of roots (next_hid b)), b') ∧
    (* the receiver *)
    AInvDT b' ∧ max_nodes (mgr b') = None ∧ AKeepAll b b' ∧
    (∀ v, is_Some (vars (mgr b') !! v) ↔
          is_Some (vars (mgr b) !! v) ∨ is_Some (vars s !! v)) ∧
    (last_len (mgr b) = None → last_len (mgr b') = None) ∧
    (is_Some (last_len (mgr b)) → is_Some (last_len (mgr b'))) ∧
    (* the handles *)
    next_hid b' = next_hid b + length (roots_values roots) ∧
    (∀ h, h < next_hid b ∨ next_hid b' ≤ h → handles b' !! h = handles b !! h) ∧
    (∀ i u', us !! i = Some u' → handles b' !! (next_hid b + i) = Some u') ∧
    Forall2 (same_fun s (mgr b')) (roots_values roots) us ∧
    (* the reference counts *)
    Counts (mgr b') (ledger_add (hledger b) us).
Proof. exact (json_roundtrip_dynamic s roots vorder jf sd b). Qed.
Print Assumptions C12_json_roundtrip_dynamic.

(** the same for any file with the properties of J0, on explicit states and
    for ANY ledger [L] of external references of the receiver.  [r1] is the
    receiver right after the "level_of_var" line: [declare] adds the missing
    names at the bottom and keeps every old reference and its meaning (no
    reordering can happen there); from [r1] on, every reference that [L] holds
    keeps validity and function by name and the set of declared names is
    fixed ([keeps (heldn L) r1 r']). *)
Theorem C12_json_load_dynamic s roots vorder jf r0 H n L :
  Inv s → json_file s roots vorder jf → roots ≠ RNone →
  Forall (valid s) (roots_values roots) →
  Inv r0 → rctx r0 = false → tape r0 = [] → max_nodes r0 = None → Counts r0 L →
  ∃ r1 r' us,
    declare (jf_levels jf).*1 r0 = (Ok tt, r1) ∧
    a_load_json jf false (ASt r0 H n)
      = (Ok (hroots_of roots n), ASt r' (hins H n us) (n + length us)) ∧
    (* the variables *)
    Inv r1 ∧ frame r0 r1 ∧ vars r0 ⊆ vars r1 ∧ Counts r1 L ∧
    (∀ v, is_Some (vars r1 !! v) ↔ is_Some (vars r0 !! v) ∨ is_Some (vars s !! v)) ∧
    ((∀ v, is_Some (vars s !! v) → is_Some (vars r0 !! v)) → r1 = r0) ∧
    (∀ u, valid r0 u → valid r1 u ∧ ∀ ρ, denv r1 u ρ = denv r0 u ρ) ∧
    (* the nodes *)
    Inv r' ∧ rctx r' = false ∧ tape r' = [] ∧ max_nodes r' = None ∧
    keeps (heldn L) r1 r' ∧
    (last_len r0 = None → last_len r' = None) ∧
    (is_Some (last_len r0) → is_Some (last_len r')) ∧
    Forall2 (same_fun s r') (roots_values roots) us ∧
    Counts r' (ledger_add L us).
Proof. exact (json_load_dyn_ledger s roots vorder jf r0 H n L). Qed.
Print Assumptions C12_json_load_dynamic.

(** ** Failure path under the dynamic invariant: ANY file (well formed or
    not).  Either handles are returned and the handle ledger gains exactly one
    reference per handle, or the call raises, creates no handle and leaks no
    reference (the memo's references and every temporary are released).  In
    both cases the invariant holds again, every old handle keeps node,
    validity and function, the declared names are the old ones plus those of
    the "level_of_var" line, the reordering mode and the node limit are kept.
    No hypothesis on [max_nodes]: with a bounded table a decorated call
    ([var], [ite]) of the loader may raise [RuntimeError] — in its first
    attempt, in the sifting pass that serves a reordering request, or in the
    second attempt ([Proofs/DynamicAny.v] [try_to_reorder_any]) — which is one
    more way for a line to fail, besides a lookup and the assertion on the
    sign of a new node. *)
Theorem C12_json_load_any_file_dynamic jf b :
  AInvDT b →
  ∃ res b',
    a_load_json jf false b = (res, b') ∧
    AInvDT b' ∧ max_nodes (mgr b') = max_nodes (mgr b) ∧ AKeepAll b b' ∧
    (∀ v, is_Some (vars (mgr b') !! v) ↔
          is_Some (vars (mgr b) !! v) ∨ v ∈ (jf_levels jf).*1) ∧
    (last_len (mgr b) = None → last_len (mgr b') = None) ∧
    (is_Some (last_len (mgr b)) → is_Some (last_len (mgr b'))) ∧
    match res with
    | Err e => handles b' = handles b ∧ next_hid b' = next_hid b ∧
               Counts (mgr b') (hledger b)
    | Ok hroots => ∃ us, handles b' = hins (handles b) (next_hid b) us ∧
                         next_hid b' = next_hid b + length us ∧
                         Forall (valid (mgr b')) us ∧
                         Counts (mgr b') (ledger_add (hledger b) us)
    end.
Proof. exact (json_load_any_file_dynamic_any jf b). Qed.
Print Assumptions C12_json_load_any_file_dynamic.

(** on explicit states, any ledger *)
Theorem C12_json_load_any_file_dynamic_ledger jf r0 H n L :
  Inv r0 → rctx r0 = false → tape r0 = [] → Counts r0 L →
  ∃ res r1 r' H' n',
    declare (jf_levels jf).*1 r0 = (Ok tt, r1) ∧
    a_load_json jf false (ASt r0 H n) = (res, ASt r' H' n') ∧
    Inv r1 ∧ frame r0 r1 ∧ vars r0 ⊆ vars r1 ∧ Counts r1 L ∧
    (∀ v, is_Some (vars r1 !! v) ↔ is_Some (vars r0 !! v) ∨ v ∈ (jf_levels jf).*1) ∧
    (∀ u, valid r0 u → valid r1 u ∧ ∀ ρ, denv r1 u ρ = denv r0 u ρ) ∧
    Inv r' ∧ rctx r' = false ∧ tape r' = [] ∧ max_nodes r' = max_nodes r0 ∧
    keeps (heldn L) r1 r' ∧
    (last_len r0 = None → last_len r' = None) ∧
    (is_Some (last_len r0) → is_Some (last_len r')) ∧
    match res with
    | Err e => H' = H ∧ n' = n ∧ Counts r' L
    | Ok hroots => ∃ us, H' = hins H n us ∧ n' = n + length us ∧
                         Forall (valid r') us ∧ Counts r' (ledger_add L us)
    end.
Proof. exact (json_load_any_file_dyn_ledger_any jf r0 H n L). Qed.
Print Assumptions C12_json_load_any_file_dynamic_ledger.

(** ** Non-vacuity: the setting of [C12_json_reordering_enabled].  Source
    manager 0 ([jw0]); the file [jf0] is its dump of three roots; receiver 1
    ([jw1]: order v2, v0, v5, an extra variable v5, a missing one v1, nodes
    of its own, three live handles) with dynamic reordering enabled and the
    threshold [_last_len = 1], so that the first node creation of the load
    starts a sifting pass. *)
Definition jwD : aworld := fst (astep jw1 1 (ASetLastLen (Some 1))).
Definition jroots0 : rootsC := RDict [(7, 8%Z); (3, 3%Z); (9, (-8)%Z)].

(** the hypotheses of [C12_json_roundtrip_dynamic] hold *)
Example C12_json_dyn_hypotheses :
  let s := mgr (aworld_get jw0 0) in
  let b := aworld_get jwD 1 in
  Inv s ∧ Forall (valid s) (roots_values jroots0) ∧
  dump_json jroots0 [2; 0; 1] s = (Ok jf0, s) ∧
  AInvDT b ∧ max_nodes (mgr b) = None.
Proof.
  cbv zeta. split; [|split; [|split; [|split]]].
  - assert (HA : AInvT (aworld_get jw0 0)).
    { unfold jw0. rewrite fold_arun.
      apply (arun_from_new2 [(0, 1); (1, 0); (2, 2)]
               [AVar 0; AVar 1; AVar 2;
                AApply "xor" 0 (Some 1) None; AFApply "not" 2 None;
                AApply "or" 3 (Some 4) None; AFApply "not" 5 None] 0); [by vm_compute|].
      cbn [ahist_ok2]. repeat (split; [by vm_compute|]). exact I. }
    exact (proj1 (proj1 HA)).
  - cbn [roots_values jroots0 fmap list_fmap snd].
    repeat (apply Forall_cons; split; [apply mem_valid; by vm_compute|]).
    by apply Forall_nil.
  - by vm_compute.
  - unfold jwD. apply astep_AInvD; [reflexivity|].
    apply AInvDT_of_AInvT; [|by vm_compute].
    unfold jw1. rewrite fold_arun, arun_cons. apply arun_AInv2.
    + apply astep_AInv2; [by vm_compute|by vm_compute|]. by intros [=].
    + cbn [ahist_ok2]. repeat (split; [by vm_compute|]). exact I.
  - by vm_compute.
Qed.

(** hence its conclusion *)
Example C12_json_dyn_instance :
  let s := mgr (aworld_get jw0 0) in
  let b := aworld_get jwD 1 in
  ∃ b' us,
    a_load_json jf0 false b = (Ok (hroots_of jroots0 (next_hid b)), b') ∧
    AInvDT b' ∧ AKeepAll b b' ∧ is_Some (last_len (mgr b')) ∧
    Forall2 (same_fun s (mgr b')) (roots_values jroots0) us ∧
    Counts (mgr b') (ledger_add (hledger b) us).
Proof.
  cbv zeta. destruct C12_json_dyn_hypotheses as (HIs&Hr&Hd&HA&Hmx).
  destruct (json_roundtrip_dynamic _ _ _ _ _ _ HIs Hr Hd HA Hmx)
    as (_&b'&us&E&HA'&_&Hk&_&_&Hl&_&_&_&HF&HC).
  exists b', us. split; [exact E|]. split; [exact HA'|]. split; [exact Hk|]. split.
  { apply Hl. exists 1. by vm_compute. }
  exact (conj HF HC).
Qed.
Print Assumptions C12_json_dyn_instance.

(** by evaluation: the load succeeds; a sifting pass ran in the middle (the
    threshold was recomputed) and changed the ORDER: [declare] had put the
    missing name v1 at the bottom (level 3), sifting exchanged it with the old
    variable v5 (from level 2 to level 3); the old handles 0, 1, 2 keep node
    and truth table BY NAME; the new handles 3, 4, 5 have the truth tables of
    the dumped roots; the declared names are the old ones plus v1; the
    counters are exact for the handle ledger. *)
Definition names4 : list (nat → bool) :=
  (fun '(x, y, z, t) => fun v : nat =>
     match v with 0 => x | 1 => y | 2 => z | 5 => t | _ => false end) <$>
  [(false, false, false, false); (false, false, true, false); (false, true, false, false);
   (false, true, true, false); (true, false, false, false); (true, false, true, false);
   (true, true, false, false); (true, true, true, false);
   (false, false, false, true); (false, false, true, true); (false, true, false, true);
   (false, true, true, true); (true, false, false, true); (true, false, true, true);
   (true, true, false, true); (true, true, true, true)].

Example C12_json_dyn_example :
  let s := mgr (aworld_get jw0 0) in
  let b := aworld_get jwD 1 in
  let b' := aworld_get (fst (astep_json_load jwD 1 jf0 false)) 1 in
  snd (astep_json_load jwD 1 jf0 false)
    = Ok (VL [VL [VN 7; VN 3]; VL [VN 3; VN 4]; VL [VN 9; VN 5]]) ∧
  (* the order changed; reordering is still enabled *)
  map_to_list (vars (mgr b)) = [(0, 1); (5, 2); (2, 0)] ∧
  map_to_list (vars (mgr b')) = [(0, 1); (1, 2); (5, 3); (2, 0)] ∧
  last_len (mgr b) = Some 1 ∧ bool_decide (is_Some (last_len (mgr b'))) = true ∧
  (* old handles: same node, same function of the names *)
  (hnode b' <$> [0; 1; 2]) = (hnode b <$> [0; 1; 2]) ∧
  (denv (mgr b') (hnode b' 0) <$> names4) = (denv (mgr b) (hnode b 0) <$> names4) ∧
  (denv (mgr b') (hnode b' 1) <$> names4) = (denv (mgr b) (hnode b 1) <$> names4) ∧
  (denv (mgr b') (hnode b' 2) <$> names4) = (denv (mgr b) (hnode b 2) <$> names4) ∧
  (* new handles: the dumped functions, by name *)
  (denv (mgr b') (hnode b' 3) <$> names4) = (denv s 8 <$> names4) ∧
  (denv (mgr b') (hnode b' 4) <$> names4) = (denv s 3 <$> names4) ∧
  (denv (mgr b') (hnode b' 5) <$> names4) = (denv s (-8) <$> names4) ∧
  next_hid b' = next_hid b + 3 ∧
  (* the counters are exact for the handle ledger *)
  forallb (fun '(n, c) =>
      bool_decide (c = indeg (succ (mgr b')) n + (if decide (n = 1%positive) then 1 else 0) +
                   length (filter (fun p => absn (p.2) = n) (map_to_list (handles b')))))
    (map_to_list (refc (mgr b'))) = true.
Proof. by vm_compute. Qed.
Print Assumptions C12_json_dyn_example.

(** ** The failure path with reordering enabled AND a node limit: the same
    receiver with [bdd._bdd.max_nodes = 8] ([jwDB]).  Its state satisfies the
    hypothesis of [C12_json_load_any_file_dynamic]; by evaluation: the load
    raises [RuntimeError] AFTER a sifting pass ran in the middle (the order
    changed as above, the threshold was recomputed, reordering is still
    enabled); no handle was created; the old handles keep node and truth
    table by name; the limit is kept; the counters are exact for the ledger
    of the old handles (the nodes built before the failure stay,
    unreferenced, until a collection: no reference leaked). *)
Definition jwDB : aworld := fst (astep jwD 1 (ASetMaxNodes (Some 8%positive))).

Example C12_json_dyn_full_hypothesis : AInvDT (aworld_get jwDB 1).
Proof.
  exact (proj1 (astep_AInvD jwD 1 (ASetMaxNodes (Some 8%positive)) eq_refl
                  (proj1 (proj2 (proj2 (proj2 C12_json_dyn_hypotheses)))))).
Qed.
Print Assumptions C12_json_dyn_full_hypothesis.

Example C12_json_dyn_full_table :
  let b := aworld_get jwDB 1 in
  let b' := aworld_get (fst (astep_json_load jwDB 1 jf0 false)) 1 in
  max_nodes (mgr b) = Some 8%positive ∧ last_len (mgr b) = Some 1 ∧
  snd (astep_json_load jwDB 1 jf0 false) = Err ERuntime ∧
  (* a sifting pass ran before the failure; reordering is still enabled; the
     limit is kept *)
  map_to_list (vars (mgr b)) = [(0, 1); (5, 2); (2, 0)] ∧
  map_to_list (vars (mgr b')) = [(0, 1); (1, 2); (5, 3); (2, 0)] ∧
  bool_decide (is_Some (last_len (mgr b'))) = true ∧
  max_nodes (mgr b') = Some 8%positive ∧
  (* no handle was created; old handles: same node, same function of the names *)
  map_to_list (handles b') = map_to_list (handles b) ∧ next_hid b' = next_hid b ∧
  (denv (mgr b') (hnode b' 0) <$> names4) = (denv (mgr b) (hnode b 0) <$> names4) ∧
  (denv (mgr b') (hnode b' 1) <$> names4) = (denv (mgr b) (hnode b 1) <$> names4) ∧
  (denv (mgr b') (hnode b' 2) <$> names4) = (denv (mgr b) (hnode b 2) <$> names4) ∧
  (* the counters are exact for the ledger of the old handles *)
  forallb (fun '(n, c) =>
      bool_decide (c = indeg (succ (mgr b')) n + (if decide (n = 1%positive) then 1 else 0) +
                   length (filter (fun p => absn (p.2) = n) (map_to_list (handles b)))))
    (map_to_list (refc (mgr b'))) = true.
Proof. by vm_compute. Qed.
Print Assumptions C12_json_dyn_full_table.
