(** * Property C06 — garbage collection frees exactly the unreachable nodes;
      reference counts stay exact.  Only statements closed by [exact]; proofs
      live in [Proofs/Counts.v] and [Proofs/GC.v].

    [Counts s L]: the counter of every stored node equals its in-degree (the
    number of stored low/high edges pointing to it, [indeg]) plus the ledger
    entry [L n] of external references ([incref] minus [decref]); nodes that
    are not stored have no external reference.
    [reach m R n]: node [n] is reachable in the table [m] from a stored node
    satisfying [R]. *)
From DD Require Import GC.
Local Open Scope string_scope.

(** [find_or_add] keeps the counters exact for the same ledger, whatever its
    outcome (existing node, new node, [ValueError], reordering request). *)
Theorem C06_counts_find_or_add s L i v w r s' :
  Inv s → Counts s L → find_or_add i v w s = (r, s') → Counts s' L.
Proof. exact (find_or_add_counts s L i v w r s'). Qed.

(** so does [_ite], for results and for the reordering signal alike *)
Theorem C06_counts_ite fuel s L g u v r s' :
  Inv s → Counts s L → valid s g → valid s u → valid s v →
  nvars s - minlvl3 s g u v < fuel →
  ite_rec fuel g u v s = (r, s') → Counts s' L.
Proof. exact (ite_rec_counts fuel s L g u v r s'). Qed.

(** [incref] / [decref] move the ledger entry of the node by one *)
Theorem C06_counts_incref s L u r s' :
  valid s u → Counts s L → incref u s = (r, s') →
  r = Ok tt ∧ s' = bump u s ∧ Counts s' (ledger_inc L (absn u)).
Proof. exact (incref_counts s L u r s'). Qed.

Theorem C06_counts_decref s L u r s' :
  valid s u → Counts s L → 0 < L (absn u) → decref u s = (r, s') →
  r = Ok tt ∧ s' = unbump u s ∧ Counts s' (ledger_dec L (absn u)).
Proof. exact (decref_counts s L u r s'). Qed.

(** [decref] of a node without external reference: nothing changes when the
    counter is already zero (it floors); otherwise the counter falls below
    the in-degree and the counters are inexact for every ledger. *)
Theorem C06_counts_decref_unreferenced s L u r s' :
  valid s u → Counts s L → L (absn u) = 0 → decref u s = (r, s') →
  r = Ok tt ∧ s' = unbump u s ∧
  (indeg (succ s) (absn u) = 0 → Counts s' L) ∧
  (0 < indeg (succ s) (absn u) → ∀ L', ¬ Counts s' L').
Proof. exact (decref_counts_zero s L u r s'). Qed.

(** [collect_garbage()] never fails, keeps the invariant and the counters,
    clears the computed table, and the surviving nodes are exactly the
    terminal and the nodes reachable from an externally referenced node;
    survivors keep their triple. *)
Theorem C06_gc_exact s L r s' :
  Inv s → Counts s L →
  collect_garbage None s = (r, s') →
  r = Ok tt ∧ Inv s' ∧ Counts s' L ∧ ite_tab s' = ∅ ∧
  vars s' = vars s ∧ lvl2var s' = lvl2var s ∧ last_len s' = last_len s ∧
  (∀ n, n ∈ dom (succ s') ↔ n = 1%positive ∨ reach (succ s) (fun k => 0 < L k) n) ∧
  (∀ n t, succ s' !! n = Some t → succ s !! n = Some t).
Proof. exact (gc_exact s L r s'). Qed.

(** [collect_garbage(roots)] as used by [swap]: safe for any list of valid
    candidate roots (no reachable node is removed). *)
Theorem C06_gc_rooted_safe (roots : list Z) s L r s' :
  Inv s → Counts s L → (∀ u, u ∈ roots → valid s u) →
  collect_garbage (Some roots) s = (r, s') →
  r = Ok tt ∧ Inv s' ∧ Counts s' L ∧ ite_tab s' = ∅ ∧
  vars s' = vars s ∧ lvl2var s' = lvl2var s ∧ frame s s' ∧
  succ s' ⊆ succ s ∧
  (∀ n, n = 1%positive ∨ reach (succ s) (fun k => 0 < L k) n → n ∈ dom (succ s')).
Proof. exact (gc_rooted_safe roots s L r s'). Qed.

(** every reference to the terminal or to a node reachable from an externally
    referenced node is still valid after either kind of collection and
    denotes the same function *)
Theorem C06_gc_preserves_den roots s L r s' u :
  Inv s → Counts s L →
  match roots with None => True | Some l => ∀ x, x ∈ l → valid s x end →
  collect_garbage roots s = (r, s') →
  u ≠ 0%Z →
  absn u = 1%positive ∨ reach (succ s) (fun k => 0 < L k) (absn u) →
  valid s' u ∧ valid s u ∧ ∀ a, D s' u a = D s u a.
Proof. exact (gc_preserves_den roots s L r s' u). Qed.

(** Non-vacuity.  Three variables, (v0 /\ v1) \/ v2 = node 7 built through
    the intermediate nodes 5 and 6, one external reference on 7.  Before the
    collection the counters are exact for the ledger {1 ↦ 1, 7 ↦ 1}; the
    collection frees 2, 3, 5 (unreachable from 7) and keeps 1, 4, 6, 7 with
    exact counters again. *)
Example C06_nonvacuous :
  let w := fold_left (fun w o => fst (step w 0 o))
             [ONew [(0, 0); (1, 1); (2, 2)]; OVar 0; OVar 1; OVar 2;
              OApply "and" 2 (Some 3%Z) None; OApply "\/" 5 (Some 4%Z) None;
              OIncref 7]
             world_empty in
  let s := world_get w 0 in
  let L := fun n : positive =>
             if decide (n = 1%positive ∨ n = 7%positive) then 1 else 0 in
  let exact (s : st) :=
    forallb (fun '(n, c) => bool_decide (c = indeg (succ s) n + L n))
            (map_to_list (refc s)) in
  let s' := world_get (fst (step w 0 (OGc None))) 0 in
  bool_decide (dom (succ s) = list_to_set [1; 2; 3; 4; 5; 6; 7]%positive) = true ∧
  exact s = true ∧
  snd (step w 0 (OGc None)) = Ok VU ∧
  bool_decide (dom (succ s') = list_to_set [1; 4; 6; 7]%positive) = true ∧
  exact s' = true ∧ refc s' !! 7%positive = Some 1 ∧
  bool_decide (ite_tab s' = ∅) = true ∧
  min_free s' = 2%positive.
Proof. by vm_compute. Qed.
