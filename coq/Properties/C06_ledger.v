(** * Property C06 along HISTORIES, with the caller's ACTUAL ledger.

    "At all times every node's reference count equals the number of stored
    edges pointing to it plus the external references taken and not yet
    released."

    [Counts s L] ([Properties/C06.v]) is that statement for a ledger [L] of
    external references.  The history invariants [Good]/[GoodD] only carry
    [∃ L, Counts s L].  Here [L] is COMPUTED from the calls the caller made
    and their outcomes ([ledger_after], folded along the history by
    [ledger_hist]), for any arguments, any outcome (a failed call leaves the
    ledger alone) and with dynamic reordering on or off.

    What changes an external count in the model ([Model/Core.v]):
    - the constructor: a fresh manager holds ONE reference, on the terminal
      node 1 ([_init_terminal] stores [_ref[1] = 1]): [ledger_init];
    - a successful [incref u]: +1 at [|u|];
    - a successful [decref u] of a node whose counter is positive: -1 at
      [|u|] ([decref] of a counter that is 0 logs a warning and changes
      nothing: [decref_effective]; under the caller obligation of
      [Properties/C09c.v] -- [decref] only on a node the caller holds -- every
      successful [decref] is effective);
    - [__del__] ([OShutdown], alphabet of [Properties/C17c.v]): -1 at node 1
      (the manager releases its own reference on the terminal);
    - NOTHING else: [collect_garbage] (with or without [roots]) only removes
      nodes whose counter is 0; [var], [ite], [apply], [let], [cofactor],
      [quantify], [compose], [rename], [cube], [copy_bdd], [image],
      [preimage], [find_or_add] return a node WITHOUT taking a reference for
      the caller; [swap], [reorder], [reorder_to_pairs], dynamic reordering,
      [add_var], [declare], [undeclare_vars], [configure] keep the ledger;
      so does the assignment [bdd.max_nodes = n] ([OSetMaxNodes n], in both
      alphabets), and a call refused with [RuntimeError] ([ERuntime]) because
      the table is full leaves the ledger alone, as every failed call does
      (example [C06_ledger_example_full_outs]).
    No operation of either alphabet fails to preserve the ledger so defined.

    Only statements closed by [exact]; proofs live in [Proofs/Ledger.v]. *)
From DD Require Import Dynamic3 Total3 Ledger.
Local Open Scope string_scope.

(** ** Vocabulary *)
Theorem C06_Counts_def s L :
  Counts s L ↔
  (∀ n, n ∈ dom (succ s) → refc s !! n = Some (indeg (succ s) n + L n)) ∧
  (∀ n, n ∉ dom (succ s) → L n = 0).
Proof. exact (conj (fun H => H) (fun H => H)). Qed.

Theorem C06_ledger_init_def n :
  ledger_init n = if decide (n = 1%positive) then 1 else 0.
Proof. exact eq_refl. Qed.

(** the fresh manager of the model has exactly that ledger *)
Theorem C06_ledger_init_fresh : Counts init ledger_init.
Proof. exact Counts_init. Qed.

Theorem C06_is_ok_def {A} (r : res A) :
  is_ok r = match r with Ok _ => true | Err _ => false end.
Proof. exact eq_refl. Qed.

Theorem C06_decref_effective_def s u :
  decref_effective s u = bool_decide (0 < default 0 (refc s !! absn u)).
Proof. exact eq_refl. Qed.

Theorem C06_ledger_inc_def L k n :
  ledger_inc L k n = if decide (n = k) then S (L n) else L n.
Proof. exact eq_refl. Qed.
Theorem C06_ledger_dec_def L k n :
  ledger_dec L k n = if decide (n = k) then Nat.pred (L n) else L n.
Proof. exact eq_refl. Qed.

(** the ledger transformer of one call of the alphabet of [Model/Driver.v],
    as the caller sees it (state before, call, outcome) *)
Theorem C06_ledger_after_def s o r L :
  ledger_after s o r L =
  match o with
  | ONew _ => ledger_init
  | OIncref u => if is_ok r then ledger_inc L (absn u) else L
  | ODecref u => if is_ok r && decref_effective s u then ledger_dec L (absn u) else L
  | _ => L
  end.
Proof. exact eq_refl. Qed.

(** ** 1. One call: any allowed operation, any arguments, ANY outcome, dynamic
    reordering on or off (the hypotheses are those of [C09c_run_op_good]) *)
Theorem C06_ledger_run_op w o s r s' :
  GoodD s → allowedD o = true → is_new o = false → caller_ok s o →
  run_op w o s = (r, s') →
  ∀ L, Counts s L → Counts s' (ledger_after s o r L).
Proof. exact (run_op_ledger w o s r s'). Qed.
Print Assumptions C06_ledger_run_op.

(** the two counter calls, spelled out: [KeyError] and nothing changes, or
    success and the entry of [|u|] moves by exactly one *)
Theorem C06_ledger_incref w u s r s' L :
  GoodD s → Counts s L → run_op w (OIncref u) s = (r, s') →
  (valid s u ∧ r = Ok VU ∧ ∀ n, ledger_after s (OIncref u) r L n =
                                 L n + (if decide (n = absn u) then 1 else 0)) ∨
  (¬ valid s u ∧ r = Err EKey ∧ s' = s ∧ ∀ n, ledger_after s (OIncref u) r L n = L n).
Proof. exact (incref_ledger w u s r s' L). Qed.
Print Assumptions C06_ledger_incref.

Theorem C06_ledger_decref w u s r s' L :
  GoodD s → Counts s L → caller_ok s (ODecref u) → run_op w (ODecref u) s = (r, s') →
  (valid s u ∧ r = Ok VU ∧ decref_effective s u = true ∧ 0 < L (absn u) ∧
     ∀ n, ledger_after s (ODecref u) r L n + (if decide (n = absn u) then 1 else 0) = L n) ∨
  (¬ valid s u ∧ r = Err EKey ∧ s' = s ∧ ∀ n, ledger_after s (ODecref u) r L n = L n).
Proof. exact (decref_ledger w u s r s' L). Qed.
Print Assumptions C06_ledger_decref.

(** the floor of [decref] (outside the caller obligation): counter 0, the
    call succeeds, nothing changes, the ledger stays *)
Theorem C06_ledger_decref_floor w u s r s' L :
  GoodD s → Counts s L → valid s u → refc s !! absn u = Some 0 →
  run_op w (ODecref u) s = (r, s') →
  r = Ok VU ∧ decref_effective s u = false ∧ Counts s' (ledger_after s (ODecref u) r L) ∧
  ∀ n, ledger_after s (ODecref u) r L n = L n.
Proof. exact (decref_ledger_floor w u s r s' L). Qed.
Print Assumptions C06_ledger_decref_floor.

(** one step of the driver, the constructor included (its ledger is
    [ledger_init] whatever was there before, also when [BDD(levels)] is
    rejected: the model then leaves the fresh manager) *)
Theorem C06_ledger_step w m o :
  allowedD o = true →
  (is_new o = false → GoodD (world_get w m) ∧ caller_ok (world_get w m) o) →
  ∀ L, (is_new o = false → Counts (world_get w m) L) →
  Counts (world_get (step w m o).1 m)
         (ledger_after (world_get w m) o (step w m o).2 L).
Proof. exact (step_ledger w m o). Qed.
Print Assumptions C06_ledger_step.

(** ** 2. Histories: the ledger folded along the calls and their outcomes
    ([hist_okD], [Total.run]: see [Properties/C09c.v]) *)
Theorem C06_ledger_hist_def w m ops L :
  ledger_hist w m ops L =
  match ops with
  | [] => L
  | o :: ops =>
      ledger_hist (fst (step w m o)) m ops
        (ledger_after (world_get w m) o (snd (step w m o)) L)
  end.
Proof. exact (match ops with [] => eq_refl | _ :: _ => eq_refl end). Qed.

Theorem C06_ledger_run ops w m L :
  GoodD (world_get w m) → hist_okD w m ops → Counts (world_get w m) L →
  Counts (world_get (Total.run w m ops) m) (ledger_hist w m ops L).
Proof. exact (run_ledger ops w m L). Qed.
Print Assumptions C06_ledger_run.

Theorem C06_ledger_run_from_new levels ops m L :
  allowedD (ONew levels) = true →
  hist_okD (fst (step world_empty m (ONew levels))) m ops →
  Counts (world_get (Total.run world_empty m (ONew levels :: ops)) m)
         (ledger_hist world_empty m (ONew levels :: ops) L).
Proof. exact (run_ledger_from_new levels ops m L). Qed.
Print Assumptions C06_ledger_run_from_new.

(** ** 3. In the property's words: counting the calls of the history *)
Theorem C06_inc_here_def o r n :
  inc_here o r n =
  match o with
  | OIncref u => if is_ok r && bool_decide (absn u = n) then 1 else 0
  | _ => 0
  end.
Proof. exact eq_refl. Qed.
Theorem C06_dec_here_def s o r n :
  dec_here s o r n =
  match o with
  | ODecref u => if is_ok r && decref_effective s u && bool_decide (absn u = n) then 1 else 0
  | _ => 0
  end.
Proof. exact eq_refl. Qed.
(** the number of successful [incref]s / effective [decref]s on node [n] *)
Theorem C06_increfs_def w m ops n :
  increfs w m ops n =
  match ops with
  | [] => 0
  | o :: ops => inc_here o (snd (step w m o)) n + increfs (fst (step w m o)) m ops n
  end.
Proof. exact (match ops with [] => eq_refl | _ :: _ => eq_refl end). Qed.
Theorem C06_decrefs_def w m ops n :
  decrefs w m ops n =
  match ops with
  | [] => 0
  | o :: ops =>
      dec_here (world_get w m) o (snd (step w m o)) n + decrefs (fst (step w m o)) m ops n
  end.
Proof. exact (match ops with [] => eq_refl | _ :: _ => eq_refl end). Qed.

(** the folded ledger IS initial + taken − released (no flooring happens) *)
Theorem C06_ledger_hist_count ops w m L :
  GoodD (world_get w m) → hist_okD w m ops → Counts (world_get w m) L →
  ∀ n, ledger_hist w m ops L n + decrefs w m ops n = L n + increfs w m ops n.
Proof. exact (ledger_hist_count ops w m L). Qed.
Print Assumptions C06_ledger_hist_count.

(** every counter after an allowed history: in-degree + references held at
    the start + successful increfs − effective decrefs; a number that is not
    (or no longer) a node has every reference released *)
Theorem C06_ledger_counts_exact ops w m L :
  GoodD (world_get w m) → hist_okD w m ops → Counts (world_get w m) L →
  let sF := world_get (Total.run w m ops) m in
  (∀ n, decrefs w m ops n ≤ L n + increfs w m ops n) ∧
  (∀ n, n ∈ dom (succ sF) →
     refc sF !! n = Some (indeg (succ sF) n + (L n + increfs w m ops n - decrefs w m ops n))) ∧
  (∀ n, n ∉ dom (succ sF) → L n + increfs w m ops n = decrefs w m ops n).
Proof. exact (run_counts_exact ops w m L). Qed.
Print Assumptions C06_ledger_counts_exact.

(** from a fresh manager: [ledger_init] is the manager's own reference on the
    terminal (1 at node 1, 0 elsewhere) *)
Theorem C06_ledger_counts_exact_from_new levels ops m :
  allowedD (ONew levels) = true →
  let w1 := fst (step world_empty m (ONew levels)) in
  hist_okD w1 m ops →
  let sF := world_get (Total.run world_empty m (ONew levels :: ops)) m in
  (∀ n, decrefs w1 m ops n ≤ ledger_init n + increfs w1 m ops n) ∧
  (∀ n, n ∈ dom (succ sF) →
     refc sF !! n =
     Some (indeg (succ sF) n + (ledger_init n + increfs w1 m ops n - decrefs w1 m ops n))) ∧
  (∀ n, n ∉ dom (succ sF) → ledger_init n + increfs w1 m ops n = decrefs w1 m ops n).
Proof. exact (run_counts_exact_from_new levels ops m). Qed.
Print Assumptions C06_ledger_counts_exact_from_new.

(** ** 4. The whole alphabet of [Properties/C17c.v] ([op2]; several managers):
    explicit reorderings, [find_or_add], [copy_bdd], [image], [preimage],
    queries, dumps, [undeclare_vars] keep the ledger; [__del__] releases the
    manager's reference on the terminal *)
Theorem C06_ledger_after2_def s o r L :
  ledger_after2 s o r L =
  match o with
  | O1 o => ledger_after s o r L
  | OShutdown => if is_ok r && decref_effective s 1 then ledger_dec L 1%positive else L
  | _ => L
  end.
Proof. exact eq_refl. Qed.

Theorem C06_ledger_shutdown s L r s' :
  Inv s → Counts s L → caller_ok s (ODecref 1) → shutdown s = (r, s') →
  (∃ b, r = Ok b) ∧ decref_effective s 1 = true ∧ 0 < L 1%positive ∧
  Counts s' (ledger_dec L 1%positive).
Proof. exact (shutdown_ledger s L r s'). Qed.
Print Assumptions C06_ledger_shutdown.

(** one call (the hypotheses are those of [C17c_run_op3_good]) *)
Theorem C06_ledger_run_op2 w o s r s' :
  GoodD s → allowed3 o = true → is_new2 o = false → caller_ok3 s o →
  run_op2 w o s = (r, s') →
  ∀ L, Counts s L → Counts s' (ledger_after2 s o r L).
Proof. exact (run_op2_ledger w o s r s'). Qed.
Print Assumptions C06_ledger_run_op2.

Theorem C06_ledger_step2 w m o :
  allowed3 o = true →
  (is_new2 o = false → GoodD (world2_get w m) ∧ caller_ok3 (world2_get w m) o) →
  ∀ L, (is_new2 o = false → Counts (world2_get w m) L) →
  Counts (world2_get (step2 w m o).1 m)
         (ledger_after2 (world2_get w m) o (step2 w m o).2 L).
Proof. exact (step2_ledger w m o). Qed.
Print Assumptions C06_ledger_step2.

(** a call on another manager leaves manager [m] alone *)
Theorem C06_ledger_step2_other w m' m o :
  allowed3 o = true →
  (is_new2 o = false → GoodD (world2_get w m') ∧ caller_ok3 (world2_get w m') o) →
  m' ≠ m → world2_get (step2 w m' o).1 m = world2_get w m.
Proof. exact (step2_other w m' m o). Qed.

(** the ledger of manager [m] along a history of calls on any managers *)
Theorem C06_ledger_hist2_def w ops m L :
  ledger_hist2 w ops m L =
  match ops with
  | [] => L
  | (m', o) :: ops =>
      ledger_hist2 (fst (step2 w m' o)) ops m
        (if decide (m' = m)
         then ledger_after2 (world2_get w m) o (snd (step2 w m' o)) L else L)
  end.
Proof. exact (match ops with [] => eq_refl | (_, _) :: _ => eq_refl end). Qed.

Theorem C06_ledger_run2 ops w m L :
  WGoodD w → hist_ok3 w ops → Counts (world2_get w m) L →
  Counts (world2_get (run2 w ops) m) (ledger_hist2 w ops m L).
Proof. exact (run2_ledger ops w m L). Qed.
Print Assumptions C06_ledger_run2.

Theorem C06_ledger_run2_from_empty ops m :
  hist_ok3 world2_empty ops →
  Counts (world2_get (run2 world2_empty ops) m) (ledger_hist2 world2_empty ops m (fun _ => 0)).
Proof. exact (run2_ledger_from_empty ops m). Qed.
Print Assumptions C06_ledger_run2_from_empty.

(** counting, for a stretch of history in which manager [m] is not
    re-constructed ([no_new]; a constructor resets the ledger to
    [ledger_init]) *)
Theorem C06_inc_here2_def o r n :
  inc_here2 o r n = match o with O1 o => inc_here o r n | _ => 0 end.
Proof. exact eq_refl. Qed.
Theorem C06_dec_here2_def s o r n :
  dec_here2 s o r n =
  match o with
  | O1 o => dec_here s o r n
  | OShutdown =>
      if is_ok r && decref_effective s 1 && bool_decide (1%positive = n) then 1 else 0
  | _ => 0
  end.
Proof. exact eq_refl. Qed.
Theorem C06_increfs2_def w ops m n :
  increfs2 w ops m n =
  match ops with
  | [] => 0
  | (m', o) :: ops =>
      (if decide (m' = m) then inc_here2 o (snd (step2 w m' o)) n else 0) +
      increfs2 (fst (step2 w m' o)) ops m n
  end.
Proof. exact (match ops with [] => eq_refl | (_, _) :: _ => eq_refl end). Qed.
Theorem C06_decrefs2_def w ops m n :
  decrefs2 w ops m n =
  match ops with
  | [] => 0
  | (m', o) :: ops =>
      (if decide (m' = m) then dec_here2 (world2_get w m) o (snd (step2 w m' o)) n else 0) +
      decrefs2 (fst (step2 w m' o)) ops m n
  end.
Proof. exact (match ops with [] => eq_refl | (_, _) :: _ => eq_refl end). Qed.
Theorem C06_no_new_def ops m :
  no_new ops m ↔ Forall (fun p => p.1 = m → is_new2 p.2 = false) ops.
Proof. exact (conj (fun H => H) (fun H => H)). Qed.

Theorem C06_ledger_counts_exact2 ops w m L :
  WGoodD w → hist_ok3 w ops → no_new ops m → Counts (world2_get w m) L →
  let sF := world2_get (run2 w ops) m in
  (∀ n, decrefs2 w ops m n ≤ L n + increfs2 w ops m n) ∧
  (∀ n, n ∈ dom (succ sF) →
     refc sF !! n =
     Some (indeg (succ sF) n + (L n + increfs2 w ops m n - decrefs2 w ops m n))) ∧
  (∀ n, n ∉ dom (succ sF) → L n + increfs2 w ops m n = decrefs2 w ops m n).
Proof. exact (run2_counts_exact ops w m L). Qed.
Print Assumptions C06_ledger_counts_exact2.

(** ** Examples (by evaluation) *)

(** a fresh manager with two variables, dynamic reordering switched on;
    [var 0] = 2 taken twice, [var 1] = 3, [and] = 4 taken; 2 and 3 released
    once; [or] = 5 taken and released; garbage collection; then four failing
    calls: [incref 99], [decref 77] (no such node), an unknown operator, an
    undeclared variable *)
Theorem C06_ledger_levels_def : ledger_levels = [(0, 0); (1, 1)].
Proof. exact eq_refl. Qed.
Theorem C06_ledger_ops_def :
  ledger_ops =
  [OConfigure (Some true);
   OVar 0; OIncref 2; OIncref 2; OVar 1; OIncref 3;
   OApply "and" 2 (Some 3%Z) None; OIncref 4; ODecref 2; ODecref 3;
   OApply "or" 2 (Some 3%Z) None; OIncref 5; ODecref 5; OGc None;
   OIncref 99; ODecref 77; OApply "nand" 2 (Some 3%Z) None; OVar 7].
Proof. exact eq_refl. Qed.

Example C06_ledger_hypotheses_hold :
  hist_okD (fst (step world_empty 0 (ONew ledger_levels))) 0 ledger_ops.
Proof. exact ledger_ops_ok. Qed.

(** the outcomes of the calls *)
Example C06_ledger_example_outs :
  outs world_empty 0 (ONew ledger_levels :: ledger_ops) =
  [Ok VU; Ok (VB false);
   Ok (VZ 2); Ok VU; Ok VU; Ok (VZ 3); Ok VU;
   Ok (VZ 4); Ok VU; Ok VU; Ok VU;
   Ok (VZ 5); Ok VU; Ok VU; Ok VU;
   Err EKey; Err EKey; Err EValue; Err EValue].
Proof. by vm_compute. Qed.

(** node by node: (node, counter, in-degree, folded ledger, successful
    increfs, effective decrefs); counter = in-degree + ledger, and
    ledger = [ledger_init] + increfs − decrefs; node 5 has been collected *)
Example C06_ledger_example_table :
  let ops := ONew ledger_levels :: ledger_ops in
  let w1 := fst (step world_empty 0 (ONew ledger_levels)) in
  let sF := world_get (Total.run world_empty 0 ops) 0 in
  (fun '(u, c) => (u, c, indeg (succ sF) u, ledger_hist world_empty 0 ops (fun _ => 0) u,
                   increfs w1 0 ledger_ops u, decrefs w1 0 ledger_ops u))
    <$> map_to_list (refc sF) =
  [(1%positive, 6, 5, 1, 0, 0); (2%positive, 1, 0, 1, 2, 1);
   (4%positive, 1, 0, 1, 1, 0); (3%positive, 1, 1, 0, 1, 1)] ∧
  forallb (fun '(u, c) =>
             Nat.eqb c (indeg (succ sF) u + ledger_hist world_empty 0 ops (fun _ => 0) u))
          (map_to_list (refc sF)) = true ∧
  succ sF !! 5%positive = None ∧
  (ledger_hist world_empty 0 ops (fun _ => 0) 5%positive,
   increfs w1 0 ledger_ops 5%positive, decrefs w1 0 ledger_ops 5%positive) = (0, 1, 1).
Proof. vm_compute. by split_and!. Qed.

(** the same as instances of the theorems *)
Example C06_ledger_example :
  let ops := ONew ledger_levels :: ledger_ops in
  let sF := world_get (Total.run world_empty 0 ops) 0 in
  Counts sF (ledger_hist world_empty 0 ops (fun _ => 0)).
Proof. exact ledger_example. Qed.
Print Assumptions C06_ledger_example.

Example C06_ledger_example_exact :
  let w1 := fst (step world_empty 0 (ONew ledger_levels)) in
  let sF := world_get (Total.run world_empty 0 (ONew ledger_levels :: ledger_ops)) 0 in
  (∀ n, decrefs w1 0 ledger_ops n ≤ ledger_init n + increfs w1 0 ledger_ops n) ∧
  (∀ n, n ∈ dom (succ sF) →
     refc sF !! n =
     Some (indeg (succ sF) n +
           (ledger_init n + increfs w1 0 ledger_ops n - decrefs w1 0 ledger_ops n))) ∧
  (∀ n, n ∉ dom (succ sF) →
     ledger_init n + increfs w1 0 ledger_ops n = decrefs w1 0 ledger_ops n).
Proof. exact ledger_example_exact. Qed.

(** a bounded table: [bdd.max_nodes = 4], the conjunction of the two
    variables needs a fourth node and raises [RuntimeError]; [incref] of the
    node that was not made fails with [KeyError]; both leave the ledger alone;
    [decref 2] releases a reference; with the bound lifted the conjunction
    is node 4 and is taken *)
Theorem C06_ledger_ops_full_def :
  ledger_ops_full =
  [OConfigure (Some true);
   OVar 0; OIncref 2; OVar 1; OIncref 3;
   OSetMaxNodes (Some 4%positive);
   OApply "and" 2 (Some 3%Z) None; OIncref 4; ODecref 2;
   OSetMaxNodes None;
   OApply "and" 2 (Some 3%Z) None; OIncref 4].
Proof. exact eq_refl. Qed.

Example C06_ledger_hypotheses_full_hold :
  hist_okD (fst (step world_empty 0 (ONew ledger_levels))) 0 ledger_ops_full.
Proof. exact ledger_ops_full_ok. Qed.

Example C06_ledger_example_full_outs :
  outs world_empty 0 (ONew ledger_levels :: ledger_ops_full) =
  [Ok VU; Ok (VB false); Ok (VZ 2); Ok VU; Ok (VZ 3); Ok VU;
   Ok VU; Err ERuntime; Err EKey; Ok VU;
   Ok VU; Ok (VZ 4); Ok VU].
Proof. by vm_compute. Qed.

(** (node, counter, in-degree, folded ledger, successful increfs, effective
    decrefs) *)
Example C06_ledger_example_full_table :
  let ops := ONew ledger_levels :: ledger_ops_full in
  let w1 := fst (step world_empty 0 (ONew ledger_levels)) in
  let sF := world_get (Total.run world_empty 0 ops) 0 in
  (fun '(u, c) => (u, c, indeg (succ sF) u, ledger_hist world_empty 0 ops (fun _ => 0) u,
                   increfs w1 0 ledger_ops_full u, decrefs w1 0 ledger_ops_full u))
    <$> map_to_list (refc sF) =
  [(1%positive, 6, 5, 1, 0, 0); (2%positive, 0, 0, 0, 1, 1);
   (4%positive, 1, 0, 1, 1, 0); (3%positive, 2, 1, 1, 1, 0)].
Proof. by vm_compute. Qed.

Example C06_ledger_example_full :
  let ops := ONew ledger_levels :: ledger_ops_full in
  let sF := world_get (Total.run world_empty 0 ops) 0 in
  Counts sF (ledger_hist world_empty 0 ops (fun _ => 0)).
Proof. exact ledger_example_full. Qed.
Print Assumptions C06_ledger_example_full.

(** the whole alphabet, two managers: explicit reorderings (one rejected),
    [copy_bdd] into manager 1, a query, the release of every reference of
    manager 0 and its [__del__] *)
Theorem C06_ledger_ops2_def :
  ledger_ops2 =
  [(0, O1 (ONew [(0, 0); (1, 1)]));
   (0, O1 (OVar 0)); (0, O1 (OIncref 2)); (0, O1 (OVar 1)); (0, O1 (OIncref 3));
   (0, O1 (OApply "and" 2 (Some 3%Z) None)); (0, O1 (OIncref 4));
   (1, O1 (ONew [(0, 0); (1, 1)])); (1, O1 (OCopy 0 4)); (1, O1 (OIncref 4));
   (0, O1 (OSwap 0 1)); (0, O1 (OReorder None)); (0, O1 (OSwap 0 5));
   (0, OCount 4 None);
   (0, O1 (ODecref 2)); (0, O1 (ODecref 3)); (0, O1 (ODecref 4)); (0, OShutdown)].
Proof. exact eq_refl. Qed.

Example C06_ledger_hypotheses2_hold : hist_ok3 world2_empty ledger_ops2.
Proof. exact ledger_ops2_ok. Qed.

Example C06_ledger_example2_outs :
  snd <$> outs2 world2_empty ledger_ops2 =
  [Ok VU; Ok (VZ 2); Ok VU; Ok (VZ 3); Ok VU; Ok (VZ 4); Ok VU;
   Ok VU; Ok (VZ 4); Ok VU;
   Ok (VL [VN 4; VN 4]); Ok VU; Err EValue; Ok (VZ 1);
   Ok VU; Ok VU; Ok VU; Ok (VB true)].
Proof. by vm_compute. Qed.

(** per manager: (node, counter, in-degree, folded ledger).  Manager 0 is
    empty after [__del__] (the terminal's counter is 0: its own reference was
    released); manager 1 holds its terminal and the copy *)
Example C06_ledger_example2_table :
  (fun m =>
     let sF := world2_get (run2 world2_empty ledger_ops2) m in
     (fun '(u, c) => (u, c, indeg (succ sF) u,
                      ledger_hist2 world2_empty ledger_ops2 m (fun _ => 0) u))
       <$> map_to_list (refc sF)) <$> [0; 1] =
  [[(1%positive, 0, 0, 0)];
   [(1%positive, 6, 5, 1); (2%positive, 1, 1, 0); (4%positive, 1, 0, 1);
    (3%positive, 0, 0, 0)]].
Proof. by vm_compute. Qed.

Example C06_ledger_example2 m :
  Counts (world2_get (run2 world2_empty ledger_ops2) m)
         (ledger_hist2 world2_empty ledger_ops2 m (fun _ => 0)).
Proof. exact (ledger_example2 m). Qed.
Print Assumptions C06_ledger_example2.
