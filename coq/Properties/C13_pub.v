(** * Property C13 for the PUBLIC entry points — [image_pub], [preimage_pub]
      (the module functions [dd.bdd.image], [dd.bdd.preimage] as a user calls
      them: the recursion runs with reordering requests disabled and the
      threshold is restored afterwards, [guarded]) compute the relational
      product for ANY reordering threshold [last_len s], i.e. with dynamic
      reordering enabled or disabled.  These are the theorems of
      [Properties/C13.v] WITHOUT the hypothesis [last_len s = None], for the
      function the driver actually calls ([Model/Driver.v]: [OImage],
      [OPreimage]); the conclusion additionally says that the threshold is
      the same before and after.  Same vocabulary as [Properties/C13.v]
      ([C13_definitions]).  As in [Properties/C13.v], the theorems that
      conclude an [Ok] result assume [max_nodes s = None] (no node limit,
      the default; with a limit the call may also raise [RuntimeError] at a
      full table); [C13_image_pub_correct_whenever_it_returns] is given the
      [Ok] result and has no such hypothesis.  Only statements closed by
      [exact]; proofs live in [Proofs/PubCorrect.v]. *)
From DD Require Import PubCorrect.
Local Open Scope string_scope.

(** the functions the statements are about *)
Theorem C13_pub_definitions :
  (∀ t u bn rn qbn q fa, image_pub t u bn rn qbn q fa = guarded (image t u bn rn qbn q fa)) ∧
  (∀ t u bn rn qbn q fa, preimage_pub t u bn rn qbn q fa = guarded (preimage t u bn rn qbn q fa)) ∧
  (∀ A (m : MS A) s r s', guarded m s = (r, s') →
     (last_len s = None ∧ m s = (r, s')) ∨
     ∃ ll s1, last_len s = Some ll ∧ m (s <| last_len := None |>) = (r, s1) ∧
              s' = s1 <| last_len := Some ll |>).
Proof. exact (conj (fun _ _ _ _ _ _ _ => eq_refl) (conj (fun _ _ _ _ _ _ _ => eq_refl) (@guarded_run))). Qed.

(** ** [preimage], any threshold *)
Theorem C13_preimage_pub_correct s trans target byname rn qbyname qvars fa q rnl m r s' :
  Inv s → max_nodes s = None → valid s trans → valid s target →
  fst (map_to_level_set qbyname qvars s) = Ok q →
  fst (map_rename byname rn s) = Ok rnl → m = list_to_map (reverse rnl) →
  no_overlap m = true →
  (∀ k k', m !! k = Some k' → k < nvars s ∧ k' < nvars s) →
  (∀ k1 k2 k', m !! k1 = Some k' → m !! k2 = Some k' → k1 = k2) →
  (∀ k k', m !! k = Some k' → k' = k + 1 ∨ k = k' + 1) →
  (∀ k k', m !! k = Some k' → ¬ occurs s target k') →
  preimage_pub trans target byname rn qbyname qvars fa s = (r, s') →
  ∃ x, r = Ok x ∧ Inv s' ∧ extends s s' ∧ last_len s' = last_len s ∧ valid s' x ∧
    ∀ a, D s' x a = true ↔
      if fa then ∀ b, agree_off q a b → pre_body s m trans target b = true
      else ∃ b, agree_off q a b ∧ pre_body s m trans target b = true.
Proof.
  exact (preimage_pub_spec s trans target byname rn qbyname qvars fa q rnl m r s').
Qed.

Theorem C13_preimage_pub_correct_monotone
    s trans target byname rn qbyname qvars fa q rnl m r s' :
  Inv s → max_nodes s = None → valid s trans → valid s target →
  fst (map_to_level_set qbyname qvars s) = Ok q →
  fst (map_rename byname rn s) = Ok rnl → m = list_to_map (reverse rnl) →
  no_overlap m = true →
  (∀ k k', m !! k = Some k' → k < nvars s) →
  vm_ok s (Some m) target →
  preimage_pub trans target byname rn qbyname qvars fa s = (r, s') →
  ∃ x, r = Ok x ∧ Inv s' ∧ extends s s' ∧ last_len s' = last_len s ∧ valid s' x ∧
    ∀ a, D s' x a = true ↔ qsemF fa q (pre_body s m trans target) a.
Proof.
  exact (preimage_pub_spec_mono s trans target byname rn qbyname qvars fa q rnl m r s').
Qed.

(** ** [image], any threshold *)
Theorem C13_image_pub_correct s trans source byname rn qbyname qvars fa q rnl m r s' :
  Inv s → max_nodes s = None → valid s trans → valid s source →
  fst (map_to_level_set qbyname qvars s) = Ok q →
  fst (map_rename byname rn s) = Ok rnl → m = list_to_map (reverse rnl) →
  no_overlap m = true →
  (∀ k k', (k, k') ∈ rnl → k < nvars s ∧ k' < nvars s) →
  (∀ k k', (k, k') ∈ rnl → occurs s trans k' ∨ occurs s source k' → k' ∈ q) →
  image_pub trans source byname rn qbyname qvars fa s = (r, s') →
  ∃ x, r = Ok x ∧ Inv s' ∧ extends s s' ∧ last_len s' = last_len s ∧ valid s' x ∧
    ∀ a, D s' x a = true ↔
      if fa then ∀ b, agree_off q (post_assign m a) b → conj_body s trans source b = true
      else ∃ b, agree_off q (post_assign m a) b ∧ conj_body s trans source b = true.
Proof.
  exact (image_pub_spec_doc s trans source byname rn qbyname qvars fa q rnl m r s').
Qed.

Theorem C13_image_pub_correct_whenever_it_returns
    s trans source byname rn qbyname qvars fa q rnl m x s' :
  Inv s → valid s trans → valid s source →
  fst (map_to_level_set qbyname qvars s) = Ok q →
  fst (map_rename byname rn s) = Ok rnl → m = list_to_map (reverse rnl) →
  (∀ k k', m !! k = Some k' → k' < nvars s) →
  image_pub trans source byname rn qbyname qvars fa s = (Ok x, s') →
  image_pre s trans source rnl q ∧
  Inv s' ∧ extends s s' ∧ last_len s' = last_len s ∧ valid s' x ∧
    ∀ a, D s' x a = true ↔
      if fa then ∀ b, agree_off q (post_assign m a) b → conj_body s trans source b = true
      else ∃ b, agree_off q (post_assign m a) b ∧ conj_body s trans source b = true.
Proof.
  exact (image_pub_spec_run s trans source byname rn qbyname qvars fa q rnl m x s').
Qed.

Theorem C13_image_pub_correct_checks s trans source byname rn qbyname qvars fa q rnl m r s' :
  Inv s → max_nodes s = None → valid s trans → valid s source →
  fst (map_to_level_set qbyname qvars s) = Ok q →
  fst (map_rename byname rn s) = Ok rnl → m = list_to_map (reverse rnl) →
  (∀ k k', m !! k = Some k' → k' < nvars s) →
  image_pre s trans source rnl q →
  image_pub trans source byname rn qbyname qvars fa s = (r, s') →
  ∃ x, r = Ok x ∧ Inv s' ∧ extends s s' ∧ last_len s' = last_len s ∧ valid s' x ∧
    ∀ a, D s' x a = true ↔
      if fa then ∀ b, agree_off q (post_assign m a) b → conj_body s trans source b = true
      else ∃ b, agree_off q (post_assign m a) b ∧ conj_body s trans source b = true.
Proof.
  exact (image_pub_spec s trans source byname rn qbyname qvars fa q rnl m r s').
Qed.

(** ** Non-vacuity, by running the model: the manager of [C13_nonvacuous]
    (x = v0, x' = v1, y = v2, y' = v3; trans = -12, state 0 = -13,
    state 1 = -14) with dynamic reordering ENABLED and the threshold 1 (the
    manager has 15 nodes: every [find_or_add] requests a reordering).
    - the hypotheses of the theorems are satisfiable with [last_len = Some 1];
    - the INNER [image] / [preimage] abort with the reordering signal;
    - the public ones return state 1 / state 0 and restore the threshold;
    - the driver operations [OImage] / [OPreimage] are the public ones. *)
Example C13_pub_nonvacuous :
  let run := fold_left (fun w o => fst (step w 0 o)) in
  let w := run [ONew [(0, 0); (1, 1); (2, 2); (3, 3)]; OVar 0; OVar 1; OVar 2; OVar 3;
                OApply "<->" 3 (Some (-2)%Z) None; OApply "xor" 2 (Some 4%Z) None;
                OApply "<->" 5 (Some (-7)%Z) None; OApply "and" (-6) (Some (-9)%Z) None;
                OApply "and" (-2) (Some (-4)%Z) None; OApply "and" 2 (Some (-4)%Z) None;
                OApply "or" 2 (Some 3%Z) None;
                OConfigure (Some true); OSetLastLen (Some 1)]
               world_empty in
  let s := world_get w 0 in
  let im := image_pub (-12) (-13) true [(1, 0); (3, 2)] true [0; 2] false s in
  let pre := preimage_pub (-12) (-14) true [(0, 1); (2, 3)] true [1; 3] false s in
  mem (-12) s = true ∧ mem (-13) s = true ∧ mem (-14) s = true ∧
  last_len s = Some 1 ∧ max_nodes s = None ∧ len s = 15 ∧ rctx s = false ∧
  match fst (map_to_level_set true [0; 2] s) with
  | Ok q => Some (elements q) | Err _ => None end = Some [0; 2] ∧
  fst (map_rename true [(1, 0); (3, 2)] s) = Ok [(1, 0); (3, 2)] ∧
  no_overlap (list_to_map (reverse [(1, 0); (3, 2)])) = true ∧
  no_overlap (list_to_map (reverse [(0, 1); (2, 3)])) = true ∧
  fst (image (-12) (-13) true [(1, 0); (3, 2)] true [0; 2] false s) = Err ENeedsReordering ∧
  fst (preimage (-12) (-14) true [(0, 1); (2, 3)] true [1; 3] false s) = Err ENeedsReordering ∧
  fst im = Ok (-14)%Z ∧ last_len (snd im) = Some 1 ∧
  fst pre = Ok (-13)%Z ∧ last_len (snd pre) = Some 1 ∧
  snd (step w 0 (OImage (-12) (-13) true [(1, 0); (3, 2)] true [0; 2] false))
    = Ok (VZ (-14)) ∧
  snd (step w 0 (OPreimage (-12) (-14) true [(0, 1); (2, 3)] true [1; 3] false))
    = Ok (VZ (-13)).
Proof. by vm_compute. Qed.

Print Assumptions C13_preimage_pub_correct.
Print Assumptions C13_preimage_pub_correct_monotone.
Print Assumptions C13_image_pub_correct.
Print Assumptions C13_image_pub_correct_whenever_it_returns.
Print Assumptions C13_image_pub_correct_checks.
Print Assumptions C13_pub_nonvacuous.
