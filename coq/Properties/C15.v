(** * Property C15 — MDD managers ([dd.mdd.MDD]) and [bdd_to_mdd].
      Only statements closed by [exact]; proofs live in [Proofs/MddSem.v] and
      [Proofs/MddOps.v].

    [MD s u I]: value of the MDD reference [u] under the assignment [I] of an
    integer to every (integer-variable) level: follow successor number [I i]
    at a node of level [i], complement on negative edges, the terminal is
    true.  (Values outside the range of a variable read as value 0; functions
    are only compared on in-range assignments, [minrange].)
    [MInv s]: the terminal is node 1 at level [number of variables] with no
    successor; every other node [(i, nodes)] has [i <] number of variables,
    as many successors as the variable at level [i] has values, valid
    successors at strictly larger levels, a positive FIRST successor, not all
    successors equal; [mpred] is the inverse of [msucc] on non-terminals;
    [dom mref = dom msucc]; free ids are unused and [≤ mmax]; ids [> mmax]
    are unused; the entries of the computed table are sound; the levels of the
    variables are [0..n-1], one variable each.
    [mframe s s']: the allocation oracle tape is only consumed. *)
From DD Require Import MddOps Driver5.
Local Open Scope string_scope.

(** [MDD(dvars)] satisfies the invariant *)
Theorem C15_init dvars : dvars_ok dvars → MInv (mdd_init dvars).
Proof. exact (mdd_init_MInv dvars). Qed.

(** [find_or_add(i, *nodes)]: for valid successors at deeper levels and the
    right arity, the result denotes "successor number [I i]"; nothing else
    changes meaning ([mextends] + [MD_extends]).  The allocation may reuse a
    freed id: the statement holds for every oracle tape; the only possible
    error is the oracle proposing an id that is not free ([EOracle], never
    with an empty tape). *)
Theorem C15_find_or_add s i nodes r s' :
  MInv s → nodes ≠ [] → mlen_at s i (length nodes) →
  (∀ x, x ∈ nodes → mvalid s x ∧ i < mlvl_of s x) →
  m_find_or_add i nodes s = (r, s') →
  MInv s' ∧ mextends s s' ∧ mframe s s' ∧
  match r with
  | Ok u => mvalid s' u ∧ i ≤ mlvl_of s' u ∧
            ∀ I, MD s' u I = MD s (msel nodes (I i)) I
  | Err e => e = EOracle ∧ mtape s ≠ []
  end.
Proof. exact (m_find_or_add_spec s i nodes r s'). Qed.

(** references keep their meaning when the manager grows *)
Theorem C15_extends s s' u I :
  mextends s s' → MInv s → mvalid s u → MD s' u I = MD s u I.
Proof. exact (MD_extends s s' u I). Qed.

(** [ite(g, u, v)] computes if-then-else pointwise (any state satisfying the
    invariant: warm cache, reused ids) *)
Theorem C15_ite s g u v r s' :
  MInv s → mvalid s g → mvalid s u → mvalid s v →
  m_ite_ g u v s = (r, s') →
  MInv s' ∧ mextends s s' ∧ mframe s s' ∧
  match r with
  | Ok w => mvalid s' w ∧ ∀ I, MD s' w I = if MD s g I then MD s u I else MD s v I
  | Err e => e = EOracle ∧ mtape s ≠ []
  end.
Proof. exact (m_ite__spec s g u v r s'). Qed.

(** the MDD operator table is the BDD table with the quantifier rows blanked
    (checked on the whole vocabulary of dd/_abc.py) *)
Theorem C15_table_rows :
  forallb (fun op => bool_decide (mdd_find mdd_apply_table op =
     (fun t => match t with TQuant _ _ _ => None | t => Some t end)
       <$> find_template py_apply_table op)) py_vocab = true.
Proof. exact mdd_table_rows. Qed.

(** [apply] for every propositional symbol and alias of the vocabulary *)
Theorem C15_apply_correct s op u v w r s' f :
  MInv s → op ∈ py_vocab → conn_sem op = Some f →
  mvalid s u → movalid s v → movalid s w → arity_ok op v w = true →
  mdd_apply_with mdd_apply_table op u v w s = (r, s') →
  MInv s' ∧ mextends s s' ∧ mframe s s' ∧
  match r with
  | Ok x => mvalid s' x ∧ ∀ I, MD s' x I = f (MD s u I) (moden s v I) (moden s w I)
  | Err e => e = EOracle ∧ mtape s ≠ []
  end.
Proof. exact (mdd_apply_correct s op u v w r s' f). Qed.

(** the quantifier spellings raise [NotImplementedError]; the manager is untouched *)
Theorem C15_apply_quantifier s op u v w :
  op ∈ quantifier_ops → arity_ok op v w = true →
  mvalid s u → movalid s v → movalid s w →
  mdd_apply_with mdd_apply_table op u v w s = (Err ERuntime, s).
Proof. exact (mdd_apply_quantifier s op u v w). Qed.

(** equal functions (compared on the in-range assignments only) have equal
    references; every variable must have at least one value, otherwise no
    assignment is in range *)
Theorem C15_canonical s u v :
  MInv s → mlens_pos s → mvalid s u → mvalid s v →
  (∀ I, minrange s I → MD s u I = MD s v I) → u = v.
Proof. exact (fun H1 H2 => mdd_canonical s H1 H2 u v). Qed.

(** [collect_garbage()]: with exact counters ([MCounts s L]: counter =
    number of stored edges to the node + ledger [L] of external references)
    it never fails, keeps the invariant and the counters, clears the
    computed table, leaves exactly the terminal and the nodes reachable from
    an externally referenced node, with their tuples, and the ids added to
    the free set are exactly the removed nodes. *)
Theorem C15_gc_exact s L r s' :
  MInv s → MCounts s L →
  m_collect_garbage s = (r, s') →
  r = Ok tt ∧ MInv s' ∧ MCounts s' L ∧ mite s' = ∅ ∧
  mvars s' = mvars s ∧ mmax s' = mmax s ∧
  (∀ n, n ∈ dom (msucc s') ↔ n = 1%positive ∨ mreach (msucc s) (fun k => 0 < L k) n) ∧
  (∀ n (t : mtuple), (msucc s' !! n : option mtuple) = Some t →
                     (msucc s !! n : option mtuple) = Some t) ∧
  mfree s' = mfree s ∪ (dom (msucc s) ∖ dom (msucc s')).
Proof. exact (m_gc_exact s L r s'). Qed.

(** the counters are exact in a new manager and stay exact (same ledger)
    through [find_or_add], [ite] and [apply]; [incref]/[decref] move the
    ledger entry of the node by one *)
Theorem C15_counts_init dvars : MCounts (mdd_init dvars) (fun _ => 0).
Proof. exact (mdd_init_MCounts dvars). Qed.

Theorem C15_counts_find_or_add s L i nodes r s' :
  MInv s → MCounts s L → (∀ x, x ∈ nodes → mvalid s x) →
  m_find_or_add i nodes s = (r, s') → MCounts s' L.
Proof. exact (m_find_or_add_counts s L i nodes r s'). Qed.

Theorem C15_counts_ite s L g u v r s' :
  MInv s → MCounts s L → mvalid s g → mvalid s u → mvalid s v →
  m_ite_ g u v s = (r, s') → MCounts s' L.
Proof. exact (m_ite__counts s L g u v r s'). Qed.

Theorem C15_counts_apply s L op u v w r s' f :
  MInv s → MCounts s L → op ∈ py_vocab → conn_sem op = Some f →
  mvalid s u → movalid s v → movalid s w → arity_ok op v w = true →
  mdd_apply_with mdd_apply_table op u v w s = (r, s') → MCounts s' L.
Proof. exact (mdd_apply_counts s L op u v w r s' f). Qed.

Theorem C15_counts_incref s L u r s' :
  mvalid s u → MCounts s L → m_incref u s = (r, s') →
  r = Ok tt ∧ MCounts s' (ledger_inc L (absn u)).
Proof. exact (MCounts_incref s L u r s'). Qed.

Theorem C15_counts_decref s L u r s' :
  mvalid s u → MCounts s L → 0 < L (absn u) → m_decref u s = (r, s') →
  r = Ok tt ∧ MCounts s' (ledger_dec L (absn u)).
Proof. exact (MCounts_decref s L u r s'). Qed.

(** ** [bdd_to_mdd(bdd, dvars)]

    The function is: compute the target bit order; [bdd.collect_garbage()];
    [reorder(bdd, order)]; then the conversion proper, [bdd_to_mdd_tail]
    (selection of the nodes entered from outside their zone, then one MDD
    node per selected BDD node, deepest BDD level first). *)
Theorem C15_bdd_to_mdd_unfold dvars order :
  bdd_to_mdd dvars order =
  (let m := length dvars in
   bits_in_order <- mapM (fun j =>
      of_opt EKey (match list_find (fun '(_, (l, _)) => bool_decide (l = j)) dvars with
                   | Some (_, (_, (_, bits))) => Some bits
                   | None => None
                   end)) (seq 0 m) ;;
   let target := concat bits_in_order in
   let bit_to_sort : list (nat * nat) := imap (fun k b => (b, k)) target in
   collect_garbage None ;;;
   reorder_pub (Some (list_to_map bit_to_sort)) ;;;
   bdd_to_mdd_tail dvars bit_to_sort order).
Proof. exact (bdd_to_mdd_unfold dvars order). Qed.

(** The conversion proper, RELATIVE to the state [s] reached after the
    reordering: [Inv s], dynamic reordering off, and [b2m_wf dvars s]
    (integer variables named once, at levels [0..m-1]; the bits of a variable
    listed once; every bit belongs to one variable; ZONES: the integer level
    [ilvl] of a BDD level is monotone in the BDD level — in particular when
    the bits of each integer variable occupy consecutive levels in the order
    of [dvars]).  Whenever the conversion returns [(mdd, umap)]: the BDD
    manager only grew and every BDD reference keeps its function; [mdd]
    satisfies the MDD invariant and has the variables of [dvars] (variable
    at level [j] with [2 ^ #bits] values); and for every entry [u ↦ x] of
    [umap] (a reference [-u] maps to [-x], [MD_neg]/[D_neg]), on every
    in-range integer assignment [I] the MDD reference [x] has the value of
    the BDD node [u] on the bit assignment [bits_of dvars s I].

    [_partial]: this is partial correctness.  Missing for the full property:
    (1) totality of this part, i.e. that the selected set [keep] contains the
    target of every cofactor (otherwise [umap[abs(z)]] raises [KeyError],
    modelled as [Err EKey]); (2) that the state reached after
    [collect_garbage]+[reorder] satisfies the hypotheses (zones), which
    depends on the correctness of [reorder], proved elsewhere. *)
Theorem C15_bdd_to_mdd_tail_partial dvars b2s order s mdd umap s' :
  Inv s → last_len s = None → b2m_wf dvars s →
  bdd_to_mdd_tail dvars b2s order s = (Ok (mdd, umap), s') →
  Inv s' ∧ extends s s' ∧ (∀ v a, valid s v → D s' v a = D s v a) ∧
  MInv mdd ∧ mextends (b2m_mdd0 dvars) mdd ∧
  ∀ u x, (u, x) ∈ umap →
    valid s (Z.pos u) ∧ mvalid mdd x ∧
    ∀ I, minrange mdd I → MD mdd x I = D s (Z.pos u) (bits_of dvars s I).
Proof. exact (bdd_to_mdd_tail_partial_correct dvars b2s order s mdd umap s'). Qed.

(** one iteration of the final loop keeps the loop invariant [B2M] (the BDD
    manager only grew from [s0]; [mdd] is well formed; every entry of [umap]
    has the right meaning and sits at or below the integer level of its BDD
    node): if the node is skipped or its MDD node is built, the new entry is
    correct *)
Theorem C15_bdd_to_mdd_step_partial dvars s0 keep sb mdd umap u r sb' :
  Inv s0 → b2m_wf dvars s0 →
  B2M dvars s0 sb mdd umap → u ∈ dom (succ s0) →
  b2m_step dvars keep (mdd, umap) u sb = (r, sb') →
  match r with
  | Ok (mdd', umap') => B2M dvars s0 sb' mdd' umap'
  | Err _ => True
  end.
Proof. exact (fun H1 H2 => b2m_step_spec dvars s0 H1 H2 keep sb mdd umap u r sb'). Qed.

(** [bits_of] in terms of binary digits: the bit listed at position [p] of
    the integer variable at level [j] gets digit [p] of [I j] — first listed
    bit least significant, as [_enumerate_integer] *)
Theorem C15_bits_of_testbit dvars s I l b var j bits p :
  Inv s → b2m_wf dvars s → lvl2var s !! l = Some b → (var, (j, bits)) ∈ dvars →
  bits !! p = Some b → I j < 2 ^ length bits →
  bits_of dvars s I l = Nat.testbit (I j) p.
Proof. exact (bits_of_testbit dvars s I l b var j bits p). Qed.

Theorem C15_enumerate_integer bits k d p b :
  NoDup bits → enumerate_integer bits !! k = Some d → bits !! p = Some b →
  Mdd.assoc d b = Some (Nat.testbit k p).
Proof. exact (enumerate_integer_testbit bits k d p b). Qed.

(** ** Non-vacuity *)

(** an MDD manager with x0 ∈ {0,1,2} (level 0) and x1 ∈ {0,1} (level 1):
    nodes, [apply], [ite], collection, and reuse of a freed id *)
Definition C15_run (ops : list mop) : mworld * list (res value) :=
  fold_left (fun '(w, rs) o => let '(w', r) := mstep w 0 o in (w', (rs ++ [r])%list))
            ops (mworld_empty, []).
Definition C15_ops : list mop :=
  [MNew [(0, (0, 3)); (1, (1, 2))];
   MFindOrAdd 1 [(-1)%Z; 1%Z];             (* -2 : node 2 is (x1 = 0), the result its negation *)
   MFindOrAdd 0 [1%Z; (-2)%Z; 2%Z];        (* 3 *)
   MApply "and" (-2) (Some 3%Z) None;      (* -4 *)
   MIte 3 (-2) 2;                          (* -5 *)
   MIncref 4; MGc;                         (* frees 3 and 5 *)
   MFindOrAdd 0 [1%Z; (-1)%Z; (-2)%Z]].    (* reuses the freed id 3 *)

Example C15_mdd_dvars_ok : dvars_ok [(0, (0, 3)); (1, (1, 2))].
Proof.
  split; [|split].
  - refine (bool_decide_unpack _ _). by vm_compute.
  - intros v1 v2 l n1 n2 H1 H2.
    apply elem_of_list_In in H1, H2. cbn in H1, H2.
    destruct H1 as [H1|[H1|[]]], H2 as [H2|[H2|[]]]; by simplify_eq.
  - intros l Hl. cbn in Hl.
    destruct l as [|[|l]]; [exists 0, 3; left|exists 1, 2; right; left|lia].
Qed.

Example C15_mdd_ops :
  let '(w, rs) := C15_run C15_ops in
  let s := mworld_get w 0 in
  rs = [Ok VU; Ok (VZ (-2)); Ok (VZ 3); Ok (VZ (-4)); Ok (VZ (-5)); Ok VU; Ok VU; Ok (VZ 3)] ∧
  elements (mfree s) = [5%positive] ∧
  elements (dom (msucc s)) = [1; 2; 4; 3]%positive ∧
  (* -2 is (x1 = 1); node 3 was: x0 = 0, or x0 = 1 ∧ x1 = 1, or x0 = 2 ∧ x1 = 0;
     the surviving result -4 of "and" is their conjunction *)
  forallb (fun '(i0, i1) =>
    bool_decide (MD s (-4) (fun l => match l with 0 => i0 | _ => i1 end) =
                 (bool_decide (i1 = 1) &&
                  (bool_decide (i0 = 0) || (bool_decide (i0 = 1) && bool_decide (i1 = 1)) ||
                   (bool_decide (i0 = 2) && bool_decide (i1 = 0))))))
    [(0, 0); (0, 1); (1, 0); (1, 1); (2, 0); (2, 1)] = true.
Proof. by vm_compute. Qed.

(** a conversion: BDD over bits v0, v1, v2 with the function v1 ∨ v2
    referenced; x10 has bits [v0; v1] (v0 least significant), x11 has [v2] *)
Definition C15_bdd : world2 :=
  fold_left (fun w o => fst (step2 w 0 (O1 o)))
    [ONew [(0, 0); (1, 1); (2, 2)]; OVar 0; OVar 1; OVar 2;
     OApply "and" 2 (Some 3%Z) None; OApply "\/" 5 (Some 4%Z) None; OIncref 6] world2_empty.
Definition C15_dvars : list (nat * (nat * list nat)) := [(10, (0, [0; 1])); (11, (1, [2]))].

Example C15_conversion :
  let '(w, mw, r) := step_bdd_to_mdd C15_bdd mworld_empty 0 0 C15_dvars [4%positive; 6%positive] in
  let s := world2_get w 0 in
  let mdd := mworld_get mw 0 in
  r = Ok (VL [VL [VZ 1; VZ 1]; VL [VZ 4; VZ (-2)]; VL [VZ 6; VZ (-3)]]) ∧
  (* node 6 is v1 ∨ v2; its image -3 has the same value on every assignment,
     bit v1 being binary digit 1 of x10 *)
  forallb (fun '(i0, i1) =>
    let I := fun l => match l with 0 => i0 | _ => i1 end in
    bool_decide (MD mdd (-3) I = D s 6 (bits_of C15_dvars s I)) &&
    bool_decide (D s 6 (bits_of C15_dvars s I) = (Nat.testbit i0 1 || Nat.testbit i1 0)))
    [(0, 0); (0, 1); (1, 0); (1, 1); (2, 0); (2, 1); (3, 0); (3, 1)] = true.
Proof. by vm_compute. Qed.

(** the hypotheses of [C15_bdd_to_mdd_tail_partial] other than [Inv] can be
    checked by computation ([b2m_wf_b] is a sound checker for [b2m_wf]); on
    the example, after [collect_garbage] and [reorder] they hold and the
    conversion proper returns *)
Theorem C15_b2m_wf_check dvars s : b2m_wf_b dvars s = true → b2m_wf dvars s.
Proof. exact (b2m_wf_b_sound dvars s). Qed.

Example C15_conversion_hypotheses :
  let s := world2_get C15_bdd 0 in
  let b2s := [(0, 0); (1, 1); (2, 2)] in
  let '(r1, s1) := (collect_garbage None ;;; reorder (Some (list_to_map b2s))) s in
  r1 = Ok tt ∧ last_len s1 = None ∧ b2m_wf_b C15_dvars s1 = true ∧
  match bdd_to_mdd_tail C15_dvars b2s [4%positive; 6%positive] s1 with
  | (Ok (_, umap), _) => umap = [(1%positive, 1%Z); (4%positive, (-2)%Z); (6%positive, (-3)%Z)]
  | _ => False
  end.
Proof. by vm_compute. Qed.

(** why [C15_canonical] asks for [mlens_pos]: the model (as the Python
    class) accepts a variable with no value; then no assignment is in range
    and the two references of the terminal agree on all of them *)
Example C15_canonical_needs_values :
  let s := mdd_init [(0, (0, 0))] in
  MInv s ∧ mvalid s 1 ∧ mvalid s (-1) ∧ ∀ I, ¬ minrange s I.
Proof.
  assert (Hok : dvars_ok [(0, (0, 0))]).
  { split; [|split].
    - refine (bool_decide_unpack _ _). by vm_compute.
    - intros v1 v2 l n1 n2 H1%elem_of_list_singleton H2%elem_of_list_singleton. congruence.
    - intros l Hl. cbn in Hl. assert (l = 0) as -> by lia. exists 0, 0. by left. }
  pose proof (mdd_init_MInv _ Hok) as HI.
  split; [done|]. split; [by apply mvalid_1|]. split; [by apply mvalid_m1|].
  intros I Hr. specialize (Hr 0 0 0). cbn in Hr.
  assert (I 0 < 0); [|lia]. apply Hr. by vm_compute.
Qed.
