(** * Property C15 — MDD managers ([dd.mdd.MDD]) and [bdd_to_mdd].
      Only statements closed by [exact]; proofs live in [Proofs/MddSem.v] and
      [Proofs/MddOps.v].

    [MD s u I]: value of the MDD reference [u] under the assignment [I] of an
    integer to every (integer-variable) level: follow successor number [I i]
    at a node of level [i], complement on negative edges, the terminal is
    true.  (Values outside the range of a variable read as value 0; functions
    are only compared on in-range assignments, [minrange].)
    [MInv s]: the terminal is node 1 at level [number of variables] with no
    successor; every other node [(i, nodes)] has [i <] number of variables,
    as many successors as the variable at level [i] has values, valid
    successors at strictly larger levels, a positive FIRST successor, not all
    successors equal; [mpred] is the inverse of [msucc] on non-terminals;
    [dom mref = dom msucc]; free ids are unused and [≤ mmax]; ids [> mmax]
    are unused; the entries of the computed table are sound; the levels of the
    variables are [0..n-1], one variable each.
    [mframe s s']: the allocation oracle tape is only consumed. *)
From DD Require Import MddOps Driver5.
Local Open Scope string_scope.

(** [MDD(dvars)] satisfies the invariant *)
Theorem C15_init dvars : dvars_ok dvars → MInv (mdd_init dvars).
Proof. exact (mdd_init_MInv dvars). Qed.

(** [find_or_add(i, *nodes)]: for valid successors at deeper levels and the
    right arity, the result denotes "successor number [I i]"; nothing else
    changes meaning ([mextends] + [MD_extends]).  The allocation may reuse a
    freed id: the statement holds for every oracle tape; the only possible
    error is the oracle proposing an id that is not free ([EOracle], never
    with an empty tape). *)
Theorem C15_find_or_add s i nodes r s' :
  MInv s → nodes ≠ [] → mlen_at s i (length nodes) →
  (∀ x, x ∈ nodes → mvalid s x ∧ i < mlvl_of s x) →
  m_find_or_add i nodes s = (r, s') →
  MInv s' ∧ mextends s s' ∧ mframe s s' ∧
  match r with
  | Ok u => mvalid s' u ∧ i ≤ mlvl_of s' u ∧
            ∀ I, MD s' u I = MD s (msel nodes (I i)) I
  | Err e => e = EOracle ∧ mtape s ≠ []
  end.
Proof. exact (m_find_or_add_spec s i nodes r s'). Qed.

(** references keep their meaning when the manager grows *)
Theorem C15_extends s s' u I :
  mextends s s' → MInv s → mvalid s u → MD s' u I = MD s u I.
Proof. exact (MD_extends s s' u I). Qed.

(** [ite(g, u, v)] computes if-then-else pointwise (any state satisfying the
    invariant: warm cache, reused ids) *)
Theorem C15_ite s g u v r s' :
  MInv s → mvalid s g → mvalid s u → mvalid s v →
  m_ite_ g u v s = (r, s') →
  MInv s' ∧ mextends s s' ∧ mframe s s' ∧
  match r with
  | Ok w => mvalid s' w ∧ ∀ I, MD s' w I = if MD s g I then MD s u I else MD s v I
  | Err e => e = EOracle ∧ mtape s ≠ []
  end.
Proof. exact (m_ite__spec s g u v r s'). Qed.

(** the MDD operator table is the BDD table with the quantifier rows blanked
    (checked on the whole vocabulary of dd/_abc.py) *)
Theorem C15_table_rows :
  forallb (fun op => bool_decide (mdd_find mdd_apply_table op =
     (fun t => match t with TQuant _ _ _ => None | t => Some t end)
       <$> find_template py_apply_table op)) py_vocab = true.
Proof. exact mdd_table_rows. Qed.

(** [apply] for every propositional symbol and alias of the vocabulary *)
Theorem C15_apply_correct s op u v w r s' f :
  MInv s → op ∈ py_vocab → conn_sem op = Some f →
  mvalid s u → movalid s v → movalid s w → arity_ok op v w = true →
  mdd_apply_with mdd_apply_table op u v w s = (r, s') →
  MInv s' ∧ mextends s s' ∧ mframe s s' ∧
  match r with
  | Ok x => mvalid s' x ∧ ∀ I, MD s' x I = f (MD s u I) (moden s v I) (moden s w I)
  | Err e => e = EOracle ∧ mtape s ≠ []
  end.
Proof. exact (mdd_apply_correct s op u v w r s' f). Qed.

(** the quantifier spellings raise [NotImplementedError]; the manager is untouched *)
Theorem C15_apply_quantifier s op u v w :
  op ∈ quantifier_ops → arity_ok op v w = true →
  mvalid s u → movalid s v → movalid s w →
  mdd_apply_with mdd_apply_table op u v w s = (Err ERuntime, s).
Proof. exact (mdd_apply_quantifier s op u v w). Qed.

(** equal functions (compared on the in-range assignments only) have equal
    references; every variable must have at least one value, otherwise no
    assignment is in range *)
Theorem C15_canonical s u v :
  MInv s → mlens_pos s → mvalid s u → mvalid s v →
  (∀ I, minrange s I → MD s u I = MD s v I) → u = v.
Proof. exact (fun H1 H2 => mdd_canonical s H1 H2 u v). Qed.

(** [collect_garbage()]: with exact counters ([MCounts s L]: counter =
    number of stored edges to the node + ledger [L] of external references)
    it never fails, keeps the invariant and the counters, clears the
    computed table, leaves exactly the terminal and the nodes reachable from
    an externally referenced node, with their tuples, and the ids added to
    the free set are exactly the removed nodes. *)
Theorem C15_gc_exact s L r s' :
  MInv s → MCounts s L →
  m_collect_garbage s = (r, s') →
  r = Ok tt ∧ MInv s' ∧ MCounts s' L ∧ mite s' = ∅ ∧
  mvars s' = mvars s ∧ mmax s' = mmax s ∧
  (∀ n, n ∈ dom (msucc s') ↔ n = 1%positive ∨ mreach (msucc s) (fun k => 0 < L k) n) ∧
  (∀ n (t : mtuple), (msucc s' !! n : option mtuple) = Some t →
                     (msucc s !! n : option mtuple) = Some t) ∧
  mfree s' = mfree s ∪ (dom (msucc s) ∖ dom (msucc s')).
Proof. exact (m_gc_exact s L r s'). Qed.
