(** * Property C02, [extends]: old references keep their meaning when a state
      is extended.

    The theorems of C03/C04/C05 (and [C01_le], [C08_drop], ...) conclude
    [extends s s']: the operation only ADDED nodes and left the variable
    order alone.  This file says what that gives the holder of an old
    reference [u]: [u] is still a reference, at the same level, on the same
    stored triple, and denotes the same function — of the levels ([D]) and of
    the variable names ([denv]).  Proofs: [Proofs/Sem.v], [Proofs/C01proof.v]. *)
From DD Require Import Sem C01proof.

Theorem C02_extends_def s s' :
  extends s s' ↔ succ s ⊆ succ s' ∧ vars s = vars s' ∧ lvl2var s = lvl2var s'.
Proof. exact (conj (fun H => H) (fun H => H)). Qed.
Print Assumptions C02_extends_def.

(** a preorder *)
Theorem C02_extends_refl s : extends s s.
Proof. exact (extends_refl s). Qed.
Print Assumptions C02_extends_refl.
Theorem C02_extends_trans s1 s2 s3 : extends s1 s2 → extends s2 s3 → extends s1 s3.
Proof. exact (extends_trans s1 s2 s3). Qed.
Print Assumptions C02_extends_trans.

(** the same variables (hence the same number of levels), every stored node
    keeps its triple *)
Theorem C02_extends_nvars s s' : extends s s' → nvars s' = nvars s.
Proof. exact (extends_nvars s s'). Qed.
Print Assumptions C02_extends_nvars.
Theorem C02_extends_node s s' n t :
  extends s s' → succ s !! n = Some t → succ s' !! n = Some t.
Proof. exact (fun He Hn => lookup_weaken (succ s) (succ s') n t Hn (proj1 He)). Qed.
Print Assumptions C02_extends_node.

(** an old reference is still a reference, at the same level *)
Theorem C02_extends_valid s s' u : extends s s' → valid s u → valid s' u.
Proof. exact (valid_extends s s' u). Qed.
Print Assumptions C02_extends_valid.
Theorem C02_extends_lvl s s' u : extends s s' → valid s u → lvl_of s' u = lvl_of s u.
Proof. exact (lvl_extends s s' u). Qed.
Print Assumptions C02_extends_lvl.

(** ... and denotes the same function, of the levels and of the names *)
Theorem C02_extends_D s s' u a :
  extends s s' → Inv s → valid s u → D s' u a = D s u a.
Proof. exact (D_extends s s' u a). Qed.
Print Assumptions C02_extends_D.
Theorem C02_extends_denv s s' u ρ :
  extends s s' → Inv s → valid s u → denv s' u ρ = denv s u ρ.
Proof. exact (denv_extends s s' u ρ). Qed.
Print Assumptions C02_extends_denv.

(** all of it at once *)
Theorem C02_extends s s' u :
  extends s s' → Inv s → valid s u →
  valid s' u ∧ lvl_of s' u = lvl_of s u ∧
  (∀ a, D s' u a = D s u a) ∧ (∀ ρ, denv s' u ρ = denv s u ρ).
Proof.
  exact (fun He HI Hv =>
    conj (valid_extends s s' u He Hv) (conj (lvl_extends s s' u He Hv)
      (conj (fun a => D_extends s s' u a He HI Hv)
            (fun ρ => denv_extends s s' u ρ He HI Hv)))).
Qed.
Print Assumptions C02_extends.
