(** * Property C11 (last clause) — [dd._copy.copy_vars(source, target)]
      reproduces names and levels.  Only statements closed by [exact]; the
      proofs live in [Proofs/CopyVarsOk.v], the model in [Model/CopyVars.v]:

      [copy_vars src] is the loop [target.add_var(var, level)] over the
      source's [(name, level)] pairs [src] in the iteration order of its
      [vars] dict (names are unique: [NoDup src.*1]).  No invariant of the
      target is assumed: in the middle of the loop the target may have gaps in
      its levels (the source's dict order need not be the level order). *)
From DD Require Import CopyVars CopyVarsOk.

Theorem C11_copy_vars_is_the_loop src :
  copy_vars src = forM src (fun '(v, l) => add_var v (Some l) ;;; ret tt).
Proof. reflexivity. Qed.

(** When [copy_vars] returns, every variable of the source has the source's
    level in the target, and the names the source does not have keep theirs
    (a target that already declares some names at other levels, or other
    names at some of the levels, is never accepted silently). *)
Theorem C11_copy_vars_reproduces src s s' :
  NoDup src.*1 →
  copy_vars src s = (Ok tt, s') →
  (∀ v l, (v, l) ∈ src → vars s' !! v = Some l) ∧
  (∀ v, v ∉ src.*1 → vars s' !! v = vars s !! v).
Proof. exact (copy_vars_ok src s s'). Qed.

(** When it is refused, the target holds exactly the declarations made before
    the refused one (the state of the raise point), and the refused pair is
    one that [add_var] refuses there (C14: the name is declared at another
    level, or the level is taken). *)
Theorem C11_copy_vars_refused src s e s' :
  copy_vars src s = (Err e, s') →
  ∃ pre v l post s1, src = pre ++ (v, l) :: post ∧
    copy_vars pre s = (Ok tt, s1) ∧ s' = s1 ∧
    add_var v (Some l) s1 = (Err e, s1).
Proof. exact (copy_vars_refused src s e s'). Qed.

(** Non-vacuity.  Source order b:0 a:1 c:2 d:3 listed in the dict order
    a, b, c, d.  A fresh target reproduces it (passing through a gap: a:1 is
    declared first); a target that declares a:0, b:1 is refused at the first
    pair and left as it was. *)
Example C11_copy_vars_examples :
  let src := [(0, 1); (1, 0); (2, 2); (3, 3)] in
  (let r := copy_vars src init in
   fst r = Ok tt ∧ (vars (snd r) !! 0, vars (snd r) !! 1, vars (snd r) !! 2, vars (snd r) !! 3)
                   = (Some 1, Some 0, Some 2, Some 3)) ∧
  (let t := snd (copy_vars [(0, 0); (1, 1)] init) in
   let r := copy_vars src t in
   fst r = Err EValue ∧ vars (snd r) = vars t).
Proof. by vm_compute. Qed.
