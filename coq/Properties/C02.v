(** * Property C02 — canonical form: references are equal exactly when the
      functions are equal; the stored diagram is reduced and ordered. *)
From DD Require Import Sem.

(** [Inv] is the independent re-statement of "reduced, ordered, shared". *)
Theorem C02_reduced_ordered s n t :
  Inv s → succ s !! n = Some t → n ≠ 1%positive →
  t_lo t ≠ t_hi t ∧ (0 < t_hi t)%Z ∧
  t_lvl t < lvl_of s (t_lo t) ∧ t_lvl t < lvl_of s (t_hi t) ∧
  ∀ n', succ s !! n' = Some t → n' = n.
Proof.
  exact (fun HI Hn Hn1 =>
    let '(conj _ (conj _ (conj Hhp (conj _ (conj Hll (conj Hlh Hne)))))) :=
      inv_node s HI n t Hn Hn1 in
    conj Hne (conj Hhp (conj Hll (conj Hlh (fun n' Hn' =>
      eq_sym (Some_inj _ _ (eq_trans (eq_sym (proj1 (inv_pred s HI n t) Hn))
                                     (proj1 (inv_pred s HI n' t) Hn')))))))).
Qed.

(** Two references are equal iff they denote the same function of the
    variable names, under whatever order is current. *)
Theorem C02_canonical s u v :
  Inv s → valid s u → valid s v →
  ((∀ ρ, denv s u ρ = denv s v ρ) ↔ u = v).
Proof.
  exact (fun HI Hu Hv => conj (canonical_names s HI u v Hu Hv)
                              (fun E ρ => f_equal (fun x => denv s x ρ) E)).
Qed.

(** comparison with [true] decides validity, with [false] unsatisfiability *)
Theorem C02_valid_iff_true s u :
  Inv s → valid s u → ((∀ ρ, denv s u ρ = true) ↔ u = 1%Z).
Proof.
  exact (fun HI Hu => conj
    (fun H => canonical_names s HI u 1 Hu (valid_1 s HI)
                (fun ρ => eq_trans (H ρ) (eq_sym (D_1 s HI _))))
    (fun E ρ => eq_trans (f_equal (fun x => denv s x ρ) E) (D_1 s HI _))).
Qed.

Theorem C02_unsat_iff_false s u :
  Inv s → valid s u → ((∀ ρ, denv s u ρ = false) ↔ u = (-1)%Z).
Proof.
  exact (fun HI Hu => conj
    (fun H => canonical_names s HI u (-1) Hu (valid_m1 s HI)
                (fun ρ => eq_trans (H ρ) (eq_sym (D_m1 s HI _))))
    (fun E ρ => eq_trans (f_equal (fun x => denv s x ρ) E) (D_m1 s HI _))).
Qed.
