(** * Property C17 (continued) — the history theorem over a larger alphabet.

    [Properties/C17.v] covers the sub-alphabet [Total.allowed] of [Driver.op]
    on one manager.  Here:
    - [Driver.op] additionally with [find_or_add] (caller obligation: the
      level is above both children), [copy_bdd] from any manager of the world,
      [image]/[preimage] with any arguments, the harness setters
      [OSetRoots], [OTape], [OSetTrig], [OSetLastLen None], and the node
      limit [OSetMaxNodes] ([bdd.max_nodes = n], any value: with a full table
      a call that needs a new node fails with [ERuntime] ([RuntimeError]);
      that outcome is covered like any other failure, see
      [C17b_full_table]);
    - [Driver2.op2]: [count], [pick_iter], [pick], [descendants], [succ],
      [level_of_var], [var_at_level], [len], [__contains__], [to_nx],
      [_to_dot], the two pickle dumps (all read-only on the manager),
      [undeclare_vars], and [__del__];
    - worlds with several managers and the file store ([step2]).
    OUTSIDE (see [Total2], section 6): [OSwap], [OReorder], [OReorderPairs],
    [OConfigure (Some true)], [OSetLastLen (Some _)] (reordering), [OLoad]
    (not safe for an arbitrary file, [C17b_load_junk_refuted]) and
    [OLoadManager] (replaces the manager by the file).
    Only statements closed by [exact]; proofs live in [Proofs/Total2.v]. *)
From DD Require Import Total2.
Local Open Scope string_scope.

(** ** Vocabulary *)
Theorem C17b_keeps_unfold s s' :
  keeps s s' ↔ ∀ u, valid s u → valid s' u ∧ ∀ ρ, denv s' u ρ = denv s u ρ.
Proof. exact (conj (fun H => H) (fun H => H)). Qed.

Theorem C17b_allowed1_unfold o :
  allowed1 o = allowed o ||
  match o with
  | OFindOrAdd _ _ _ | OCopy _ _ | OImage _ _ _ _ _ _ _ | OPreimage _ _ _ _ _ _ _
  | OSetRoots _ | OTape _ | OSetTrig _ | OSetMaxNodes _ => true
  | OSetLastLen l => bool_decide (l = None)
  | _ => false
  end.
Proof. exact eq_refl. Qed.

Theorem C17b_allowed2_unfold o :
  allowed2 o = match o with
               | O1 o => allowed1 o
               | OLoad _ _ | OLoadManager _ => false
               | _ => true
               end.
Proof. exact eq_refl. Qed.

(** what the code does not check and the caller must ensure *)
Theorem C17b_caller_ok2_unfold s o :
  caller_ok2 s o =
  match o with
  | O1 o =>
      caller_ok s o ∧
      match o with
      | OFindOrAdd i v w =>
          i < nvars s → valid s v → valid s w → v ≠ w → i < lvl_of s v ∧ i < lvl_of s w
      | _ => True
      end
  | OShutdown => caller_ok s (ODecref 1)
  | _ => True
  end.
Proof. exact eq_refl. Qed.

Theorem C17b_readonly2_unfold o :
  readonly2 o =
  match o with
  | OCount _ _ | OPickIter _ _ | OPick _ _ | ODescendants _ | OSucc _
  | OLevelOfVar _ | OVarAtLevel _ | OLen | OContains _ | OToNx _ | OToDot _
  | ODump _ _ _ _ | ODumpManager _ _ => true
  | O1 (OSupport _) | O1 (OIsEssential _ _) | O1 (ORef _) => true
  | _ => false
  end.
Proof. exact eq_refl. Qed.

(** ** One call *)

(** every allowed call, failing or not, re-establishes [Good] *)
Theorem C17b_run_op2_good w o s r s' :
  allowed2 o = true → (is_new2 o = false → Good s ∧ caller_ok2 s o) →
  run_op2 w o s = (r, s') → Good s'.
Proof. exact (run_op2_good w o s r s'). Qed.

(** a failing call: the manager is [Good] (canonical, valid order, exact
    counts), every reference keeps its function by variable names, the
    exception is not the internal reordering signal, and a read-only operation
    leaves the state untouched *)
Theorem C17b_run_op2_err w o s e s' :
  allowed2 o = true → is_new2 o = false → Good s → caller_ok2 s o →
  run_op2 w o s = (Err e, s') →
  Good s' ∧ keeps s s' ∧ e ≠ ENeedsReordering ∧ (readonly2 o = true → s' = s).
Proof. exact (run_op2_err w o s e s'). Qed.

(** the read-only operations change nothing on success either *)
Theorem C17b_run_op2_readonly w o s r s' :
  readonly2 o = true → run_op2 w o s = (r, s') → s' = s.
Proof. exact (run_op2_readonly w o s r s'). Qed.

(** the extension of [Driver.op] alone *)
Theorem C17b_run_op1_good w o s r s' :
  allowed1 o = true → (is_new o = false → Good s ∧ caller_ok1 s o) →
  run_op w o s = (r, s') → Good s'.
Proof. exact (run_op1_good w o s r s'). Qed.
Theorem C17b_run_op1_err w o s e s' :
  allowed1 o = true → is_new o = false → Good s → caller_ok1 s o →
  run_op w o s = (Err e, s') →
  Good s' ∧ keeps s s' ∧ e ≠ ENeedsReordering.
Proof. exact (run_op1_err w o s e s'). Qed.

(** [undeclare_vars]: the levels are compacted, so the state does not
    [extend] the old one; it is [Good] and every reference keeps its function;
    a rejected call ([ValueError]) changes nothing *)
Theorem C17b_undeclare_good s vs r s' :
  Good s → undeclare_vars vs s = (r, s') →
  Good s' ∧ keeps s s' ∧ ((∃ rm, r = Ok rm) ∨ (r = Err EValue ∧ s' = s)).
Proof. exact (undeclare_good s vs r s'). Qed.

(** [__del__] *)
Theorem C17b_shutdown_good s r s' :
  Good s → caller_ok s (ODecref 1) → shutdown s = (r, s') →
  Good s' ∧ vars s' = vars s ∧ lvl2var s' = lvl2var s ∧ succ s' ⊆ succ s ∧ ∃ b, r = Ok b.
Proof. exact (shutdown_good s r s'). Qed.

(** ** Worlds and histories ([step2]) *)
Theorem C17b_WGood_unfold w :
  WGood w ↔ ∀ m s, w_mgrs w !! m = Some s → Good s.
Proof. exact (conj (fun H => H) (fun H => H)). Qed.

Theorem C17b_step2_good w m o :
  WGood w → allowed2 o = true →
  (is_new2 o = false → is_Some (w_mgrs w !! m)) →
  caller_ok2 (world2_get w m) o →
  WGood (fst (step2 w m o)).
Proof. exact (step2_good w m o). Qed.

(** only manager [m] changes; for a read-only operation its tables and
    counters do not *)
Theorem C17b_step2_spec w m o :
  allowed2 o = true →
  (is_new2 o = false → Good (world2_get w m) ∧ caller_ok2 (world2_get w m) o) →
  ∃ s'', w_mgrs (fst (step2 w m o)) = <[m := s'']> (w_mgrs w) ∧ Good s'' ∧
         (readonly2 o = true → same_tables (world2_get w m) s'' ∧
                               refc s'' = refc (world2_get w m)).
Proof. exact (step2_spec w m o). Qed.

Theorem C17b_step2_err w m o e :
  WGood w → allowed2 o = true → is_new2 o = false → is_Some (w_mgrs w !! m) →
  caller_ok2 (world2_get w m) o →
  snd (step2 w m o) = Err e →
  Good (world2_get (fst (step2 w m o)) m) ∧
  keeps (world2_get w m) (world2_get (fst (step2 w m o)) m) ∧
  e ≠ ENeedsReordering.
Proof. exact (step2_err w m o e). Qed.

(** histories of calls on any managers, in any interleaving *)
Theorem C17b_hist_ok2_unfold w m o ops :
  hist_ok2 w ((m, o) :: ops) ↔
  allowed2 o = true ∧ (is_new2 o = false → is_Some (w_mgrs w !! m)) ∧
  caller_ok2 (world2_get w m) o ∧ hist_ok2 (fst (step2 w m o)) ops.
Proof. exact (conj (fun H => H) (fun H => H)). Qed.

Theorem C17b_history2_good ops : ∀ w, WGood w → hist_ok2 w ops → WGood (run2 w ops).
Proof. exact (history2_good ops). Qed.

Theorem C17b_history2_from_empty ops :
  hist_ok2 world2_empty ops → WGood (run2 world2_empty ops).
Proof. exact (history2_from_empty ops). Qed.

(** ** [OLoad] with an arbitrary file is NOT safe, not even when it fails:
    loading the file [{v0: 1, v1: 1}] into the empty manager raises
    [ValueError] after [add_var(v0, 1)] has been accepted *)
Theorem C17b_load_junk_refuted :
  fst (load_pickle junk_file true init) = Err EValue ∧
  ¬ Inv (snd (load_pickle junk_file true init)).
Proof. exact load_junk_refuted. Qed.

(** ** Examples (by evaluation) *)

(** manager 0: v0 < v1 < v2, x = v0 (2), z = v2 (3), x & z (4), incref(4);
    manager 1: v0 < v2, copy of x & z from manager 0 (4), incref(4) *)
Definition h0 : list (nat * op2) :=
  [(0, O1 (ONew [(0, 0); (1, 1); (2, 2)])); (0, O1 (OVar 0)); (0, O1 (OVar 2));
   (0, O1 (OApply "and" 2 (Some 3%Z) None)); (0, O1 (OIncref 4));
   (1, O1 (ONew [(0, 0); (2, 1)])); (1, O1 (OCopy 0 4)); (1, O1 (OIncref 4))].

(** rejected calls of the new operations *)
Definition rej : list (nat * op2) :=
  [(0, OCount 99 None); (0, OCount 4 (Some 1)); (0, OPick 77 None); (0, OPickIter 0 None);
   (0, ODescendants [4%Z; 55%Z]); (0, OSucc 0); (0, OSucc 31);
   (0, OLevelOfVar 9); (0, OVarAtLevel 3);
   (0, OToNx [8%Z]); (0, OToDot (Some [8%Z]));
   (0, OUndeclare [0]);                (* a variable in use *)
   (0, OUndeclare [7]);                (* an unknown variable *)
   (0, ODump 0 (RList [9%Z]) [] []); (0, ODumpManager 0 [5]);
   (0, O1 (OFindOrAdd 7 2 3));         (* undeclared level *)
   (0, O1 (OFindOrAdd 0 2 99));        (* unknown node *)
   (0, O1 (OCopy 5 2));                (* no such manager *)
   (0, O1 (OCopy 1 99));               (* unknown node of manager 1 *)
   (0, O1 (OImage 99 2 true [] true [] false));
   (0, O1 (OPreimage 2 98 true [(0, 5)] true [] false));
   (1, O1 (OCopy 0 77)); (1, OUndeclare [2])].

(** successful calls afterwards *)
Definition after : list (nat * op2) :=
  [(0, OCount 4 None); (0, OPick 4 None);
   (0, OUndeclare [1]);                (* v1 is unused: v2 moves to level 1 *)
   (0, OLevelOfVar 2);
   (0, O1 (OFindOrAdd 1 (-1) 1));      (* the node of v2, now at level 1 *)
   (0, ODump 3 (RList [4%Z]) [1; 3; 4]%positive [0; 2]);
   (1, OShutdown)].

Definition wA : world2 := run2 world2_empty h0.

Lemma is_Some_bool {A} (o : option A) :
  (match o with Some _ => true | None => false end) = true → is_Some o.
Proof. destruct o; [by eexists|done]. Qed.

Ltac foa_obligation :=
  let Hi := fresh in let Hv := fresh in let Hw := fresh in
  intros Hi Hv Hw _;
  first [ vm_compute in Hi; lia
        | destruct Hv as [_ [? Hv]]; vm_compute in Hv; discriminate
        | destruct Hw as [_ [? Hw]]; vm_compute in Hw; discriminate
        | split; vm_compute; lia ].

Ltac hist_step :=
  split; [reflexivity|];
  split; [cbn [is_new2 is_new];
          lazymatch goal with
          | |- true = false → _ => intros [=]
          | |- _ => intros _; apply is_Some_bool; vm_compute; reflexivity
          end|];
  split; [first [exact I
               | split; [exact I|first [exact I | foa_obligation]]
               | intros _; vm_compute; lia]|].

Example C17b_history_hypotheses_hold : hist_ok2 world2_empty (h0 ++ rej ++ after).
Proof. cbn [h0 rej after app hist_ok2]. repeat hist_step. exact I. Qed.

Example C17b_history_good : WGood (run2 world2_empty (h0 ++ rej ++ after)).
Proof. exact (history2_from_empty _ C17b_history_hypotheses_hold). Qed.

Example C17b_rejected_outcomes :
  (fun '(m, o) => snd (step2 wA m o)) <$> rej =
  [Err EValue; Err EValue; Err EValue; Err EValue; Err EKey; Err EKey; Err EKey;
   Err EValue; Err EValue; Err EValue; Err EKey; Err EValue; Err EValue; Err EKey;
   Err EOracle; Err EValue; Err EValue; Err EKey; Err EKey; Err EKey; Err EType;
   Err EKey; Err EValue].
Proof. by vm_compute. Qed.

(** each rejected call leaves every table of its manager as it was *)
Example C17b_rejected_leave_digest :
  (fun '(m, o) => digest (world2_get (fst (step2 wA m o)) m)) <$> rej =
  (fun '(m, o) => digest (world2_get wA m)) <$> rej.
Proof. by vm_compute. Qed.

(** after all of them in sequence both managers are unchanged, and the
    subsequent calls succeed *)
Example C17b_then_success :
  digest (world2_get (run2 wA rej) 0) = digest (world2_get wA 0) ∧
  digest (world2_get (run2 wA rej) 1) = digest (world2_get wA 1) ∧
  (fix go w l := match l with
                 | [] => []
                 | (m, o) :: l => snd (step2 w m o) :: go (fst (step2 w m o)) l
                 end) (run2 wA rej) after =
  [Ok (VZ 1); Ok (VL [VL [VN 0; VB true]; VL [VN 2; VB true]]);
   Ok (VL [VN 1]); Ok (VN 1); Ok (VZ 3); Ok VU; Ok (VB false)].
Proof. by vm_compute. Qed.

(** [undeclare_vars(v1)] compacted the levels of manager 0 *)
Example C17b_after_undeclare :
  let s := world2_get (run2 wA (rej ++ after)) 0 in
  d_vars (digest s) = [(0, 0); (2, 1)] ∧ d_l2v (digest s) = [(0, 0); (1, 2)] ∧
  d_succ (digest s) =
    [(1%positive, (2, 0%Z, 0%Z)); (2%positive, (0, (-1)%Z, 1%Z));
     (4%positive, (0, (-1)%Z, 3%Z)); (3%positive, (1, (-1)%Z, 1%Z))].
Proof. by vm_compute. Qed.

(** the node limit: manager 0 of [wA] has the nodes 1..4; with
    [max_nodes = 5] the table is full: [var(v1)] and [x | z] need a new node
    and fail with [RuntimeError], [x & z] is found in the table; the failing
    calls leave every table as it was; without the limit [var(v1)] succeeds.
    The history satisfies the hypotheses of [C17b_history2_good]. *)
Definition full : list (nat * op2) :=
  [(0, O1 (OSetMaxNodes (Some 5%positive)));
   (0, O1 (OVar 1)); (0, O1 (OApply "or" 2 (Some 3%Z) None));
   (0, O1 (OApply "and" 2 (Some 3%Z) None));
   (0, O1 (OSetMaxNodes None)); (0, O1 (OVar 1))].

Example C17b_full_table :
  hist_ok2 world2_empty (h0 ++ full) ∧
  (fix go w l := match l with
                 | [] => []
                 | (m, o) :: l => snd (step2 w m o) :: go (fst (step2 w m o)) l
                 end) wA full =
  [Ok VU; Err ERuntime; Err ERuntime; Ok (VZ 4); Ok VU; Ok (VZ 5)] ∧
  digest (world2_get (run2 wA (take 4 full)) 0) =
  digest (world2_get (run2 wA (take 1 full)) 0).
Proof.
  split; [|by vm_compute]. cbn [h0 full app hist_ok2]. repeat hist_step. exact I.
Qed.

Example C17b_full_table_good : WGood (run2 world2_empty (h0 ++ full)).
Proof. exact (history2_from_empty _ (proj1 C17b_full_table)). Qed.

Print Assumptions C17b_run_op2_good.
Print Assumptions C17b_run_op2_err.
Print Assumptions C17b_step2_good.
Print Assumptions C17b_step2_err.
Print Assumptions C17b_history2_good.
Print Assumptions C17b_history2_from_empty.
Print Assumptions C17b_load_junk_refuted.
Print Assumptions C17b_history_good.
Print Assumptions C17b_then_success.
Print Assumptions C17b_full_table_good.
