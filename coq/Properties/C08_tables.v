(** * Property C08 — the wrapper shapes of dd/autoref.py, regenerated on every
      run: every method checks its operands for membership, calls the wrapped
      manager once and wraps an integer result into a new [Function];
      [Function.__init__] increments once and [__del__] decrements once and
      clears [node] (the translator fails on any other shape). *)
From DD Require Import AutorefTable.
Local Open Scope string_scope.

Theorem C08_autoref_wrappers : py_autoref_table = model_autoref_table.
Proof. exact autoref_table. Qed.
Print Assumptions C08_autoref_wrappers.

Theorem C08_function_lifecycle : py_function_lifecycle_ok = true.
Proof. exact function_lifecycle. Qed.
Print Assumptions C08_function_lifecycle.

Theorem C08_model_shapes :
  (∀ v, a_var v = (r <- lift (var v) ;; wrap r)) ∧
  (∀ hu q fa, a_quantify hu q fa =
     (u <- node_of hu ;; check_in u ;;; r <- lift (quantify u true q fa) ;; wrap r)) ∧
  (∀ hg hu hv, a_ite hg hu hv =
     (g <- node_of hg ;; check_in g ;;; u <- node_of hu ;; check_in u ;;;
      v <- node_of hv ;; check_in v ;;; r <- lift (ite g u v) ;; wrap r)) ∧
  (∀ v hlo hhi, a_find_or_add v hlo hhi =
     (l <- lift (level_of_var v) ;; lo <- node_of hlo ;; hi <- node_of hhi ;;
      r <- lift (find_or_add l lo hi) ;; wrap r)) ∧
  (∀ d, a_cube d = (r <- lift (cube d) ;; wrap r)) ∧
  (∀ hu n, a_count hu n = (u <- node_of hu ;; check_in u ;;; lift (count u n))) ∧
  (∀ hu, a_support hu = (u <- node_of hu ;; check_in u ;;; lift (support u))) ∧
  a_true = wrap 1 ∧ a_false = wrap (-1).
Proof. exact model_shapes. Qed.
Print Assumptions C08_model_shapes.
