(** * Property C09 (third part) — the statements of [Properties/C09.v] and
      [Properties/C09b.v] WITHOUT the premise on sifting (which is now a
      theorem: [Proofs/Sift9.v] [sifting_ok'_holds], restated as
      [C07b_sifting_ok'] in [Properties/C07b.v]); the same with an empty
      oracle tape (the literal code: Python iterates its own sets), where
      the decorated call RETURNS [Ok] with the postcondition; and a history
      theorem for dd.bdd with dynamic reordering enabled.  Only statements
      closed by [exact]; proofs live in [Proofs/Dynamic3.v].

      Vocabulary as in [Properties/C09.v]/[C09b.v]: [heldn L n] (the terminal
      or a node with an external reference in the ledger [L]), [keeps K s s']
      (same declared variables; every reference into [K] keeps validity and
      its function by name), [denv] (denotation by variable names), [qsemv],
      [overridev], [vsubstv], [renv], [let_sem], [let_ok], [oref],
      [op_spec]. *)
From DD Require Import Dynamic3 C01proof.
Local Open Scope string_scope.

(** ** 1. Premise-free statements.  The first disjunct is the model's
    iteration-order oracle error (a recorded order that is not a
    permutation); it disappears with an empty tape, see part 2. *)
Theorem C09c_decorator_correct {A} (func : MS A) Pre Post s L r s' :
  op_spec func (heldn L) Pre Post →
  Inv s → Counts s L → Pre s → rctx s = false →
  try_to_reorder func s = (r, s') →
  r = Err EOracle ∨
  ∃ a, r = Ok a ∧ Inv s' ∧ Counts s' L ∧ rctx s' = false ∧
       (last_len s = None → last_len s' = None) ∧
       (is_Some (last_len s) → is_Some (last_len s')) ∧
       keeps (heldn L) s s' ∧ Post s a s'.
Proof. exact (try_to_reorder_correct func Pre Post s L r s' sifting_ok'_holds). Qed.
Print Assumptions C09c_decorator_correct.

Theorem C09c_decorator_no_signal {A} (func : MS A) Pre Post s L r s' :
  op_spec func (heldn L) Pre Post →
  Inv s → Counts s L → Pre s → rctx s = false →
  try_to_reorder func s = (r, s') →
  r ≠ Err ENeedsReordering.
Proof. exact (try_to_reorder_no_signal func Pre Post s L r s' sifting_ok'_holds). Qed.
Print Assumptions C09c_decorator_no_signal.

Theorem C09c_ite_dynamic s L g u v r s' :
  Inv s → Counts s L → rctx s = false →
  valid s g → valid s u → valid s v →
  heldn L (absn g) → heldn L (absn u) → heldn L (absn v) →
  ite g u v s = (r, s') →
  r = Err EOracle ∨
  ∃ w, r = Ok w ∧ Inv s' ∧ Counts s' L ∧ rctx s' = false ∧
       (last_len s = None → last_len s' = None) ∧
       (is_Some (last_len s) → is_Some (last_len s')) ∧
       keeps (heldn L) s s' ∧
       valid s' w ∧
       ∀ ρ, denv s' w ρ = if denv s g ρ then denv s u ρ else denv s v ρ.
Proof. exact (ite_dynamic s L g u v r s' sifting_ok'_holds). Qed.
Print Assumptions C09c_ite_dynamic.

Theorem C09c_var_dynamic s L name r s' :
  Inv s → Counts s L → rctx s = false →
  is_Some (vars s !! name) →
  var name s = (r, s') →
  r = Err EOracle ∨
  ∃ w, r = Ok w ∧ Inv s' ∧ Counts s' L ∧ rctx s' = false ∧
       (last_len s = None → last_len s' = None) ∧
       (is_Some (last_len s) → is_Some (last_len s')) ∧
       keeps (heldn L) s s' ∧
       valid s' w ∧ ∀ ρ, denv s' w ρ = ρ name.
Proof. exact (var_dynamic s L name r s' sifting_ok'_holds). Qed.
Print Assumptions C09c_var_dynamic.

Theorem C09c_apply_dynamic s L op u v w r s' f :
  Inv s → Counts s L → rctx s = false →
  op ∈ py_vocab → conn_sem op = Some f →
  valid s u → ovalid s v → ovalid s w → arity_ok op v w = true →
  heldn L (absn u) → oref L v → oref L w →
  apply op u v w s = (r, s') →
  r = Err EOracle ∨
  ∃ x, r = Ok x ∧ Inv s' ∧ Counts s' L ∧ rctx s' = false ∧
       (last_len s = None → last_len s' = None) ∧
       (is_Some (last_len s) → is_Some (last_len s')) ∧
       keeps (heldn L) s s' ∧
       valid s' x ∧
       ∀ ρ, denv s' x ρ = f (denv s u ρ) (odenv s v ρ) (odenv s w ρ).
Proof. exact (apply_dynamic s L op u v w r s' f sifting_ok'_holds). Qed.
Print Assumptions C09c_apply_dynamic.

Theorem C09c_quantify_dynamic s L u qvars fa r s' :
  Inv s → Counts s L → rctx s = false →
  valid s u → heldn L (absn u) →
  Forall (fun k => is_Some (vars s !! k)) qvars →
  quantify u true qvars fa s = (r, s') →
  r = Err EOracle ∨
  ∃ x, r = Ok x ∧ Inv s' ∧ Counts s' L ∧ rctx s' = false ∧
       (last_len s = None → last_len s' = None) ∧
       (is_Some (last_len s) → is_Some (last_len s')) ∧
       keeps (heldn L) s s' ∧
       valid s' x ∧
       ∀ ρ, denv s' x ρ = true ↔ qsemv s fa (list_to_set qvars) u ρ.
Proof. exact (quantify_dynamic s L u qvars fa r s' sifting_ok'_holds). Qed.
Print Assumptions C09c_quantify_dynamic.

Theorem C09c_cofactor_dynamic s L u values r s' :
  Inv s → Counts s L → rctx s = false →
  valid s u → heldn L (absn u) →
  Forall (fun p => is_Some (vars s !! p.1)) values →
  cofactor u true values s = (r, s') →
  r = Err EOracle ∨
  ∃ x, r = Ok x ∧ Inv s' ∧ Counts s' L ∧ rctx s' = false ∧
       (last_len s = None → last_len s' = None) ∧
       (is_Some (last_len s) → is_Some (last_len s')) ∧
       keeps (heldn L) s s' ∧
       valid s' x ∧
       ∀ ρ, denv s' x ρ = denv s u (overridev (list_to_map (reverse values)) ρ).
Proof. exact (cofactor_dynamic s L u values r s' sifting_ok'_holds). Qed.
Print Assumptions C09c_cofactor_dynamic.

Theorem C09c_compose_dynamic s L f var_sub r s' :
  Inv s → Counts s L → rctx s = false →
  valid s f → heldn L (absn f) →
  Forall (fun p => is_Some (vars s !! p.1) ∧ valid s p.2 ∧ heldn L (absn p.2)) var_sub →
  compose f var_sub s = (r, s') →
  r = Err EOracle ∨
  ∃ x, r = Ok x ∧ Inv s' ∧ Counts s' L ∧ rctx s' = false ∧
       (last_len s = None → last_len s' = None) ∧
       (is_Some (last_len s) → is_Some (last_len s')) ∧
       keeps (heldn L) s s' ∧
       valid s' x ∧
       ∀ ρ, denv s' x ρ = denv s f (vsubstv s (list_to_map (reverse var_sub)) ρ).
Proof. exact (compose_dynamic s L f var_sub r s' sifting_ok'_holds). Qed.
Print Assumptions C09c_compose_dynamic.

Theorem C09c_compose1_dynamic s L f v g r s' :
  Inv s → Counts s L → rctx s = false →
  valid s f → heldn L (absn f) →
  is_Some (vars s !! v) → valid s g → heldn L (absn g) →
  compose f [(v, g)] s = (r, s') →
  r = Err EOracle ∨
  ∃ x, r = Ok x ∧ Inv s' ∧ Counts s' L ∧ rctx s' = false ∧
       (last_len s = None → last_len s' = None) ∧
       (is_Some (last_len s) → is_Some (last_len s')) ∧
       keeps (heldn L) s s' ∧
       valid s' x ∧
       ∀ ρ, denv s' x ρ =
            denv s f (fun y => if decide (y = v) then denv s g ρ else ρ y).
Proof. exact (compose1_dynamic s L f v g r s' sifting_ok'_holds). Qed.
Print Assumptions C09c_compose1_dynamic.

Theorem C09c_rename_dynamic s L u dvars r s' :
  Inv s → Counts s L → rctx s = false →
  valid s u → heldn L (absn u) →
  (∀ x y, (x, y) ∈ dvars → is_Some (vars s !! y)) →
  rename u dvars s = (r, s') →
  r = Err EOracle ∨
  ∃ x, r = Ok x ∧ Inv s' ∧ Counts s' L ∧ rctx s' = false ∧
       (last_len s = None → last_len s' = None) ∧
       (is_Some (last_len s) → is_Some (last_len s')) ∧
       keeps (heldn L) s s' ∧
       valid s' x ∧
       ∀ ρ, denv s' x ρ = denv s u (renv (list_to_map (reverse dvars)) ρ).
Proof. exact (rename_dynamic s L u dvars r s' sifting_ok'_holds). Qed.
Print Assumptions C09c_rename_dynamic.

Theorem C09c_cube_dynamic s L dvars r s' :
  Inv s → Counts s L → rctx s = false →
  Forall (fun p => is_Some (vars s !! p.1)) dvars →
  cube dvars s = (r, s') →
  r = Err EOracle ∨
  ∃ x, r = Ok x ∧ Inv s' ∧ Counts s' L ∧ rctx s' = false ∧
       (last_len s = None → last_len s' = None) ∧
       (is_Some (last_len s) → is_Some (last_len s')) ∧
       keeps (heldn L) s s' ∧
       valid s' x ∧
       ∀ ρ, denv s' x ρ = true ↔ ∀ v b, (v, b) ∈ dvars → ρ v = b.
Proof. exact (cube_dynamic s L dvars r s' sifting_ok'_holds). Qed.
Print Assumptions C09c_cube_dynamic.

Theorem C09c_apply_quant_dynamic s L op fa u v r s' :
  Inv s → Counts s L → rctx s = false →
  (fa = true ∧ op ∈ ["\A"; "forall"]) ∨ (fa = false ∧ op ∈ ["\E"; "exists"]) →
  valid s u → valid s v → heldn L (absn v) →
  apply op u (Some v) None s = (r, s') →
  r = Err EOracle ∨
  ∃ x Q, r = Ok x ∧ Inv s' ∧ Counts s' L ∧ rctx s' = false ∧
       (last_len s = None → last_len s' = None) ∧
       (is_Some (last_len s) → is_Some (last_len s')) ∧
       keeps (heldn L) s s' ∧
       valid s' x ∧
       (∀ y, y ∈ Q ↔ ∃ l, vars s !! y = Some l ∧ depends s u l) ∧
       ∀ ρ, denv s' x ρ = true ↔ qsemv s fa Q v ρ.
Proof. exact (apply_quant_dynamic s L op fa u v r s' sifting_ok'_holds). Qed.
Print Assumptions C09c_apply_quant_dynamic.

Theorem C09c_let_dynamic s L d u r s' :
  Inv s → Counts s L → rctx s = false →
  valid s u → heldn L (absn u) → let_ok L s d →
  let_ d u s = (r, s') →
  r = Err EOracle ∨
  ∃ x, r = Ok x ∧ Inv s' ∧ Counts s' L ∧ rctx s' = false ∧
       (last_len s = None → last_len s' = None) ∧
       (is_Some (last_len s) → is_Some (last_len s')) ∧
       keeps (heldn L) s s' ∧
       valid s' x ∧
       ∀ ρ, denv s' x ρ = denv s u (let_sem s d ρ).
Proof. exact (let_dynamic s L d u r s' sifting_ok'_holds). Qed.
Print Assumptions C09c_let_dynamic.

