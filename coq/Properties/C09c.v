(** * Property C09 (third part) — the statements of [Properties/C09.v] and
      [Properties/C09b.v] WITHOUT the premise on sifting (which is now a
      theorem: [Proofs/Sift9.v] [sifting_ok'_holds], restated as
      [C07b_sifting_ok'] in [Properties/C07b.v]); the same with an empty
      oracle tape (the literal code: Python iterates its own sets), where
      the decorated call RETURNS [Ok] with the postcondition; and a history
      theorem for dd.bdd with dynamic reordering enabled.  Only statements
      closed by [exact]; proofs live in [Proofs/Dynamic3.v].

      Vocabulary as in [Properties/C09.v]/[C09b.v]: [heldn L n] (the terminal
      or a node with an external reference in the ledger [L]), [keeps K s s']
      (same declared variables; every reference into [K] keeps validity and
      its function by name), [denv] (denotation by variable names), [qsemv],
      [overridev], [vsubstv], [renv], [let_sem], [let_ok], [oref],
      [op_spec]. *)
From DD Require Import Dynamic3 DynamicAny C01proof.
Local Open Scope string_scope.

(** ** 1. Premise-free statements.  The first disjunct is the model's
    iteration-order oracle error (a recorded order that is not a
    permutation); it disappears with an empty tape, see part 2. *)
Theorem C09c_decorator_correct {A} (func : MS A) Pre Post s L r s' :
  op_spec func (heldn L) Pre Post →
  Inv s → Counts s L → Pre s → rctx s = false → max_nodes s = None →
  try_to_reorder func s = (r, s') →
  r = Err EOracle ∨
  ∃ a, r = Ok a ∧ Inv s' ∧ Counts s' L ∧ rctx s' = false ∧
       (last_len s = None → last_len s' = None) ∧
       (is_Some (last_len s) → is_Some (last_len s')) ∧
       keeps (heldn L) s s' ∧ Post s a s'.
Proof. exact (try_to_reorder_correct func Pre Post s L r s' sifting_ok'_holds). Qed.
Print Assumptions C09c_decorator_correct.

Theorem C09c_decorator_no_signal {A} (func : MS A) Pre Post s L r s' :
  op_spec func (heldn L) Pre Post →
  Inv s → Counts s L → Pre s → rctx s = false →
  try_to_reorder func s = (r, s') →
  r ≠ Err ENeedsReordering.
Proof. exact (try_to_reorder_no_signal func Pre Post s L r s' sifting_ok'_holds). Qed.
Print Assumptions C09c_decorator_no_signal.

(** the decorator for EVERY value of [max_nodes]: with a bounded table the
    additional outcome is [Err ERuntime] (first attempt, sifting pass, or
    second attempt), and the manager is then as after a success: well formed,
    same ledger, context flag off, same reordering mode, same bound, every
    held reference keeps number and function *)
Theorem C09c_decorator_any {A} (func : MS A) Pre Post s L r s' :
  op_spec func (heldn L) Pre Post →
  Inv s → Counts s L → Pre s → rctx s = false →
  try_to_reorder func s = (r, s') →
  r = Err EOracle ∨
  (Inv s' ∧ Counts s' L ∧ rctx s' = false ∧
   (last_len s = None → last_len s' = None) ∧
   (is_Some (last_len s) → is_Some (last_len s')) ∧
   max_nodes s' = max_nodes s ∧
   keeps (heldn L) s s' ∧
   match r with
   | Ok a => Post s a s'
   | Err e => e = ERuntime ∧ is_Some (max_nodes s)
   end).
Proof. exact (try_to_reorder_any func Pre Post s L r s' sifting_ok'_holds). Qed.
Print Assumptions C09c_decorator_any.

Theorem C09c_ite_dynamic s L g u v r s' :
  Inv s → Counts s L → rctx s = false → max_nodes s = None →
  valid s g → valid s u → valid s v →
  heldn L (absn g) → heldn L (absn u) → heldn L (absn v) →
  ite g u v s = (r, s') →
  r = Err EOracle ∨
  ∃ w, r = Ok w ∧ Inv s' ∧ Counts s' L ∧ rctx s' = false ∧
       (last_len s = None → last_len s' = None) ∧
       (is_Some (last_len s) → is_Some (last_len s')) ∧
       keeps (heldn L) s s' ∧
       valid s' w ∧
       ∀ ρ, denv s' w ρ = if denv s g ρ then denv s u ρ else denv s v ρ.
Proof. exact (ite_dynamic s L g u v r s' sifting_ok'_holds). Qed.
Print Assumptions C09c_ite_dynamic.

Theorem C09c_var_dynamic s L name r s' :
  Inv s → Counts s L → rctx s = false → max_nodes s = None →
  is_Some (vars s !! name) →
  var name s = (r, s') →
  r = Err EOracle ∨
  ∃ w, r = Ok w ∧ Inv s' ∧ Counts s' L ∧ rctx s' = false ∧
       (last_len s = None → last_len s' = None) ∧
       (is_Some (last_len s) → is_Some (last_len s')) ∧
       keeps (heldn L) s s' ∧
       valid s' w ∧ ∀ ρ, denv s' w ρ = ρ name.
Proof. exact (var_dynamic s L name r s' sifting_ok'_holds). Qed.
Print Assumptions C09c_var_dynamic.

Theorem C09c_apply_dynamic s L op u v w r s' f :
  Inv s → Counts s L → rctx s = false → max_nodes s = None →
  op ∈ py_vocab → conn_sem op = Some f →
  valid s u → ovalid s v → ovalid s w → arity_ok op v w = true →
  heldn L (absn u) → oref L v → oref L w →
  apply op u v w s = (r, s') →
  r = Err EOracle ∨
  ∃ x, r = Ok x ∧ Inv s' ∧ Counts s' L ∧ rctx s' = false ∧
       (last_len s = None → last_len s' = None) ∧
       (is_Some (last_len s) → is_Some (last_len s')) ∧
       keeps (heldn L) s s' ∧
       valid s' x ∧
       ∀ ρ, denv s' x ρ = f (denv s u ρ) (odenv s v ρ) (odenv s w ρ).
Proof. exact (apply_dynamic s L op u v w r s' f sifting_ok'_holds). Qed.
Print Assumptions C09c_apply_dynamic.

Theorem C09c_quantify_dynamic s L u qvars fa r s' :
  Inv s → Counts s L → rctx s = false → max_nodes s = None →
  valid s u → heldn L (absn u) →
  Forall (fun k => is_Some (vars s !! k)) qvars →
  quantify u true qvars fa s = (r, s') →
  r = Err EOracle ∨
  ∃ x, r = Ok x ∧ Inv s' ∧ Counts s' L ∧ rctx s' = false ∧
       (last_len s = None → last_len s' = None) ∧
       (is_Some (last_len s) → is_Some (last_len s')) ∧
       keeps (heldn L) s s' ∧
       valid s' x ∧
       ∀ ρ, denv s' x ρ = true ↔ qsemv s fa (list_to_set qvars) u ρ.
Proof. exact (quantify_dynamic s L u qvars fa r s' sifting_ok'_holds). Qed.
Print Assumptions C09c_quantify_dynamic.

Theorem C09c_cofactor_dynamic s L u values r s' :
  Inv s → Counts s L → rctx s = false → max_nodes s = None →
  valid s u → heldn L (absn u) →
  Forall (fun p => is_Some (vars s !! p.1)) values →
  cofactor u true values s = (r, s') →
  r = Err EOracle ∨
  ∃ x, r = Ok x ∧ Inv s' ∧ Counts s' L ∧ rctx s' = false ∧
       (last_len s = None → last_len s' = None) ∧
       (is_Some (last_len s) → is_Some (last_len s')) ∧
       keeps (heldn L) s s' ∧
       valid s' x ∧
       ∀ ρ, denv s' x ρ = denv s u (overridev (list_to_map (reverse values)) ρ).
Proof. exact (cofactor_dynamic s L u values r s' sifting_ok'_holds). Qed.
Print Assumptions C09c_cofactor_dynamic.

Theorem C09c_compose_dynamic s L f var_sub r s' :
  Inv s → Counts s L → rctx s = false → max_nodes s = None →
  valid s f → heldn L (absn f) →
  Forall (fun p => is_Some (vars s !! p.1) ∧ valid s p.2 ∧ heldn L (absn p.2)) var_sub →
  compose f var_sub s = (r, s') →
  r = Err EOracle ∨
  ∃ x, r = Ok x ∧ Inv s' ∧ Counts s' L ∧ rctx s' = false ∧
       (last_len s = None → last_len s' = None) ∧
       (is_Some (last_len s) → is_Some (last_len s')) ∧
       keeps (heldn L) s s' ∧
       valid s' x ∧
       ∀ ρ, denv s' x ρ = denv s f (vsubstv s (list_to_map (reverse var_sub)) ρ).
Proof. exact (compose_dynamic s L f var_sub r s' sifting_ok'_holds). Qed.
Print Assumptions C09c_compose_dynamic.

Theorem C09c_compose1_dynamic s L f v g r s' :
  Inv s → Counts s L → rctx s = false → max_nodes s = None →
  valid s f → heldn L (absn f) →
  is_Some (vars s !! v) → valid s g → heldn L (absn g) →
  compose f [(v, g)] s = (r, s') →
  r = Err EOracle ∨
  ∃ x, r = Ok x ∧ Inv s' ∧ Counts s' L ∧ rctx s' = false ∧
       (last_len s = None → last_len s' = None) ∧
       (is_Some (last_len s) → is_Some (last_len s')) ∧
       keeps (heldn L) s s' ∧
       valid s' x ∧
       ∀ ρ, denv s' x ρ =
            denv s f (fun y => if decide (y = v) then denv s g ρ else ρ y).
Proof. exact (compose1_dynamic s L f v g r s' sifting_ok'_holds). Qed.
Print Assumptions C09c_compose1_dynamic.

Theorem C09c_rename_dynamic s L u dvars r s' :
  Inv s → Counts s L → rctx s = false → max_nodes s = None →
  valid s u → heldn L (absn u) →
  (∀ x y, (x, y) ∈ dvars → is_Some (vars s !! y)) →
  rename u dvars s = (r, s') →
  r = Err EOracle ∨
  ∃ x, r = Ok x ∧ Inv s' ∧ Counts s' L ∧ rctx s' = false ∧
       (last_len s = None → last_len s' = None) ∧
       (is_Some (last_len s) → is_Some (last_len s')) ∧
       keeps (heldn L) s s' ∧
       valid s' x ∧
       ∀ ρ, denv s' x ρ = denv s u (renv (list_to_map (reverse dvars)) ρ).
Proof. exact (rename_dynamic s L u dvars r s' sifting_ok'_holds). Qed.
Print Assumptions C09c_rename_dynamic.

Theorem C09c_cube_dynamic s L dvars r s' :
  Inv s → Counts s L → rctx s = false → max_nodes s = None →
  Forall (fun p => is_Some (vars s !! p.1)) dvars →
  cube dvars s = (r, s') →
  r = Err EOracle ∨
  ∃ x, r = Ok x ∧ Inv s' ∧ Counts s' L ∧ rctx s' = false ∧
       (last_len s = None → last_len s' = None) ∧
       (is_Some (last_len s) → is_Some (last_len s')) ∧
       keeps (heldn L) s s' ∧
       valid s' x ∧
       ∀ ρ, denv s' x ρ = true ↔ ∀ v b, (v, b) ∈ dvars → ρ v = b.
Proof. exact (cube_dynamic s L dvars r s' sifting_ok'_holds). Qed.
Print Assumptions C09c_cube_dynamic.

Theorem C09c_apply_quant_dynamic s L op fa u v r s' :
  Inv s → Counts s L → rctx s = false → max_nodes s = None →
  (fa = true ∧ op ∈ ["\A"; "forall"]) ∨ (fa = false ∧ op ∈ ["\E"; "exists"]) →
  valid s u → valid s v → heldn L (absn v) →
  apply op u (Some v) None s = (r, s') →
  r = Err EOracle ∨
  ∃ x Q, r = Ok x ∧ Inv s' ∧ Counts s' L ∧ rctx s' = false ∧
       (last_len s = None → last_len s' = None) ∧
       (is_Some (last_len s) → is_Some (last_len s')) ∧
       keeps (heldn L) s s' ∧
       valid s' x ∧
       (∀ y, y ∈ Q ↔ ∃ l, vars s !! y = Some l ∧ depends s u l) ∧
       ∀ ρ, denv s' x ρ = true ↔ qsemv s fa Q v ρ.
Proof. exact (apply_quant_dynamic s L op fa u v r s' sifting_ok'_holds). Qed.
Print Assumptions C09c_apply_quant_dynamic.

Theorem C09c_let_dynamic s L d u r s' :
  Inv s → Counts s L → rctx s = false → max_nodes s = None →
  valid s u → heldn L (absn u) → let_ok L s d →
  let_ d u s = (r, s') →
  r = Err EOracle ∨
  ∃ x, r = Ok x ∧ Inv s' ∧ Counts s' L ∧ rctx s' = false ∧
       (last_len s = None → last_len s' = None) ∧
       (is_Some (last_len s) → is_Some (last_len s')) ∧
       keeps (heldn L) s s' ∧
       valid s' x ∧
       ∀ ρ, denv s' x ρ = denv s u (let_sem s d ρ).
Proof. exact (let_dynamic s L d u r s' sifting_ok'_holds). Qed.
Print Assumptions C09c_let_dynamic.

(** ** 2. With an empty oracle tape ([tape s = []], the literal code: Python
    iterates its own sets; the driver resets the tape after every call) the
    decorated call RETURNS [Ok] with the postcondition, and the tape stays
    empty.  The wrapped operations never consume the tape ([nt], a syntactic
    pass: only [swap] and sifting read it). *)
Theorem C09c_nt_def {A} (m : MS A) :
  nt m ↔ ∀ s r s', tape s = [] → m s = (r, s') → tape s' = [] ∧ r ≠ Err EOracle.
Proof. exact (conj (fun H => H) (fun H => H)). Qed.

Theorem C09c_decorator_correct_notape {A} (func : MS A) Pre Post s L r s' :
  op_spec func (heldn L) Pre Post → nt func →
  Inv s → Counts s L → Pre s → rctx s = false → tape s = [] → max_nodes s = None →
  try_to_reorder func s = (r, s') →
  ∃ a, r = Ok a ∧ Inv s' ∧ Counts s' L ∧ rctx s' = false ∧ tape s' = [] ∧
       (last_len s = None → last_len s' = None) ∧
       (is_Some (last_len s) → is_Some (last_len s')) ∧
       keeps (heldn L) s s' ∧ Post s a s'.
Proof. exact (try_to_reorder_correct_notape func Pre Post s L r s'). Qed.
Print Assumptions C09c_decorator_correct_notape.

Theorem C09c_ite_notape s L g u v r s' :
  Inv s → Counts s L → rctx s = false → tape s = [] → max_nodes s = None →
  valid s g → valid s u → valid s v →
  heldn L (absn g) → heldn L (absn u) → heldn L (absn v) →
  ite g u v s = (r, s') →
  (∃ w, r = Ok w ∧ Inv s' ∧ Counts s' L ∧ rctx s' = false ∧
        (last_len s = None → last_len s' = None) ∧
        (is_Some (last_len s) → is_Some (last_len s')) ∧
        keeps (heldn L) s s' ∧ valid s' w ∧
        ∀ ρ, denv s' w ρ = if denv s g ρ then denv s u ρ else denv s v ρ) ∧
  tape s' = [].
Proof. exact (fun HI HC Hc Ht Hmx => ite_notape s L HI HC Hc Ht Hmx g u v r s'). Qed.
Print Assumptions C09c_ite_notape.

Theorem C09c_var_notape s L name r s' :
  Inv s → Counts s L → rctx s = false → tape s = [] → max_nodes s = None →
  is_Some (vars s !! name) →
  var name s = (r, s') →
  (∃ w, r = Ok w ∧ Inv s' ∧ Counts s' L ∧ rctx s' = false ∧
        (last_len s = None → last_len s' = None) ∧
        (is_Some (last_len s) → is_Some (last_len s')) ∧
        keeps (heldn L) s s' ∧ valid s' w ∧ ∀ ρ, denv s' w ρ = ρ name) ∧
  tape s' = [].
Proof. exact (fun HI HC Hc Ht Hmx => var_notape s L HI HC Hc Ht Hmx name r s'). Qed.
Print Assumptions C09c_var_notape.

Theorem C09c_apply_notape s L op u v w r s' f :
  Inv s → Counts s L → rctx s = false → tape s = [] → max_nodes s = None →
  op ∈ py_vocab → conn_sem op = Some f →
  valid s u → ovalid s v → ovalid s w → arity_ok op v w = true →
  heldn L (absn u) → oref L v → oref L w →
  apply op u v w s = (r, s') →
  (∃ x, r = Ok x ∧ Inv s' ∧ Counts s' L ∧ rctx s' = false ∧
        (last_len s = None → last_len s' = None) ∧
        (is_Some (last_len s) → is_Some (last_len s')) ∧
        keeps (heldn L) s s' ∧ valid s' x ∧
        ∀ ρ, denv s' x ρ = f (denv s u ρ) (odenv s v ρ) (odenv s w ρ)) ∧
  tape s' = [].
Proof. exact (fun HI HC Hc Ht Hmx => apply_notape s L HI HC Hc Ht Hmx op u v w r s' f). Qed.
Print Assumptions C09c_apply_notape.

Theorem C09c_apply_quant_notape s L op fa u v r s' :
  Inv s → Counts s L → rctx s = false → tape s = [] → max_nodes s = None →
  (fa = true ∧ op ∈ ["\A"; "forall"]) ∨ (fa = false ∧ op ∈ ["\E"; "exists"]) →
  valid s u → valid s v → heldn L (absn v) →
  apply op u (Some v) None s = (r, s') →
  (∃ x Q, r = Ok x ∧ Inv s' ∧ Counts s' L ∧ rctx s' = false ∧
        (last_len s = None → last_len s' = None) ∧
        (is_Some (last_len s) → is_Some (last_len s')) ∧
        keeps (heldn L) s s' ∧ valid s' x ∧
        (∀ y, y ∈ Q ↔ ∃ l, vars s !! y = Some l ∧ depends s u l) ∧
        ∀ ρ, denv s' x ρ = true ↔ qsemv s fa Q v ρ) ∧
  tape s' = [].
Proof. exact (fun HI HC Hc Ht Hmx => apply_quant_notape s L HI HC Hc Ht Hmx op fa u v r s'). Qed.
Print Assumptions C09c_apply_quant_notape.

Theorem C09c_quantify_notape s L u qvars fa r s' :
  Inv s → Counts s L → rctx s = false → tape s = [] → max_nodes s = None →
  valid s u → heldn L (absn u) →
  Forall (fun k => is_Some (vars s !! k)) qvars →
  quantify u true qvars fa s = (r, s') →
  (∃ x, r = Ok x ∧ Inv s' ∧ Counts s' L ∧ rctx s' = false ∧
        (last_len s = None → last_len s' = None) ∧
        (is_Some (last_len s) → is_Some (last_len s')) ∧
        keeps (heldn L) s s' ∧ valid s' x ∧
        ∀ ρ, denv s' x ρ = true ↔ qsemv s fa (list_to_set qvars) u ρ) ∧
  tape s' = [].
Proof. exact (fun HI HC Hc Ht Hmx => quantify_notape s L HI HC Hc Ht Hmx u qvars fa r s'). Qed.
Print Assumptions C09c_quantify_notape.

Theorem C09c_cofactor_notape s L u values r s' :
  Inv s → Counts s L → rctx s = false → tape s = [] → max_nodes s = None →
  valid s u → heldn L (absn u) →
  Forall (fun p => is_Some (vars s !! p.1)) values →
  cofactor u true values s = (r, s') →
  (∃ x, r = Ok x ∧ Inv s' ∧ Counts s' L ∧ rctx s' = false ∧
        (last_len s = None → last_len s' = None) ∧
        (is_Some (last_len s) → is_Some (last_len s')) ∧
        keeps (heldn L) s s' ∧ valid s' x ∧
        ∀ ρ, denv s' x ρ = denv s u (overridev (list_to_map (reverse values)) ρ)) ∧
  tape s' = [].
Proof. exact (fun HI HC Hc Ht Hmx => cofactor_notape s L HI HC Hc Ht Hmx u values r s'). Qed.
Print Assumptions C09c_cofactor_notape.

Theorem C09c_compose_notape s L f var_sub r s' :
  Inv s → Counts s L → rctx s = false → tape s = [] → max_nodes s = None →
  valid s f → heldn L (absn f) →
  Forall (fun p => is_Some (vars s !! p.1) ∧ valid s p.2 ∧ heldn L (absn p.2)) var_sub →
  compose f var_sub s = (r, s') →
  (∃ x, r = Ok x ∧ Inv s' ∧ Counts s' L ∧ rctx s' = false ∧
        (last_len s = None → last_len s' = None) ∧
        (is_Some (last_len s) → is_Some (last_len s')) ∧
        keeps (heldn L) s s' ∧ valid s' x ∧
        ∀ ρ, denv s' x ρ = denv s f (vsubstv s (list_to_map (reverse var_sub)) ρ)) ∧
  tape s' = [].
Proof. exact (fun HI HC Hc Ht Hmx => compose_notape s L HI HC Hc Ht Hmx f var_sub r s'). Qed.
Print Assumptions C09c_compose_notape.

Theorem C09c_rename_notape s L u dvars r s' :
  Inv s → Counts s L → rctx s = false → tape s = [] → max_nodes s = None →
  valid s u → heldn L (absn u) →
  (∀ x y, (x, y) ∈ dvars → is_Some (vars s !! y)) →
  rename u dvars s = (r, s') →
  (∃ x, r = Ok x ∧ Inv s' ∧ Counts s' L ∧ rctx s' = false ∧
        (last_len s = None → last_len s' = None) ∧
        (is_Some (last_len s) → is_Some (last_len s')) ∧
        keeps (heldn L) s s' ∧ valid s' x ∧
        ∀ ρ, denv s' x ρ = denv s u (renv (list_to_map (reverse dvars)) ρ)) ∧
  tape s' = [].
Proof. exact (fun HI HC Hc Ht Hmx => rename_notape s L HI HC Hc Ht Hmx u dvars r s'). Qed.
Print Assumptions C09c_rename_notape.

Theorem C09c_cube_notape s L dvars r s' :
  Inv s → Counts s L → rctx s = false → tape s = [] → max_nodes s = None →
  Forall (fun p => is_Some (vars s !! p.1)) dvars →
  cube dvars s = (r, s') →
  (∃ x, r = Ok x ∧ Inv s' ∧ Counts s' L ∧ rctx s' = false ∧
        (last_len s = None → last_len s' = None) ∧
        (is_Some (last_len s) → is_Some (last_len s')) ∧
        keeps (heldn L) s s' ∧ valid s' x ∧
        ∀ ρ, denv s' x ρ = true ↔ ∀ v b, (v, b) ∈ dvars → ρ v = b) ∧
  tape s' = [].
Proof. exact (fun HI HC Hc Ht Hmx => cube_notape s L HI HC Hc Ht Hmx dvars r s'). Qed.
Print Assumptions C09c_cube_notape.

Theorem C09c_let_notape s L d u r s' :
  Inv s → Counts s L → rctx s = false → tape s = [] → max_nodes s = None →
  valid s u → heldn L (absn u) → let_ok L s d →
  let_ d u s = (r, s') →
  (∃ x, r = Ok x ∧ Inv s' ∧ Counts s' L ∧ rctx s' = false ∧
        (last_len s = None → last_len s' = None) ∧
        (is_Some (last_len s) → is_Some (last_len s')) ∧
        keeps (heldn L) s s' ∧ valid s' x ∧
        ∀ ρ, denv s' x ρ = denv s u (let_sem s d ρ)) ∧
  tape s' = [].
Proof. exact (fun HI HC Hc Ht Hmx => let_notape s L HI HC Hc Ht Hmx d u r s'). Qed.
Print Assumptions C09c_let_notape.

(** ** 3. Histories of dd.bdd with dynamic reordering ENABLED.

    [GoodD]: well formed, at nesting depth 0, empty tape, reference counts
    exact for SOME ledger; no condition on [last_len] (reordering on or off)
    nor on the forced trigger [trig] (model-only: it makes the request fire
    at the k-th node creation).

    The theorems hold for ARBITRARY arguments and every outcome: for the
    invariants no operand needs to be held (an operand that is not held may
    be freed by the reordering and the call may then fail with [KeyError],
    [C09_unheld_operand_refuted] -- but the manager stays well formed); the
    only caller obligations are those of [Properties/C17.v]: [decref] only on
    a node the caller holds, and no new variable beyond the next free
    level.  What a SUCCESSFUL call returns is given, for held operands, by
    the theorems of parts 1 and 2. *)
Theorem C09c_GoodD_def s :
  GoodD s ↔ Inv s ∧ rctx s = false ∧ tape s = [] ∧ ∃ L, Counts s L.
Proof. exact (conj (fun H => H) (fun H => H)). Qed.

Theorem C09c_keepsR_def L s s' :
  keepsR L s s' ↔
  ∀ u, u ≠ 0%Z → heldn L (absn u) → valid s u →
       valid s' u ∧ ∀ ρ, denv s' u ρ = denv s u ρ.
Proof. exact (conj (fun H => H) (fun H => H)). Qed.

Theorem C09c_allowedD_def o :
  allowedD o =
  match o with
  | ONew levels => bool_decide (NoDup (levels.*1) ∧ NoDup (levels.*2))
  | OAddVar _ _ | ODeclare _ | OVar _ | OIte _ _ _ | OApply _ _ _ _
  | OIncref _ | ODecref _ | ORef _ | OGc _
  | OCofactor _ _ _ | OQuantify _ _ _ _ | OCompose _ _ | ORename _ _
  | OLet _ _ | OCube _ | OSupport _ | OIsEssential _ _
  | OConfigure _ | OSetLastLen _ | OSetTrig _ | OSetMaxNodes _ => true
  | _ => false
  end.
Proof. exact eq_refl. Qed.

Theorem C09c_caller_ok_def s o :
  caller_ok s o ↔
  match o with
  | OAddVar v (Some l) => vars s !! v = None → l ≤ nvars s
  | ODecref u => valid s u → indeg (succ s) (absn u) < default 0 (refc s !! absn u)
  | _ => True
  end.
Proof. exact (conj (fun H => H) (fun H => H)). Qed.

(** the decorator for ARBITRARY arguments and any outcome, for a wrapped
    operation that never raises the signal with requests off ([nrf]), never
    reads the tape ([nt]) and is safe inside a context ([csafe]).
    Also when the sifting pass started by the decorator is stopped by a full
    table the mode is kept: [_try_to_reorder] puts the threshold back when
    [reorder(bdd)] raises (dd 854af5f), the manager is well formed, counts
    exact, held references intact. *)
Theorem C09c_csafe_def {A} (m : MS A) :
  csafe m ↔ ∀ s r s', Inv s → no_reorder s → m s = (r, s') →
    Inv s' ∧ extends s s' ∧ frame s s' ∧ ∀ L, Counts s L → Counts s' L.
Proof. exact (conj (fun H => H) (fun H => H)). Qed.

Theorem C09c_decorator_total {A} (func : MS A) s L r s' :
  nrf func → nt func → csafe func →
  Inv s → Counts s L → rctx s = false → tape s = [] →
  try_to_reorder func s = (r, s') →
  Inv s' ∧ Counts s' L ∧ rctx s' = false ∧ tape s' = [] ∧
  (last_len s = None → last_len s' = None) ∧
  (is_Some (last_len s) → is_Some (last_len s')) ∧
  keeps (heldn L) s s' ∧
  r ≠ Err ENeedsReordering ∧ r ≠ Err EOracle.
Proof. exact (fun Hn Ht Hc => try_to_reorder_total func Hn Ht Hc s L r s'). Qed.
Print Assumptions C09c_decorator_total.

(** one call: any allowed operation, any arguments, any outcome *)
Theorem C09c_run_op_good w o s r s' :
  GoodD s → allowedD o = true → is_new o = false → caller_ok s o →
  run_op w o s = (r, s') →
  GoodD s' ∧ r ≠ Err ENeedsReordering ∧ r ≠ Err EOracle ∧
  ∀ L, Counts s L → keepsR L s s'.
Proof. exact (run_opD_good w o s r s'). Qed.
Print Assumptions C09c_run_op_good.

(** one step of the driver (which resets the tape), the constructor included *)
Theorem C09c_step_good w m o :
  allowedD o = true →
  (is_new o = false → GoodD (world_get w m) ∧ caller_ok (world_get w m) o) →
  GoodD (world_get (step w m o).1 m) ∧
  (step w m o).2 ≠ Err ENeedsReordering ∧ (step w m o).2 ≠ Err EOracle ∧
  (is_new o = false →
   ∀ L, Counts (world_get w m) L → keepsR L (world_get w m) (world_get (step w m o).1 m)).
Proof. exact (step_goodD w m o). Qed.
Print Assumptions C09c_step_good.

(** histories *)
Theorem C09c_hist_okD_def w m ops :
  hist_okD w m ops =
  match ops with
  | [] => True
  | o :: ops =>
      allowedD o = true ∧ is_new o = false ∧ caller_ok (world_get w m) o ∧
      hist_okD (fst (step w m o)) m ops
  end.
Proof. exact (match ops with [] => eq_refl | _ :: _ => eq_refl end). Qed.
Theorem C09c_outs_def w m ops :
  outs w m ops =
  match ops with
  | [] => []
  | o :: ops => snd (step w m o) :: outs (fst (step w m o)) m ops
  end.
Proof. exact (match ops with [] => eq_refl | _ :: _ => eq_refl end). Qed.

Theorem C09c_run_good ops w m :
  GoodD (world_get w m) → hist_okD w m ops →
  GoodD (world_get (Total.run w m ops) m) ∧
  Forall (fun r => r ≠ Err ENeedsReordering ∧ r ≠ Err EOracle) (outs w m ops).
Proof. exact (run_goodD ops w m). Qed.
Print Assumptions C09c_run_good.

Theorem C09c_run_good_from_new levels ops m :
  allowedD (ONew levels) = true →
  hist_okD (fst (step world_empty m (ONew levels))) m ops →
  GoodD (world_get (Total.run world_empty m (ONew levels :: ops)) m) ∧
  Forall (fun r => r ≠ Err ENeedsReordering ∧ r ≠ Err EOracle)
         (outs world_empty m (ONew levels :: ops)).
Proof. exact (run_goodD_from_new levels ops m). Qed.
Print Assumptions C09c_run_good_from_new.

(** ** Non-vacuity: a history in which dynamic reordering is switched on, the
    forced trigger fires inside [apply] and later inside [quantify],
    references are released and collected, and reordering is switched off
    again, satisfies the hypotheses; by running the model both triggers were
    consumed, the order changed, and every call returned normally. *)
Theorem C09c_histD_ops_def :
  histD_ops =
  [OVar 0; OIncref 2; OVar 1; OIncref 3; OVar 2; OIncref 4; OVar 3; OIncref 5;
   OApply "and" 2 (Some 4%Z) None; OIncref 6;
   OApply "and" 3 (Some 5%Z) None; OIncref 7;
   OApply "or" 6 (Some 7%Z) None; OIncref 10;
   OConfigure (Some true);
   OSetTrig (Some 1); OApply "and" 10 (Some 3%Z) None; OIncref 11;
   ODecref 10; OGc None;
   OSetTrig (Some 2); OQuantify 11 true [1] false;
   OConfigure (Some false); OCube [(0, true); (3, false)]].
Proof. exact eq_refl. Qed.

Example C09c_hist_ok :
  hist_okD (fst (step world_empty 0 (ONew [(0, 0); (1, 1); (2, 2); (3, 3)]))) 0 histD_ops.
Proof. exact histD_ok. Qed.

Example C09c_hist_example :
  let w := Total.run world_empty 0 (ONew [(0, 0); (1, 1); (2, 2); (3, 3)] :: histD_ops) in
  GoodD (world_get w 0) ∧
  Forall (fun r => r ≠ Err ENeedsReordering ∧ r ≠ Err EOracle)
         (outs world_empty 0 (ONew [(0, 0); (1, 1); (2, 2); (3, 3)] :: histD_ops)).
Proof. exact histD_example. Qed.
Print Assumptions C09c_hist_example.

Example C09c_hist_trace :
  let ops := ONew [(0, 0); (1, 1); (2, 2); (3, 3)] :: histD_ops in
  let w17 := Total.run world_empty 0 (take 18 ops) in
  let w22 := Total.run world_empty 0 (take 23 ops) in
  let w := Total.run world_empty 0 ops in
  trig (world_get w17 0) = None ∧ last_len (world_get w17 0) = Some 18 ∧
  vars (world_get w17 0) !! 2 = Some 0 ∧
  trig (world_get w22 0) = None ∧
  bool_decide (is_Some (last_len (world_get w22 0))) = true ∧
  last_len (world_get w 0) = None ∧
  forallb (fun r => match r with Ok _ => true | Err _ => false end)
          (outs world_empty 0 ops) = true.
Proof. exact histD_trace. Qed.
