(** * Property C14 — declaring and removing variables.

    "add_var/declare are idempotent for existing names, give each new name the
    next bottom level, refuse a conflicting name or level;
    vars/var_at_level/level_of_var describe one bijection between names and
    levels 0..n-1; undeclare_vars removes exactly the requested unused
    variables (all unused ones when none is named), refuses used or unknown
    ones, compacts levels keeping relative order; neither adding nor removing
    variables changes the function of any existing reference or canonicity."

    Only statements closed by [exact]; proofs live in [Proofs/Vars.v]
    (and [Proofs/Total.v]). *)
From DD Require Import Vars.

(** ** One bijection between names and levels [0..n-1] *)
Theorem C14_vars_bijection s : Inv s →
  (∀ v l, level_of_var v s = (Ok l, s) ↔ var_at_level l s = (Ok v, s)) ∧
  (∀ v l, level_of_var v s = (Ok l, s) ↔ vars s !! v = Some l) ∧
  (∀ l, l < nvars s ↔ ∃ v, var_at_level l s = (Ok v, s)) ∧
  (∀ v, vars s !! v = None ↔ level_of_var v s = (Err EValue, s)) ∧
  (∀ l, nvars s ≤ l ↔ var_at_level l s = (Err EValue, s)).
Proof. exact (vars_bijection s). Qed.

(** ** [add_var] *)

(** idempotent for an existing name (no level, or its own level) *)
Theorem C14_add_var_existing s var vl level :
  vars s !! var = Some vl → level = None ∨ level = Some vl →
  add_var var level s = (Ok vl, s).
Proof. exact (add_var_existing s var vl level). Qed.

(** an existing name with another level is refused *)
Theorem C14_add_var_conflict s var vl l :
  vars s !! var = Some vl → l ≠ vl →
  add_var var (Some l) s = (Err EValue, s).
Proof. exact (add_var_conflict s var vl l). Qed.

(** a new name (no level, or the next free level) becomes the bottom
    variable; canonicity, counts and every reference are preserved *)
Theorem C14_add_var_new s var level r s' :
  Inv s → vars s !! var = None → level = None ∨ level = Some (nvars s) →
  add_var var level s = (r, s') →
  r = Ok (nvars s) ∧ Inv s' ∧ nvars s' = S (nvars s) ∧
  vars s' = <[var := nvars s]> (vars s) ∧
  lvl2var s' = <[nvars s := var]> (lvl2var s) ∧
  succ s' = <[1%positive := tterm (S (nvars s))]> (succ s) ∧
  frame s s' ∧ (∀ L, Counts s L → Counts s' L) ∧
  ∀ u, valid s u → valid s' u ∧ (∀ a, D s' u a = D s u a) ∧
                   ∀ ρ, denv s' u ρ = denv s u ρ.
Proof. exact (add_var_new s var level r s'). Qed.

(** a new name at a level that is taken is refused *)
Theorem C14_add_var_taken s var l :
  Inv s → vars s !! var = None → l < nvars s →
  add_var var (Some l) s = (Err EValue, s).
Proof. exact (add_var_taken s var l). Qed.

(** FINDING.  A new name at an explicit level beyond the next free one is
    ACCEPTED and the levels are no longer [0..n-1]: the property "refuse a
    conflicting level / levels form 0..n-1" is violated by this call.
    (dd/bdd.py: [_next_free_level] only checks that the level is not taken.) *)
Theorem C14_add_var_gap_refuted s var l r s' :
  Inv s → vars s !! var = None → nvars s < l →
  add_var var (Some l) s = (r, s') → r = Ok l ∧ ¬ Inv s'.
Proof. exact (add_var_gap s var l r s'). Qed.

Example C14_add_var_gap_instance :
  fst (add_var 0 (Some 3) init) = Ok 3 ∧ ¬ Inv (snd (add_var 0 (Some 3) init)).
Proof. exact add_var_gap_refuted. Qed.

Example C14_add_var_gap_eval :
  let s' := snd (add_var 0 (Some 3) init) in
  (nvars s', lvl2var s' !! 0, lvl2var s' !! 3) = (1, None, Some 0).
Proof. exact add_var_gap_eval. Qed.

(** ** [declare] *)
Theorem C14_declare s vs r s' :
  Inv s → declare vs s = (r, s') →
  r = Ok tt ∧ Inv s' ∧ frame s s' ∧ (∀ L, Counts s L → Counts s' L) ∧
  (∀ u, valid s u → valid s' u ∧ ∀ ρ, denv s' u ρ = denv s u ρ) ∧
  vars s ⊆ vars s' ∧ (∀ v, v ∈ vs → is_Some (vars s' !! v)) ∧
  dom (vars s') = dom (vars s) ∪ list_to_set vs.
Proof. exact (declare_spec s vs r s'). Qed.

(** ** [undeclare_vars] *)

(** a variable may be removed when it is declared and no node sits at its
    level *)
Theorem C14_removable_unfold s v :
  removable s v ↔
  ∃ l, vars s !! v = Some l ∧ ¬ ∃ n t, succ s !! n = Some t ∧ t_lvl t = l.
Proof. exact (conj (fun H => H) (fun H => H)). Qed.

(** unknown or used variable: [ValueError], nothing changes.  Otherwise the
    removed set is the requested one (all unused variables when none is
    named), the manager is canonical, node numbers and counters are unchanged,
    the remaining variables keep their relative order, the computed table is
    cleared, every reference keeps its function. *)
Theorem C14_undeclare s vrs r s' :
  Inv s → undeclare_vars vrs s = (r, s') →
  (¬ Forall (removable s) vrs ∧ r = Err EValue ∧ s' = s) ∨
  (Forall (removable s) vrs ∧ ∃ rm : gset nat, r = Ok rm ∧
     (∀ v, v ∈ rm ↔ removable s v ∧ (vrs = [] ∨ v ∈ vrs)) ∧
     Inv s' ∧ frame s s' ∧ refc s' = refc s ∧ ite_tab s' = ∅ ∧
     dom (succ s') = dom (succ s) ∧
     (∀ k t, succ s !! k = Some t →
             ∃ l, succ s' !! k = Some (Triple l (t_lo t) (t_hi t))) ∧
     (∀ v, is_Some (vars s' !! v) ↔ is_Some (vars s !! v) ∧ v ∉ rm) ∧
     (∀ v w l1 l2 l1' l2', vars s !! v = Some l1 → vars s !! w = Some l2 →
        vars s' !! v = Some l1' → vars s' !! w = Some l2' → (l1 < l2 ↔ l1' < l2')) ∧
     (∀ L, Counts s L → Counts s' L) ∧
     ∀ u, valid s u → valid s' u ∧ ∀ ρ, denv s' u ρ = denv s u ρ).
Proof. exact (undeclare_spec s vrs r s'). Qed.

Corollary C14_undeclare_all_unused s r s' :
  Inv s → undeclare_vars [] s = (r, s') →
  ∃ rm : gset nat, r = Ok rm ∧ (∀ v, v ∈ rm ↔ removable s v) ∧ Inv s' ∧
    ∀ u, valid s u → valid s' u ∧ ∀ ρ, denv s' u ρ = denv s u ρ.
Proof. exact (undeclare_all_unused s r s'). Qed.

(** the levels after the removal are [0..n'-1] again: part of [Inv s'] *)
Theorem C14_levels_compact s : Inv s → ∀ l, l < nvars s ↔ is_Some (lvl2var s !! l).
Proof. exact (inv_lvls s). Qed.

(** ** Examples (by evaluation) *)
Local Open Scope string_scope.

(** v0 < v1 < v2, [x = var v0] (2), [z = var v2] (3), [x & z] (4) *)
Definition s3 : st :=
  snd (apply "and" 2 (Some 3%Z) None
         (snd (var 2 (snd (var 0 (snd (declare [0; 1; 2] init))))))).

Definition show (r : res (gset nat)) : res (list nat) :=
  match r with Ok X => Ok (elements X) | Err e => Err e end.

Example C14_hypotheses_satisfiable : Inv s3.
Proof.
  unfold s3.
  destruct (declare [0; 1; 2] init) as [r1 s1] eqn:E1.
  destruct (declare_total init _ _ _ Inv_init E1) as (_&HI1&(El1&_)&_).
  assert (Hl1 : last_len s1 = None) by (by rewrite El1).
  cbn [snd]. destruct (var 0 s1) as [r2 s2] eqn:E2. cbn [snd].
  destruct (tsafe_var 0 s1 r2 s2 HI1 Hl1 E2) as (HI2&_&(El2&_)&_).
  assert (Hl2 : last_len s2 = None) by (by rewrite El2).
  destruct (var 2 s2) as [r3 s3'] eqn:E3. cbn [snd].
  destruct (tsafe_var 2 s2 r3 s3' HI2 Hl2 E3) as (HI3&_&(El3&_)&_).
  assert (Hl3 : last_len s3' = None) by (by rewrite El3).
  destruct (apply "and" 2 (Some 3%Z) None s3') as [r4 s4] eqn:E4. cbn [snd].
  by destruct (tsafe_apply _ _ _ _ s3' r4 s4 HI3 Hl3 E4) as (HI4&_).
Qed.

Example C14_undeclare_examples :
  (* v1 is unused: removed, v2 moves up to level 1, the node of z follows *)
  show (fst (undeclare_vars [1] s3)) = Ok [1] ∧
  d_vars (digest (snd (undeclare_vars [1] s3))) = [(0, 0); (2, 1)] ∧
  d_l2v (digest (snd (undeclare_vars [1] s3))) = [(0, 0); (1, 2)] ∧
  d_succ (digest (snd (undeclare_vars [1] s3))) =
    [(1%positive, (2, 0%Z, 0%Z)); (2%positive, (0, (-1)%Z, 1%Z));
     (4%positive, (0, (-1)%Z, 3%Z)); (3%positive, (1, (-1)%Z, 1%Z))] ∧
  (* no name: all unused variables *)
  show (fst (undeclare_vars [] s3)) = Ok [1] ∧
  (* a used variable, an unknown variable: refused, nothing changes *)
  fst (undeclare_vars [0] s3) = Err EValue ∧
  digest (snd (undeclare_vars [0] s3)) = digest s3 ∧
  fst (undeclare_vars [5] s3) = Err EValue ∧
  digest (snd (undeclare_vars [5] s3)) = digest s3.
Proof. by vm_compute. Qed.

Example C14_add_var_examples :
  let s := snd (declare [0; 1] init) in
  fst (add_var 1 None s) = Ok 1 ∧ digest (snd (add_var 1 None s)) = digest s ∧
  fst (add_var 1 (Some 0) s) = Err EValue ∧
  fst (add_var 7 (Some 1) s) = Err EValue ∧
  fst (add_var 7 None s) = Ok 2 ∧ fst (add_var 7 (Some 2) s) = Ok 2 ∧
  d_vars (digest (snd (add_var 7 None s))) = [(0, 0); (1, 1); (7, 2)].
Proof. by vm_compute. Qed.
