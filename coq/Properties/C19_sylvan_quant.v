(** * Property C19, Sylvan quantifier symbols — isolated obligation.

    dd/sylvan.pyx `apply`, symbols [\A forall \E exists]: the C term must be
    a quantifier call with the same [forall] flag and the same operand roles
    as the row [TQuant fa OU OV] of dd.bdd.BDD.apply (variables from the
    FIRST operand u, the SECOND operand v is quantified), under the
    declared convention [sylvan_forall(BDD a, BDD qvars)] /
    [sylvan_exists(BDD a, BDD qvars)] (dd/c_sylvan.pxd).

    This file is kept apart from [C19.v] so that it can fail on its own:
    it does not compile while `apply` passes [(u.node, v.node)] to
    [sylvan_forall] / [sylvan_exists] (operands reversed with respect to
    dd/bdd.py and dd/cudd.pyx), and compiles unchanged once the call is
    [(v.node, u.node)]. *)
From DD Require Import Proofs.CApply.
Local Open Scope string_scope.

Theorem C19_quantifier_roles_sylvan :
  forallb (c_quant_agrees c_apply_sylvan) quantifier_ops = true.
Proof. vm_compute. reflexivity. Qed.
