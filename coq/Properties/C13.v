(** * Property C13 — [preimage] and [image] (the recursion [_image]) compute
      the relational product: under the documented preconditions
      [preimage(trans, target, rename, qvars)] denotes the quantification over
      [qvars] of [trans] conjoined with the renamed [target], and
      [image(trans, source, rename, qvars)] denotes the quantification of
      [trans] conjoined with [source], renamed afterwards, for both quantifier
      kinds.  [image] keeps this meaning whenever it returns a result, also
      for pairs that are not adjacent.  Only statements closed by [exact];
      proofs live in [Proofs/Image.v].

      Vocabulary ([Proofs/Image.v], [Proofs/Quantify.v], [Proofs/Subst.v]):
      - [agree_off q a b]: the assignments [a], [b] agree outside the levels [q];
      - [rd mo l]: level [l] read through the optional level renaming [mo];
        [oassign mo a]: the assignment [fun l => a (rd mo l)];
      - [pre_assign m a] = [post_assign m a] = [fun l => a (m.get(l, l))]:
        for [preimage] the assignment seen by the target (its level [l] stands
        for level [m l]); for [image] the assignment at which the quantified
        conjunction is read (its level [l] is renamed to [m l] in the result);
      - [pre_body s m u v b = D s u b && D s v (pre_assign m b)];
        [conj_body s u v b = D s u b && D s v b];
        [body s vm u v b = D s u b && D s v (oassign vm b)];
      - [qsemF fa q F a]: [∀ b, agree_off q a b → F b = true] when [fa],
        [∃ b, agree_off q a b ∧ F b = true] otherwise;
      - [occurs s u l]: level [l] labels a node reachable from [u];
      - [vm_ok s vm v]: reading [v] through [vm] is strictly monotone on the
        levels that occur in [v] and stays within the declared levels;
        [um_ok s um]: [um] maps declared levels to declared levels;
      - [icache_ok]: every memo entry [(u, v) ↦ w] is sound;
      - [image_pre]: the checks [image] performs before the recursion. *)
From DD Require Import Image.
Local Open Scope string_scope.

(** The definitions the statements below are read against. *)
Theorem C13_definitions :
  (∀ mo l, rd mo l = match mo with None => l | Some m => default l (m !! l) end) ∧
  (∀ mo a l, oassign mo a l = a (rd mo l)) ∧
  (∀ m a l, pre_assign m a l = a (default l (m !! l))) ∧
  (∀ m a l, post_assign m a l = a (default l (m !! l))) ∧
  (∀ s m u v b, pre_body s m u v b = D s u b && D s v (pre_assign m b)) ∧
  (∀ s u v b, conj_body s u v b = D s u b && D s v b) ∧
  (∀ s vm u v b, body s vm u v b = D s u b && D s v (oassign vm b)) ∧
  (∀ q F a, qsemF true q F a ↔ ∀ b, agree_off q a b → F b = true) ∧
  (∀ q F a, qsemF false q F a ↔ ∃ b, agree_off q a b ∧ F b = true) ∧
  (∀ s u a q fa, qsemF fa q (D s u) a ↔ qsem s fa q u a) ∧
  (∀ s um, um_ok s um ↔ ∀ l, l < nvars s → rd um l < nvars s) ∧
  (∀ s vm v, vm_ok s vm v ↔
     rd vm (nvars s) = nvars s ∧
     (∀ l, occurs s v l → rd vm l < nvars s) ∧
     (∀ l l', occurs s v l → occurs s v l' → l < l' → rd vm l < rd vm l')) ∧
  (∀ s um vm q fa cache, icache_ok s um vm q fa cache ↔
     ∀ u v w, cache !! (u, v) = Some w →
       valid s u ∧ valid s v ∧ valid s w ∧
       ∀ a, D s w a = true ↔ qsemF fa q (body s vm u v) (oassign um a)) ∧
  (∀ s trans source rnl q, image_pre s trans source rnl q ↔
     no_overlap (list_to_map (reverse rnl)) = true ∧
     (∃ b, fst (all_adjacent (dict_items rnl) s) = Ok b) ∧
     ∃ st_ ss, fst (support_levels trans s) = Ok st_ ∧
               fst (support_levels source s) = Ok ss ∧
               (st_ ∪ ss) ∖ q ∩ list_to_set rnl.*2 = (∅ : gset nat)).
Proof. by split_and!. Qed.

(** ** The recursion [_image] *)

(** For every manager satisfying the invariant, both optional renamings at
    once ([umap]: of the result, after the quantification; [vmap]: of the
    second operand, before the conjunction), any sound memo: the result read
    at [a] is the quantification of [u /\ v[vmap]] read at [a] pulled back
    through [umap].  The only exceptions are the reordering request (nested
    call, reordering enabled) and the full table ([RuntimeError], only when a
    bound [max_nodes] is set); the fuel is never exhausted. *)
Theorem C13_image_rec fuel s u v um vm q fa cache r s' :
  Inv s → valid s u → valid s v → no_reorder s →
  um_ok s um → vm_ok s vm v → icache_ok s um vm q fa cache →
  nvars s - (lvl_of s u `min` rd vm (lvl_of s v)) < fuel →
  image_rec fuel u v um vm q fa cache s = (r, s') →
  Inv s' ∧ extends s s' ∧ frame s s' ∧
  match r with
  | Ok (x, cache') => valid s' x ∧ icache_ok s' um vm q fa cache' ∧
        ∀ a, D s' x a = true ↔ qsemF fa q (body s vm u v) (oassign um a)
  | Err e => (e = ENeedsReordering ∧ is_Some (last_len s)) ∨
             (e = ERuntime ∧ is_Some (max_nodes s))
  end.
Proof. exact (image_rec_spec fuel s u v um vm q fa cache r s'). Qed.

Theorem C13_image_rec_initial s um vm q fa v :
  icache_ok s um vm q fa ∅ ∧ um_ok s None ∧ (Inv s → vm_ok s None v).
Proof. exact (conj (icache_ok_empty s um vm q fa) (conj (um_ok_None s) (vm_ok_None s v))). Qed.

(** (1) no renaming: the plain relational product *)
Theorem C13_image_rec_plain fuel s u v q fa r s' :
  Inv s → valid s u → valid s v → no_reorder s →
  nvars s - (lvl_of s u `min` lvl_of s v) < fuel →
  image_rec fuel u v None None q fa ∅ s = (r, s') →
  Inv s' ∧ extends s s' ∧ frame s s' ∧
  match r with
  | Ok (x, _) => valid s' x ∧
        ∀ a, D s' x a = true ↔ qsemF fa q (conj_body s u v) a
  | Err e => (e = ENeedsReordering ∧ is_Some (last_len s)) ∨
             (e = ERuntime ∧ is_Some (max_nodes s))
  end.
Proof. exact (image_rec_plain fuel s u v q fa r s'). Qed.

(** (2) [umap] only ([image]): no hypothesis on the shape of the renaming *)
Theorem C13_image_rec_umap fuel s u v m q fa cache r s' :
  Inv s → valid s u → valid s v → no_reorder s →
  um_ok s (Some m) → icache_ok s (Some m) None q fa cache →
  nvars s - (lvl_of s u `min` lvl_of s v) < fuel →
  image_rec fuel u v (Some m) None q fa cache s = (r, s') →
  Inv s' ∧ extends s s' ∧ frame s s' ∧
  match r with
  | Ok (x, cache') => valid s' x ∧ icache_ok s' (Some m) None q fa cache' ∧
        ∀ a, D s' x a = true ↔ qsemF fa q (conj_body s u v) (post_assign m a)
  | Err e => (e = ENeedsReordering ∧ is_Some (last_len s)) ∨
             (e = ERuntime ∧ is_Some (max_nodes s))
  end.
Proof. exact (image_rec_umap_spec fuel s u v m q fa cache r s'). Qed.

(** (3) [vmap] only ([preimage]): the monotone reading is required *)
Theorem C13_preimage_rec fuel s u v m q fa cache r s' :
  Inv s → valid s u → valid s v → no_reorder s →
  vm_ok s (Some m) v → icache_ok s None (Some m) q fa cache →
  nvars s - (lvl_of s u `min` default (lvl_of s v) (m !! lvl_of s v)) < fuel →
  image_rec fuel u v None (Some m) q fa cache s = (r, s') →
  Inv s' ∧ extends s s' ∧ frame s s' ∧
  match r with
  | Ok (x, cache') => valid s' x ∧ icache_ok s' None (Some m) q fa cache' ∧
        ∀ a, D s' x a = true ↔ qsemF fa q (pre_body s m u v) a
  | Err e => (e = ENeedsReordering ∧ is_Some (last_len s)) ∨
             (e = ERuntime ∧ is_Some (max_nodes s))
  end.
Proof. exact (preimage_rec_spec fuel s u v m q fa cache r s'). Qed.

(** The documented preconditions of [preimage] (declared levels, injective,
    every pair adjacent, no rename target in the support of the target set)
    give the monotone reading. *)
Theorem C13_adjacent_pairs_monotone s m v :
  Inv s →
  (∀ k k', m !! k = Some k' → k < nvars s ∧ k' < nvars s) →
  (∀ k1 k2 k', m !! k1 = Some k' → m !! k2 = Some k' → k1 = k2) →
  (∀ k k', m !! k = Some k' → k' = k + 1 ∨ k = k' + 1) →
  (∀ k k', m !! k = Some k' → ¬ occurs s v k') →
  vm_ok s (Some m) v.
Proof. exact (vm_ok_adjacent s m v). Qed.

(** ** [preimage], dynamic reordering disabled, no bound on the number of nodes *)

(** Under the documented preconditions the call succeeds (no assertion
    fires, the fuel suffices) and the result denotes
    [\Q qvars. trans /\ target[rename]] for both quantifier kinds; every old
    reference keeps its meaning ([extends]). *)
Theorem C13_preimage_correct s trans target byname rn qbyname qvars fa q rnl m r s' :
  Inv s → valid s trans → valid s target → last_len s = None →
  max_nodes s = None →
  fst (map_to_level_set qbyname qvars s) = Ok q →
  fst (map_rename byname rn s) = Ok rnl → m = list_to_map (reverse rnl) →
  no_overlap m = true →
  (∀ k k', m !! k = Some k' → k < nvars s ∧ k' < nvars s) →
  (∀ k1 k2 k', m !! k1 = Some k' → m !! k2 = Some k' → k1 = k2) →
  (∀ k k', m !! k = Some k' → k' = k + 1 ∨ k = k' + 1) →
  (∀ k k', m !! k = Some k' → ¬ occurs s target k') →
  preimage trans target byname rn qbyname qvars fa s = (r, s') →
  ∃ x, r = Ok x ∧ Inv s' ∧ extends s s' ∧ valid s' x ∧
    ∀ a, D s' x a = true ↔
      if fa then ∀ b, agree_off q a b → pre_body s m trans target b = true
      else ∃ b, agree_off q a b ∧ pre_body s m trans target b = true.
Proof.
  exact (preimage_spec s trans target byname rn qbyname qvars fa q rnl m r s').
Qed.

(** The same with the weaker hypothesis the recursion actually needs
    (adjacency is one way to obtain it). *)
Theorem C13_preimage_correct_monotone
    s trans target byname rn qbyname qvars fa q rnl m r s' :
  Inv s → valid s trans → valid s target → last_len s = None →
  max_nodes s = None →
  fst (map_to_level_set qbyname qvars s) = Ok q →
  fst (map_rename byname rn s) = Ok rnl → m = list_to_map (reverse rnl) →
  no_overlap m = true →
  (∀ k k', m !! k = Some k' → k < nvars s) →
  vm_ok s (Some m) target →
  preimage trans target byname rn qbyname qvars fa s = (r, s') →
  ∃ x, r = Ok x ∧ Inv s' ∧ extends s s' ∧ valid s' x ∧
    ∀ a, D s' x a = true ↔ qsemF fa q (pre_body s m trans target) a.
Proof.
  exact (preimage_spec_mono s trans target byname rn qbyname qvars fa q rnl m r s').
Qed.

(** A renaming given by variable names only mentions declared levels. *)
Theorem C13_rename_by_names_declared s rn rnl (m : gmap nat nat) :
  Inv s →
  fst (map_rename true rn s) = Ok rnl → m = list_to_map (reverse rnl) →
  ∀ k k', m !! k = Some k' → k < nvars s ∧ k' < nvars s.
Proof. exact (rename_names_declared s rn rnl m). Qed.

(** ** [image], dynamic reordering disabled, no bound on the number of nodes
       (the bound is only needed to conclude that the call succeeds) *)

(** Under the documented preconditions (keys disjoint from values, declared
    levels, every rename target quantified or absent from both operands; no
    adjacency): the call succeeds and the result read at [a] is
    [\Q qvars. trans /\ source] read at [a] pulled back through the
    renaming. *)
Theorem C13_image_correct s trans source byname rn qbyname qvars fa q rnl m r s' :
  Inv s → valid s trans → valid s source → last_len s = None →
  max_nodes s = None →
  fst (map_to_level_set qbyname qvars s) = Ok q →
  fst (map_rename byname rn s) = Ok rnl → m = list_to_map (reverse rnl) →
  no_overlap m = true →
  (∀ k k', (k, k') ∈ rnl → k < nvars s ∧ k' < nvars s) →
  (∀ k k', (k, k') ∈ rnl → occurs s trans k' ∨ occurs s source k' → k' ∈ q) →
  image trans source byname rn qbyname qvars fa s = (r, s') →
  ∃ x, r = Ok x ∧ Inv s' ∧ extends s s' ∧ valid s' x ∧
    ∀ a, D s' x a = true ↔
      if fa then ∀ b, agree_off q (post_assign m a) b → conj_body s trans source b = true
      else ∃ b, agree_off q (post_assign m a) b ∧ conj_body s trans source b = true.
Proof.
  exact (image_spec_doc s trans source byname rn qbyname qvars fa q rnl m r s').
Qed.

(** Whenever [image] returns a result its own checks have passed and the
    result has this meaning (adjacent pairs or not; the renaming need not
    even be injective). *)
Theorem C13_image_correct_whenever_it_returns
    s trans source byname rn qbyname qvars fa q rnl m x s' :
  Inv s → valid s trans → valid s source → last_len s = None →
  fst (map_to_level_set qbyname qvars s) = Ok q →
  fst (map_rename byname rn s) = Ok rnl → m = list_to_map (reverse rnl) →
  (∀ k k', m !! k = Some k' → k' < nvars s) →
  image trans source byname rn qbyname qvars fa s = (Ok x, s') →
  image_pre s trans source rnl q ∧
  Inv s' ∧ extends s s' ∧ valid s' x ∧
    ∀ a, D s' x a = true ↔
      if fa then ∀ b, agree_off q (post_assign m a) b → conj_body s trans source b = true
      else ∃ b, agree_off q (post_assign m a) b ∧ conj_body s trans source b = true.
Proof.
  exact (image_spec_run s trans source byname rn qbyname qvars fa q rnl m x s').
Qed.

(** ... and when the checks pass it returns a result. *)
Theorem C13_image_correct_checks s trans source byname rn qbyname qvars fa q rnl m r s' :
  Inv s → valid s trans → valid s source → last_len s = None →
  max_nodes s = None →
  fst (map_to_level_set qbyname qvars s) = Ok q →
  fst (map_rename byname rn s) = Ok rnl → m = list_to_map (reverse rnl) →
  (∀ k k', m !! k = Some k' → k' < nvars s) →
  image_pre s trans source rnl q →
  image trans source byname rn qbyname qvars fa s = (r, s') →
  ∃ x, r = Ok x ∧ Inv s' ∧ extends s s' ∧ valid s' x ∧
    ∀ a, D s' x a = true ↔
      if fa then ∀ b, agree_off q (post_assign m a) b → conj_body s trans source b = true
      else ∃ b, agree_off q (post_assign m a) b ∧ conj_body s trans source b = true.
Proof.
  exact (image_spec s trans source byname rn qbyname qvars fa q rnl m r s').
Qed.

(** [image] is its checks (which do not modify the manager) followed by the
    recursion; a failed check leaves the manager untouched. *)
Theorem C13_image_checks_then_recursion
    s trans source byname rn qbyname qvars fa q rnl r s' :
  fst (map_to_level_set qbyname qvars s) = Ok q →
  fst (map_rename byname rn s) = Ok rnl →
  image trans source byname rn qbyname qvars fa s = (r, s') →
  (image_pre s trans source rnl q ∧
   bind (image_rec (S (S (2 * nvars s))) trans source
           (Some (list_to_map (reverse rnl))) None q fa ∅)
        (fun r => ret (fst r)) s = (r, s')) ∨
  (¬ image_pre s trans source rnl q ∧ ∃ e, r = Err e ∧ s' = s).
Proof. exact (image_run s trans source byname rn qbyname qvars fa q rnl r s'). Qed.

(** The documented preconditions make the checks pass; [support] never fails
    on a valid reference and only returns levels that occur. *)
Theorem C13_image_checks_pass s trans source rnl q :
  Inv s → valid s trans → valid s source →
  no_overlap (list_to_map (reverse rnl)) = true →
  (∀ k k', (k, k') ∈ rnl → k < nvars s ∧ k' < nvars s) →
  (∀ k k', (k, k') ∈ rnl → occurs s trans k' ∨ occurs s source k' → k' ∈ q) →
  image_pre s trans source rnl q.
Proof. exact (image_pre_doc s trans source rnl q). Qed.

Theorem C13_support_levels_total s u :
  Inv s → valid s u →
  ∃ X, support_levels u s = (Ok X, s) ∧ ∀ l, l ∈ X → occurs s u l.
Proof. exact (support_levels_ok s u). Qed.

(** ** The hypotheses of [C13_preimage_correct] are necessary.
    [preimage] itself checks none of them beyond "keys disjoint from values"
    ([_assert_valid_rename]); in each case below it returns a reference that
    does not denote the relational product.  The manager [c13_st] has the
    levels 0..3 (x, x', y, y'), -7 = x xor y, -6 = x xor x', 15 = x /\ x',
    4 = y, 5 = y'. *)

(** a renaming that is not injective: {x -> x', y -> x'} *)
Theorem C13_preimage_injectivity_needed :
  let s := c13_st in
  let m : gmap nat nat := list_to_map (reverse [(0, 1); (2, 1)]) in
  let r := preimage 1 (-7) false [(0, 1); (2, 1)] false [1] false s in
  fst r = Ok 1%Z ∧ no_overlap m = true ∧
  match fst (support_levels (-7) s) with Ok X => Some (elements X) | Err _ => None end = Some [0; 2] ∧
  (∀ k k', m !! k = Some k' → k' = k + 1 ∨ k = k' + 1) ∧
  ¬ (∀ a, D (snd r) 1 a = true ↔
          ∃ b, agree_off {[1]} a b ∧ pre_body s m 1 (-7) b = true).
Proof. exact preimage_injectivity_needed. Qed.

(** a rename target in the support of the target set: {x -> x'}, x xor x' *)
Theorem C13_preimage_values_outside_target_needed :
  let s := c13_st in
  let m : gmap nat nat := list_to_map (reverse [(0, 1)]) in
  let r := preimage 1 (-6) false [(0, 1)] false [1] false s in
  fst r = Ok 1%Z ∧ no_overlap m = true ∧
  match fst (support_levels (-6) s) with Ok X => Some (elements X) | Err _ => None end = Some [0; 1] ∧
  (∀ k k', m !! k = Some k' → k' = k + 1 ∨ k = k' + 1) ∧
  (∀ k1 k2 k', m !! k1 = Some k' → m !! k2 = Some k' → k1 = k2) ∧
  ¬ (∀ a, D (snd r) 1 a = true ↔
          ∃ b, agree_off {[1]} a b ∧ pre_body s m 1 (-6) b = true).
Proof. exact preimage_values_outside_target_needed. Qed.

(** pairs that are not adjacent (and not monotone): {x -> y', x' -> y} *)
Theorem C13_preimage_adjacency_needed :
  let s := c13_st in
  let m : gmap nat nat := list_to_map (reverse [(0, 3); (1, 2)]) in
  let r := preimage (-4) 15 false [(0, 3); (1, 2)] false [2] false s in
  fst r = Ok 5%Z ∧ no_overlap m = true ∧
  match fst (support_levels 15 s) with Ok X => Some (elements X) | Err _ => None end = Some [0; 1] ∧
  (∀ k1 k2 k', m !! k1 = Some k' → m !! k2 = Some k' → k1 = k2) ∧
  ¬ (∀ a, D (snd r) 5 a = true ↔
          ∃ b, agree_off {[2]} a b ∧ pre_body s m (-4) 15 b = true).
Proof. exact preimage_adjacency_needed. Qed.

(** ** Non-vacuity, by running the model.  Four variables in the order
    x = v0, x' = v1, y = v2, y' = v3 (references 2, 3, 4, 5) and the two-bit
    counter  trans = (x' <-> ~x) /\ (y' <-> x xor y)  (reference -12),
    state 0 = ~x /\ ~y (-13), state 1 = x /\ ~y (-14), 15 = x \/ x'.
    - the hypotheses of the theorems are satisfiable;
    - [image(trans, state 0, {x' -> x, y' -> y}, {x, y})] = state 1;
    - [preimage(trans, state 1, {x -> x', y -> y'}, {x', y'})] = state 0;
    - universal quantification: \A x'. x \/ x' = x as a preimage, and
      (\A x. x \/ x')[x / x'] = x as an image;
    - [image] refuses a rename target that is neither quantified nor absent
      from the operands ([AssertionError]; the manager is then unchanged by
      [C13_image_checks_then_recursion]). *)
Example C13_nonvacuous :
  let run := fold_left (fun w o => fst (step w 0 o)) in
  let w := run [ONew [(0, 0); (1, 1); (2, 2); (3, 3)]; OVar 0; OVar 1; OVar 2; OVar 3;
                OApply "<->" 3 (Some (-2)%Z) None; OApply "xor" 2 (Some 4%Z) None;
                OApply "<->" 5 (Some (-7)%Z) None; OApply "and" (-6) (Some (-9)%Z) None;
                OApply "and" (-2) (Some (-4)%Z) None; OApply "and" 2 (Some (-4)%Z) None;
                OApply "or" 2 (Some 3%Z) None]
               world_empty in
  let s := world_get w 0 in
  mem (-12) s = true ∧ mem (-13) s = true ∧ mem (-14) s = true ∧ mem 15 s = true ∧
  last_len s = None ∧ max_nodes s = None ∧
  match fst (map_to_level_set true [0; 2] s) with
  | Ok q => Some (elements q) | Err _ => None end = Some [0; 2] ∧
  fst (map_rename true [(1, 0); (3, 2)] s) = Ok [(1, 0); (3, 2)] ∧
  no_overlap (list_to_map (reverse [(1, 0); (3, 2)])) = true ∧
  no_overlap (list_to_map (reverse [(0, 1); (2, 3)])) = true ∧
  match fst (support_levels (-14) s) with
  | Ok X => Some (elements X) | Err _ => None end = Some [0; 2] ∧
  snd (step w 0 (OImage (-12) (-13) true [(1, 0); (3, 2)] true [0; 2] false))
    = Ok (VZ (-14)) ∧
  snd (step w 0 (OPreimage (-12) (-14) true [(0, 1); (2, 3)] true [1; 3] false))
    = Ok (VZ (-13)) ∧
  snd (step w 0 (OPreimage 15 1 true [] true [1] true)) = Ok (VZ 2) ∧
  snd (step w 0 (OImage 15 1 true [(1, 0)] true [0] true)) = Ok (VZ 2) ∧
  snd (step w 0 (OImage (-12) (-13) true [(1, 0); (3, 2)] true [2] false))
    = Err EAssert.
Proof. by vm_compute. Qed.
